"""Sidecar contracts for the small helpers the other contracts modules use by contract (guards, getters, setters of plain cells, list views,
trivial constructors).  Each is a few lines of code; putting them under contract turns the corresponding call-site contracts from assumptions
into proved ones.  Properties: whatever property the callers carry (listed per unit)."""
import ast
from z3 import *
from pyvc.core import *
from contracts.graph_theory import *
from contracts.task import F, H, LinkPlugin, EMPTY
from pyvc.unit import Unit

OTK = OPT(T)          # a Task or None, as an argument that is tested for None


def check_not_none_unit():
    def build():
        fc = {'sig': {'obj': T, 'name': STR}, 'raises': {'RuntimeError': [('C15/refused-exactly-for-None', lambda c: c['obj'] == null)]},
              'ensures': [('C15/accepted-exactly-for-an-object', lambda c: c['obj'] != null)]}
        return Engine(F, '_check_not_none', {}, TASK_CLASSES, fc, plugins=[LinkPlugin('pre')]), []
    return Unit('_check_not_none', F, build, ['C01', 'C15', 'C16'])


def check_no_nones_unit():
    def build():
        j = Int('j')
        fc = {'sig': {'lst': LT, 'name': STR}, 'requires': [('a-list', lambda c: ln(c['lst']) >= 0)],
              'loops': {0: {'fingerprint': 'for v in lst', 'invariant': [('none-so-far', lambda c: And(c['_i0'] >= 0, ForAll([j], Implies(And(0 <= j, j < c['_i0']), at(c['lst'], j) != null))))]}},
              'raises': {'RuntimeError': [('C15/refused-only-if-the-list-holds-None', lambda c: Exists([j], And(0 <= j, j < ln(c['lst']), at(c['lst'], j) == null)))]},
              'ensures': [('C15/accepted-only-if-it-holds-no-None', lambda c: ForAll([j], Implies(And(0 <= j, j < ln(c['lst'])), at(c['lst'], j) != null)))]}
        return Engine(F, '_check_no_nones_in_list', {}, TASK_CLASSES, fc, plugins=[LinkPlugin('pre')]), LIST_AX
    return Unit('_check_no_nones_in_list', F, build, ['C01', 'C15', 'C16'])


NUMCELL = OPT(REAL)
NUM_CLASSES = {'Task': {'_Task__estimate': NUMCELL, '_Task__spent': NUMCELL}}


def number_cell_units():
    """Task.estimate / Task.spent: a cell holding None or a non-negative number"""
    out = []
    for nm in ('estimate', 'spent'):
        fld = '_Task__' + nm
        cell = lambda c, w='cur', fld=fld: Select(c.fld('Task', fld, w), c['self'])

        def build_set(nm=nm, fld=fld, cell=cell):
            neg = lambda c: And(NUMCELL.dt.is_some(c['value']), NUMCELL.dt.val(c['value']) < 0)
            fc = {'sig': {'self': REF('Task'), 'value': NUMCELL}, 'requires': [('nn', lambda c: c['self'] != REF('Task').null)],
                  'raises': {'RuntimeError': [('C07/refused-exactly-for-a-negative-number', neg), ('C15/cell-unchanged', lambda c: cell(c) == cell(c, 'pre'))]},
                  'ensures': [('C07/stores-the-value', lambda c: cell(c) == c['value']), ('C07/accepted-only-if-not-negative', lambda c: Not(neg(c))),
                              ('C16/cells-of-other-tasks-unchanged', lambda c: ForAll([x], Implies(x != c['self'], Select(c.fld('Task', fld), x) == Select(c.fld('Task', fld, 'pre'), x))))]}
            return Engine(F, f'Task.{nm}.setter', {}, NUM_CLASSES, fc), []

        def build_get(nm=nm, cell=cell):
            fc = {'sig': {'self': REF('Task')}, 'requires': [('nn', lambda c: c['self'] != REF('Task').null)], 'ensures': [('C07/returns-the-cell', lambda c: c.eng.coerce(c.result, NUMCELL) == cell(c))]}
            return Engine(F, f'Task.{nm}.getter', {}, NUM_CLASSES, fc), []
        out += [Unit(f'Task.{nm}.setter', F, build_set, ['C07', 'C04']), Unit(f'Task.{nm}.getter', F, build_get, ['C07', 'C04'])]
    return out


def wbs_root_unit():
    def build():
        fc = {'sig': {'self': W}, 'requires': [('nn', lambda c: c['self'] != W.null)], 'ensures': [('C11/returns-the-hidden-root', lambda c: c.result.e == H(c.eng, c.st).root[c['self']])]}
        return Engine('pjplan/wbs.py', 'WBS._root', {}, TASK_CLASSES, fc), []
    return Unit('WBS._root', 'pjplan/wbs.py', build, ['C11', 'C05'])


VIEW = REF('_ImmutableTaskList')
VIEW_CLASSES = dict(TASK_CLASSES); VIEW_CLASSES['_ImmutableTaskList'] = {'_list': LR}


def view_units():
    """the read-only list view: constructor and length delegate to the wrapped list object"""
    lst = lambda c, w='cur': Select(c.fld('_ImmutableTaskList', '_list', w), c['self'])

    def build_init():
        fc = {'sig': {'self': VIEW, '_list': LR}, 'requires': [('nn', lambda c: c['self'] != VIEW.null)],
              'ensures': [('C18/wraps-the-list-object-handed-in-without-copying', lambda c: lst(c) == c['_list']),
                          ('C16/the-list-itself-is-untouched', lambda c: H(c.eng, c.st).elems == H(c.eng, c.pre).elems)]}
        return Engine(F, '_ImmutableTaskList.__init__', {}, VIEW_CLASSES, fc, plugins=[LinkPlugin('pre')]), []

    def build_len():
        fc = {'sig': {'self': VIEW}, 'requires': [('nn', lambda c: And(c['self'] != VIEW.null, lst(c) != LR.null))],
              'ensures': [('C18/length-of-the-wrapped-list', lambda c: c.result.e == ln(Select(c.fld('PyList', 'elems'), lst(c))))]}
        return Engine(F, '_ImmutableTaskList.__len__', {}, VIEW_CLASSES, fc, plugins=[LinkPlugin('pre')]), LIST_AX
    return [Unit('_ImmutableTaskList.__init__', F, build_init, ['C18', 'C05']), Unit('_ImmutableTaskList.__len__', F, build_len, ['C18'])]


UNITS = [check_not_none_unit(), check_no_nones_unit()] + number_cell_units() + [wbs_root_unit()] + view_units()


# ------------------------------------------------------------------------------------------------ _to_list
LOT = LIST(OTK)          # a list whose elements are tasks or None
ARGd = Datatype('SetterArg'); ARGd.declare('none'); ARGd.declare('one', ('task', T.z)); ARGd.declare('many', ('items', LOT.z)); ARGd.declare('other'); ARGd = ARGd.create()
ARG = S('SetterArg', ARGd)


def to_list_unit():
    """_to_list(val): None -> [], a Task -> [task], a list / tuple / set / iterable -> its elements that are not None, in order; anything else is refused"""
    def build():
        j = Int('j'); k = Int('k')

        class ArgPlugin(LinkPlugin):
            def __init__(self_): LinkPlugin.__init__(self_, 'pre')

            def cmp(self_, eng, st, kind, l_, r, line):
                if l_.s == ARG and r.s == NONE and kind in ('Is', 'IsNot'): return ARGd.is_none(l_.e) if kind == 'Is' else Not(ARGd.is_none(l_.e))
                if l_.s.name == 'TypeOf' and r.s.name == 'TypeName' and kind in ('Is', 'IsNot'):
                    tst = {'Task': ARGd.is_one(l_.e), 'list': ARGd.is_many(l_.e), 'tuple': BoolVal(False), 'set': BoolVal(False)}[r.e]          # tuples / sets / other iterables are folded into `many` (they are iterated the same way)
                    return tst if kind == 'Is' else Not(tst)
                if l_.s == OTK and r.s == NONE and kind in ('Is', 'IsNot'): return OTK.dt.is_none(l_.e) if kind == 'Is' else OTK.dt.is_some(l_.e)
                return LinkPlugin.cmp(self_, eng, st, kind, l_, r, line)

            def ev_Name(self_, eng, e, st):
                if e.id in ('Task', 'list', 'tuple', 'set', 'Iterable') and e.id not in st.env: return [(st, V(e.id, S('TypeName', None)))]
                return NotImplemented

            def call(self_, eng, e, st):
                f = e.func
                if isinstance(f, ast.Name) and f.id == 'type' and len(e.args) == 1:
                    s, v = eng.ev1(e.args[0], st); return [(s, V(v.e, S('TypeOf', None)))]
                if isinstance(f, ast.Name) and f.id == 'isinstance':
                    s, v = eng.ev1(e.args[0], st); return [(s, V(ARGd.is_many(v.e), BOOL))]
                return LinkPlugin.call(self_, eng, e, st)

            def ev_List(self_, eng, e, st):
                if not e.elts: return [(st, V(empty, LT))]
                s, v = eng.ev1(e.elts[0], st)
                Lv = fresh('one', LT); s.assume(And(ln(Lv) == 1, at(Lv, 0) == ARGd.task(v.e), nodup(Lv), ForAll([x], mem(Lv, x) == (x == ARGd.task(v.e)), patterns=[mem(Lv, x)])))
                return [(s, V(Lv, LT))]

            def ev_ListComp(self_, eng, e, st):
                if ast.unparse(e).replace(' ', '') != '[tfortinvaliftisnotNone]': raise Unsupported('comprehension form')
                src = ARGd.items(st.env['val'].e); R = fresh('kept', LT); pos = Function(f'pos!{fresh_id()}', IntSort(), IntSort())
                # assumed semantics of a comprehension with a condition (T1): the elements that satisfy it, in order
                st.assume(And(ln(R) >= 0,
                              ForAll([j], Implies(And(0 <= j, j < ln(R)), And(0 <= pos(j), pos(j) < LOT.len(src), LOT.at(src, pos(j)) == OTK.dt.some(at(R, j)))), patterns=[at(R, j)]),
                              ForAll([j, k], Implies(And(0 <= j, j < k, k < ln(R)), pos(j) < pos(k)), patterns=[MultiPattern(pos(j), pos(k))]),
                              ForAll([k], Implies(And(0 <= k, k < LOT.len(src), OTK.dt.is_some(LOT.at(src, k))), Exists([j], And(0 <= j, j < ln(R), pos(j) == k))), patterns=[LOT.at(src, k)])))
                st.ghost['kept'] = (R, src)
                return [(st, V(R, LT))]
        fc = {'sig': {'val': ARG}, 'requires': [('a-task-argument-is-a-task', lambda c: Implies(ARGd.is_one(c['val']), ARGd.task(c['val']) != null)),
                                                ('list-elements-are-tasks-or-None', lambda c: Implies(ARGd.is_many(c['val']), LOT.len(ARGd.items(c['val'])) >= 0))],
              'raises': {'RuntimeError': [('C15/refused-only-for-a-value-that-is-neither-None-nor-a-task-nor-iterable', lambda c: ARGd.is_other(c['val']))]},
              'ensures': [('C16/None-gives-the-empty-list', lambda c: Implies(ARGd.is_none(c['val']), ln(c.result.e) == 0)),
                          ('C16/a-task-gives-the-one-element-list', lambda c: Implies(ARGd.is_one(c['val']), And(ln(c.result.e) == 1, at(c.result.e, 0) == ARGd.task(c['val'])))),
                          ('C16/a-list-gives-its-elements-that-are-not-None', lambda c: Implies(ARGd.is_many(c['val']), And(
                              ForAll([j], Implies(And(0 <= j, j < ln(c.result.e)), Exists([k], And(0 <= k, k < LOT.len(ARGd.items(c['val'])), LOT.at(ARGd.items(c['val']), k) == OTK.dt.some(at(c.result.e, j)))))),
                              ForAll([k], Implies(And(0 <= k, k < LOT.len(ARGd.items(c['val'])), OTK.dt.is_some(LOT.at(ARGd.items(c['val']), k))),
                                                  Exists([j], And(0 <= j, j < ln(c.result.e), OTK.dt.some(at(c.result.e, j)) == LOT.at(ARGd.items(c['val']), k)))))))),
                          ('C15/accepted-only-for-None-a-task-or-an-iterable', lambda c: Not(ARGd.is_other(c['val'])))]}
        return Engine(F, '_to_list', {}, TASK_CLASSES, fc, plugins=[ArgPlugin()]), LIST_AX
    return Unit('_to_list', F, build, ['C01', 'C15', 'C16'])


UNITS.append(to_list_unit())
