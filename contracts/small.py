"""Sidecar contracts for the small helpers the other contracts modules use by contract (guards, getters, setters of plain cells, list views,
trivial constructors).  Each is a few lines of code; putting them under contract turns the corresponding call-site contracts from assumptions
into proved ones.  Properties: whatever property the callers carry (listed per unit)."""
import ast
from z3 import *
from pyvc.core import *
from contracts.graph_theory import *
from contracts.task import F, H, LinkPlugin, EMPTY
from pyvc.unit import Unit

OTK = OPT(T)          # a Task or None, as an argument that is tested for None


def check_not_none_unit():
    def build():
        fc = {'sig': {'obj': T, 'name': STR}, 'raises': {'RuntimeError': [('C15/refused-exactly-for-None', lambda c: c['obj'] == null)]},
              'ensures': [('C15/accepted-exactly-for-an-object', lambda c: c['obj'] != null)]}
        return Engine(F, '_check_not_none', {}, TASK_CLASSES, fc, plugins=[LinkPlugin('pre')]), []
    return Unit('_check_not_none', F, build, ['C01', 'C15', 'C16'])


def check_no_nones_unit():
    def build():
        j = Int('j')
        fc = {'sig': {'lst': LT, 'name': STR}, 'requires': [('a-list', lambda c: ln(c['lst']) >= 0)],
              'loops': {0: {'fingerprint': 'for v in lst', 'invariant': [('none-so-far', lambda c: And(c['_i0'] >= 0, ForAll([j], Implies(And(0 <= j, j < c['_i0']), at(c['lst'], j) != null))))]}},
              'raises': {'RuntimeError': [('C15/refused-only-if-the-list-holds-None', lambda c: Exists([j], And(0 <= j, j < ln(c['lst']), at(c['lst'], j) == null)))]},
              'ensures': [('C15/accepted-only-if-it-holds-no-None', lambda c: ForAll([j], Implies(And(0 <= j, j < ln(c['lst'])), at(c['lst'], j) != null)))]}
        return Engine(F, '_check_no_nones_in_list', {}, TASK_CLASSES, fc, plugins=[LinkPlugin('pre')]), LIST_AX
    return Unit('_check_no_nones_in_list', F, build, ['C01', 'C15', 'C16'])


NUMCELL = OPT(REAL)
NUM_CLASSES = {'Task': {'_Task__estimate': NUMCELL, '_Task__spent': NUMCELL}}


def number_cell_units():
    """Task.estimate / Task.spent: a cell holding None or a non-negative number"""
    out = []
    for nm in ('estimate', 'spent'):
        fld = '_Task__' + nm
        cell = lambda c, w='cur', fld=fld: Select(c.fld('Task', fld, w), c['self'])

        def build_set(nm=nm, fld=fld, cell=cell):
            neg = lambda c: And(NUMCELL.dt.is_some(c['value']), NUMCELL.dt.val(c['value']) < 0)
            fc = {'sig': {'self': REF('Task'), 'value': NUMCELL}, 'requires': [('nn', lambda c: c['self'] != REF('Task').null)],
                  'raises': {'RuntimeError': [('C07/refused-exactly-for-a-negative-number', neg), ('C15/cell-unchanged', lambda c: cell(c) == cell(c, 'pre'))]},
                  'ensures': [('C07/stores-the-value', lambda c: cell(c) == c['value']), ('C07/accepted-only-if-not-negative', lambda c: Not(neg(c))),
                              ('C16/cells-of-other-tasks-unchanged', lambda c: ForAll([x], Implies(x != c['self'], Select(c.fld('Task', fld), x) == Select(c.fld('Task', fld, 'pre'), x))))]}
            return Engine(F, f'Task.{nm}.setter', {}, NUM_CLASSES, fc), []

        def build_get(nm=nm, cell=cell):
            fc = {'sig': {'self': REF('Task')}, 'requires': [('nn', lambda c: c['self'] != REF('Task').null)], 'ensures': [('C07/returns-the-cell', lambda c: c.eng.coerce(c.result, NUMCELL) == cell(c))]}
            return Engine(F, f'Task.{nm}.getter', {}, NUM_CLASSES, fc), []
        out += [Unit(f'Task.{nm}.setter', F, build_set, ['C07', 'C04']), Unit(f'Task.{nm}.getter', F, build_get, ['C07', 'C04'])]
    return out


def wbs_root_unit():
    def build():
        fc = {'sig': {'self': W}, 'requires': [('nn', lambda c: c['self'] != W.null)], 'ensures': [('C11/returns-the-hidden-root', lambda c: c.result.e == H(c.eng, c.st).root[c['self']])]}
        return Engine('pjplan/wbs.py', 'WBS._root', {}, TASK_CLASSES, fc), []
    return Unit('WBS._root', 'pjplan/wbs.py', build, ['C11', 'C05'])


VIEW = REF('_ImmutableTaskList')
VIEW_CLASSES = dict(TASK_CLASSES); VIEW_CLASSES['_ImmutableTaskList'] = {'_list': LR}


def view_units():
    """the read-only list view: constructor and length delegate to the wrapped list object"""
    lst = lambda c, w='cur': Select(c.fld('_ImmutableTaskList', '_list', w), c['self'])

    def build_init():
        fc = {'sig': {'self': VIEW, '_list': LR}, 'requires': [('nn', lambda c: c['self'] != VIEW.null)],
              'ensures': [('C18/wraps-the-list-object-handed-in-without-copying', lambda c: lst(c) == c['_list']),
                          ('C16/the-list-itself-is-untouched', lambda c: H(c.eng, c.st).elems == H(c.eng, c.pre).elems)]}
        return Engine(F, '_ImmutableTaskList.__init__', {}, VIEW_CLASSES, fc, plugins=[LinkPlugin('pre')]), []

    def build_len():
        fc = {'sig': {'self': VIEW}, 'requires': [('nn', lambda c: And(c['self'] != VIEW.null, lst(c) != LR.null))],
              'ensures': [('C18/length-of-the-wrapped-list', lambda c: c.result.e == ln(Select(c.fld('PyList', 'elems'), lst(c))))]}
        return Engine(F, '_ImmutableTaskList.__len__', {}, VIEW_CLASSES, fc, plugins=[LinkPlugin('pre')]), LIST_AX
    return [Unit('_ImmutableTaskList.__init__', F, build_init, ['C18', 'C05']), Unit('_ImmutableTaskList.__len__', F, build_len, ['C18'])]


UNITS = [check_not_none_unit(), check_no_nones_unit()] + number_cell_units() + [wbs_root_unit()] + view_units()
