"""Sidecar contracts for the recursive scheduling passes ForwardScheduler.__forward_pass / BackwardScheduler.__backward_pass
(C02 C04 C06 C07 C08 C09 C14).  The recursion is checked against the function's OWN contract at every call site (the
contract is the induction hypothesis); termination by a rank that decreases along every waits-for edge.

Local contract shape: pre = SchedInv(calculated) + ledger invariant + structure facts; post = task in calculated',
calculated grows, SchedInv', ledger', frame (tasks already calculated and tasks of rank >= rank(task) keep fields,
membership and work) + the property clauses for the task scheduled by this call.
"""
import ast
from z3 import *
from pyvc.core import *
from contracts.sched_theory import *
from pyvc.unit import Unit

F = 'pjplan/schedule.py'
T = TK; null = T.null
IL = REF('IntList'); LI = LIST(INT); LT = LIST(T); LTm = LIST(TIME); OT = OPT(TIME); OR_ = OPT(REAL)
mem_i = Function('mem_i', LI.z, IntSort(), BoolSort()); app_i = Function('app_i', LI.z, IntSort(), LI.z)
rank = Function('rank', T.z, IntSort())
preL = Function('preL', T.z, LT.z); sucL = Function('sucL', T.z, LT.z); chL = Function('chL', T.z, LT.z); ancL = Function('ancL', T.z, LT.z)
clean = Function('clean', T.z, BoolSort())      # no user-fixed dates on the leaves of this subtree (A-19/A-21 live outside)
ln, at = LT.len, LT.at
li = Const('li', LI.z); n_, m_ = Ints('n_ m_'); t_, u_ = Consts('t_ u_', T.z); j_, q_ = Ints('j_ q_')

AX = LEDGER_AX + [
    ForAll([li, n_, m_], mem_i(app_i(li, n_), m_) == Or(mem_i(li, m_), m_ == n_), patterns=[mem_i(app_i(li, n_), m_)]),
    ForAll([t_], And(ln(preL(t_)) >= 0, ln(sucL(t_)) >= 0, ln(chL(t_)) >= 0, ln(ancL(t_)) >= 0)),
]
def all_ax(): return AX + SUM_AX

CLASSES = dict(SCHED_CLASSES)
CLASSES.update({
    'Task': {'start': OT, 'end': OT, 'min_start': OT, 'milestone': BOOL, '_Task__estimate': OR_, '_Task__spent': OR_, '_Task__id': INT, 'resource': STR},
    'IntList': {'ielems': LI},
})
FIELDS = ['Task.start', 'Task.end', 'Task._Task__estimate', 'Task._Task__spent']
HV = FIELDS + ['_ResourceUsage.rows', 'IntList.ielems']


class H:
    """view of one heap version"""

    def __init__(self, eng, st):
        g = lambda c, f: eng.field(st, c, f)
        self.start, self.end, self.est, self.spent = g('Task', 'start'), g('Task', 'end'), g('Task', '_Task__estimate'), g('Task', '_Task__spent')
        self.ms, self.minst, self.tid = g('Task', 'milestone'), g('Task', 'min_start'), g('Task', '_Task__id')
        self.rowsf, self.ielems = g('_ResourceUsage', 'rows'), g('IntList', 'ielems')


def some(o): return OT.dt.is_some(o)
def tv(o): return OT.dt.val(o)
def rsome(o): return OR_.dt.is_some(o)
def rv(o): return OR_.dt.val(o)


def done(h, t):
    return And(some(h.start[t]), some(h.end[t]), rsome(h.est[t]), rsome(h.spent[t]))


def SchedInv(h, cl, L, fwd=True, B0=None):
    d = _SchedInv(h, cl, L)
    if not fwd:
        a_ = Int('a_'); z = Int('zz')
        # C09 as a global invariant of the calculated tasks: a clean calculated task ends before the project end and before the start of
        # every successor of itself and of its ancestors, all of which are calculated (hence final) already
        def lk(t, s): return And(mem_i(cl, h.tid[s]), Implies(some(h.start[s]), tv(h.end[t]) <= tv(h.start[s])))
        d['C09/links-bounded'] = ForAll([t_], Implies(And(t_ != null, mem_i(cl, h.tid[t_]), clean(t_)),
            And(tv(h.end[t_]) <= B0,
                ForAll([z], Implies(And(0 <= z, z < ln(sucL(t_))), lk(t_, at(sucL(t_), z))), patterns=[at(sucL(t_), z)]),
                ForAll([a_, z], Implies(And(0 <= a_, a_ < ln(ancL(t_)), 0 <= z, z < ln(sucL(at(ancL(t_), a_)))), lk(t_, at(sucL(at(ancL(t_), a_)), z))), patterns=[at(sucL(at(ancL(t_), a_)), z)]))),
            patterns=[mem_i(cl, h.tid[t_])])
    else:
        a_ = Int('a_'); z = Int('zz')
        # C02 as a global invariant of the calculated tasks: a calculated leaf without user-fixed dates starts no earlier than the day on which each
        # predecessor of itself and of its ancestors ends (all of them calculated, hence final), and not before the project start
        def lk(t, p): return And(mem_i(cl, h.tid[p]), Implies(some(h.end[p]), dayidx(tv(h.start[t])) >= dayidx(tv(h.end[p]))))
        d['C02/starts-bounded'] = ForAll([t_], Implies(And(t_ != null, mem_i(cl, h.tid[t_]), clean(t_), ln(chL(t_)) == 0, Not(h.ms[t_])),
            And(dayidx(tv(h.start[t_])) >= dayidx(B0),
                ForAll([z], Implies(And(0 <= z, z < ln(preL(t_))), lk(t_, at(preL(t_), z))), patterns=[at(preL(t_), z)]),
                ForAll([a_, z], Implies(And(0 <= a_, a_ < ln(ancL(t_)), 0 <= z, z < ln(preL(at(ancL(t_), a_)))), lk(t_, at(preL(at(ancL(t_), a_)), z))), patterns=[at(preL(at(ancL(t_), a_)), z)]))),
            patterns=[mem_i(cl, h.tid[t_])])
    return d


def _SchedInv(h, cl, L):
    return {
        'done': ForAll([t_], Implies(And(t_ != null, mem_i(cl, h.tid[t_])), done(h, t_)), patterns=[mem_i(cl, h.tid[t_])]),
        'nonneg-est': ForAll([t_], Implies(And(t_ != null, rsome(h.est[t_])), rv(h.est[t_]) >= 0), patterns=[h.est[t_]]),
        'nonneg-spent': ForAll([t_], Implies(And(t_ != null, rsome(h.spent[t_])), rv(h.spent[t_]) >= 0), patterns=[h.spent[t_]]),
        'C07/ordered': ForAll([t_], Implies(And(t_ != null, mem_i(cl, h.tid[t_]), clean(t_)), tv(h.start[t_]) <= tv(h.end[t_])), patterns=[mem_i(cl, h.tid[t_])]),
        'C04/no-work-before-scheduling': ForAll([t_], Implies(And(t_ != null, Not(mem_i(cl, h.tid[t_]))), work(L, t_) == 0), patterns=[work(L, t_)]),
    }


def Struct(h, fwd):
    """facts about the (unchanging) task graph that the pass relies on; established by calc (_check_loops: the waits-for graph -
    own links, links of ancestors, children - is acyclic, K1 gives the rank) and by the graph invariants (C01/C05)"""
    linkL = preL if fwd else sucL
    return {
        'links-non-null-and-lower-rank': ForAll([t_, j_], Implies(And(t_ != null, 0 <= j_, j_ < ln(linkL(t_))), And(at(linkL(t_), j_) != null, rank(at(linkL(t_), j_)) < rank(t_))), patterns=[at(linkL(t_), j_)]),
        'children-non-null-and-lower-rank': ForAll([t_, j_], Implies(And(t_ != null, 0 <= j_, j_ < ln(chL(t_))), And(at(chL(t_), j_) != null, rank(at(chL(t_), j_)) < rank(t_))), patterns=[at(chL(t_), j_)]),
        'ancestors-non-null': ForAll([t_, j_], Implies(And(t_ != null, 0 <= j_, j_ < ln(ancL(t_))), at(ancL(t_), j_) != null), patterns=[at(ancL(t_), j_)]),
        'links-of-ancestors-lower-rank': ForAll([t_, j_, q_], Implies(And(t_ != null, 0 <= j_, j_ < ln(ancL(t_)), 0 <= q_, q_ < ln(linkL(at(ancL(t_), j_)))),
                                                                      rank(at(linkL(at(ancL(t_), j_)), q_)) < rank(t_)), patterns=[at(linkL(at(ancL(t_), j_)), q_)]),
        'rank-non-negative': ForAll([t_], rank(t_) >= 0),
        # Task.all_parents lists the parent first, then the parent's ancestors (contract of __get_all_parents + F1)
        'ancestor-list-of-a-child': ForAll([t_, j_], Implies(And(t_ != null, 0 <= j_, j_ < ln(chL(t_))),
                                                              And(ln(ancL(at(chL(t_), j_))) == ln(ancL(t_)) + 1, at(ancL(at(chL(t_), j_)), 0) == t_)), patterns=[at(chL(t_), j_)]),
        'ancestor-list-of-a-child-tail': ForAll([t_, j_, q_], Implies(And(t_ != null, 0 <= j_, j_ < ln(chL(t_)), 0 <= q_, q_ < ln(ancL(t_))),
                                                                   at(ancL(at(chL(t_), j_)), q_ + 1) == at(ancL(t_), q_)), patterns=[MultiPattern(at(chL(t_), j_), at(ancL(t_), q_))]),
        'ids-unique': ForAll([t_, u_], Implies(And(t_ != null, u_ != null, h.tid[t_] == h.tid[u_]), t_ == u_), patterns=[MultiPattern(h.tid[t_], h.tid[u_])]),
        'clean-summary-has-clean-children': ForAll([t_, j_], Implies(And(t_ != null, clean(t_), 0 <= j_, j_ < ln(chL(t_))), clean(at(chL(t_), j_))), patterns=[at(chL(t_), j_)]),
        'clean-unscheduled-leaf-has-no-dates': None,      # filled per heap below
    }


class PassPlugin:
    """Python constructs of the two passes: id-list membership/append, comprehensions over relation lists, max/min/sum,
    `x or default` on optionals, dict.setdefault of the resource table, property setters of estimate/spent."""

    def cmp(self, eng, st, k, l, r, line):
        if k in ('In', 'NotIn') and r.s == IL:
            c = mem_i(Select(eng.field(st, 'IntList', 'ielems'), r.e), l.e)
            return c if k == 'In' else Not(c)
        return NotImplemented

    def assign(self, eng, s, target, v):
        if isinstance(target, ast.Attribute) and target.attr in ('estimate', 'spent'):
            s2, o = eng.ev1(target.value, s)
            if o.s != T: return NotImplemented
            val = eng.coerce(v, OR_)
            s2.oblige('safe/RuntimeError-negative-' + target.attr, Implies(rsome(val), rv(val) >= 0), f'@{target.lineno}')
            s2.oblige('safe/AttributeError-None', o.e != null, f'@{target.lineno}')
            key = 'Task._Task__' + target.attr
            eng.write(s2, key, Store(eng.field(s2, 'Task', '_Task__' + target.attr), o.e, val))
            return [(s2, FALL)]
        return NotImplemented

    def boolop(self, eng, e, st):
        if isinstance(e.op, ast.Or) and len(e.values) == 2:
            s, a = eng.ev1(e.values[0], st)
            if a.s.is_opt and a.s.base == TIME:          # `x or default`: datetime objects are always truthy
                s, b = eng.ev1(e.values[1], s)
                return [(s, V(If(a.s.dt.is_some(a.e), a.s.dt.val(a.e), eng.coerce(b, TIME)), TIME))]
        return NotImplemented

    def ev_ListComp(self, eng, e, st):
        if len(e.generators) != 1: return NotImplemented
        g = e.generators[0]
        s, xs = eng.ev1(g.iter, st)
        if xs.s != LT: return NotImplemented
        var = g.target.id
        if not (isinstance(e.elt, ast.Attribute) and isinstance(e.elt.value, ast.Name) and e.elt.value.id == var): raise Unsupported('comprehension element form')
        attr = e.elt.attr
        fld = {'estimate': '_Task__estimate', 'spent': '_Task__spent'}.get(attr, attr)
        arr = eng.field(s, 'Task', fld); fs = eng.fsort('Task', fld); src = xs.e
        if g.ifs:
            if len(g.ifs) != 1 or ast.unparse(g.ifs[0]) != f'{var}.{attr} is not None' or fs != OT: raise Unsupported('comprehension filter form')
            C = fresh('comp', LTm); srci = Function(f'src!{fresh_id()}', IntSort(), IntSort()); posi = Function(f'pos!{fresh_id()}', IntSort(), IntSort()); j = Int('j')
            s.assume(LTm.len(C) >= 0)
            s.assume(ForAll([j], Implies(And(0 <= j, j < LTm.len(C)), And(0 <= srci(j), srci(j) < ln(src), some(arr[at(src, srci(j))]), tv(arr[at(src, srci(j))]) == LTm.at(C, j))), patterns=[LTm.at(C, j)]))
            s.assume(ForAll([j], Implies(And(0 <= j, j < ln(src), some(arr[at(src, j)])), And(0 <= posi(j), posi(j) < LTm.len(C), LTm.at(C, posi(j)) == tv(arr[at(src, j)]))), patterns=[at(src, j)]))
            return [(s, V(C, LTm))]
        return [(s, V(('map', src, arr, fs), S('MapComp', None)))]

    def ev_List(self, eng, e, st):
        out = []
        for s, vals in eng.ev_seq(e.elts, st):
            if isinstance(vals, Raise): out.append((s, vals)); continue
            if not vals or vals[0].s != TIME: raise Unsupported('list literal')
            C = fresh('lit', LTm); s.assume(LTm.len(C) == len(vals))
            for k, v in enumerate(vals): s.assume(LTm.at(C, k) == v.e)
            out.append((s, V(C, LTm)))
        return out

    def binop(self, eng, st, k, l, r, line):
        if k == 'Add' and l.s == LTm and r.s == LTm:
            C = fresh('cat', LTm); j = Int('j'); st.assume(LTm.len(C) == LTm.len(l.e) + LTm.len(r.e))
            st.assume(ForAll([j], Implies(And(0 <= j, j < LTm.len(C)), LTm.at(C, j) == If(j < LTm.len(l.e), LTm.at(l.e, j), LTm.at(r.e, j - LTm.len(l.e)))), patterns=[LTm.at(C, j)]))
            st.assume(ForAll([j], Implies(And(0 <= j, j < LTm.len(l.e)), LTm.at(C, j) == LTm.at(l.e, j)), patterns=[LTm.at(l.e, j)]))
            st.assume(ForAll([j], Implies(And(0 <= j, j < LTm.len(r.e)), LTm.at(C, j + LTm.len(l.e)) == LTm.at(r.e, j)), patterns=[LTm.at(r.e, j)]))
            return V(C, LTm)
        return NotImplemented

    def call(self, eng, e, st):
        f = e.func
        if isinstance(f, ast.Attribute) and f.attr == 'setdefault':
            # self.__resources.setdefault(name, Resource(name)): some non-null resource (table lookup or a fresh default one)
            r = fresh('resource', IR); st.assume(r != IR.null)
            return [(st, V(r, IR))]
        if isinstance(f, ast.Name) and f.id == 'reversed' and len(e.args) == 1:
            s, v = eng.ev1(e.args[0], st)
            if v.s != LT: return NotImplemented
            C = fresh('rev', LT); j = Int('j')
            s.assume(ln(C) == ln(v.e))
            s.assume(ForAll([j], Implies(And(0 <= j, j < ln(C)), at(C, j) == at(v.e, ln(v.e) - 1 - j)), patterns=[at(C, j)]))
            return [(s, V(C, LT))]
        if isinstance(f, ast.Name) and f.id in ('max', 'min') and len(e.args) == 1:
            out = []
            for s, v in eng.ev(e.args[0], st):
                if isinstance(v, Raise): out.append((s, v)); continue
                if v.s != LTm: raise Unsupported(f'{f.id} of {v.s}')
                s.oblige(f'safe/ValueError-{f.id}-of-empty-list', LTm.len(v.e) > 0, f'@{e.lineno}')
                m = fresh(f.id, TIME); k = fresh('arg' + f.id, INT); j = Int('j')
                s.assume(And(0 <= k, k < LTm.len(v.e), LTm.at(v.e, k) == m))
                s.assume(ForAll([j], Implies(And(0 <= j, j < LTm.len(v.e)), LTm.at(v.e, j) <= m if f.id == 'max' else LTm.at(v.e, j) >= m), patterns=[LTm.at(v.e, j)]))
                out.append((s, V(m, TIME)))
            return out
        if isinstance(f, ast.Name) and f.id == 'sum' and len(e.args) == 1:
            s, v = eng.ev1(e.args[0], st)
            if v.s.name != 'MapComp': return NotImplemented
            _, src, arr, fs = v.e; j = Int('j')
            s.oblige('safe/TypeError-sum-of-None', ForAll([j], Implies(And(0 <= j, j < ln(src)), rsome(arr[at(src, j)]))), f'@{e.lineno}')
            return [(s, V(rsum(mapR(src, arr)), REAL))]
        return NotImplemented


import itertools
itertools_count = itertools.count(1)
# roll-up sums (C07): mapR(list, field array) is the list of field values, rsum its sum; extensionality: pointwise equal lists have equal sums
LR_ = LIST(REAL)
mapR = Function('mapR', LT.z, ArraySort(T.z, OR_.z), LR_.z); rsum = Function('rsum', LR_.z, RealSort())
_l = Const('_l', LT.z); _a = Const('_a', ArraySort(T.z, OR_.z)); _m1, _m2 = Consts('_m1 _m2', LR_.z); _j = Int('_j')
SUM_AX = [
    ForAll([_l, _a], LR_.len(mapR(_l, _a)) == ln(_l), patterns=[mapR(_l, _a)]),
    ForAll([_l, _a, _j], Implies(And(0 <= _j, _j < ln(_l)), LR_.at(mapR(_l, _a), _j) == rv(_a[at(_l, _j)])), patterns=[LR_.at(mapR(_l, _a), _j)]),
    ForAll([_m1, _m2], Implies(And(LR_.len(_m1) == LR_.len(_m2), ForAll([_j], Implies(And(0 <= _j, _j < LR_.len(_m1)), LR_.at(_m1, _j) == LR_.at(_m2, _j)))), rsum(_m1) == rsum(_m2)),
           patterns=[MultiPattern(rsum(_m1), rsum(_m2))]),
    ForAll([_m1], Implies(ForAll([_j], Implies(And(0 <= _j, _j < LR_.len(_m1)), LR_.at(_m1, _j) >= 0)), rsum(_m1) >= 0), patterns=[rsum(_m1)]),
]


def c_list(fn):
    def c(eng, st, recv, args, kws, node):
        return [(st, V(fn(recv.e), LT))]
    return c


def c_field(cls, fld, srt):
    def c(eng, st, recv, args, kws, node):
        return [(st, V(Select(eng.field(st, cls, fld), recv.e), srt))]
    return c


def c_ilist_append(eng, st, recv, args, kws, node):
    f = eng.field(st, 'IntList', 'ielems'); nl = fresh('calc', LI); st.assume(nl == app_i(f[recv.e], args[0].e))
    eng.write(st, 'IntList.ielems', Store(f, recv.e, nl))
    return [(st, V(None, NONE))]


def pass_spec(fwd):
    """the relational specification of __forward_pass / __backward_pass: pre-condition clauses and post-condition clauses as functions of two
    states; used for the body (pass_unit), for the recursive calls and for the calls from calc (calc_unit)"""
    cls, R = ('ForwardScheduler', FS) if fwd else ('BackwardScheduler', BS)
    bound_fld = f'_{cls}__start' if fwd else f'_{cls}__end'
    linkL = preL if fwd else sucL

    def bal(eng, st, me): return Select(eng.field(st, cls, f'_{cls}__balance_resources'), me)
    def bound(eng, st, me): return Select(eng.field(st, cls, bound_fld), me)
    def defest(eng, st, me): return Select(eng.field(st, cls, f'_{cls}__default_estimate'), me)
    def calc_of(h, ref): return h.ielems[ref]
    def rows_of(h, ref): return h.rowsf[ref]

    def struct(h):
        d = Struct(h, fwd)
        return d

    def pre_clauses(eng, st, me, task, ru, clr):
        h = H(eng, st); cl = calc_of(h, clr); L = rows_of(h, ru)
        d = {}
        d.update(SchedInv(h, cl, L, fwd, bound(eng, st, me)))
        s = struct(h); s.pop('clean-unscheduled-leaf-has-no-dates')
        d.update(s)
        d['clean-unscheduled-leaf-has-no-dates'] = ForAll([t_], Implies(And(t_ != null, clean(t_), ln(chL(t_)) == 0, Not(mem_i(cl, h.tid[t_]))),
                                                                           And(Not(some(h.start[t_])), Not(some(h.end[t_])))), patterns=[clean(t_)])
        d['summary-fields-cleared (__prepare_tasks)'] = ForAll([t_], Implies(And(t_ != null, ln(chL(t_)) > 0, Not(mem_i(cl, h.tid[t_]))),
                                                                             And(Not(some(h.start[t_])), Not(some(h.end[t_])), Not(rsome(h.est[t_])), Not(rsome(h.spent[t_])))), patterns=[chL(t_)])
        d['C03/ledger'] = And(LedInv(L, bal(eng, st, me)), wf(L))
        d['non-null'] = And(me != R.null, task != null, ru != RU.null, clr != IL.null)
        d['default-estimate-non-negative'] = defest(eng, st, me) >= 0
        return d

    def post_clauses(eng, st0, st1, me, task, ru, clr, now0, now1):
        """relational post-condition; st0 = state at entry / before the call, st1 = state at exit / after the call"""
        h0, h1 = H(eng, st0), H(eng, st1)
        cl0, cl1 = calc_of(h0, clr), calc_of(h1, clr); L0, L1 = rows_of(h0, ru), rows_of(h1, ru)
        b = bal(eng, st0, me); B0 = bound(eng, st0, me)
        same = lambda t: And(h1.start[t] == h0.start[t], h1.end[t] == h0.end[t], h1.est[t] == h0.est[t], h1.spent[t] == h0.spent[t])
        x_ = Int('x_')
        out = {'in-calculated': mem_i(cl1, h0.tid[task]),
               'calculated-grows': ForAll([x_], Implies(mem_i(cl0, x_), mem_i(cl1, x_)), patterns=[mem_i(cl0, x_), mem_i(cl1, x_)]),
               'C03/ledger': And(LedInv(L1, b), wf(L1)),
               'C06/frame-calculated-tasks-keep-their-fields': ForAll([t_], Implies(And(t_ != null, mem_i(cl0, h0.tid[t_])), same(t_)), patterns=[mem_i(cl0, h0.tid[t_])]),
               'C06/frame-higher-rank-untouched': ForAll([t_], Implies(And(t_ != null, rank(t_) > rank(task)), And(same(t_), mem_i(cl1, h0.tid[t_]) == mem_i(cl0, h0.tid[t_]), work(L1, t_) == work(L0, t_))), patterns=[rank(t_)]),
               'C06/frame-tasks-left-uncalculated-are-untouched': ForAll([t_], Implies(And(t_ != null, Not(mem_i(cl1, h0.tid[t_]))), same(t_)), patterns=[mem_i(cl1, h0.tid[t_])]),
               'frame-higher-rank-rows': ForAll([t_, r_, d_], Implies(And(t_ != null, rank(t_) > rank(task)), totT(L1, r_, d_, t_) == totT(L0, r_, d_, t_)), patterns=[totT(L1, r_, d_, t_)]),
               'C03,C04/ledger-only-grows': And(ForAll([r_, d_], tot(L1, r_, d_) >= tot(L0, r_, d_), patterns=[tot(L1, r_, d_)]), ForAll([r_, d_, k_], totT(L1, r_, d_, k_) >= totT(L0, r_, d_, k_), patterns=[totT(L1, r_, d_, k_)])),
               }
        for k, v in SchedInv(h1, cl1, L1, fwd, B0).items(): out['inv/' + k] = v
        fresh_ = Not(mem_i(cl0, h0.tid[task])); leaf = ln(chL(task)) == 0; ms = h0.ms[task]
        S1, E1 = tv(h1.start[task]), tv(h1.end[task])
        # ---------------- C07: start <= end, roll-ups
        out['C07/start<=end'] = Implies(And(fresh_, clean(task)), S1 <= E1)
        j = Int('jj')
        kids_done = ForAll([j], Implies(And(0 <= j, j < ln(chL(task))), done(h1, at(chL(task), j))))
        out['C07/summary-starts-at-earliest-child-start'] = Implies(And(fresh_, Not(ms), Not(leaf)),
            And(kids_done, ForAll([j], Implies(And(0 <= j, j < ln(chL(task))), S1 <= tv(h1.start[at(chL(task), j)]))), Exists([j], And(0 <= j, j < ln(chL(task)), S1 == tv(h1.start[at(chL(task), j)])))))
        out['C07/summary-ends-at-latest-child-end'] = Implies(And(fresh_, Not(ms), Not(leaf)) if fwd else And(fresh_, Not(ms), Not(leaf), clean(task)),
            And(ForAll([j], Implies(And(0 <= j, j < ln(chL(task))), E1 >= tv(h1.end[at(chL(task), j)]))), Exists([j], And(0 <= j, j < ln(chL(task)), E1 == tv(h1.end[at(chL(task), j)])))))
        out['C07/summary-carries-the-sums'] = Implies(And(fresh_, Not(ms), Not(leaf)), And(rv(h1.est[task]) == rsum(mapR(chL(task), h1.est)), rv(h1.spent[task]) == rsum(mapR(chL(task), h1.spent))))
        # ---------------- C04: reserved work
        wanted = If(rv(h1.est[task]) - rv(h1.spent[task]) >= 0, rv(h1.est[task]) - rv(h1.spent[task]), 0)
        if fwd:
            reserves = And(leaf, Not(ms), Not(some(h0.end[task])))
        else:
            reserves = And(leaf, Not(ms))
        out['C04/reserved-work-is-the-remaining-work'] = Implies(fresh_, work(L1, task) == If(reserves, wanted, 0))
        out['C04/defaults-filled'] = Implies(And(fresh_, leaf, Not(ms)), And(rv(h1.est[task]) == If(rsome(h0.est[task]), rv(h0.est[task]), ToReal(defest(eng, st0, me)) if False else defest(eng, st0, me)),
                                                                             rv(h1.spent[task]) == If(rsome(h0.spent[task]), rv(h0.spent[task]), 0)))
        if fwd:
            out['C04/user-fixed-dates-returned-unchanged'] = Implies(And(fresh_, leaf, Not(ms)), And(Implies(some(h0.start[task]), h1.start[task] == h0.start[task]), Implies(some(h0.end[task]), h1.end[task] == h0.end[task])))
            # ---------------- C02 (leaf with a start chosen by the scheduler)
            chosen = And(fresh_, leaf, Not(ms), Not(some(h0.start[task])))
            a_ = Int('a_'); q = Int('qq')
            own = ForAll([q], Implies(And(0 <= q, q < ln(preL(task))), And(some(h1.end[at(preL(task), q)]), dayidx(S1) >= dayidx(tv(h1.end[at(preL(task), q)])))))
            inh = ForAll([a_, q], Implies(And(0 <= a_, a_ < ln(ancL(task)), 0 <= q, q < ln(preL(at(ancL(task), a_)))),
                                          And(some(h1.end[at(preL(at(ancL(task), a_)), q)]), dayidx(S1) >= dayidx(tv(h1.end[at(preL(at(ancL(task), a_)), q)])))))
            out['C02/start-not-before-own-prerequisite-ends'] = Implies(chosen, own)
            out['C02/start-not-before-inherited-prerequisite-ends'] = Implies(chosen, inh)
            out['C02/start-not-before-project-start-min_start-and-clock'] = Implies(chosen, And(dayidx(S1) >= dayidx(B0), dayidx(S1) >= dayidx(now0),
                                                                                                 Implies(some(h0.minst[task]), dayidx(S1) >= dayidx(tv(h0.minst[task])))))
            out['C02,C04/no-work-before-the-start-day-nor-before-today'] = Implies(And(fresh_, leaf, Not(ms)), ForAll([r_, d_], Implies(Or(d_ < dayidx(S1), d_ < dayidx(now0)), totT(L1, r_, d_, task) == totT(L0, r_, d_, task))))
            ownm = ForAll([q], Implies(And(0 <= q, q < ln(preL(task)), some(h1.end[at(preL(task), q)])), S1 >= tv(h1.end[at(preL(task), q)])))
            inhm = ForAll([a_, q], Implies(And(0 <= a_, a_ < ln(ancL(task)), 0 <= q, q < ln(preL(at(ancL(task), a_))), some(h1.end[at(preL(at(ancL(task), a_)), q)])),
                                           S1 >= tv(h1.end[at(preL(at(ancL(task), a_)), q)])))
            exact = Or(S1 == B0, Exists([q], And(0 <= q, q < ln(preL(task)), some(h1.end[at(preL(task), q)]), S1 == tv(h1.end[at(preL(task), q)]))),
                       Exists([a_, q], And(0 <= a_, a_ < ln(ancL(task)), 0 <= q, q < ln(preL(at(ancL(task), a_))), some(h1.end[at(preL(at(ancL(task), a_)), q)]), S1 == tv(h1.end[at(preL(at(ancL(task), a_)), q)]))))
            out['C02/milestone-at-the-latest-prerequisite-end'] = Implies(And(fresh_, ms), And(S1 == E1, S1 >= B0, ownm, inhm, exact))
        else:
            a_ = Int('a_'); q = Int('qq')
            own = ForAll([q], Implies(And(0 <= q, q < ln(sucL(task)), some(h1.start[at(sucL(task), q)])), E1 <= tv(h1.start[at(sucL(task), q)])))
            inh = ForAll([a_, q], Implies(And(0 <= a_, a_ < ln(ancL(task)), 0 <= q, q < ln(sucL(at(ancL(task), a_))), some(h1.start[at(sucL(at(ancL(task), a_)), q)])),
                                          E1 <= tv(h1.start[at(sucL(at(ancL(task), a_)), q)])))
            nofixed = And(Not(some(h0.start[task])), Not(some(h0.end[task])))
            out['C09/ends-not-after-the-project-end'] = Implies(And(fresh_, clean(task)), E1 <= B0)
            out['C09/ends-not-after-own-successor-starts'] = Implies(And(fresh_, clean(task)), own)
            out['C09/ends-not-after-inherited-successor-starts'] = Implies(And(fresh_, clean(task)), inh)
        return out

    return type('PassSpec', (), dict(bal=staticmethod(bal), bound=staticmethod(bound), defest=staticmethod(defest), calc_of=staticmethod(calc_of), rows_of=staticmethod(rows_of),
                                     pre_clauses=staticmethod(pre_clauses), post_clauses=staticmethod(post_clauses), cls=cls, R=R))


def pass_unit(fwd):
    cls, R = ('ForwardScheduler', FS) if fwd else ('BackwardScheduler', BS)
    fname = '__forward_pass' if fwd else '__backward_pass'
    bound_fld = f'_{cls}__start' if fwd else f'_{cls}__end'
    linkL = preL if fwd else sucL

    def build():
        sp = pass_spec(fwd)
        bal, bound, defest, calc_of, rows_of, pre_clauses, post_clauses = sp.bal, sp.bound, sp.defest, sp.calc_of, sp.rows_of, sp.pre_clauses, sp.post_clauses

        # ---- callee contracts
        def c_nearest(eng, st, recv, args, kws, node):
            res, ru, _, task = [a.e for a in args]; sd = eng.as_sort(st, args[2], TIME, 'safe/TypeError-None-date')
            h = H(eng, st); L = rows_of(h, ru); b = bal(eng, st, recv.e)
            st.oblige('req@nearest/non-null', And(res != IR.null, ru != RU.null, task != null), f'@{node.lineno}')
            ok = st.fork(); exc = st.fork()
            r = fresh('near', TIME); D = fresh('Dn', INT)
            bk = booked(b, L, res, task, D)
            if fwd:
                ok.assume(And(D == dayidx(r), D >= dayidx(sd), cap(res, D) > 0, bk < cap(res, D), bk >= 0,
                              r * cap(res, D) == 86400 * ToReal(D) * cap(res, D) + 86400 * bk, r >= 86400 * ToReal(D), r < 86400 * ToReal(D + 1)))
            else:
                ok.assume(And(D <= dayidx(sd - 86400), cap(res, D) > 0, bk < cap(res, D), bk >= 0,
                              (r + 86400) * cap(res, D) == 86400 * ToReal(D + 1) * cap(res, D) - 86400 * bk, r + 86400 > 86400 * ToReal(D), r + 86400 <= 86400 * ToReal(D + 1)))
            return [(ok, V(r, TIME)), (exc, Raise('RuntimeError'))]

        def c_shift(eng, st, recv, args, kws, node):
            res, ru, _, task = [a.e for a in args[:4]]; sd = eng.as_sort(st, args[2], TIME, 'safe/TypeError-None-date')
            left = args[4].e if args[4].s == REAL else ToReal(args[4].e)
            h = H(eng, st); L = rows_of(h, ru); b = bal(eng, st, recv.e)
            st.oblige('req@shift/left-hours-non-negative', left >= 0, f'@{node.lineno}')
            st.oblige('req@shift/C03/ledger', And(LedInv(L, b), wf(L)), f'@{node.lineno}')
            st.oblige('req@shift/non-null', And(res != IR.null, ru != RU.null, task != null), f'@{node.lineno}')
            exc = st.fork(); ok = st.fork()
            L2 = fresh('rows', Led); rt = fresh('shiftres', TIME); Dl = fresh('Dl', INT)
            eng.write(ok, '_ResourceUsage.rows', Store(h.rowsf, ru, L2)); Lx = fresh('rowsx', Led); eng.write(exc, '_ResourceUsage.rows', Store(h.rowsf, ru, Lx))
            b0 = lambda d: booked(b, L, res, task, d); b1 = lambda d: booked(b, L2, res, task, d)
            common = And(LedInv(L2, b), wf(L2), work(L2, task) == work(L, task) + left, ForAll([k_], Implies(k_ != task, work(L2, k_) == work(L, k_)), patterns=[work(L2, k_)]),
                         ForAll([r_, d_], tot(L2, r_, d_) >= tot(L, r_, d_), patterns=[tot(L2, r_, d_)]), ForAll([r_, d_, k_], totT(L2, r_, d_, k_) >= totT(L, r_, d_, k_), patterns=[totT(L2, r_, d_, k_)]),
                         Implies(left == 0, And(rt == sd, L2 == L)))
            if fwd:
                ok.assume(And(common, ForAll([r_, d_], Implies(d_ < dayidx(sd), tot(L2, r_, d_) == tot(L, r_, d_)), patterns=[tot(L2, r_, d_)]),
                              ForAll([r_, d_, k_], Implies(Or(d_ < dayidx(sd), k_ != task), totT(L2, r_, d_, k_) == totT(L, r_, d_, k_)), patterns=[totT(L2, r_, d_, k_)]),
                              Implies(left > 0, And(Dl >= dayidx(sd), cap(res, Dl) > 0, rt * cap(res, Dl) == 86400 * ToReal(Dl) * cap(res, Dl) + 86400 * b1(Dl),
                                                    b1(Dl) > b0(Dl), b1(Dl) <= cap(res, Dl), rt > 86400 * ToReal(Dl), rt <= 86400 * ToReal(Dl + 1)))))
            else:
                ok.assume(And(common, ForAll([r_, d_], Implies(d_ >= dayidx(sd), tot(L2, r_, d_) == tot(L, r_, d_)), patterns=[tot(L2, r_, d_)]),
                              ForAll([r_, d_, k_], Implies(Or(d_ >= dayidx(sd), k_ != task), totT(L2, r_, d_, k_) == totT(L, r_, d_, k_)), patterns=[totT(L2, r_, d_, k_)]),
                              Implies(left > 0, And(Dl < dayidx(sd), cap(res, Dl) > 0, rt * cap(res, Dl) == 86400 * ToReal(Dl + 1) * cap(res, Dl) - 86400 * b1(Dl),
                                                    b1(Dl) > b0(Dl), b1(Dl) <= cap(res, Dl), rt >= 86400 * ToReal(Dl), rt < 86400 * ToReal(Dl + 1)))))
            exc.assume(And(LedInv(Lx, b), wf(Lx)))
            return [(ok, V(rt, TIME)), (exc, Raise('RuntimeError'))]

        def c_pass(eng, st, recv, args, kws, node):
            task, md, ru, clr = [a.e for a in args]
            me = st.env['self'].e
            st.oblige('req@pass/same-scheduler', recv.e == me, f'@{node.lineno}')
            for k, v in pre_clauses(eng, st, recv.e, task, ru, clr).items():
                st.oblige(f'req@pass/{k}', v, f'@{node.lineno}')
            st.oblige('dec/C14/rank-decreases-at-every-recursive-call', And(rank(task) < rank(st.env['_task'].e), rank(task) >= 0), f'@{node.lineno}')
            exc = st.fork(); ok = st.fork()
            for s2 in (ok, exc):
                for key in HV: eng.havoc(s2, key)
            now_before = st.ghost.get('now')
            nw = fresh('now', TIME)
            if now_before is not None: ok.assume(nw >= now_before); exc.assume(nw >= now_before)
            ok.ghost['now'] = nw; exc.ghost['now'] = nw
            for v in post_clauses(eng, st, ok, recv.e, task, ru, clr, now_before if now_before is not None else nw, nw).values(): ok.assume(v)
            hx = H(eng, exc); Lx = rows_of(hx, ru); exc.assume(And(LedInv(Lx, bal(eng, st, recv.e)), wf(Lx)))
            return [(ok, V(None, NONE)), (exc, Raise('RuntimeError'))]

        contracts = {'IntList.append': c_ilist_append,
                     f'{cls}._{cls}__get_resource_nearest_available_date': c_nearest, f'{cls}._{cls}__shift_by_resource_usage_and_calendar': c_shift,
                     f'{cls}._{cls}{fname}': c_pass,
                     'prop:Task.predecessors': c_list(preL), 'prop:Task.successors': c_list(sucL), 'prop:Task.children': c_list(chL), 'prop:Task.all_parents': c_list(ancL),
                     'prop:Task.id': c_field('Task', '_Task__id', INT), 'prop:Task.estimate': c_field('Task', '_Task__estimate', OR_), 'prop:Task.spent': c_field('Task', '_Task__spent', OR_)}

        rmemo = {}

        def req(lab):
            def f(c):
                if id(c.st) not in rmemo:
                    rmemo[id(c.st)] = (c.st, pre_clauses(c.eng, c.st, c['self'], c['_task'], c['resource_usage'], c['calculated']))
                return rmemo[id(c.st)][1][lab]
            return f
        dummy_labels = list(_labels_pre) + (['C02/starts-bounded'] if fwd else ['C09/links-bounded'])

        def frame_inv(c, extra=None):
            """common part of the four loop invariants"""
            eng = c.eng; h = H(eng, c.st); h0 = H(eng, c.pre)
            me = c['self']; task = c['_task']; ru = c['resource_usage']; clr = c['calculated']
            cl, cl0 = calc_of(h, clr), calc_of(h0, clr); L, L0 = rows_of(h, ru), rows_of(h0, ru)
            same = lambda t: And(h.start[t] == h0.start[t], h.end[t] == h0.end[t], h.est[t] == h0.est[t], h.spent[t] == h0.spent[t])
            x_ = Int('x_')
            d = {('sched/' + k): v for k, v in SchedInv(h, cl, L, fwd, bound(eng, c.st, me)).items()}
            d.update({'ledger': And(LedInv(L, bal(eng, c.st, me)), wf(L)),
                      'calc-grows': ForAll([x_], Implies(mem_i(cl0, x_), mem_i(cl, x_)), patterns=[mem_i(cl0, x_), mem_i(cl, x_)]),
                      'frame-done': ForAll([t_], Implies(And(t_ != null, mem_i(cl0, h0.tid[t_])), same(t_)), patterns=[mem_i(cl0, h0.tid[t_])]),
                      'frame-rank': ForAll([t_], Implies(And(t_ != null, rank(t_) >= rank(task)), And(same(t_), mem_i(cl, h0.tid[t_]) == mem_i(cl0, h0.tid[t_]), work(L, t_) == work(L0, t_))), patterns=[rank(t_)]),
                      'frame-uncalc': ForAll([t_], Implies(And(t_ != null, Not(mem_i(cl, h0.tid[t_]))), same(t_)), patterns=[mem_i(cl, h0.tid[t_])]),
                      'ledger-grows': And(ForAll([r_, d_], tot(L, r_, d_) >= tot(L0, r_, d_), patterns=[tot(L, r_, d_)]), ForAll([r_, d_, k_], totT(L, r_, d_, k_) >= totT(L0, r_, d_, k_), patterns=[totT(L, r_, d_, k_)])),
                      'frame-rank-rows': ForAll([t_, r_, d_], Implies(And(t_ != null, rank(t_) >= rank(task)), totT(L, r_, d_, t_) == totT(L0, r_, d_, t_)), patterns=[totT(L, r_, d_, t_)]),
                      'clean-leaves': ForAll([t_], Implies(And(t_ != null, clean(t_), ln(chL(t_)) == 0, Not(mem_i(cl, h.tid[t_]))), And(Not(some(h.start[t_])), Not(some(h.end[t_])))), patterns=[clean(t_)]),
                      'summaries-cleared': ForAll([t_], Implies(And(t_ != null, ln(chL(t_)) > 0, Not(mem_i(cl, h.tid[t_]))), And(Not(some(h.start[t_])), Not(some(h.end[t_])), Not(rsome(h.est[t_])), Not(rsome(h.spent[t_])))), patterns=[chL(t_)])})
            return d

        def bound_ok(c, p):
            """the running bound covers the link target p (final, because p is calculated)"""
            h = H(c.eng, c.st)
            if fwd: return And(mem_i(calc_of(h, c['calculated']), h.tid[p]), Implies(some(h.end[p]), tv(h.end[p]) <= c['min_date']))
            return And(mem_i(calc_of(h, c['calculated']), h.tid[p]), Implies(some(h.start[p]), tv(h.start[p]) >= c['min_date']))

        def inv_outer(c):
            task = c['_task']; i = c['_i0']; a_ = Int('a_'); q = Int('qq')
            B0 = bound(c.eng, c.st, c['self'])
            return And(i >= 0, i <= ln(ancL(task)), (c['min_date'] >= B0) if fwd else (c['min_date'] <= B0),
                       Or(c['min_date'] == B0, Exists([a_, q], And(0 <= a_, a_ < i, 0 <= q, q < ln(linkL(at(ancL(task), a_))), _is_bound(c, at(linkL(at(ancL(task), a_)), q))))),
                       ForAll([a_, q], Implies(And(0 <= a_, a_ < i, 0 <= q, q < ln(linkL(at(ancL(task), a_)))), bound_ok(c, at(linkL(at(ancL(task), a_)), q)))))

        def _is_bound(c, p):
            h = H(c.eng, c.st)
            return And(some(h.end[p]), tv(h.end[p]) == c['min_date']) if fwd else And(some(h.start[p]), tv(h.start[p]) == c['min_date'])

        def inv_inner(c):
            task = c['_task']; i = c['_i0']; k = c['_i1']; a_ = Int('a_'); q = Int('qq'); anc = c['anc']
            B0 = bound(c.eng, c.st, c['self'])
            return And(i >= 1, i <= ln(ancL(task)), anc == at(ancL(task), i - 1), anc != null, k >= 0, k <= ln(linkL(anc)), (c['min_date'] >= B0) if fwd else (c['min_date'] <= B0),
                       Or(c['min_date'] == B0, Exists([a_, q], And(0 <= a_, a_ < i - 1, 0 <= q, q < ln(linkL(at(ancL(task), a_))), _is_bound(c, at(linkL(at(ancL(task), a_)), q)))),
                          Exists([q], And(0 <= q, q < k, _is_bound(c, at(linkL(anc), q))))),
                       ForAll([a_, q], Implies(And(0 <= a_, a_ < i - 1, 0 <= q, q < ln(linkL(at(ancL(task), a_)))), bound_ok(c, at(linkL(at(ancL(task), a_)), q)))),
                       ForAll([q], Implies(And(0 <= q, q < k), bound_ok(c, at(linkL(anc), q)))))

        def inh_done(c):
            """after the ancestor loops: min_date is the project bound or an inherited link date, and covers all of them"""
            task = c['_task']; a_ = Int('a_'); q = Int('qq'); B0 = bound(c.eng, c.st, c['self'])
            return And((c['min_date'] >= B0) if fwd else (c['min_date'] <= B0),
                       Or(c['min_date'] == B0, Exists([a_, q], And(0 <= a_, a_ < ln(ancL(task)), 0 <= q, q < ln(linkL(at(ancL(task), a_))), _is_bound(c, at(linkL(at(ancL(task), a_)), q))))),
                       ForAll([a_, q], Implies(And(0 <= a_, a_ < ln(ancL(task)), 0 <= q, q < ln(linkL(at(ancL(task), a_)))), bound_ok(c, at(linkL(at(ancL(task), a_)), q)))))

        def inv_own(c):
            task = c['_task']; i = c['_i2']; q = Int('qq'); h = H(c.eng, c.st)
            return And(inh_done(c), i >= 0, i <= ln(linkL(task)),
                       ForAll([q], Implies(And(0 <= q, q < i), mem_i(calc_of(h, c['calculated']), h.tid[at(linkL(task), q)]))))

        def child_bounds(c, rng):
            """backward: every clean child visited so far ends before the project end and before the starts of the successors of all of
            its ancestors (the child's own post-condition, kept for the roll-up of the summary)"""
            task = c['_task']; h = H(c.eng, c.st); lst = chL(task); q = Int('qq'); a_ = Int('a_'); z = Int('zz')
            B0 = bound(c.eng, c.st, c['self'])
            ch = at(lst, q)
            return ForAll([q], Implies(And(rng(q), clean(ch)), And(some(h.end[ch]), tv(h.end[ch]) <= B0,
                                                                  ForAll([a_, z], Implies(And(0 <= a_, a_ < ln(ancL(ch)), 0 <= z, z < ln(sucL(at(ancL(ch), a_))), some(h.start[at(sucL(at(ancL(ch), a_)), z)])),
                                                                                         tv(h.end[ch]) <= tv(h.start[at(sucL(at(ancL(ch), a_)), z)])),
                                                                         patterns=[at(sucL(at(ancL(ch), a_)), z)]))), patterns=[at(lst, q)])

        def inv_children(c):
            task = c['_task']; i = c['_i3']; q = Int('qq'); h = H(c.eng, c.st)
            mp = c['max_predecessor_ends'] if fwd else c['min_successor_starts']
            own_all = ForAll([q], Implies(And(0 <= q, q < ln(linkL(task))), And(mem_i(calc_of(h, c['calculated']), h.tid[at(linkL(task), q)]),
                                                                                 Implies(some(h.end[at(linkL(task), q)]), tv(h.end[at(linkL(task), q)]) <= mp) if fwd else
                                                                                 Implies(some(h.start[at(linkL(task), q)]), tv(h.start[at(linkL(task), q)]) >= mp))))
            lst = chL(task)
            rng = (lambda qq_: And(0 <= qq_, qq_ < i)) if fwd else (lambda qq_: And(ln(lst) - i <= qq_, qq_ < ln(lst)))     # backward visits the children last to first
            return And(inh_done(c), own_all, (mp >= c['min_date']) if fwd else (mp <= c['min_date']),
                       Or(mp == c['min_date'], Exists([q], And(0 <= q, q < ln(linkL(task)), (And(some(h.end[at(linkL(task), q)]), tv(h.end[at(linkL(task), q)]) == mp)) if fwd else
                                                               (And(some(h.start[at(linkL(task), q)]), tv(h.start[at(linkL(task), q)]) == mp))))),
                       i >= 0, i <= ln(lst),
                       ForAll([q], Implies(rng(q), mem_i(calc_of(h, c['calculated']), h.tid[at(lst, q)])), patterns=[at(lst, q)]),
                       # backward: a clean child ends before the bound handed down (it inherits this task's successors and the project end)
                       BoolVal(True))

        fps = ['for anc in _task.all_parents', 'for pred in anc.predecessors' if fwd else 'for succ in anc.successors',
               'for pred in _task.predecessors' if fwd else 'for pred in _task.successors',
               'for ch in _task.children' if fwd else 'for ch in reversed(_task.children)']
        locs = {'max_predecessor_ends': TIME, 'min_successor_starts': TIME, 'is_leaf': BOOL, 'task_min_start': TIME, 'left_hours': REAL, 'start': TIME, 'end': TIME, 'min_date': TIME}

        memo = {}

        def ens(lab):
            def f(c):
                key = ('post', id(c.st))
                if key not in memo:
                    now0 = c.pre.ghost['now']; now1 = c.st.ghost['now']
                    memo.clear()
                    memo[key] = (c.st, post_clauses(c.eng, c.pre, c.st, c['self'], c['_task'], c['resource_usage'], c['calculated'], now0, now1))
                return memo[key][1][lab]
            return f
        fmemo = {}

        def fr(lab):
            def f(c):
                if id(c.st) not in fmemo:
                    fmemo.clear(); fmemo[id(c.st)] = (c.st, frame_inv(c))
                return fmemo[id(c.st)][1][lab]
            return f
        FRAME = [(l, fr(l)) for l in ['sched/done', 'sched/nonneg-est', 'sched/nonneg-spent', 'sched/C07/ordered', 'sched/C04/no-work-before-scheduling', 'ledger', 'calc-grows', 'frame-done', 'frame-rank', 'frame-uncalc', 'ledger-grows', 'frame-rank-rows', 'clean-leaves', 'summaries-cleared'] + (['sched/C02/starts-bounded'] if fwd else ['sched/C09/links-bounded'])]
        fc = {'sig': {'self': R, '_task': T, 'min_date': TIME, 'resource_usage': RU, 'calculated': IL},
              'locals': locs, 'clock': True,
              'requires': [(l, req(l)) for l in dummy_labels],
              'loops': {0: {'fingerprint': fps[0], 'invariant': FRAME + [('inherited-bound', inv_outer)], 'havoc_heap': HV, 'havoc_now': True, 'havoc': ['min_date', 'anc']},
                        1: {'fingerprint': fps[1], 'invariant': FRAME + [('inherited-bound', inv_inner)], 'havoc_heap': HV, 'havoc_now': True, 'havoc': ['min_date']},
                        2: {'fingerprint': fps[2], 'invariant': FRAME + [('own-links-calculated', inv_own)], 'havoc_heap': HV, 'havoc_now': True},
                        3: {'fingerprint': fps[3], 'invariant': FRAME + [('children-calculated', inv_children)], 'havoc_heap': HV, 'havoc_now': True}},
              'raises': {'RuntimeError': [('C03/ledger', lambda c: And(LedInv(rows_of(H(c.eng, c.st), c['resource_usage']), bal(c.eng, c.st, c['self'])), wf(rows_of(H(c.eng, c.st), c['resource_usage']))))]},
              'ensures': [(l, ens(l)) for l in (_labels_post_f if fwd else _labels_post_b)]}
        return Engine(F, f'{cls}.{fname}', contracts, CLASSES, fc, plugins=[PassPlugin()]), all_ax()
    props = ['C03', 'C04', 'C06', 'C07', 'C14'] + (['C02'] if fwd else ['C09'])
    return Unit(f'{cls}.{fname}', F, build, props, shards=12, timeout_ms=20000)


_labels_pre = ['done', 'nonneg-est', 'nonneg-spent', 'C07/ordered', 'C04/no-work-before-scheduling', 'links-non-null-and-lower-rank', 'children-non-null-and-lower-rank', 'ancestors-non-null',
               'links-of-ancestors-lower-rank', 'rank-non-negative', 'ancestor-list-of-a-child', 'ancestor-list-of-a-child-tail', 'ids-unique', 'clean-summary-has-clean-children', 'clean-unscheduled-leaf-has-no-dates', 'summary-fields-cleared (__prepare_tasks)',
               'C03/ledger', 'non-null', 'default-estimate-non-negative']
_common_post = ['in-calculated', 'calculated-grows', 'C03/ledger', 'C06/frame-calculated-tasks-keep-their-fields', 'C06/frame-higher-rank-untouched', 'C06/frame-tasks-left-uncalculated-are-untouched', 'frame-higher-rank-rows', 'C03,C04/ledger-only-grows',
                'inv/done', 'inv/nonneg-est', 'inv/nonneg-spent', 'inv/C07/ordered', 'inv/C04/no-work-before-scheduling',
                'C07/start<=end', 'C07/summary-starts-at-earliest-child-start', 'C07/summary-ends-at-latest-child-end', 'C07/summary-carries-the-sums',
                'C04/reserved-work-is-the-remaining-work', 'C04/defaults-filled']
_labels_post_f = _common_post + ['inv/C02/starts-bounded', 'C04/user-fixed-dates-returned-unchanged', 'C02/start-not-before-own-prerequisite-ends', 'C02/start-not-before-inherited-prerequisite-ends',
                                 'C02/start-not-before-project-start-min_start-and-clock', 'C02,C04/no-work-before-the-start-day-nor-before-today', 'C02/milestone-at-the-latest-prerequisite-end']
_labels_post_b = _common_post + ['inv/C09/links-bounded', 'C09/ends-not-after-the-project-end', 'C09/ends-not-after-own-successor-starts', 'C09/ends-not-after-inherited-successor-starts']

UNITS = [pass_unit(True), pass_unit(False)]


# ================================================================================================ small helpers of calc
WB = REF('WBS')
tasksL = Function('wbs_tasks', WB.z, LT.z)          # WBS.tasks: the depth-first listing (assumed contract, C05)
rootsL = Function('wbs_roots', WB.z, LT.z)


def prepare_unit(fwd):
    cls = 'ForwardScheduler' if fwd else 'BackwardScheduler'

    def build():
        L = lambda c: tasksL(c['project']); j = Int('j')
        f = lambda c, n, which='cur': c.fld('Task', n, which)

        def cleared(c, t):
            return And(Not(some(f(c, 'start')[t])), Not(some(f(c, 'end')[t])), Not(rsome(f(c, '_Task__estimate')[t])), Not(rsome(f(c, '_Task__spent')[t])))

        def same(c, t):
            return And(*[f(c, n)[t] == f(c, n, 'pre')[t] for n in ('start', 'end', '_Task__estimate', '_Task__spent')])

        def inv(c):
            i = c['_i0']
            return And(i >= 0, i <= ln(L(c)),
                       ForAll([t_], Implies(And(t_ != null, ln(chL(t_)) > 0, mem_t(L(c), t_), idx_t(L(c), t_) < i), cleared(c, t_)), patterns=[mem_t(L(c), t_)]),
                       ForAll([t_], Implies(Or(t_ == null, ln(chL(t_)) == 0, Not(mem_t(L(c), t_)), idx_t(L(c), t_) >= i), same(c, t_)), patterns=[f(c, 'start')[t_]]))
        fc = {'sig': {'project': WB},
              'requires': [('pre', lambda c: And(c['project'] != WB.null, ForAll([j], Implies(And(0 <= j, j < ln(L(c))), at(L(c), j) != null), patterns=[at(L(c), j)]), nodup_t(L(c))))],
              'loops': {0: {'fingerprint': 'for t in project.tasks', 'invariant': [('cleared-so-far', inv)], 'havoc_heap': FIELDS}},
              'ensures': [('C07/user-values-on-summary-tasks-are-discarded', lambda c: ForAll([t_], Implies(And(t_ != null, mem_t(L(c), t_), ln(chL(t_)) > 0), cleared(c, t_)), patterns=[mem_t(L(c), t_)])),
                          ('C04,C06/leaf-tasks-untouched', lambda c: ForAll([t_], Implies(Or(ln(chL(t_)) == 0, Not(mem_t(L(c), t_))), same(c, t_)), patterns=[f(c, 'start')[t_]]))]}
        contracts = {'prop:WBS.tasks': lambda eng, st, recv, a, k, n: [(st, V(tasksL(recv.e), LT))], 'prop:Task.children': c_list(chL)}
        return Engine(F, f'{cls}.__prepare_tasks', contracts, CLASSES, fc, plugins=[PassPlugin()]), all_ax() + LISTT_AX
    return Unit(f'{cls}.__prepare_tasks', F, build, ['C07', 'C04', 'C06'])


mem_t = Function('mem_t', LT.z, T.z, BoolSort()); idx_t = Function('idx_t', LT.z, T.z, IntSort()); nodup_t = Function('nodup_t', LT.z, BoolSort())
_lt = Const('_lt', LT.z); _jt = Int('_jt'); _xt = Const('_xt', T.z)
LISTT_AX = [ForAll([_lt, _jt], Implies(And(0 <= _jt, _jt < ln(_lt)), mem_t(_lt, at(_lt, _jt))), patterns=[at(_lt, _jt)]),
            ForAll([_lt, _xt], Implies(mem_t(_lt, _xt), And(0 <= idx_t(_lt, _xt), idx_t(_lt, _xt) < ln(_lt), at(_lt, idx_t(_lt, _xt)) == _xt)), patterns=[mem_t(_lt, _xt)]),
            ForAll([_lt, _jt], Implies(And(nodup_t(_lt), 0 <= _jt, _jt < ln(_lt)), idx_t(_lt, at(_lt, _jt)) == _jt), patterns=[MultiPattern(nodup_t(_lt), at(_lt, _jt))])]


def future_end_unit():
    def build():
        L = lambda c: tasksL(c['project']); j = Int('j')
        en = lambda c: c.fld('Task', 'end')
        bad = lambda c, now: Exists([j], And(0 <= j, j < ln(L(c)), some(en(c)[at(L(c), j)]), tv(en(c)[at(L(c), j)]) > now))
        now = lambda c: c.st.env['now'].e
        fc = {'sig': {'project': WB}, 'clock': True, 'locals': {'now': TIME},
              'requires': [('pre', lambda c: And(c['project'] != WB.null, ForAll([j], Implies(And(0 <= j, j < ln(L(c))), at(L(c), j) != null), patterns=[at(L(c), j)])))],
              'loops': {0: {'fingerprint': 'for t in project.tasks',
                            'invariant': [('none-in-the-future-so-far', lambda c: And(c['_i0'] >= 0, ForAll([j], Implies(And(0 <= j, j < c['_i0']), Not(And(some(en(c)[at(L(c), j)]), tv(en(c)[at(L(c), j)]) > now(c)))))))]}},
              'raises': {'RuntimeError': [('C14/diagnosis-only-for-a-fixed-end-in-the-future', lambda c: bad(c, now(c)))]},
              'ensures': [('C14/returns-only-if-no-fixed-end-lies-in-the-future', lambda c: Not(bad(c, now(c))))]}
        contracts = {'prop:WBS.tasks': lambda eng, st, recv, a, k, n: [(st, V(tasksL(recv.e), LT))], 'prop:Task.id': c_field('Task', '_Task__id', INT)}
        return Engine(F, 'ForwardScheduler.__check_no_end_dates_in_future', contracts, CLASSES, fc, plugins=[PassPlugin()]), all_ax()
    return Unit('ForwardScheduler.__check_no_end_dates_in_future', F, build, ['C14'])


UNITS += [prepare_unit(True), prepare_unit(False), future_end_unit()]


# ------------------------------------------------------------------------------------------------ _validate_graph_isolation
IDMAP = S('IdMap', DeclareSort('IdMap'))
idin = Function('idmap_has', IDMAP.z, IntSort(), BoolSort()); idvals = Function('idmap_values', IDMAP.z, LT.z); idwit = Function('idmap_wit', IDMAP.z, IntSort(), IntSort())


class IsolationPlugin(PassPlugin):
    def ev_DictComp(self, eng, e, st):
        # {task.id: task for task in project.tasks}: the ids of the listed tasks; with unique ids (C05) its values() are the listed tasks in order
        g = e.generators[0]
        if ast.unparse(e.key) != f'{g.target.id}.id' or ast.unparse(e.value) != g.target.id or g.ifs: raise Unsupported('dict comprehension form')
        s, xs = eng.ev1(g.iter, st)
        d = fresh('idmap', IDMAP); h = H(eng, s); j = Int('j'); k = Int('k')
        s.assume(idvals(d) == xs.e)
        s.assume(ForAll([j], Implies(And(0 <= j, j < ln(xs.e)), idin(d, h.tid[at(xs.e, j)])), patterns=[at(xs.e, j)]))
        s.assume(ForAll([k], Implies(idin(d, k), And(0 <= idwit(d, k), idwit(d, k) < ln(xs.e), h.tid[at(xs.e, idwit(d, k))] == k)), patterns=[idin(d, k)]))
        return [(s, V(d, IDMAP))]

    def cmp(self, eng, st, k, l, r, line):
        if k in ('In', 'NotIn') and r.s == IDMAP:
            c = idin(r.e, l.e); return c if k == 'In' else Not(c)
        return PassPlugin.cmp(self, eng, st, k, l, r, line)

    def call(self, eng, e, st):
        f = e.func
        if isinstance(f, ast.Attribute) and f.attr == 'values' and not e.args:
            s, d = eng.ev1(f.value, st)
            if d.s == IDMAP: return [(s, V(idvals(d.e), LT))]
        return PassPlugin.call(self, eng, e, st)


def isolation_unit():
    def build():
        L = lambda c: tasksL(c['project']); j = Int('j'); q = Int('qq'); k = Int('k')
        h = lambda c: H(c.eng, c.st)
        member_id = lambda c, x: Exists([k], And(0 <= k, k < ln(L(c)), h(c).tid[at(L(c), k)] == x))
        offending = lambda c, t, p: And(Not(member_id(c, h(c).tid[p])), Or(Not(some(h(c).start[p])), Not(some(h(c).end[p]))))
        bad = lambda c: Exists([j, q], And(0 <= j, j < ln(L(c)), 0 <= q, q < ln(preL(at(L(c), j))), offending(c, at(L(c), j), at(preL(at(L(c), j)), q))))
        clean_upto = lambda c, i: ForAll([j, q], Implies(And(0 <= j, j < i, 0 <= q, q < ln(preL(at(L(c), j)))), Not(offending(c, at(L(c), j), at(preL(at(L(c), j)), q)))))
        fc = {'sig': {'project': WB}, 'locals': {},
              'requires': [('pre', lambda c: And(c['project'] != WB.null, ln(L(c)) >= 0, ForAll([j], Implies(And(0 <= j, j < ln(L(c))), at(L(c), j) != null), patterns=[at(L(c), j)]),
                                                 ForAll([t_, q], Implies(And(t_ != null, 0 <= q, q < ln(preL(t_))), at(preL(t_), q) != null), patterns=[at(preL(t_), q)])))],
              'loops': {0: {'fingerprint': 'for t in all_tasks.values()', 'invariant': [('no-offending-link-so-far', lambda c: And(c['_i0'] >= 0, c['_i0'] <= ln(L(c)), clean_upto(c, c['_i0'])))]},
                        1: {'fingerprint': 'for pr in t.predecessors',
                            'invariant': [('no-offending-link-so-far', lambda c: And(c['_i0'] >= 1, c['_i0'] <= ln(L(c)), c['t'] == at(L(c), c['_i0'] - 1), clean_upto(c, c['_i0'] - 1), c['_i1'] >= 0,
                                                                                     ForAll([q], Implies(And(0 <= q, q < c['_i1']), Not(offending(c, c['t'], at(preL(c['t']), q)))))))], 'havoc': ['t']}},
              'raises': {'RuntimeError': [('C14/diagnosis-only-for-an-outside-predecessor-without-dates', bad)]},
              'ensures': [('C14/returns-only-if-every-outside-predecessor-has-both-dates', lambda c: Not(bad(c)))]}
        contracts = {'prop:WBS.tasks': lambda eng, st, recv, a, k_, n: [(st, V(tasksL(recv.e), LT))], 'prop:Task.predecessors': c_list(preL), 'prop:Task.id': c_field('Task', '_Task__id', INT)}
        return Engine(F, '_validate_graph_isolation', contracts, CLASSES, fc, plugins=[IsolationPlugin()]), all_ax()
    return Unit('_validate_graph_isolation', F, build, ['C14'])


UNITS.append(isolation_unit())


# ------------------------------------------------------------------------------------------------ calc: base case and composition
empty_i = Const('empty_ids', LI.z)
CALC_AX = [ForAll([n_], Not(mem_i(empty_i, n_)), patterns=[mem_i(empty_i, n_)]),
           ForAll([r_, d_], cap(r_, d_) >= 0, patterns=[cap(r_, d_)])]          # interface contract of IResource.get_available_units (C17: proved for Resource over every calendar combinator)
SCHEDULE = REF('Schedule')


def pass_call(sp, fwd, eng, st, me, task, ru, clr, node):
    """the contract of the pass at a call from calc (no enclosing pass: nothing to decrease)"""
    for k, v in sp.pre_clauses(eng, st, me, task, ru, clr).items():
        st.oblige(f'req@pass/{k}', v, f'@{node.lineno}')
    exc = st.fork(); ok = st.fork()
    for s2 in (ok, exc):
        for key in HV: eng.havoc(s2, key)
    now_before = st.ghost.get('now'); nw = fresh('now', TIME)
    if now_before is not None: ok.assume(nw >= now_before); exc.assume(nw >= now_before)
    ok.ghost['now'] = nw; exc.ghost['now'] = nw
    for v in sp.post_clauses(eng, st, ok, me, task, ru, clr, now_before if now_before is not None else nw, nw).values(): ok.assume(v)
    return [(ok, V(None, NONE)), (exc, Raise('RuntimeError'))]


def calc_unit(fwd):
    cls = 'ForwardScheduler' if fwd else 'BackwardScheduler'
    R = FS if fwd else BS
    wname = 'wbs' if fwd else 'project'; cname = 'forward' if fwd else 'backward'; uname = cname + '_resource_usage'
    pname = '__forward_pass' if fwd else '__backward_pass'

    def build():
        sp = pass_spec(fwd)
        j = Int('j')

        def pure_may_raise(eng, st, recv, args, kws, node):          # validation helpers: read only; raise RuntimeError or return None
            return [(st.fork(), V(None, NONE)), (st.fork(), Raise('RuntimeError'))]

        def c_clone(eng, st, recv, args, kws, node):
            """WBS.clone() - assumed contract (C10, bounded): a new WBS; together with the validations that have passed and the graph invariants
            (C01/C05) it provides the structural facts the pass relies on (Struct), for the universe of the proof: the tasks of the copy
            (closed world: links stay inside the WBS - outside tasks are the subject of known finding A-22)"""
            fw = fresh('clone', WB); h = H(eng, st); TS = tasksL(fw); RS = rootsL(fw)
            st.assume(And(fw != WB.null, fw != recv.e, nodup_t(TS), ForAll([j], Implies(And(0 <= j, j < ln(TS)), at(TS, j) != null), patterns=[at(TS, j)]),
                          ln(RS) >= 0, ForAll([j], Implies(And(0 <= j, j < ln(RS)), at(RS, j) != null), patterns=[at(RS, j)])))
            for k, v in Struct(h, fwd).items():
                if v is not None: st.assume(v)
            st.assume(ForAll([t_], Implies(And(t_ != null, clean(t_), ln(chL(t_)) == 0), And(Not(some(h.start[t_])), Not(some(h.end[t_])))), patterns=[clean(t_)]))   # definition of `clean` for this run
            st.assume(ForAll([t_], Implies(t_ != null, mem_t(TS, t_)), patterns=[mem_t(TS, t_)]))                                                                         # closed world
            st.assume(ForAll([t_], Implies(And(t_ != null, rsome(h.est[t_])), rv(h.est[t_]) >= 0), patterns=[h.est[t_]]))                                                  # Task.estimate / spent setters reject negatives
            st.assume(ForAll([t_], Implies(And(t_ != null, rsome(h.spent[t_])), rv(h.spent[t_]) >= 0), patterns=[h.spent[t_]]))
            return [(st, V(fw, WB))]

        def c_prepare(eng, st, recv, args, kws, node):
            """contract of __prepare_tasks (proved by its unit)"""
            pr = args[0].e; TS = tasksL(pr); h0 = H(eng, st)
            st.oblige('req@__prepare_tasks/project-with-listed-non-null-tasks-each-once',
                      And(pr != WB.null, ForAll([j], Implies(And(0 <= j, j < ln(TS)), at(TS, j) != null), patterns=[at(TS, j)]), nodup_t(TS)), f'@{node.lineno}')
            for key in FIELDS: eng.havoc(st, key)
            h1 = H(eng, st)
            cleared = lambda t: And(Not(some(h1.start[t])), Not(some(h1.end[t])), Not(rsome(h1.est[t])), Not(rsome(h1.spent[t])))
            same = lambda t: And(h1.start[t] == h0.start[t], h1.end[t] == h0.end[t], h1.est[t] == h0.est[t], h1.spent[t] == h0.spent[t])
            st.assume(ForAll([t_], Implies(And(t_ != null, mem_t(TS, t_), ln(chL(t_)) > 0), cleared(t_)), patterns=[mem_t(TS, t_)]))
            st.assume(ForAll([t_], Implies(Or(ln(chL(t_)) == 0, Not(mem_t(TS, t_))), same(t_)), patterns=[h1.start[t_]]))
            return [(st, V(None, NONE))]

        def c_new_usage(eng, st, recv, args, kws, node):
            ru = fresh('usage', RU); st.assume(ru != RU.null)
            eng.write(st, '_ResourceUsage.rows', Store(eng.field(st, '_ResourceUsage', 'rows'), ru, nil))          # _ResourceUsage.__init__: self.rows = []
            return [(st, V(ru, RU))]

        def c_pass(eng, st, recv, args, kws, node):
            task, md, ru, clr = [a.e for a in args]
            st.oblige('req@pass/bound-is-the-scheduler-bound', md == sp.bound(eng, st, recv.e), f'@{node.lineno}')
            return pass_call(sp, fwd, eng, st, recv.e, task, ru, clr, node)

        class CalcPlugin(PassPlugin):
            def ev_List(self, eng, e, st):
                if e.elts: return NotImplemented
                r = fresh('ids', IL); st.assume(r != IL.null)
                eng.write(st, 'IntList.ielems', Store(eng.field(st, 'IntList', 'ielems'), r, empty_i))          # calculated = []
                return [(st, V(r, IL))]

            def call(self, eng, e, st):
                if isinstance(e.func, ast.Name) and e.func.id == 'Schedule':          # the result object: (copy, resources, report over the SAME rows); its parts are read from the locals
                    return [(st, V(fresh('schedule', SCHEDULE), SCHEDULE))]
                if isinstance(e.func, ast.Name) and e.func.id == 'len' and len(e.args) == 1:
                    s, v = eng.ev1(e.args[0], st)
                    if v.s == LT: return [(s, V(ln(v.e), INT))]
                return NotImplemented

        def state(c):
            me = c['self']; fw = c[cname]; ru = c[uname]; clr = c['calculated']
            return me, fw, ru, clr

        def inv_parts(c):
            me, fw, ru, clr = state(c); eng = c.eng; st = c.st
            d = sp.pre_clauses(eng, st, me, at(rootsL(fw), 0), ru, clr); d.pop('non-null')
            return d
        labels = list(_SchedInv(None, None, None).keys()) if False else None

        def roots_done(c):
            me, fw, ru, clr = state(c); h = H(c.eng, c.st); RS = rootsL(fw); cl = sp.calc_of(h, clr); i = c['_i0']
            done_rng = And(0 <= j, j < i) if fwd else And(i < j, j < ln(RS))
            rng = And(i >= 0, i <= ln(RS)) if fwd else And(i >= -1, i <= ln(RS) - 1)
            return And(rng, me != R.null, fw != WB.null, ru != RU.null, clr != IL.null, ForAll([j], Implies(done_rng, mem_i(cl, h.tid[at(RS, j)])), patterns=[at(RS, j)]),
                       ForAll([j], Implies(And(0 <= j, j < ln(RS)), at(RS, j) != null), patterns=[at(RS, j)]))
        pre_labels = [l_ for l_ in (_labels_pre + (['C02/starts-bounded'] if fwd else ['C09/links-bounded'])) if l_ != 'non-null']
        fp = f'for t in {cname}.roots' if fwd else 'for i in range(len(backward_roots) - 1, -1, -1)'

        def final(c, lab):
            me, fw, ru, clr = state(c); h = H(c.eng, c.st); cl = sp.calc_of(h, clr); L = sp.rows_of(h, ru); RS = rootsL(fw)
            return {'C03/the-final-ledger-respects-every-capacity': And(LedInv(L, sp.bal(c.eng, c.st, me)), wf(L)),
                    'C14/every-root-task-is-scheduled': ForAll([j], Implies(And(0 <= j, j < ln(RS)), mem_i(cl, h.tid[at(RS, j)])), patterns=[at(RS, j)]),
                    'C07,C14/every-scheduled-task-has-dates-estimate-and-spent': _SchedInv(h, cl, L)['done'],
                    'C07/every-scheduled-task-without-user-fixed-dates-below-it-starts-before-it-ends': _SchedInv(h, cl, L)['C07/ordered'],
                    'C04/no-work-is-reserved-for-a-task-that-was-not-scheduled': _SchedInv(h, cl, L)['C04/no-work-before-scheduling'],
                    **({'C02/every-scheduled-leaf-without-user-fixed-dates-starts-on-or-after-the-day-its-own-and-inherited-prerequisites-end': SchedInv(h, cl, L, True, sp.bound(c.eng, c.st, me))['C02/starts-bounded']} if fwd else
                       {'C09/every-scheduled-task-without-user-fixed-dates-ends-before-the-project-end-and-before-its-own-and-inherited-successors-start': SchedInv(h, cl, L, False, sp.bound(c.eng, c.st, me))['C09/links-bounded']})}[lab]
        FL = ['C03/the-final-ledger-respects-every-capacity', 'C14/every-root-task-is-scheduled', 'C07,C14/every-scheduled-task-has-dates-estimate-and-spent',
              'C07/every-scheduled-task-without-user-fixed-dates-below-it-starts-before-it-ends', 'C04/no-work-is-reserved-for-a-task-that-was-not-scheduled'] + \
             (['C02/every-scheduled-leaf-without-user-fixed-dates-starts-on-or-after-the-day-its-own-and-inherited-prerequisites-end'] if fwd else
              ['C09/every-scheduled-task-without-user-fixed-dates-ends-before-the-project-end-and-before-its-own-and-inherited-successors-start'])
        fc = {'sig': {'self': R, wname: WB}, 'clock': True, 'locals': {cname: WB, uname: RU, 'calculated': IL, 't': T, 'backward_roots': LT, 'i': INT},
              'requires': [('scheduler-and-wbs-non-null', lambda c: And(c['self'] != R.null, c[wname] != WB.null)),
                           ('default-estimate-non-negative', lambda c: sp.defest(c.eng, c.st, c['self']) >= 0)],
              'loops': {0: {'fingerprint': fp, 'havoc_heap': HV, 'havoc_now': True,
                            'invariant': [('roots-scheduled-so-far', roots_done)] + [('pass-precondition/' + l_, (lambda l_: lambda c: inv_parts(c)[l_])(l_)) for l_ in pre_labels]}},
              'raises': {'RuntimeError': []},
              'ensures': [(l_, (lambda l_: lambda c: final(c, l_))(l_)) for l_ in FL]}
        contracts = {'fn:_validate_graph_isolation': pure_may_raise, 'fn:_check_loops': pure_may_raise, f'{cls}._{cls}__check_no_end_dates_in_future': pure_may_raise,
                     'WBS.clone': c_clone, f'{cls}._{cls}__prepare_tasks': c_prepare, 'fn:_ResourceUsage': c_new_usage, f'{cls}._{cls}{pname}': c_pass,
                     'prop:WBS.roots': lambda eng, st, recv, a, k, n: [(st, V(rootsL(recv.e), LT))]}
        return Engine(F, f'{cls}.calc', contracts, CLASSES, fc, plugins=[CalcPlugin()]), all_ax() + LISTT_AX + CALC_AX
    return Unit(f'{cls}.calc', F, build, ['C03', 'C04', 'C07', 'C14'] + (['C02'] if fwd else ['C09']), timeout_ms=15000)


UNITS += [calc_unit(True), calc_unit(False)]
