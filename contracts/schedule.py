"""Sidecar contracts for pjplan/schedule.py: usage ledger, the four scheduling kernels (C03 C04 C08 C09 C02 C14)."""
import ast
from z3 import *
from pyvc.core import *
from contracts.sched_theory import *
from pyvc.unit import Unit          # after the star imports: z3 exports a `Unit` too

F = 'pjplan/schedule.py'


def sched_cls(fwd):
    return ('ForwardScheduler', FS) if fwd else ('BackwardScheduler', BS)


def bal_of(c, cls, which='cur'):
    return Select(c.fld(cls, f'_{cls}__balance_resources', which), c['self'])


def rows_of(c, which='cur'):
    return Select(c.fld('_ResourceUsage', 'rows', which), c['resource_usage'])


KERNEL_CONTRACTS = {'_ResourceUsage.reserved': c_reserved, '_ResourceUsage.reserve': c_reserve, 'IResource.get_available_units': c_avail,
                    'IResource.get_nearest_availability_date': c_nearest_avail}


# ------------------------------------------------------------------------------------------------ fill loops
def shift_unit(fwd):
    cls, R = sched_cls(fwd)

    def build():
        bal = lambda c: bal_of(c, cls)
        L0 = lambda c: rows_of(c, 'pre')
        day0 = lambda c: dayidx(c.old('start_date'))
        left0 = lambda c: c.old('left_hours')
        bk = lambda c, L, day: booked(bal(c), L, c['resource'], c['task'], day)

        def req(c):
            return And(c['self'] != R.null, c['resource'] != IR.null, c['resource_usage'] != RU.null, c['task'] != TK.null, c['left_hours'] >= 0, c['max_steps'] >= 0,
                       LedInv(rows_of(c), bal(c)), wf(rows_of(c)))

        def D(c):        # the day the loop stands on
            return day0(c) - 1 + c['days'] if fwd else day0(c) - c['days']

        def visited(c, d):     # days already handled by the loop, the current one excluded
            return And(d >= day0(c), d < D(c)) if fwd else And(d < day0(c), d > D(c))

        def untouched(c, d):
            return Or(d < day0(c), d > D(c)) if fwd else Or(d >= day0(c), d < D(c))

        def inv_main(c):
            L = rows_of(c); res = c['resource']; task = c['task']; left = c['left_hours']
            return And(c['days'] >= 0, c['date'] == 86400 * ToReal(D(c)), left <= left0(c), left >= 0,
                       work(L, task) == work(L0(c), task) + (left0(c) - left),
                       ForAll([k_], Implies(k_ != task, work(L, k_) == work(L0(c), k_)), patterns=[work(L, k_)]),
                       ForAll([r_, d_], Implies(Or(r_ != res, untouched(c, d_)), tot(L, r_, d_) == tot(L0(c), r_, d_)), patterns=[tot(L, r_, d_)]),
                       ForAll([r_, d_, k_], Implies(Or(r_ != res, untouched(c, d_), k_ != task), totT(L, r_, d_, k_) == totT(L0(c), r_, d_, k_)), patterns=[totT(L, r_, d_, k_)]),
                       ForAll([r_, d_], tot(L, r_, d_) >= tot(L0(c), r_, d_), patterns=[tot(L, r_, d_)]),
                       ForAll([r_, d_, k_], totT(L, r_, d_, k_) >= totT(L0(c), r_, d_, k_), patterns=[totT(L, r_, d_, k_)]),
                       # C08 / C09 tightness: every day visited so far (the current one too while work is left) is full
                       ForAll([d_], Implies(Or(visited(c, d_), And(d_ == D(c), c['days'] > 0, left > 0)), bk(c, L, d_) >= cap(res, d_))),
                       Implies(And(c['days'] > 0, left <= 0), And(cap(res, D(c)) > 0, bk(c, L, D(c)) > 0, bk(c, L, D(c)) <= cap(res, D(c)), totT(L, res, D(c), task) > totT(L0(c), res, D(c), task))),
                       Implies(c['days'] == 0, And(left == left0(c), L == L0(c))))
        LP = list(LedInvParts(None, None)) if False else ['totals-non-negative', 'task-part-within-total', 'day-total-within-capacity (balancing on)',
                                                            'task-total-within-capacity (balancing off)', 'rows-only-on-days-with-capacity', 'rows-are-day-normalised']
        led = lambda lab: (lambda c: LedInvParts(rows_of(c), bal(c))[lab])
        invs = [('main', inv_main)] + [('C03/ledger/' + l, led(l)) for l in LP]
        if fwd:
            invs.append(('last-capacity', lambda c: Implies(c['days'] > 0, c['date_available_units'] == cap(c['resource'], D(c)))))
        locs = {'days': INT, 'date': TIME, 'left_hours': REAL, 'reserved': REAL, 'max_available': REAL, 'percent': REAL}
        if fwd: locs['date_available_units'] = REAL

        def last(c):     # last day handled (only meaningful when the loop ran)
            return D(c)

        def post(part):
            def f(c):
                L = rows_of(c); res = c['resource']; task = c['task']
                if 'days' not in c.st.env:          # early return: left_hours == 0
                    return {'C04/conservation': work(L, task) == work(L0(c), task) + left0(c), 'C04/zero-work-returns-the-date-and-reserves-nothing': And(c.result.e == c.old('start_date'), L == L0(c)),
                            'C03/ledger': And(LedInv(L, bal(c)), wf(L))}.get(part, BoolVal(True))
                Dl = last(c); r = c.result.e
                common = {
                    'C04/conservation': work(L, task) == work(L0(c), task) + left0(c),
                    'C04/zero-work-returns-the-date-and-reserves-nothing': left0(c) > 0,
                    'C04,C08/other-tasks-untouched': ForAll([k_], Implies(k_ != task, work(L, k_) == work(L0(c), k_))),
                    'C03/ledger': And(LedInv(L, bal(c)), wf(L)),
                    'C03,C04/ledger-only-grows': And(ForAll([r_, d_], tot(L, r_, d_) >= tot(L0(c), r_, d_)), ForAll([r_, d_, k_], totT(L, r_, d_, k_) >= totT(L0(c), r_, d_, k_))),
                    'capacity-on-last-day': cap(res, Dl) > 0,
                }
                if fwd:
                    common.update({
                        'C02,C04/no-row-before-the-start-day': ForAll([r_, d_], Implies(d_ < day0(c), tot(L, r_, d_) == tot(L0(c), r_, d_))),
                        'C04/last-day-not-before-start-day': Dl >= day0(c),
                        'C04/end-within-24h-after-last-reserved-midnight': And(r > 86400 * ToReal(Dl), r <= 86400 * ToReal(Dl + 1)),
                        'C08/end-encodes-share-booked-up-to-the-task': r * cap(res, Dl) == 86400 * ToReal(Dl) * cap(res, Dl) + 86400 * bk(c, L, Dl),
                        'C08/days-before-the-last-work-day-are-full': ForAll([d2_], Implies(And(d2_ >= day0(c), d2_ < Dl), bk(c, L, d2_) >= cap(res, d2_))),
                        'C04/task-has-a-row-on-the-last-day': totT(L, res, Dl, task) > totT(L0(c), res, Dl, task),
                    })
                else:
                    common.update({
                        'C04/no-row-on-or-after-the-end-day': ForAll([r_, d_], Implies(d_ >= day0(c), tot(L, r_, d_) == tot(L0(c), r_, d_))),
                        'C09/first-work-day-before-end-day': Dl < day0(c),
                        'C04,C09/start-within-the-first-reserved-day': And(r >= 86400 * ToReal(Dl), r < 86400 * ToReal(Dl + 1)),
                        'C09/start-encodes-share-booked-up-to-the-task': r * cap(res, Dl) == 86400 * ToReal(Dl + 1) * cap(res, Dl) - 86400 * bk(c, L, Dl),
                        'C09/days-between-first-and-last-work-day-are-full': ForAll([d2_], Implies(And(d2_ > Dl, d2_ < day0(c)), bk(c, L, d2_) >= cap(res, d2_))),
                        'C04/task-has-a-row-on-the-first-day': totT(L, res, Dl, task) > totT(L0(c), res, Dl, task),
                    })
                return common[part]
            return f
        parts = ['C04/conservation', 'C04/zero-work-returns-the-date-and-reserves-nothing', 'C04,C08/other-tasks-untouched', 'C03/ledger', 'C03,C04/ledger-only-grows', 'capacity-on-last-day']
        parts += ['C02,C04/no-row-before-the-start-day', 'C04/last-day-not-before-start-day', 'C04/end-within-24h-after-last-reserved-midnight', 'C08/end-encodes-share-booked-up-to-the-task',
                  'C08/days-before-the-last-work-day-are-full', 'C04/task-has-a-row-on-the-last-day'] if fwd else \
                 ['C04/no-row-on-or-after-the-end-day', 'C09/first-work-day-before-end-day', 'C04,C09/start-within-the-first-reserved-day', 'C09/start-encodes-share-booked-up-to-the-task',
                  'C09/days-between-first-and-last-work-day-are-full', 'C04/task-has-a-row-on-the-first-day']
        fc = {'sig': {'self': R, 'resource': IR, 'resource_usage': RU, 'start_date': TIME, 'task': TK, 'left_hours': REAL, 'max_steps': INT},
              'locals': locs, 'requires': [('pre', req)],
              'loops': {0: {'fingerprint': 'while left_hours > 0', 'invariant': invs, 'havoc_heap': ['_ResourceUsage.rows'],
                            'decreases': lambda c: c['max_steps'] + 1 - c['days']}},
              'raises': {'RuntimeError': [('C03/ledger/' + l, led(l)) for l in LP] +
                                         [('C14/only-when-the-horizon-is-exhausted', lambda c: c['days'] > c['max_steps'])]},
              'ensures': [(p, post(p)) for p in parts]}
        return Engine(F, f'{cls}.__shift_by_resource_usage_and_calendar', KERNEL_CONTRACTS, SCHED_CLASSES, fc), LEDGER_AX
    props = ['C03', 'C04', 'C14'] + (['C02', 'C08'] if fwd else ['C09'])
    return Unit(f'{cls}.__shift_by_resource_usage_and_calendar', F, build, props)


# ------------------------------------------------------------------------------------------------ availability searches
def nearest_unit(fwd):
    cls, R = sched_cls(fwd)

    def build():
        bal = lambda c: bal_of(c, cls)
        L = lambda c: rows_of(c)
        bk = lambda c, day: booked(bal(c), L(c), c['resource'], c['task'], day)
        # forward: first probed day = day(start); backward: the search looks at the day *before* the bound
        day0 = (lambda c: dayidx(c.old('start_date'))) if fwd else (lambda c: dayidx(c.old('start_date') - 86400))

        def req(c):
            return And(c['self'] != R.null, c['resource'] != IR.null, c['resource_usage'] != RU.null, c['task'] != TK.null, c['max_steps'] >= 0,
                       ForAll([r_, d_], tot(L(c), r_, d_) >= 0), ForAll([r_, d_, k_], totT(L(c), r_, d_, k_) >= 0))

        def inv(c):
            Dd = dayidx(c['d'])
            rng = (lambda d: And(d >= day0(c), d < Dd)) if fwd else (lambda d: And(d <= day0(c), d > Dd))
            return And(Dd >= day0(c) if fwd else Dd <= day0(c), L(c) == rows_of(c, 'entry'),
                       ForAll([d_], Implies(rng(d_), bk(c, d_) >= cap(c['resource'], d_))))

        def post(part):
            def f(c):
                r = c.result.e; res = c['resource']
                if fwd:
                    Dr = dayidx(r)
                    return {'C02,C08/day-not-before-the-release-day': Dr >= day0(c),
                            'C03,C08/day-has-free-capacity': And(cap(res, Dr) > 0, bk(c, Dr) < cap(res, Dr)),
                            'C08/skipped-days-are-fully-booked': ForAll([d_], Implies(And(d_ >= day0(c), d_ < Dr), bk(c, d_) >= cap(res, d_))),
                            'C08/start-encodes-share-booked-before-the-task': r * cap(res, Dr) == 86400 * ToReal(Dr) * cap(res, Dr) + 86400 * bk(c, Dr),
                            'C04,C08/start-within-that-day': And(r >= 86400 * ToReal(Dr), r < 86400 * ToReal(Dr + 1)),
                            'C06/ledger-untouched': L(c) == rows_of(c, 'pre')}[part]
                # backward: result = midnight(D) - 24h * share booked before the task; the caller adds one day (end = next midnight - share)
                Dr = Int('Dr')
                body = lambda Dq: {'C09/day-not-after-the-day-before-the-bound': Dq <= day0(c),
                                   'C03,C09/day-has-free-capacity': And(cap(res, Dq) > 0, bk(c, Dq) < cap(res, Dq)),
                                   'C09/skipped-days-are-fully-booked': ForAll([d_], Implies(And(d_ <= day0(c), d_ > Dq), bk(c, d_) >= cap(res, d_))),
                                   'C09/end-encodes-share-booked-before-the-task': (r + 86400) * cap(res, Dq) == 86400 * ToReal(Dq + 1) * cap(res, Dq) - 86400 * bk(c, Dq),
                                   'C09/end-within-that-day': And(r + 86400 > 86400 * ToReal(Dq), r + 86400 <= 86400 * ToReal(Dq + 1))}
                if part == 'C06/ledger-untouched': return L(c) == rows_of(c, 'pre')
                Dq = dayidx(c['d']) if False else None
                # the day found is the loop's last `d` (before re-encoding); it is not recoverable from the result when the share is 0, so it is named through a ghost
                Dg = c.st.ghost.get('found_day')
                return body(Dg)[part] if Dg is not None else BoolVal(False)
            return f
        fparts = ['C02,C08/day-not-before-the-release-day', 'C03,C08/day-has-free-capacity', 'C08/skipped-days-are-fully-booked', 'C08/start-encodes-share-booked-before-the-task',
                  'C04,C08/start-within-that-day', 'C06/ledger-untouched']
        bparts = ['C09/day-not-after-the-day-before-the-bound', 'C03,C09/day-has-free-capacity', 'C09/skipped-days-are-fully-booked', 'C09/end-encodes-share-booked-before-the-task',
                  'C09/end-within-that-day', 'C06/ledger-untouched']

        class GhostDay:
            """records the day index the search stopped on (ghost `found_day`) when the real code re-assigns d before returning"""
            @staticmethod
            def ex_Assign(eng, stmt, st):
                if not fwd and isinstance(stmt.targets[0], ast.Name) and stmt.targets[0].id == 'd' and 'percent' in ast.unparse(stmt.value):
                    st.ghost['found_day'] = dayidx(st.env['d'].e)
                return NotImplemented
        fc = {'sig': {'self': R, 'resource': IR, 'resource_usage': RU, 'start_date': TIME, 'task': TK, 'max_steps': INT},
              'locals': {'d': TIME, 'i': INT, 'reserved': REAL, 'available': REAL, 'percent': REAL},
              'requires': [('pre', req)],
              'loops': {0: {'fingerprint': 'for i in range(0, max_steps)', 'invariant': [('skipped-days-full', inv)]}},
              'raises': {'RuntimeError': [('C06/ledger-untouched', lambda c: L(c) == rows_of(c, 'pre'))]},
              'ensures': [(p, post(p)) for p in (fparts if fwd else bparts)]}
        return Engine(F, f'{cls}.__get_resource_nearest_available_date', KERNEL_CONTRACTS, SCHED_CLASSES, fc, plugins=[GhostDay]), LEDGER_AX
    props = ['C03', 'C06', 'C14'] + (['C02', 'C04', 'C08'] if fwd else ['C09'])
    return Unit(f'{cls}.__get_resource_nearest_available_date', F, build, props)


UNITS = [shift_unit(True), shift_unit(False), nearest_unit(True), nearest_unit(False)]


# ------------------------------------------------------------------------------------------------ the ledger itself
COMP = S('Comp', None)


class LedgerPlugin:
    """Python-level view of the ledger: `rows.append(ResourceUsageRow(...))`, row attribute access, and
    `sum([item.units for item in rows if cond], 0)` proved equal to the sidecar's specification term by induction on the
    construction of the ledger (base + step obligations; the induction schema for snoc-lists is the meta-rule)."""

    def __init__(self, sum_specs):
        self.sum_specs = sum_specs; self.nsum = 0

    def ev_Attribute(self, eng, e, st):
        if not isinstance(e.ctx, ast.Load): return NotImplemented
        try:
            s, o = eng.ev1(e.value, st)
        except Unsupported:
            return NotImplemented
        if o.s == ROW:
            acc = {'resource': (r_res, IR), 'date': (r_date, TIME), 'task': (r_task, TK), 'units': (r_units, REAL)}
            if e.attr not in acc: raise Unsupported('row attribute ' + e.attr)
            f, srt = acc[e.attr]
            return [(s, V(f(o.e), srt))]
        return NotImplemented

    def ev_ListComp(self, eng, e, st):
        if len(e.generators) != 1: return NotImplemented
        g = e.generators[0]
        s, src = eng.ev1(g.iter, st)
        if src.s != Led: return NotImplemented
        return [(s, V(('comp', src.e, e.elt, list(g.ifs), g.target.id), COMP))]

    def call(self, eng, e, st):
        f = e.func
        if isinstance(f, ast.Name) and f.id == 'ResourceUsageRow' and len(e.args) == 4:
            out = []
            for s, vs in eng.ev_seq(e.args, st):
                if isinstance(vs, Raise): out.append((s, vs)); continue
                out.append((s, V(mkrow(vs[0].e, eng.as_sort(s, vs[1], TIME, 'safe/TypeError-None-date'), vs[2].e, eng.coerce(vs[3], REAL)), ROW)))
            return out
        if isinstance(f, ast.Attribute) and f.attr == 'append' and len(e.args) == 1:
            tgt = f.value
            if isinstance(tgt, ast.Attribute):
                s, o = eng.ev1(tgt.value, st)
                if o.s.is_ref and eng.classes.get(o.s.cls, {}).get(eng.mangle(tgt.attr)) == Led:
                    s, x = eng.ev1(e.args[0], s)
                    if x.s != ROW: raise Unsupported('append of a non-row to the ledger')
                    key = o.s.cls + '.' + eng.mangle(tgt.attr); fld = eng.field(s, o.s.cls, eng.mangle(tgt.attr))
                    s.oblige('safe/AttributeError-None', o.e != o.s.null, f'@{e.lineno}')
                    nl = fresh('rows', Led); s.assume(nl == app(Select(fld, o.e), x.e))
                    eng.write(s, key, Store(fld, o.e, nl))
                    return [(s, V(None, NONE))]
        if isinstance(f, ast.Name) and f.id == 'sum' and len(e.args) == 2:
            s, c = eng.ev1(e.args[0], st)
            if c.s != COMP: return NotImplemented
            s, z = eng.ev1(e.args[1], s)
            _, L, elt, ifs, var = c.e
            k = self.nsum; self.nsum += 1
            spec = self.sum_specs[k]
            ctx = Ctx(eng, s, pre=eng.pre_state)
            # induction: base
            s.oblige(f'lemma/sum#{k}-is-spec/base', spec(ctx, nil) == eng.coerce(z, REAL), f'@{e.lineno}')
            # induction: step for an arbitrary well-formed ledger Lq extended by an arbitrary row xq
            Lq = fresh('Lq', Led); xq = fresh('xq', ROW)
            s2 = s.fork(); s2.env = dict(s.env); s2.env[var] = V(xq, ROW)
            s2.assume(wf(app(Lq, xq)))
            conds = []
            for cnd in ifs:
                s2, cv = eng.ev1(cnd, s2); conds.append(eng.truth(s2, cv))
            s2, ev_ = eng.ev1(elt, s2)
            step = spec(ctx, app(Lq, xq)) == spec(ctx, Lq) + If(And(*conds) if conds else BoolVal(True), eng.coerce(ev_, REAL), 0)
            s2.oblige(f'lemma/sum#{k}-is-spec/step', step, f'@{e.lineno}')
            s.obs = s2.obs if s2.obs is not s.obs else s.obs
            s.oblige(f'lemma/sum#{k}-is-spec/ledger-well-formed', wf(L), f'@{e.lineno}')
            return [(s, V(spec(ctx, L), REAL))]
        return NotImplemented


def c_get_key(eng, st, recv, args, kws, node):
    return [(st, V(midnight(eng.as_sort(st, args[0], TIME, 'safe/AttributeError-None')), TIME))]


def c_res_reserve(eng, st, recv, args, kws, node):
    """IResource.reserve(date, task, units): hook for subclasses, `pass` in the repository; interface assumption: it does
    not touch the ledger or the tasks"""
    return [(st, V(None, NONE))]


def ledger_units():
    def build_reserve():
        rows = lambda c, which='cur': Select(c.fld('_ResourceUsage', 'rows', which), c['self'])
        fc = {'sig': {'self': RU, 'resource': IR, 'date': TIME, 'task': TK, 'units': REAL},
              'requires': [('nn', lambda c: And(c['self'] != RU.null, c['resource'] != IR.null))],
              'ensures': [('C03/appends-exactly-one-day-normalised-row', lambda c: rows(c) == app(rows(c, 'pre'), mkrow(c['resource'], midnight(c['date']), c['task'], c['units']))),
                          ('C03,C04/returns-the-units', lambda c: c.eng.coerce(c.result, REAL) == c['units'])]}
        return Engine(F, '_ResourceUsage.reserve', {'_ResourceUsage._ResourceUsage__get_key': c_get_key, 'IResource.reserve': c_res_reserve}, SCHED_CLASSES, fc,
                      plugins=[LedgerPlugin([])]), LEDGER_AX

    def build_reserved():
        rows = lambda c: Select(c.fld('_ResourceUsage', 'rows'), c['self'])
        specs = [lambda c, L: tot(L, c['resource'], dayidx(c['date'])), lambda c, L: totT(L, c['resource'], dayidx(c['date']), c['task'])]
        fc = {'sig': {'self': RU, 'resource': IR, 'date': TIME, 'task': TK},
              'requires': [('nn', lambda c: c['self'] != RU.null), ('C03/ledger-rows-are-day-normalised', lambda c: wf(rows(c)))],
              'ensures': [('C03/total-of-the-day-or-of-the-task-on-that-day',
                           lambda c: c.eng.coerce(c.result, REAL) == If(c['task'] == TK.null, tot(rows(c), c['resource'], dayidx(c['date'])), totT(rows(c), c['resource'], dayidx(c['date']), c['task'])))]}
        return Engine(F, '_ResourceUsage.reserved', {'_ResourceUsage._ResourceUsage__get_key': c_get_key}, SCHED_CLASSES, fc, plugins=[LedgerPlugin(specs)]), LEDGER_AX

    def build_report_reserved():
        rows = lambda c: Select(c.fld('ResourceUsageReport', '_ResourceUsageReport__rows'), c['self'])
        specs = [lambda c, L: tot(L, c['resource'], dayidx(c['date']))]
        fc = {'sig': {'self': RUR, 'resource': IR, 'date': TIME},
              'requires': [('nn', lambda c: c['self'] != RUR.null), ('C03/ledger-rows-are-day-normalised', lambda c: wf(rows(c))),
                           ('queried-date-is-a-day', lambda c: c['date'] == midnight(c['date']))],
              'ensures': [('C03/report-total-agrees-with-its-rows', lambda c: c.eng.coerce(c.result, REAL) == tot(rows(c), c['resource'], dayidx(c['date'])))]}
        return Engine(F, 'ResourceUsageReport.reserved', {}, SCHED_CLASSES, fc, plugins=[LedgerPlugin(specs)]), LEDGER_AX
    def build_get_key():
        fc = {'sig': {'date': TIME}, 'ensures': [('C03,C04,C08,C09/day-key-is-the-midnight-of-the-date', lambda c: And(c.result.e == midnight(c['date']), c.result.e <= c['date'], c['date'] < c.result.e + 86400))]}
        return Engine(F, '_ResourceUsage.__get_key', {}, {}, fc), []
    return [Unit('_ResourceUsage.__get_key', F, build_get_key, ['C03', 'C04', 'C08', 'C09']), Unit('_ResourceUsage.reserve', F, build_reserve, ['C03', 'C04']), Unit('_ResourceUsage.reserved', F, build_reserved, ['C03']),
            Unit('ResourceUsageReport.reserved', F, build_report_reserved, ['C03'])]


UNITS += ledger_units()


# ------------------------------------------------------------------------------------------------ trivial constructors of the ledger objects (used by calc by contract)
def ledger_ctor_units():
    class EmptyRows:
        @staticmethod
        def ev_List(eng, e, st):
            if e.elts: return NotImplemented
            return [(st, V(nil, Led))]          # rows = []: the empty ledger

    def build_usage():
        fc = {'sig': {'self': RU}, 'requires': [('nn', lambda c: c['self'] != RU.null)],
              'ensures': [('C03,C04/a-new-ledger-is-empty', lambda c: Select(c.fld('_ResourceUsage', 'rows'), c['self']) == nil)]}
        return Engine(F, '_ResourceUsage.__init__', {}, SCHED_CLASSES, fc, plugins=[EmptyRows]), LEDGER_AX

    def build_report():
        fc = {'sig': {'self': RUR, 'rows': Led}, 'requires': [('nn', lambda c: c['self'] != RUR.null)],
              'ensures': [('C03/the-report-reads-the-rows-handed-in', lambda c: Select(c.fld('ResourceUsageReport', '_ResourceUsageReport__rows'), c['self']) == c['rows'])]}
        return Engine(F, 'ResourceUsageReport.__init__', {}, SCHED_CLASSES, fc), []
    return [Unit('_ResourceUsage.__init__', F, build_usage, ['C03', 'C04']), Unit('ResourceUsageReport.__init__', F, build_report, ['C03'])]


UNITS += ledger_ctor_units()
