"""Sidecar contracts for pjplan/calendar.py and pjplan/resource.py (C17; interface contracts used by C03/C04/C08/C09).

Nothing here is imported by pjplan; pyvc reads it next to the AST of the real files.

Interface contract (assumed, L): `IWorkCalendar.get_available_units(date)` of an arbitrary (possibly nested) calendar is
a pure function val(calendar, date) : Opt[Real] - any implementation of the interface.  Every concrete class of the
repository is then proved to return *its* specified value.
"""
from z3 import *
from pyvc.core import *
from pyvc.unit import Unit

F = 'pjplan/calendar.py'
CAL = REF('IWorkCalendar'); OR = OPT(REAL); LC = LIST(CAL); OT = OPT(TIME)
val = Function('val', CAL.z, RealSort(), OR.z)
weekday = Function('weekday', RealSort(), IntSort())          # weekday(date) in 0..6, constant within a day
DICT_IR = S('Dict[Int,Real]', DeclareSort('DictIR')); d_has = Function('dIR_has', DICT_IR.z, IntSort(), BoolSort()); d_get = Function('dIR_get', DICT_IR.z, IntSort(), RealSort())
DICT_TR = S('Dict[Time,Real]', DeclareSort('DictTR')); t_has = Function('dTR_has', DICT_TR.z, RealSort(), BoolSort()); t_get = Function('dTR_get', DICT_TR.z, RealSort(), OR.z)

_t = Real('_t')
TIME_AX = [ForAll([_t], And(weekday(_t) >= 0, weekday(_t) <= 6), patterns=[weekday(_t)])]


def c_get_units(eng, st, recv, args, kws, node):
    d = eng.as_sort(st, args[0], TIME, 'safe/TypeError-None-date')
    return [(st, V(val(recv.e, d), OR))]


def mkfold(name, op):
    """fold spec function over the operand list: operands without information are skipped, the first one with
    information starts the accumulator (property sentence of C17)"""
    f = Function(name, LC.z, IntSort(), RealSort(), OR.z)
    l = Const('l', LC.z); n = Int('n'); d = Real('d')
    v = val(LC.at(l, n), d); acc = f(l, n, d)
    step = If(OR.dt.is_none(v), acc, If(OR.dt.is_none(acc), v, OR.dt.some(op(OR.dt.val(acc), OR.dt.val(v)))))
    ax = [ForAll([l, d], f(l, 0, d) == OR.dt.none), ForAll([l, n, d], Implies(n >= 0, f(l, n + 1, d) == step), patterns=[f(l, n + 1, d)])]
    return f, ax


class DictPlugin:
    """`k in d`, `d[k]` for the two dict-valued fields of the calendar classes (assumed contract of dict lookup, T1)"""

    @staticmethod
    def cmp(eng, st, k, l, r, line):
        if k in ('In', 'NotIn') and r.s == DICT_TR:
            c = t_has(r.e, eng.coerce(l, TIME)); return c if k == 'In' else Not(c)
        if k in ('In', 'NotIn') and r.s == DICT_IR:
            c = d_has(r.e, l.e); return c if k == 'In' else Not(c)
        return NotImplemented

    @staticmethod
    def ev_Subscript(eng, e, st):
        if isinstance(e.slice, ast.Slice): return NotImplemented
        s, o = eng.ev1(e.value, st)
        if o.s == DICT_TR:
            s, i = eng.ev1(e.slice, s); key = eng.coerce(i, TIME)
            s.oblige('safe/KeyError', t_has(o.e, key), f'@{e.lineno}')
            return [(s, V(t_get(o.e, key), OR))]
        if o.s == DICT_IR:
            s, i = eng.ev1(e.slice, s)
            s.oblige('safe/KeyError', d_has(o.e, i.e), f'@{e.lineno}')
            return [(s, V(d_get(o.e, i.e), REAL))]
        return NotImplemented

    @staticmethod
    def call(eng, e, st):
        f = e.func
        if isinstance(f, ast.Attribute) and f.attr == 'weekday' and not e.args:
            s, v = eng.ev1(f.value, st)
            return [(s, V(weekday(eng.as_sort(s, v, TIME, 'safe/AttributeError-None')), INT))]
        return NotImplemented


import ast

_q = Int('_q')


def combinator_unit(cls, op, post_kind):
    def build():
        fold, ax = mkfold('fold_' + cls, op)
        fld = f'_{cls}__calendars'
        classes = {cls: {fld: LC}}
        cals = lambda c, which='cur': Select(c.fld(cls, fld, which), c['self'])
        lim = lambda c: LC.len(cals(c))

        def spec(c):
            f = fold(cals(c), lim(c), c['date'])
            r = c.eng.coerce(c.result, OR)
            if post_kind == 'sub':
                return r == If(Or(OR.dt.is_none(f), OR.dt.val(f) < 0), OR.dt.none, f)
            return r == f
        reqs = [('nn', lambda c: c['self'] != REF(cls).null),
                ('operands-non-null', lambda c: ForAll([_q], Implies(And(0 <= _q, _q < lim(c)), LC.at(cals(c), _q) != CAL.null)))]
        if post_kind == 'div':
            # division by an operand whose value is 0 raises ZeroDivisionError in Python: outside the contract (assumption A-div)
            reqs.append(('divisors-non-zero', lambda c: ForAll([_q], Implies(And(1 <= _q, _q < lim(c), OR.dt.is_some(val(LC.at(cals(c), _q), c['date']))),
                                                                           OR.dt.val(val(LC.at(cals(c), _q), c['date'])) != 0))))
        fc = {'sig': {'self': REF(cls), 'date': TIME}, 'locals': {'units': OR, 'c_units': OR},
              'requires': reqs,
              'loops': {0: {'fingerprint': 'for c in self.__calendars',
                            'invariant': [('fold', lambda c: c.eng.coerce(c.val('units'), OR) == fold(cals(c), c['_i0'], c['date'])),
                                          ('idx', lambda c: And(c['_i0'] >= 0, c['_i0'] <= lim(c)))]}},
              'ensures': [('C17/value-is-the-operator-folded-over-the-operands', spec)]}
        if post_kind == 'div':
            # the first operand with information is never a divisor; for the others the pre-condition excludes zero
            fc['loops'][0]['invariant'].append(('first', lambda c: Implies(OR.dt.is_none(c.eng.coerce(c.val('units'), OR)),
                                                                          ForAll([_q], Implies(And(0 <= _q, _q < c['_i0']), OR.dt.is_none(val(LC.at(cals(c), _q), c['date'])))))))
        eng = Engine(F, f'{cls}.get_available_units', {'IWorkCalendar.get_available_units': c_get_units}, classes, fc)
        return eng, ax
    return Unit(f'{cls}.get_available_units', F, build, ['C17'])


def disjunction_unit():
    cls = 'WorkCalendarDisjunction'; fld = f'_{cls}__calendars'

    def build():
        classes = {cls: {fld: LC}}
        cals = lambda c: Select(c.fld(cls, fld), c['self'])
        pos = lambda c, j: And(OR.dt.is_some(val(LC.at(cals(c), j), c['date'])), OR.dt.val(val(LC.at(cals(c), j), c['date'])) > 0)

        def spec(c):
            r = c.eng.coerce(c.result, OR); k = Int('k')
            return Or(And(OR.dt.is_none(r), ForAll([_q], Implies(And(0 <= _q, _q < LC.len(cals(c))), Not(pos(c, _q))))),
                      Exists([k], And(0 <= k, k < LC.len(cals(c)), pos(c, k), r == val(LC.at(cals(c), k), c['date']),
                                      ForAll([_q], Implies(And(0 <= _q, _q < k), Not(pos(c, _q)))))))
        fc = {'sig': {'self': REF(cls), 'date': TIME}, 'locals': {'units': OR},
              'requires': [('nn', lambda c: c['self'] != REF(cls).null),
                           ('operands-non-null', lambda c: ForAll([_q], Implies(And(0 <= _q, _q < LC.len(cals(c))), LC.at(cals(c), _q) != CAL.null)))],
              'loops': {0: {'fingerprint': 'for c in self.__calendars',
                            'invariant': [('none-positive-before', lambda c: ForAll([_q], Implies(And(0 <= _q, _q < c['_i0']), Not(pos(c, _q))))),
                                          ('idx', lambda c: And(c['_i0'] >= 0, c['_i0'] <= LC.len(cals(c))))]}},
              'ensures': [('C17/first-positive-operand-or-None', spec)]}
        return Engine(F, f'{cls}.get_available_units', {'IWorkCalendar.get_available_units': c_get_units}, classes, fc), []
    return Unit(f'{cls}.get_available_units', F, build, ['C17'])


def fixed_units():
    cls = 'FixedCalendar'; R = REF(cls)
    classes = {cls: {'_FixedCalendar__units': REAL, '_FixedCalendar__start': OT, '_FixedCalendar__end': OT}}
    g = lambda c, f, which='cur': Select(c.fld(cls, '_FixedCalendar__' + f, which), c['self'])

    def build_get():
        def spec(c):
            d = c['date']; st, en = g(c, 'start'), g(c, 'end')
            outside = Or(And(OT.dt.is_some(st), d < OT.dt.val(st)), And(OT.dt.is_some(en), d > OT.dt.val(en)))
            return c.eng.coerce(c.result, OR) == OR.dt.some(If(outside, 0, g(c, 'units')))
        fc = {'sig': {'self': R, 'date': TIME}, 'requires': [('nn', lambda c: c['self'] != R.null)],
              'ensures': [('C17/configured-value-inside-validity-zero-outside', spec)]}
        return Engine(F, 'FixedCalendar.get_available_units', {}, classes, fc), []

    def build_init():
        bad = lambda c: Or(c.old('units') < 0, And(OT.dt.is_some(c.old('start')), OT.dt.is_some(c.old('end')), OT.dt.val(c.old('start')) > OT.dt.val(c.old('end'))))
        fc = {'sig': {'self': R, 'units': REAL, 'start': OT, 'end': OT}, 'requires': [('nn', lambda c: c['self'] != R.null)],
              'raises': {'RuntimeError': [('C17/rejected-only-if-negative-or-start-after-end', lambda c: bad(c))]},
              'ensures': [('C17/accepted-only-if-well-formed', lambda c: Not(bad(c))),
                          ('C17/fields-hold-the-arguments', lambda c: And(g(c, 'units') == c.old('units'), g(c, 'start') == c.old('start'), g(c, 'end') == c.old('end')))]}
        return Engine(F, 'FixedCalendar.__init__', {}, classes, fc), []
    return [Unit('FixedCalendar.get_available_units', F, build_get, ['C17']), Unit('FixedCalendar.__init__', F, build_init, ['C17'])]


def c_day_start(eng, st, recv, args, kws, node):
    return [(st, V(midnight(eng.as_sort(st, args[0], TIME, 'safe/AttributeError-None')), TIME))]


def direct_units():
    cls = 'DirectCalendar'; R = REF(cls)
    classes = {cls: {'_DirectCalendar__units': DICT_TR}}

    def build_get():
        u = lambda c: Select(c.fld(cls, '_DirectCalendar__units'), c['self'])

        def spec(c):
            k = midnight(c['date'])
            return c.eng.coerce(c.result, OR) == If(t_has(u(c), k), t_get(u(c), k), OR.dt.none)
        fc = {'sig': {'self': R, 'date': TIME}, 'locals': {'key': TIME}, 'requires': [('nn', lambda c: c['self'] != R.null)],
              'ensures': [('C17/value-configured-for-the-day-else-None', spec)]}
        return Engine(F, 'DirectCalendar.get_available_units', {'fn:_day_start': c_day_start}, classes, fc, plugins=[DictPlugin]), []

    def build_daystart():
        fc = {'sig': {'d': TIME}, 'ensures': [('C17/day-start-is-midnight', lambda c: And(c.result.e == midnight(c['d']), c.result.e <= c['d'], c['d'] < c.result.e + 86400))]}
        return Engine(F, '_day_start', {}, {}, fc), []
    return [Unit('DirectCalendar.get_available_units', F, build_get, ['C17']), Unit('_day_start', F, build_daystart, ['C17', 'C03'])]


def weekly_units():
    cls = 'WeeklyCalendar'; R = REF(cls)
    classes = {cls: {'_WeeklyCalendar__day_hours': DICT_IR, '_WeeklyCalendar__start': OT, '_WeeklyCalendar__end': OT}}
    g = lambda c, f: Select(c.fld(cls, '_WeeklyCalendar__' + f), c['self'])

    def build_get():
        def spec(c):
            d = c['date']; st, en = g(c, 'start'), g(c, 'end')
            outside = Or(And(OT.dt.is_some(st), d < OT.dt.val(st)), And(OT.dt.is_some(en), d > OT.dt.val(en)))
            return c.eng.coerce(c.result, OR) == If(outside, OR.dt.none, OR.dt.some(d_get(g(c, 'day_hours'), weekday(d))))
        k = Int('k')
        fc = {'sig': {'self': R, 'date': TIME},
              'requires': [('nn', lambda c: c['self'] != R.null),
                           ('class-invariant: one entry per weekday (established by __init__)', lambda c: ForAll([k], Implies(And(0 <= k, k <= 6), d_has(g(c, 'day_hours'), k))))],
              'ensures': [('C17/weekday-value-inside-validity-None-outside', spec)]}
        return Engine(F, 'WeeklyCalendar.get_available_units', {}, classes, fc, plugins=[DictPlugin]), TIME_AX

    def build_check_se():
        bad = lambda c: And(OT.dt.is_some(c.old('start')), OT.dt.is_some(c.old('end')), OT.dt.val(c.old('start')) > OT.dt.val(c.old('end')))
        fc = {'sig': {'start': OT, 'end': OT},
              'raises': {'RuntimeError': [('C17/rejected-only-if-start-after-end', bad)]}, 'ensures': [('C17/accepted-only-if-start-not-after-end', lambda c: Not(bad(c)))]}
        return Engine(F, 'WeeklyCalendar.__check_start_end', {}, classes, fc), []

    def build_check_wd():
        LI = LIST(INT); OL = OPT(LI)
        # working_days: Opt[List[Int]]  (None allowed)
        wd = lambda c: c.old('working_days')
        bad = lambda c: And(OL.dt.is_some(wd(c)), Exists([_q], And(0 <= _q, _q < LI.len(OL.dt.val(wd(c))), Or(LI.at(OL.dt.val(wd(c)), _q) < 0, LI.at(OL.dt.val(wd(c)), _q) > 6))))

        class OptListPlugin:
            @staticmethod
            def for_loop(eng, stmt, st):
                s, seq = eng.ev1(stmt.iter, st)
                if seq.s != OL: return NotImplemented
                # the `is None` test above returned already: the value is a list here
                s.oblige('safe/TypeError-None-iteration', OL.dt.is_some(seq.e), f'@{stmt.lineno}')
                lit = Lit(V(OL.dt.val(seq.e), LI), stmt)
                import copy
                st2 = copy.copy(stmt); st2.iter = lit
                eng.loop_ids[id(st2)] = eng.loop_ids[id(stmt)]
                return Engine.ex_For(eng, st2, s)
        lst = lambda c: OL.dt.val(c['working_days'])
        fc = {'sig': {'working_days': OL},
              'loops': {0: {'fingerprint': 'for v in working_days',
                            'invariant': [('all-before-in-range', lambda c: ForAll([_q], Implies(And(0 <= _q, _q < c['_i0']), And(LI.at(lst(c), _q) >= 0, LI.at(lst(c), _q) <= 6)))),
                                          ('idx', lambda c: And(c['_i0'] >= 0, c['_i0'] <= LI.len(lst(c)), OL.dt.is_some(c['working_days'])))]}},
              'raises': {'RuntimeError': [('C17/rejected-only-if-a-weekday-is-outside-0-6', bad)]},
              'ensures': [('C17/accepted-only-if-all-weekdays-in-0-6', lambda c: Not(bad(c)))]}
        return Engine(F, 'WeeklyCalendar.__check_working_days', {}, classes, fc, plugins=[OptListPlugin]), []
    return [Unit('WeeklyCalendar.get_available_units', F, build_get, ['C17']),
            Unit('WeeklyCalendar.__check_start_end', F, build_check_se, ['C17']),
            Unit('WeeklyCalendar.__check_working_days', F, build_check_wd, ['C17'])]


# ---------------------------------------------------------------------------------------------- resource.py
FR = 'pjplan/resource.py'
IR = REF('IResource'); RES = REF('Resource'); TK = REF('Task')
avail = Function('avail', IR.z, RealSort(), RealSort())          # interface contract of IResource.get_available_units(date, task)


def resource_units():
    def build_res():
        classes = {'Resource': {'calendar': CAL, 'name': STR}}
        cal = lambda c: Select(c.fld('Resource', 'calendar'), c['self'])
        fc = {'sig': {'self': RES, 'date': TIME, 'task': TK}, 'locals': {'units': OR},
              'requires': [('nn', lambda c: And(c['self'] != RES.null, cal(c) != CAL.null))],
              'ensures': [('C17,C03/zero-where-the-calendar-has-no-information-never-None',
                           lambda c: c.eng.as_sort(c.st, c.result, REAL, 'ens/C17/never-None') == If(OR.dt.is_none(val(cal(c), c['date'])), 0, OR.dt.val(val(cal(c), c['date']))))]}
        return Engine(FR, 'Resource.get_available_units', {'IWorkCalendar.get_available_units': c_get_units}, classes, fc), []

    def build_nearest():
        classes = {'IResource': {'name': STR}}

        def c_avail(eng, st, recv, args, kws, node):
            return [(st, V(avail(recv.e, eng.as_sort(st, args[0], TIME, 'safe/TypeError-None-date')), REAL))]
        j = Int('j'); i = Int('i')

        def probe(c, k):
            d0 = c.old('start_date'); dr = c['direction']
            return If(dr < 0, d0 + 86400 * ToReal(k * dr) - 86400, d0 + 86400 * ToReal(k * dr))
        fc = {'sig': {'self': IR, 'start_date': TIME, 'direction': INT, 'max_days': INT}, 'locals': {'step': INT},
              'requires': [('pre', lambda c: And(c['self'] != IR.null, c['max_days'] >= 0, Or(c['direction'] == 1, c['direction'] == -1)))],
              'loops': {0: {'fingerprint': 'while step < max_days',
                            'invariant': [('pos', lambda c: And(c['step'] >= 0, c['start_date'] == c.old('start_date') + 86400 * ToReal(c['step'] * c['direction']))),
                                          ('none-before', lambda c: ForAll([j], Implies(And(0 <= j, j < c['step']), avail(c['self'], probe(c, j)) <= 0)))],
                            'decreases': lambda c: c['max_days'] - c['step']}},
              'raises': {'RuntimeError': [('C17/raises-only-if-no-availability-within-the-horizon',
                                           lambda c: ForAll([j], Implies(And(0 <= j, j < c['max_days']), avail(c['self'], probe(c, j)) <= 0)))]},
              'ensures': [('C17/earliest-whole-day-offset-with-capacity',
                           lambda c: Exists([j], And(0 <= j, j < c['max_days'], c.result.e == c.old('start_date') + 86400 * ToReal(j * c['direction']),
                                                     avail(c['self'], probe(c, j)) > 0,
                                                     ForAll([i], Implies(And(0 <= i, i < j), avail(c['self'], probe(c, i)) <= 0)))))]}
        return Engine(FR, 'IResource.get_nearest_availability_date', {'IResource.get_available_units': c_avail}, classes, fc), []
    return [Unit('Resource.get_available_units', FR, build_res, ['C17', 'C03']),
            Unit('IResource.get_nearest_availability_date', FR, build_nearest, ['C17', 'C14'])]


UNITS = [combinator_unit('WorkCalendarSum', lambda a, b: a + b, 'plain'),
         combinator_unit('WorkCalendarSub', lambda a, b: a - b, 'sub'),
         combinator_unit('WorkCalendarsMul', lambda a, b: a * b, 'plain'),
         combinator_unit('WorkCalendarDiv', lambda a, b: a / b, 'div'),
         disjunction_unit()] + fixed_units() + direct_units() + weekly_units() + resource_units()


# ================================================================================================ operators and remaining constructors
OPERAND = S('Operand', None)          # dynamically typed right operand of + - * / | : a number or a calendar
TYPEV = S('TypeOf', None); TYPEN = S('TypeName', None)
fixed_of = Function('FixedCalendar_of', RealSort(), CAL.z)      # the calendar built by FixedCalendar(n) (fresh object; identity irrelevant for the value semantics)
COMB = {'__add__': 'WorkCalendarSum', '__sub__': 'WorkCalendarSub', '__mul__': 'WorkCalendarsMul', '__truediv__': 'WorkCalendarDiv', '__or__': 'WorkCalendarDisjunction'}
new_comb = {c: Function('new_' + c, LC.z, CAL.z) for c in COMB.values()}      # the combinator object built from an operand list (upcast to the interface sort)
comb_ops = Function('combinator_operands', CAL.z, LC.z); comb_kind = Function('combinator_kind', CAL.z, IntSort())


class OperandPlugin:
    def call(self, eng, e, st):
        f = e.func
        if isinstance(f, ast.Name) and f.id == 'type' and len(e.args) == 1:
            s, v = eng.ev1(e.args[0], st)
            if v.s != OPERAND: return NotImplemented
            return [(s, V(v.e, TYPEV))]
        if isinstance(f, ast.Name) and f.id == 'FixedCalendar' and len(e.args) == 1:
            s, v = eng.ev1(e.args[0], st)
            if v.s != OPERAND: return NotImplemented
            isnum, num, cal = v.e
            s.oblige('safe/TypeError-FixedCalendar-of-a-non-number', isnum, f'@{e.lineno}')
            exc = s.fork(num < 0); ok = s.fork(num >= 0)              # contract of FixedCalendar.__init__ (its own unit): negative units are rejected
            dd = Real('dd')
            ok.assume(And(fixed_of(num) != CAL.null, ForAll([dd], val(fixed_of(num), dd) == OR.dt.some(num), patterns=[val(fixed_of(num), dd)])))   # contract of FixedCalendar.get_available_units without bounds
            return [(ok, V(fixed_of(num), CAL)), (exc, Raise('RuntimeError'))]
        if isinstance(f, ast.Name) and f.id in new_comb and len(e.args) == 1:
            out = []
            for s, v in eng.ev(e.args[0], st):
                if isinstance(v, Raise): out.append((s, v)); continue
                r = new_comb[f.id](v.e)
                s.assume(And(r != CAL.null, comb_ops(r) == v.e, comb_kind(r) == list(new_comb).index(f.id)))     # contract of the combinator constructors: store the operand list
                out.append((s, V(r, CAL)))
            return out
        return NotImplemented

    def ev_Name(self, eng, e, st):
        if e.id in ('int', 'float') and e.id not in st.env: return [(st, V(e.id, TYPEN))]
        return NotImplemented

    def ev_List(self, eng, e, st):
        out = []
        for s, vs in eng.ev_seq(e.elts, st):
            if isinstance(vs, Raise): out.append((s, vs)); continue
            if all(v.s == TYPEN for v in vs): out.append((s, V([v.e for v in vs], S('TypeList', None)))); continue
            if all(v.s == CAL for v in vs):
                Lc = fresh('ops', LC); s.assume(LC.len(Lc) == len(vs))
                for k, v in enumerate(vs): s.assume(LC.at(Lc, k) == v.e)
                out.append((s, V(Lc, LC))); continue
            return NotImplemented
        return out

    def cmp(self, eng, st, k, l, r, line):
        if k in ('In', 'NotIn') and l.s == TYPEV and r.s.name == 'TypeList':
            isnum = l.e[0]
            c = isnum if set(r.e) == {'int', 'float'} else None
            if c is None: raise Unsupported('type list')
            return c if k == 'In' else Not(c)
        if k in ('Eq', 'NotEq') and l.s == OPERAND and r.s == INT:
            isnum, num, cal = l.e
            c = And(isnum, num == ToReal(r.e))          # a calendar object is never equal to a number
            return c if k == 'Eq' else Not(c)
        return NotImplemented


def operand(name='other'):
    return V((Bool(name + '_is_number'), Real(name + '_number'), Const(name + '_calendar', CAL.z)), OPERAND)


def prepared(o):
    isnum, num, cal = o.e
    return If(isnum, fixed_of(num), cal)


def operator_units():
    units = []

    def mk_prepare():
        def build():
            o = operand()
            fc = {'sig': {}, 'globals': {'other': o},
                  'raises': {'RuntimeError': [('C17/a-negative-number-is-rejected', lambda c: And(o.e[0], o.e[1] < 0))]},
                  'ensures': [('C17/a-number-acts-as-a-constant-calendar-a-calendar-is-taken-as-it-is',
                               lambda c: And(c.result.s == CAL if False else BoolVal(True), (c.result.e if c.result.s == CAL else o.e[2]) == prepared(o), Implies(o.e[0], o.e[1] >= 0)))]}
            return Engine(F, 'IWorkCalendar.__prepare_calendar', {}, {}, fc, plugins=[OperandPlugin()]), []
        return Unit('IWorkCalendar.__prepare_calendar', F, build, ['C17'])
    units.append(mk_prepare())

    def c_prepare(eng, st, recv, args, kws, node):
        o = args[0]
        if o.s != OPERAND: raise Unsupported('__prepare_calendar argument')
        isnum, num, cal = o.e
        exc = st.fork(And(isnum, num < 0)); ok = st.fork(Not(And(isnum, num < 0)))
        dd = Real('dd')
        ok.assume(Implies(isnum, And(fixed_of(num) != CAL.null, ForAll([dd], val(fixed_of(num), dd) == OR.dt.some(num), patterns=[val(fixed_of(num), dd)]))))
        return [(ok, V(prepared(o), CAL)), (exc, Raise('RuntimeError'))]

    def mk_op(opname, comb):
        def build():
            o = operand()
            isnum, num, cal = o.e
            zero = And(isnum, num == 0)
            reject = Or(And(isnum, num < 0), zero) if opname == '__truediv__' else And(isnum, num < 0)
            res = lambda c: c.result.e

            def spec(c):
                r = res(c)
                return And(r != CAL.null, comb_kind(r) == list(new_comb).index(comb), LC.len(comb_ops(r)) == 2, LC.at(comb_ops(r), 0) == c['self'], LC.at(comb_ops(r), 1) == prepared(o))
            fc = {'sig': {'self': CAL}, 'globals': {'other': o},
                  'requires': [('nn', lambda c: And(c['self'] != CAL.null, Implies(Not(isnum), cal != CAL.null)))],
                  'raises': {'RuntimeError': [('C17/rejected-only-for-the-number-zero-as-divisor-or-a-negative-number' if opname == '__truediv__' else 'C17/rejected-only-for-a-negative-number', lambda c: reject)]},
                  'ensures': [(f'C17/result-is-the-{comb}-of-the-receiver-and-the-operand-(a-number-as-constant-calendar)', spec),
                              ('C17/accepted-only-if-not-rejectable', lambda c: Not(reject))]}
            return Engine(F, f'IWorkCalendar.{opname}', {'IWorkCalendar._IWorkCalendar__prepare_calendar': c_prepare}, {}, fc, plugins=[OperandPlugin()]), []
        return Unit(f'IWorkCalendar.{opname}', F, build, ['C17'])
    for opname, comb in COMB.items(): units.append(mk_op(opname, comb))
    return units


UNITS += operator_units()


# ------------------------------------------------------------------------------------------------ WeeklyCalendar.__init__
UPD = S('UnitsPerDay', None)          # dynamically typed argument: None | number | dict | anything else
LI = LIST(INT); OLI = OPT(LI)
d_put = Function('dIR_put', DICT_IR.z, IntSort(), RealSort(), DICT_IR.z); d_empty = Const('dIR_empty', DICT_IR.z); d_keys = Function('dIR_keys', DICT_IR.z, LI.z)
_d = Const('_d', DICT_IR.z); _k, _k2 = Ints('_k _k2'); _v = Real('_v'); _jj = Int('_jj')
DICT_AX = [ForAll([_k], Not(d_has(d_empty, _k)), patterns=[d_has(d_empty, _k)]),
           ForAll([_d, _k, _v, _k2], d_has(d_put(_d, _k, _v), _k2) == Or(_k2 == _k, d_has(_d, _k2)), patterns=[d_has(d_put(_d, _k, _v), _k2)]),
           ForAll([_d, _k, _v, _k2], d_get(d_put(_d, _k, _v), _k2) == If(_k2 == _k, _v, d_get(_d, _k2)), patterns=[d_get(d_put(_d, _k, _v), _k2)]),
           ForAll([_d], LI.len(d_keys(_d)) >= 0),
           ForAll([_d, _jj], Implies(And(0 <= _jj, _jj < LI.len(d_keys(_d))), d_has(_d, LI.at(d_keys(_d), _jj))), patterns=[LI.at(d_keys(_d), _jj)]),
           ForAll([_d, _k], Implies(d_has(_d, _k), Exists([_jj], And(0 <= _jj, _jj < LI.len(d_keys(_d)), LI.at(d_keys(_d), _jj) == _k))), patterns=[d_has(_d, _k)])]


def outside_0_6(L):
    return Exists([_jj], And(0 <= _jj, _jj < LI.len(L), Or(LI.at(L, _jj) < 0, LI.at(L, _jj) > 6)))


class WeeklyInitPlugin(DictPlugin):
    def call(self, eng, e, st):
        f = e.func
        if isinstance(f, ast.Name) and f.id == 'type' and len(e.args) == 1:
            s, v = eng.ev1(e.args[0], st)
            if v.s == UPD: return [(s, V(v.e, TYPEV))]
        if isinstance(f, ast.Name) and f.id == 'list' and len(e.args) == 1 and ast.unparse(e.args[0]).endswith('.keys()'):
            s, v = eng.ev1(e.args[0].func.value, st)
            if v.s == UPD:
                s.oblige('safe/AttributeError-keys-of-a-non-dict', v.e['isdict'], f'@{e.lineno}')
                return [(s, V(OLI.dt.some(d_keys(v.e['dict'])), OLI))]
        return DictPlugin.call(eng, e, st) if False else NotImplemented

    def ev_Dict(self, eng, e, st):
        if e.keys: return NotImplemented
        return [(st, V(d_empty, DICT_IR))]

    def ev_Name(self, eng, e, st):
        if e.id in ('int', 'float', 'dict') and e.id not in st.env: return [(st, V(e.id, TYPEN))]
        return NotImplemented

    def cmp(self, eng, st, k, l, r, line):
        if k in ('Is', 'IsNot') and l.s == TYPEV and r.s == TYPEN:
            u = l.e
            c = {'int': And(u['isnum'], u['isint']), 'float': And(u['isnum'], Not(u['isint'])), 'dict': u['isdict']}[r.e]
            return c if k == 'Is' else Not(c)
        if k in ('Is', 'IsNot') and l.s == UPD and r.s == NONE:
            return l.e['isnone'] if k == 'Is' else Not(l.e['isnone'])
        if k in ('Lt',) and l.s == UPD and r.s == INT:
            st.oblige('safe/TypeError-comparison-of-a-non-number', l.e['isnum'], f'@{line}')
            return l.e['num'] < ToReal(r.e)
        if k in ('In', 'NotIn') and r.s == OLI and l.s == INT:
            st.oblige('safe/TypeError-None-iteration', OLI.dt.is_some(r.e), f'@{line}')
            L = OLI.dt.val(r.e); c = Exists([_jj], And(0 <= _jj, _jj < LI.len(L), LI.at(L, _jj) == l.e))
            return c if k == 'In' else Not(c)
        if k in ('In', 'NotIn') and r.s == UPD and l.s == INT:
            st.oblige('safe/TypeError-membership-in-a-non-dict', r.e['isdict'], f'@{line}')
            c = d_has(r.e['dict'], l.e); return c if k == 'In' else Not(c)
        return DictPlugin.cmp(eng, st, k, l, r, line)

    def ev_Subscript(self, eng, e, st):
        if isinstance(e.slice, ast.Slice): return NotImplemented
        if isinstance(e.ctx, ast.Load):
            s, o = eng.ev1(e.value, st)
            if o.s == UPD:
                s, i = eng.ev1(e.slice, s)
                s.oblige('safe/KeyError', And(o.e['isdict'], d_has(o.e['dict'], i.e)), f'@{e.lineno}')
                return [(s, V(d_get(o.e['dict'], i.e), REAL))]
        return DictPlugin.ev_Subscript(eng, e, st)

    def assign(self, eng, s, target, v):
        if isinstance(target, ast.Subscript) and isinstance(target.value, ast.Attribute):
            s2, o = eng.ev1(target.value.value, s)
            fld = eng.mangle(target.value.attr)
            if o.s.is_ref and eng.classes.get(o.s.cls, {}).get(fld) == DICT_IR:
                s2, i = eng.ev1(target.slice, s2)
                arr = eng.field(s2, o.s.cls, fld)
                val_ = v.e['num'] if v.s == UPD else eng.coerce(v, REAL)
                if v.s == UPD: s2.oblige('safe/TypeError-units-of-a-non-number', v.e['isnum'], f'@{target.lineno}')
                eng.write(s2, o.s.cls + '.' + fld, Store(arr, o.e, d_put(arr[o.e], i.e, val_)))
                return [(s2, FALL)]
        if isinstance(target, ast.Name) and v.s == UPD:
            s.env[target.id] = v; return [(s, FALL)]
        return NotImplemented

    def ev_IfExp(self, eng, e, st):
        # `units_per_day if i in days else 0`: the number-or-zero value stays a number
        out = []
        for s, c in eng.ev(e.test, st):
            if isinstance(c, Raise): out.append((s, c)); continue
            t = eng.truth(s, c)
            for br, cond in ((e.body, t), (e.orelse, Not(t))):
                for s2, v in eng.ev(br, s.fork(cond)):
                    if not isinstance(v, Raise) and v.s == UPD:
                        s2.oblige('safe/TypeError-units-of-a-non-number', v.e['isnum']); v = V(v.e['num'], REAL)
                    out.append((s2, v))
        return out


def weekly_init_unit():
    cls = 'WeeklyCalendar'; R = REF(cls)

    def build():
        u = {'isnone': Bool('upd_is_none'), 'isnum': Bool('upd_is_number'), 'isint': Bool('upd_is_int'), 'isdict': Bool('upd_is_dict'), 'num': Real('upd_number'), 'dict': Const('upd_dict', DICT_IR.z)}
        upd = V(u, UPD)
        classes = {cls: {'_WeeklyCalendar__day_hours': DICT_IR, '_WeeklyCalendar__start': OT, '_WeeklyCalendar__end': OT}}
        g = lambda c, f: Select(c.fld(cls, '_WeeklyCalendar__' + f), c['self'])
        days = lambda c: c.old('days'); dsome = lambda c: OLI.dt.is_some(days(c)); dl = lambda c: OLI.dt.val(days(c))
        se_bad = lambda c: And(OT.dt.is_some(c.old('start')), OT.dt.is_some(c.old('end')), OT.dt.val(c.old('start')) > OT.dt.val(c.old('end')))
        kk = Int('kk')

        def bad(c):        # taken from the property: weekdays outside 0-6, negative units, start after end; plus the malformed argument combinations
            return Or(And(dsome(c), outside_0_6(dl(c))), se_bad(c), u['isnone'],
                      And(dsome(c), Not(u['isnum'])), And(dsome(c), u['isnum'], u['num'] < 0),
                      And(Not(dsome(c)), Not(u['isdict'])), And(Not(dsome(c)), u['isdict'], outside_0_6(d_keys(u['dict']))),
                      And(Not(dsome(c)), u['isdict'], Exists([kk], And(0 <= kk, kk <= 6, d_has(u['dict'], kk), d_get(u['dict'], kk) < 0))))

        def c_check_wd(eng, st, recv, args, kws, node):
            a = args[0]
            L = eng.coerce(a, OLI) if a.s != NONE else OLI.dt.none
            b = And(OLI.dt.is_some(L), outside_0_6(OLI.dt.val(L)))
            return [(st.fork(Not(b)), V(None, NONE)), (st.fork(b), Raise('RuntimeError'))]

        def c_check_se(eng, st, recv, args, kws, node):
            s_, e_ = eng.coerce(args[0], OT), eng.coerce(args[1], OT)
            b = And(OT.dt.is_some(s_), OT.dt.is_some(e_), OT.dt.val(s_) > OT.dt.val(e_))
            return [(st.fork(Not(b)), V(None, NONE)), (st.fork(b), Raise('RuntimeError'))]

        def want(c, k):
            return If(dsome(c), If(Exists([_jj], And(0 <= _jj, _jj < LI.len(dl(c)), LI.at(dl(c), _jj) == k)), u['num'], 0), If(d_has(u['dict'], k), d_get(u['dict'], k), 0))

        def inv(c):
            i = c['_i0'] if '_i0' in c.st.env else c['_i1']
            dh = g(c, 'day_hours')
            return And(i >= 0, i <= 7, ForAll([kk], d_has(dh, kk) == And(0 <= kk, kk < i), patterns=[d_has(dh, kk)]),
                       ForAll([kk], Implies(And(0 <= kk, kk < i), And(d_get(dh, kk) == want(c, kk), d_get(dh, kk) >= 0)), patterns=[d_get(dh, kk)]))
        fc = {'sig': {'self': R, 'start': OT, 'end': OT, 'days': OLI}, 'globals': {'units_per_day': upd}, 'locals': {},
              'requires': [('nn', lambda c: And(c['self'] != R.null, Const('WeeklyCalendar_class', REF('WeeklyCalendarClass').z) != REF('WeeklyCalendarClass').null)),
                           ('argument-kinds-are-exclusive', lambda c: And(Implies(u['isnone'], And(Not(u['isnum']), Not(u['isdict']))), Implies(u['isnum'], Not(u['isdict']))))],
              'loops': {0: {'fingerprint': 'for i in range(0, 7)', 'invariant': [('entries-so-far', inv)], 'havoc_heap': [cls + '._WeeklyCalendar__day_hours']},
                        1: {'fingerprint': 'for i in range(0, 7)', 'invariant': [('entries-so-far', inv)], 'havoc_heap': [cls + '._WeeklyCalendar__day_hours']}},
              'raises': {'RuntimeError': [('C17/rejected-only-for-a-malformed-definition', bad)]},
              'ensures': [('C17/accepted-only-if-well-formed', lambda c: Not(bad(c))),
                          ('C17/one-entry-per-weekday-with-the-configured-value (class invariant of the getter)',
                           lambda c: And(ForAll([kk], d_has(g(c, 'day_hours'), kk) == And(0 <= kk, kk <= 6)), ForAll([kk], Implies(And(0 <= kk, kk <= 6), d_get(g(c, 'day_hours'), kk) == want(c, kk))))),
                          ('C17/validity-bounds-stored', lambda c: And(g(c, 'start') == c.old('start'), g(c, 'end') == c.old('end')))]}
        contracts = {'WeeklyCalendarClass._WeeklyCalendar__check_working_days': c_check_wd, 'WeeklyCalendarClass._WeeklyCalendar__check_start_end': c_check_se}
        eng = Engine(F, 'WeeklyCalendar.__init__', contracts, classes, fc, plugins=[WeeklyInitPlugin()])
        eng.fc['globals']['WeeklyCalendar'] = V(Const('WeeklyCalendar_class', REF('WeeklyCalendarClass').z), REF('WeeklyCalendarClass'))
        return eng, DICT_AX
    return Unit('WeeklyCalendar.__init__', F, build, ['C17'], timeout_ms=15000)


UNITS.append(weekly_init_unit())


# ------------------------------------------------------------------------------------------------ DirectCalendar.__init__ / set_units, FuncCalendar, combinator constructors
INP = S('InputDict', DeclareSort('InputDict')); OINP = OPT(INP)
LTm = LIST(TIME); LOR = LIST(OR)
ik = Function('input_keys', INP.z, LTm.z); iv = Function('input_values', INP.z, LOR.z)
t_union = Function('dTR_union', DICT_TR.z, DICT_TR.z, DICT_TR.z); t_empty = Const('dTR_empty', DICT_TR.z)
_a, _b = Consts('_da _db', DICT_TR.z); _kt = Real('_kt')
DTR_AX = [ForAll([_kt], Not(t_has(t_empty, _kt)), patterns=[t_has(t_empty, _kt)]),
          ForAll([_a, _b, _kt], t_has(t_union(_a, _b), _kt) == Or(t_has(_a, _kt), t_has(_b, _kt)), patterns=[t_has(t_union(_a, _b), _kt)]),
          ForAll([_a, _b, _kt], t_get(t_union(_a, _b), _kt) == If(t_has(_b, _kt), t_get(_b, _kt), t_get(_a, _kt)), patterns=[t_get(t_union(_a, _b), _kt)])]


class DirectPlugin(DictPlugin):
    def call(self, eng, e, st):
        f = e.func
        if isinstance(f, ast.Attribute) and f.attr in ('values', 'items') and not e.args:
            s, v = eng.ev1(f.value, st)
            if v.s == INP:
                if f.attr == 'values': return [(s, V(iv(v.e), LOR))]
                return [(s, V(v.e, S('InputItems', None)))]
        return NotImplemented

    def ev_Dict(self, eng, e, st):
        if e.keys: return NotImplemented
        return [(st, V(t_empty, DICT_TR))]

    def ev_DictComp(self, eng, e, st):
        g = e.generators[0]
        s, src = eng.ev1(g.iter, st)
        if src.s.name != 'InputItems' or ast.unparse(e.key) != f'_day_start({g.target.elts[0].id})' or ast.unparse(e.value) != g.target.elts[1].id or g.ifs:
            raise Unsupported('dict comprehension form')
        K, Vs = ik(src.e), iv(src.e); nd = fresh('normalised', DICT_TR); j = Int('j')
        # {_day_start(k): v for k, v in units.items()} for keys on pairwise different days (pre-condition): entry per key, keyed by its midnight
        s.assume(ForAll([j], Implies(And(0 <= j, j < LTm.len(K)), And(t_has(nd, midnight(LTm.at(K, j))), t_get(nd, midnight(LTm.at(K, j))) == LOR.at(Vs, j))), patterns=[LTm.at(K, j)]))
        s.assume(ForAll([_kt], Implies(t_has(nd, _kt), Exists([j], And(0 <= j, j < LTm.len(K), midnight(LTm.at(K, j)) == _kt))), patterns=[t_has(nd, _kt)]))
        return [(s, V(nd, DICT_TR))]

    def binop(self, eng, st, k, l, r, line):
        if k == 'BitOr' and l.s == DICT_TR and r.s == DICT_TR: return V(t_union(l.e, r.e), DICT_TR)
        return NotImplemented

    def cmp(self, eng, st, k, l, r, line):
        if k in ('Is', 'IsNot') and l.s == OINP and r.s == NONE:
            c = OINP.dt.is_none(l.e); return c if k == 'Is' else Not(c)
        return DictPlugin.cmp(eng, st, k, l, r, line)


def direct_more_units():
    cls = 'DirectCalendar'; R = REF(cls)
    classes = {cls: {'_DirectCalendar__units': DICT_TR}}
    u = lambda c, w='cur': Select(c.fld(cls, '_DirectCalendar__units', w), c['self'])
    j = Int('j'); i2 = Int('i2')

    def negative(d):
        return Exists([j], And(0 <= j, j < LOR.len(iv(d)), OR.dt.is_some(LOR.at(iv(d), j)), OR.dt.val(LOR.at(iv(d), j)) < 0))

    def wf_input(d):
        return And(LTm.len(ik(d)) == LOR.len(iv(d)), LTm.len(ik(d)) >= 0,
                   ForAll([j, i2], Implies(And(0 <= j, j < i2, i2 < LTm.len(ik(d))), midnight(LTm.at(ik(d), j)) != midnight(LTm.at(ik(d), i2)))))

    def effect(c, d, u0, u1):
        return And(ForAll([j], Implies(And(0 <= j, j < LTm.len(ik(d))), And(t_has(u1, midnight(LTm.at(ik(d), j))), t_get(u1, midnight(LTm.at(ik(d), j))) == LOR.at(iv(d), j))), patterns=[LTm.at(ik(d), j)]),
                   ForAll([_kt], Implies(Not(Exists([j], And(0 <= j, j < LTm.len(ik(d)), midnight(LTm.at(ik(d), j)) == _kt))), And(t_has(u1, _kt) == t_has(u0, _kt), t_get(u1, _kt) == t_get(u0, _kt)))))

    def build_set():
        fc = {'sig': {'self': R, 'units': INP}, 'locals': {'v': OR},
              'requires': [('nn', lambda c: c['self'] != R.null), ('keys-on-pairwise-different-days', lambda c: wf_input(c['units']))],
              'loops': {0: {'fingerprint': 'for v in units.values()',
                            'invariant': [('no-negative-value-so-far', lambda c: And(c['_i0'] >= 0, u(c) == u(c, 'pre'),
                                                                                      ForAll([j], Implies(And(0 <= j, j < c['_i0']), Not(And(OR.dt.is_some(LOR.at(iv(c['units']), j)), OR.dt.val(LOR.at(iv(c['units']), j)) < 0))))))]}},
              'raises': {'RuntimeError': [('C17/rejected-only-for-negative-units', lambda c: negative(c['units'])), ('C15-style/calendar-unchanged', lambda c: u(c) == u(c, 'pre'))]},
              'ensures': [('C17/accepted-only-without-negative-units', lambda c: Not(negative(c['units']))),
                          ('C17/every-given-day-returns-its-configured-value-other-days-unchanged', lambda c: effect(c, c['units'], u(c, 'pre'), u(c)))]}
        return Engine(F, 'DirectCalendar.set_units', {'fn:_day_start': c_day_start}, classes, fc, plugins=[DirectPlugin()]), DTR_AX

    def c_set_units(eng, st, recv, args, kws, node):
        d = args[0].e if args[0].s == INP else OINP.dt.val(args[0].e)
        st.oblige('req@set_units/keys-on-pairwise-different-days', wf_input(d), f'@{node.lineno}')
        f = eng.field(st, cls, '_DirectCalendar__units'); u0 = f[recv.e]
        exc = st.fork(negative(d)); ok = st.fork(Not(negative(d)))
        u1 = fresh('units', DICT_TR); eng.write(ok, cls + '._DirectCalendar__units', Store(f, recv.e, u1))
        cc = Ctx(eng, ok)
        ok.assume(effect(cc, d, u0, u1))
        return [(ok, V(None, NONE)), (exc, Raise('RuntimeError'))]

    def build_init():
        d = lambda c: OINP.dt.val(c['units'])
        fc = {'sig': {'self': R, 'units': OINP},
              'requires': [('nn', lambda c: c['self'] != R.null), ('keys-on-pairwise-different-days', lambda c: Implies(OINP.dt.is_some(c['units']), wf_input(d(c))))],
              'raises': {'RuntimeError': [('C17/rejected-only-for-negative-units', lambda c: And(OINP.dt.is_some(c['units']), negative(d(c))))]},
              'ensures': [('C17/accepted-only-without-negative-units', lambda c: Not(And(OINP.dt.is_some(c['units']), negative(d(c))))),
                          ('C17/exactly-the-given-days-are-configured-with-their-values', lambda c: If(OINP.dt.is_some(c['units']), effect(c, d(c), t_empty, u(c)), u(c) == t_empty))]}
        return Engine(F, 'DirectCalendar.__init__', {'DirectCalendar.set_units': c_set_units}, classes, fc, plugins=[DirectPlugin()]), DTR_AX
    return [Unit('DirectCalendar.set_units', F, build_set, ['C17']), Unit('DirectCalendar.__init__', F, build_init, ['C17'])]


UNITS += direct_more_units()


def ctor_units():
    units = []
    OLC = OPT(LC)
    for cls in ('WorkCalendarDisjunction', 'WorkCalendarSum', 'WorkCalendarSub', 'WorkCalendarsMul', 'WorkCalendarDiv'):
        def build(cls=cls):
            fld = f'_{cls}__calendars'

            class EmptyList:
                @staticmethod
                def ev_List(eng, e, st):
                    if e.elts: return NotImplemented
                    Lc = fresh('empty', LC); st.assume(LC.len(Lc) == 0)
                    return [(st, V(Lc, LC))]

                @staticmethod
                def cmp(eng, st, k, l, r, line):
                    if k in ('Is', 'IsNot') and l.s == OLC and r.s == NONE:
                        c = OLC.dt.is_none(l.e); return c if k == 'Is' else Not(c)
                    return NotImplemented

                @staticmethod
                def ev_IfExp(eng, e, st):
                    out = []
                    for s, c in eng.ev(e.test, st):
                        t = eng.truth(s, c)
                        for br, cond in ((e.body, t), (e.orelse, Not(t))):
                            for s2, v in eng.ev(br, s.fork(cond)):
                                if not isinstance(v, Raise) and v.s == OLC:
                                    s2.oblige('safe/narrowing', OLC.dt.is_some(v.e)); v = V(OLC.dt.val(v.e), LC)
                                out.append((s2, v))
                    return out
            got = lambda c: Select(c.fld(cls, fld), c['self'])
            fc = {'sig': {'self': REF(cls), 'calendars': OLC}, 'requires': [('nn', lambda c: c['self'] != REF(cls).null)],
                  'ensures': [('C17/operand-list-stored-as-given-empty-if-None', lambda c: If(OLC.dt.is_some(c['calendars']), got(c) == OLC.dt.val(c['calendars']), LC.len(got(c)) == 0))]}
            return Engine(F, f'{cls}.__init__', {}, {cls: {fld: LC}}, fc, plugins=[EmptyList]), []
        units.append(Unit(f'{cls}.__init__', F, build, ['C17']))

    FN = S('Callable', DeclareSort('Callable')); apply_fn = Function('apply_callable', FN.z, OR.z, OR.z)

    def build_func_get():
        cls = 'FuncCalendar'

        class CallFn:
            @staticmethod
            def call(eng, e, st):
                f = e.func
                if isinstance(f, ast.Attribute) and f.attr == '__func' and len(e.args) == 1:
                    s, o = eng.ev1(f.value, st); s, a = eng.ev1(e.args[0], s)
                    fn = Select(eng.field(s, cls, '_FuncCalendar__func'), o.e)
                    return [(s, V(apply_fn(fn, eng.coerce(a, OR)), OR))]          # the user's function: any (pure) function of the operand's value
                return NotImplemented
        fc = {'sig': {'self': REF(cls), 'date': TIME},
              'requires': [('nn', lambda c: And(c['self'] != REF(cls).null, Select(c.fld(cls, '_FuncCalendar__calendar'), c['self']) != CAL.null))],
              'ensures': [('C17/value-is-the-function-applied-to-the-operand-value',
                           lambda c: c.eng.coerce(c.result, OR) == apply_fn(Select(c.fld(cls, '_FuncCalendar__func'), c['self']), val(Select(c.fld(cls, '_FuncCalendar__calendar'), c['self']), c['date'])))]}
        return Engine(F, 'FuncCalendar.get_available_units', {'IWorkCalendar.get_available_units': c_get_units}, {cls: {'_FuncCalendar__calendar': CAL, '_FuncCalendar__func': FN}}, fc, plugins=[CallFn]), []
    units.append(Unit('FuncCalendar.get_available_units', F, build_func_get, ['C17']))
    return units


UNITS += ctor_units()
