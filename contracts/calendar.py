"""Sidecar contracts for pjplan/calendar.py and pjplan/resource.py (C17; interface contracts used by C03/C04/C08/C09).

Nothing here is imported by pjplan; pyvc reads it next to the AST of the real files.

Interface contract (assumed, L): `IWorkCalendar.get_available_units(date)` of an arbitrary (possibly nested) calendar is
a pure function val(calendar, date) : Opt[Real] - any implementation of the interface.  Every concrete class of the
repository is then proved to return *its* specified value.
"""
from z3 import *
from pyvc.core import *
from pyvc.unit import Unit

F = 'pjplan/calendar.py'
CAL = REF('IWorkCalendar'); OR = OPT(REAL); LC = LIST(CAL); OT = OPT(TIME)
val = Function('val', CAL.z, RealSort(), OR.z)
weekday = Function('weekday', RealSort(), IntSort())          # weekday(date) in 0..6, constant within a day
DICT_IR = S('Dict[Int,Real]', DeclareSort('DictIR')); d_has = Function('dIR_has', DICT_IR.z, IntSort(), BoolSort()); d_get = Function('dIR_get', DICT_IR.z, IntSort(), RealSort())
DICT_TR = S('Dict[Time,Real]', DeclareSort('DictTR')); t_has = Function('dTR_has', DICT_TR.z, RealSort(), BoolSort()); t_get = Function('dTR_get', DICT_TR.z, RealSort(), OR.z)

_t = Real('_t')
TIME_AX = [ForAll([_t], And(weekday(_t) >= 0, weekday(_t) <= 6), patterns=[weekday(_t)])]


def c_get_units(eng, st, recv, args, kws, node):
    d = eng.as_sort(st, args[0], TIME, 'safe/TypeError-None-date')
    return [(st, V(val(recv.e, d), OR))]


def mkfold(name, op):
    """fold spec function over the operand list: operands without information are skipped, the first one with
    information starts the accumulator (property sentence of C17)"""
    f = Function(name, LC.z, IntSort(), RealSort(), OR.z)
    l = Const('l', LC.z); n = Int('n'); d = Real('d')
    v = val(LC.at(l, n), d); acc = f(l, n, d)
    step = If(OR.dt.is_none(v), acc, If(OR.dt.is_none(acc), v, OR.dt.some(op(OR.dt.val(acc), OR.dt.val(v)))))
    ax = [ForAll([l, d], f(l, 0, d) == OR.dt.none), ForAll([l, n, d], Implies(n >= 0, f(l, n + 1, d) == step), patterns=[f(l, n + 1, d)])]
    return f, ax


class DictPlugin:
    """`k in d`, `d[k]` for the two dict-valued fields of the calendar classes (assumed contract of dict lookup, T1)"""

    @staticmethod
    def cmp(eng, st, k, l, r, line):
        if k in ('In', 'NotIn') and r.s == DICT_TR:
            c = t_has(r.e, eng.coerce(l, TIME)); return c if k == 'In' else Not(c)
        if k in ('In', 'NotIn') and r.s == DICT_IR:
            c = d_has(r.e, l.e); return c if k == 'In' else Not(c)
        return NotImplemented

    @staticmethod
    def ev_Subscript(eng, e, st):
        if isinstance(e.slice, ast.Slice): return NotImplemented
        s, o = eng.ev1(e.value, st)
        if o.s == DICT_TR:
            s, i = eng.ev1(e.slice, s); key = eng.coerce(i, TIME)
            s.oblige('safe/KeyError', t_has(o.e, key), f'@{e.lineno}')
            return [(s, V(t_get(o.e, key), OR))]
        if o.s == DICT_IR:
            s, i = eng.ev1(e.slice, s)
            s.oblige('safe/KeyError', d_has(o.e, i.e), f'@{e.lineno}')
            return [(s, V(d_get(o.e, i.e), REAL))]
        return NotImplemented

    @staticmethod
    def call(eng, e, st):
        f = e.func
        if isinstance(f, ast.Attribute) and f.attr == 'weekday' and not e.args:
            s, v = eng.ev1(f.value, st)
            return [(s, V(weekday(eng.as_sort(s, v, TIME, 'safe/AttributeError-None')), INT))]
        return NotImplemented


import ast

_q = Int('_q')


def combinator_unit(cls, op, post_kind):
    def build():
        fold, ax = mkfold('fold_' + cls, op)
        fld = f'_{cls}__calendars'
        classes = {cls: {fld: LC}}
        cals = lambda c, which='cur': Select(c.fld(cls, fld, which), c['self'])
        lim = lambda c: LC.len(cals(c))

        def spec(c):
            f = fold(cals(c), lim(c), c['date'])
            r = c.eng.coerce(c.result, OR)
            if post_kind == 'sub':
                return r == If(Or(OR.dt.is_none(f), OR.dt.val(f) < 0), OR.dt.none, f)
            return r == f
        reqs = [('nn', lambda c: c['self'] != REF(cls).null),
                ('operands-non-null', lambda c: ForAll([_q], Implies(And(0 <= _q, _q < lim(c)), LC.at(cals(c), _q) != CAL.null)))]
        if post_kind == 'div':
            # division by an operand whose value is 0 raises ZeroDivisionError in Python: outside the contract (assumption A-div)
            reqs.append(('divisors-non-zero', lambda c: ForAll([_q], Implies(And(1 <= _q, _q < lim(c), OR.dt.is_some(val(LC.at(cals(c), _q), c['date']))),
                                                                           OR.dt.val(val(LC.at(cals(c), _q), c['date'])) != 0))))
        fc = {'sig': {'self': REF(cls), 'date': TIME}, 'locals': {'units': OR, 'c_units': OR},
              'requires': reqs,
              'loops': {0: {'fingerprint': 'for c in self.__calendars',
                            'invariant': [('fold', lambda c: c.eng.coerce(c.val('units'), OR) == fold(cals(c), c['_i0'], c['date'])),
                                          ('idx', lambda c: And(c['_i0'] >= 0, c['_i0'] <= lim(c)))]}},
              'ensures': [('C17/value-is-the-operator-folded-over-the-operands', spec)]}
        if post_kind == 'div':
            # the first operand with information is never a divisor; for the others the pre-condition excludes zero
            fc['loops'][0]['invariant'].append(('first', lambda c: Implies(OR.dt.is_none(c.eng.coerce(c.val('units'), OR)),
                                                                          ForAll([_q], Implies(And(0 <= _q, _q < c['_i0']), OR.dt.is_none(val(LC.at(cals(c), _q), c['date'])))))))
        eng = Engine(F, f'{cls}.get_available_units', {'IWorkCalendar.get_available_units': c_get_units}, classes, fc)
        return eng, ax
    return Unit(f'{cls}.get_available_units', F, build, ['C17'])


def disjunction_unit():
    cls = 'WorkCalendarDisjunction'; fld = f'_{cls}__calendars'

    def build():
        classes = {cls: {fld: LC}}
        cals = lambda c: Select(c.fld(cls, fld), c['self'])
        pos = lambda c, j: And(OR.dt.is_some(val(LC.at(cals(c), j), c['date'])), OR.dt.val(val(LC.at(cals(c), j), c['date'])) > 0)

        def spec(c):
            r = c.eng.coerce(c.result, OR); k = Int('k')
            return Or(And(OR.dt.is_none(r), ForAll([_q], Implies(And(0 <= _q, _q < LC.len(cals(c))), Not(pos(c, _q))))),
                      Exists([k], And(0 <= k, k < LC.len(cals(c)), pos(c, k), r == val(LC.at(cals(c), k), c['date']),
                                      ForAll([_q], Implies(And(0 <= _q, _q < k), Not(pos(c, _q)))))))
        fc = {'sig': {'self': REF(cls), 'date': TIME}, 'locals': {'units': OR},
              'requires': [('nn', lambda c: c['self'] != REF(cls).null),
                           ('operands-non-null', lambda c: ForAll([_q], Implies(And(0 <= _q, _q < LC.len(cals(c))), LC.at(cals(c), _q) != CAL.null)))],
              'loops': {0: {'fingerprint': 'for c in self.__calendars',
                            'invariant': [('none-positive-before', lambda c: ForAll([_q], Implies(And(0 <= _q, _q < c['_i0']), Not(pos(c, _q))))),
                                          ('idx', lambda c: And(c['_i0'] >= 0, c['_i0'] <= LC.len(cals(c))))]}},
              'ensures': [('C17/first-positive-operand-or-None', spec)]}
        return Engine(F, f'{cls}.get_available_units', {'IWorkCalendar.get_available_units': c_get_units}, classes, fc), []
    return Unit(f'{cls}.get_available_units', F, build, ['C17'])


def fixed_units():
    cls = 'FixedCalendar'; R = REF(cls)
    classes = {cls: {'_FixedCalendar__units': REAL, '_FixedCalendar__start': OT, '_FixedCalendar__end': OT}}
    g = lambda c, f, which='cur': Select(c.fld(cls, '_FixedCalendar__' + f, which), c['self'])

    def build_get():
        def spec(c):
            d = c['date']; st, en = g(c, 'start'), g(c, 'end')
            outside = Or(And(OT.dt.is_some(st), d < OT.dt.val(st)), And(OT.dt.is_some(en), d > OT.dt.val(en)))
            return c.eng.coerce(c.result, OR) == OR.dt.some(If(outside, 0, g(c, 'units')))
        fc = {'sig': {'self': R, 'date': TIME}, 'requires': [('nn', lambda c: c['self'] != R.null)],
              'ensures': [('C17/configured-value-inside-validity-zero-outside', spec)]}
        return Engine(F, 'FixedCalendar.get_available_units', {}, classes, fc), []

    def build_init():
        bad = lambda c: Or(c.old('units') < 0, And(OT.dt.is_some(c.old('start')), OT.dt.is_some(c.old('end')), OT.dt.val(c.old('start')) > OT.dt.val(c.old('end'))))
        fc = {'sig': {'self': R, 'units': REAL, 'start': OT, 'end': OT}, 'requires': [('nn', lambda c: c['self'] != R.null)],
              'raises': {'RuntimeError': [('C17/rejected-only-if-negative-or-start-after-end', lambda c: bad(c))]},
              'ensures': [('C17/accepted-only-if-well-formed', lambda c: Not(bad(c))),
                          ('C17/fields-hold-the-arguments', lambda c: And(g(c, 'units') == c.old('units'), g(c, 'start') == c.old('start'), g(c, 'end') == c.old('end')))]}
        return Engine(F, 'FixedCalendar.__init__', {}, classes, fc), []
    return [Unit('FixedCalendar.get_available_units', F, build_get, ['C17']), Unit('FixedCalendar.__init__', F, build_init, ['C17'])]


def c_day_start(eng, st, recv, args, kws, node):
    return [(st, V(midnight(eng.as_sort(st, args[0], TIME, 'safe/AttributeError-None')), TIME))]


def direct_units():
    cls = 'DirectCalendar'; R = REF(cls)
    classes = {cls: {'_DirectCalendar__units': DICT_TR}}

    def build_get():
        u = lambda c: Select(c.fld(cls, '_DirectCalendar__units'), c['self'])

        def spec(c):
            k = midnight(c['date'])
            return c.eng.coerce(c.result, OR) == If(t_has(u(c), k), t_get(u(c), k), OR.dt.none)
        fc = {'sig': {'self': R, 'date': TIME}, 'locals': {'key': TIME}, 'requires': [('nn', lambda c: c['self'] != R.null)],
              'ensures': [('C17/value-configured-for-the-day-else-None', spec)]}
        return Engine(F, 'DirectCalendar.get_available_units', {'fn:_day_start': c_day_start}, classes, fc, plugins=[DictPlugin]), []

    def build_daystart():
        fc = {'sig': {'d': TIME}, 'ensures': [('C17/day-start-is-midnight', lambda c: And(c.result.e == midnight(c['d']), c.result.e <= c['d'], c['d'] < c.result.e + 86400))]}
        return Engine(F, '_day_start', {}, {}, fc), []
    return [Unit('DirectCalendar.get_available_units', F, build_get, ['C17']), Unit('_day_start', F, build_daystart, ['C17', 'C03'])]


def weekly_units():
    cls = 'WeeklyCalendar'; R = REF(cls)
    classes = {cls: {'_WeeklyCalendar__day_hours': DICT_IR, '_WeeklyCalendar__start': OT, '_WeeklyCalendar__end': OT}}
    g = lambda c, f: Select(c.fld(cls, '_WeeklyCalendar__' + f), c['self'])

    def build_get():
        def spec(c):
            d = c['date']; st, en = g(c, 'start'), g(c, 'end')
            outside = Or(And(OT.dt.is_some(st), d < OT.dt.val(st)), And(OT.dt.is_some(en), d > OT.dt.val(en)))
            return c.eng.coerce(c.result, OR) == If(outside, OR.dt.none, OR.dt.some(d_get(g(c, 'day_hours'), weekday(d))))
        k = Int('k')
        fc = {'sig': {'self': R, 'date': TIME},
              'requires': [('nn', lambda c: c['self'] != R.null),
                           ('class-invariant: one entry per weekday (established by __init__)', lambda c: ForAll([k], Implies(And(0 <= k, k <= 6), d_has(g(c, 'day_hours'), k))))],
              'ensures': [('C17/weekday-value-inside-validity-None-outside', spec)]}
        return Engine(F, 'WeeklyCalendar.get_available_units', {}, classes, fc, plugins=[DictPlugin]), TIME_AX

    def build_check_se():
        bad = lambda c: And(OT.dt.is_some(c.old('start')), OT.dt.is_some(c.old('end')), OT.dt.val(c.old('start')) > OT.dt.val(c.old('end')))
        fc = {'sig': {'start': OT, 'end': OT},
              'raises': {'RuntimeError': [('C17/rejected-only-if-start-after-end', bad)]}, 'ensures': [('C17/accepted-only-if-start-not-after-end', lambda c: Not(bad(c)))]}
        return Engine(F, 'WeeklyCalendar.__check_start_end', {}, classes, fc), []

    def build_check_wd():
        LI = LIST(INT); OL = OPT(LI)
        # working_days: Opt[List[Int]]  (None allowed)
        wd = lambda c: c.old('working_days')
        bad = lambda c: And(OL.dt.is_some(wd(c)), Exists([_q], And(0 <= _q, _q < LI.len(OL.dt.val(wd(c))), Or(LI.at(OL.dt.val(wd(c)), _q) < 0, LI.at(OL.dt.val(wd(c)), _q) > 6))))

        class OptListPlugin:
            @staticmethod
            def for_loop(eng, stmt, st):
                s, seq = eng.ev1(stmt.iter, st)
                if seq.s != OL: return NotImplemented
                # the `is None` test above returned already: the value is a list here
                s.oblige('safe/TypeError-None-iteration', OL.dt.is_some(seq.e), f'@{stmt.lineno}')
                lit = Lit(V(OL.dt.val(seq.e), LI), stmt)
                import copy
                st2 = copy.copy(stmt); st2.iter = lit
                eng.loop_ids[id(st2)] = eng.loop_ids[id(stmt)]
                return Engine.ex_For(eng, st2, s)
        lst = lambda c: OL.dt.val(c['working_days'])
        fc = {'sig': {'working_days': OL},
              'loops': {0: {'fingerprint': 'for v in working_days',
                            'invariant': [('all-before-in-range', lambda c: ForAll([_q], Implies(And(0 <= _q, _q < c['_i0']), And(LI.at(lst(c), _q) >= 0, LI.at(lst(c), _q) <= 6)))),
                                          ('idx', lambda c: And(c['_i0'] >= 0, c['_i0'] <= LI.len(lst(c)), OL.dt.is_some(c['working_days'])))]}},
              'raises': {'RuntimeError': [('C17/rejected-only-if-a-weekday-is-outside-0-6', bad)]},
              'ensures': [('C17/accepted-only-if-all-weekdays-in-0-6', lambda c: Not(bad(c)))]}
        return Engine(F, 'WeeklyCalendar.__check_working_days', {}, classes, fc, plugins=[OptListPlugin]), []
    return [Unit('WeeklyCalendar.get_available_units', F, build_get, ['C17']),
            Unit('WeeklyCalendar.__check_start_end', F, build_check_se, ['C17']),
            Unit('WeeklyCalendar.__check_working_days', F, build_check_wd, ['C17'])]


# ---------------------------------------------------------------------------------------------- resource.py
FR = 'pjplan/resource.py'
IR = REF('IResource'); RES = REF('Resource'); TK = REF('Task')
avail = Function('avail', IR.z, RealSort(), RealSort())          # interface contract of IResource.get_available_units(date, task)


def resource_units():
    def build_res():
        classes = {'Resource': {'calendar': CAL, 'name': STR}}
        cal = lambda c: Select(c.fld('Resource', 'calendar'), c['self'])
        fc = {'sig': {'self': RES, 'date': TIME, 'task': TK}, 'locals': {'units': OR},
              'requires': [('nn', lambda c: And(c['self'] != RES.null, cal(c) != CAL.null))],
              'ensures': [('C17,C03/zero-where-the-calendar-has-no-information-never-None',
                           lambda c: c.eng.as_sort(c.st, c.result, REAL, 'ens/C17/never-None') == If(OR.dt.is_none(val(cal(c), c['date'])), 0, OR.dt.val(val(cal(c), c['date']))))]}
        return Engine(FR, 'Resource.get_available_units', {'IWorkCalendar.get_available_units': c_get_units}, classes, fc), []

    def build_nearest():
        classes = {'IResource': {'name': STR}}

        def c_avail(eng, st, recv, args, kws, node):
            return [(st, V(avail(recv.e, eng.as_sort(st, args[0], TIME, 'safe/TypeError-None-date')), REAL))]
        j = Int('j'); i = Int('i')

        def probe(c, k):
            d0 = c.old('start_date'); dr = c['direction']
            return If(dr < 0, d0 + 86400 * ToReal(k * dr) - 86400, d0 + 86400 * ToReal(k * dr))
        fc = {'sig': {'self': IR, 'start_date': TIME, 'direction': INT, 'max_days': INT}, 'locals': {'step': INT},
              'requires': [('pre', lambda c: And(c['self'] != IR.null, c['max_days'] >= 0, Or(c['direction'] == 1, c['direction'] == -1)))],
              'loops': {0: {'fingerprint': 'while step < max_days',
                            'invariant': [('pos', lambda c: And(c['step'] >= 0, c['start_date'] == c.old('start_date') + 86400 * ToReal(c['step'] * c['direction']))),
                                          ('none-before', lambda c: ForAll([j], Implies(And(0 <= j, j < c['step']), avail(c['self'], probe(c, j)) <= 0)))],
                            'decreases': lambda c: c['max_days'] - c['step']}},
              'raises': {'RuntimeError': [('C17/raises-only-if-no-availability-within-the-horizon',
                                           lambda c: ForAll([j], Implies(And(0 <= j, j < c['max_days']), avail(c['self'], probe(c, j)) <= 0)))]},
              'ensures': [('C17/earliest-whole-day-offset-with-capacity',
                           lambda c: Exists([j], And(0 <= j, j < c['max_days'], c.result.e == c.old('start_date') + 86400 * ToReal(j * c['direction']),
                                                     avail(c['self'], probe(c, j)) > 0,
                                                     ForAll([i], Implies(And(0 <= i, i < j), avail(c['self'], probe(c, i)) <= 0)))))]}
        return Engine(FR, 'IResource.get_nearest_availability_date', {'IResource.get_available_units': c_avail}, classes, fc), []
    return [Unit('Resource.get_available_units', FR, build_res, ['C17', 'C03']),
            Unit('IResource.get_nearest_availability_date', FR, build_nearest, ['C17', 'C14'])]


UNITS = [combinator_unit('WorkCalendarSum', lambda a, b: a + b, 'plain'),
         combinator_unit('WorkCalendarSub', lambda a, b: a - b, 'sub'),
         combinator_unit('WorkCalendarsMul', lambda a, b: a * b, 'plain'),
         combinator_unit('WorkCalendarDiv', lambda a, b: a / b, 'div'),
         disjunction_unit()] + fixed_units() + direct_units() + weekly_units() + resource_units()
