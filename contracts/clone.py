"""Sidecar contract for Task.clone (C10): the copy is a fresh object with the same id, estimate, spent, exactly the public instance
attributes of the source with equal values, and no relations.  Instance attributes are modelled as a per-object map name -> value
(`__dict__`), values as an abstract sort.  WBS.__clone_tasks / __clone (the re-wiring of hierarchy and links) are covered by the
bounded stand-in only.
"""
import ast
from z3 import *
from pyvc.core import *
from pyvc.unit import Unit

F = 'pjplan/task.py'
TASK = REF('Task'); VAL = S('Val', DeclareSort('Val')); LS = LIST(STR)
SMAP_B = ArraySort(StringSort(), BoolSort()); SMAP_V = ArraySort(StringSort(), VAL.z)
memS = Function('memS', LS.z, StringSort(), BoolSort()); idxS = Function('idxS', LS.z, StringSort(), IntSort())
keys_of = Function('dict_keys', TASK.z, LS.z)
tid = Function('task_id_val', TASK.z, VAL.z); est = Function('task_estimate_val', TASK.z, VAL.z); spent = Function('task_spent_val', TASK.z, VAL.z)
CLASSES = {'Task': {'$has': S('SMapB', SMAP_B), '$attrs': S('SMapV', SMAP_V), '$alloc': BOOL, '$norel': BOOL, '$id': VAL, '$est': VAL, '$spent': VAL}}
DEFAULTS = ['name', 'resource', 'start', 'end', 'milestone', 'min_start']
default_val = Function('ctor_default', StringSort(), VAL.z)
l_ = Const('l_', LS.z); k_ = Const('k_', StringSort()); i_ = Int('i_'); t_ = Const('t_', TASK.z)
AX = [ForAll([l_], LS.len(l_) >= 0),
      ForAll([l_, i_], Implies(And(0 <= i_, i_ < LS.len(l_)), memS(l_, LS.at(l_, i_))), patterns=[LS.at(l_, i_)]),
      ForAll([l_, k_], Implies(memS(l_, k_), And(0 <= idxS(l_, k_), idxS(l_, k_) < LS.len(l_), LS.at(l_, idxS(l_, k_)) == k_)), patterns=[memS(l_, k_)])]


class ClonePlugin:
    def call(self, eng, e, st):
        f = e.func
        if isinstance(f, ast.Attribute) and f.attr == 'keys' and isinstance(f.value, ast.Attribute) and f.value.attr == '__dict__':
            s, o = eng.ev1(f.value.value, st)
            return [(s, V(keys_of(o.e), LS))]
        if isinstance(f, ast.Attribute) and f.attr == 'items' and isinstance(f.value, ast.Name) and f.value.id == 'kwargs':
            return [(st, V(st.env['kwargs'].e, S('KwItems', None)))]
        if isinstance(f, ast.Attribute) and f.attr == '__getattribute__' and len(e.args) == 1:
            s, o = eng.ev1(f.value, st); s, n = eng.ev1(e.args[0], s)
            has = Select(eng.field(s, 'Task', '$has'), o.e)
            s.oblige('safe/AttributeError-missing-attribute', has[n.e], f'@{e.lineno}')
            return [(s, V(Select(eng.field(s, 'Task', '$attrs'), o.e)[n.e], VAL))]
        if isinstance(f, ast.Attribute) and f.attr == '__setattr__' and len(e.args) == 2:
            s, o = eng.ev1(f.value, st); s, n = eng.ev1(e.args[0], s); s, v = eng.ev1(e.args[1], s)
            s.oblige('safe/AttributeError-None', o.e != TASK.null, f'@{e.lineno}')
            hf = eng.field(s, 'Task', '$has'); af = eng.field(s, 'Task', '$attrs')
            eng.write(s, 'Task.$has', Store(hf, o.e, Store(hf[o.e], n.e, BoolVal(True))))
            eng.write(s, 'Task.$attrs', Store(af, o.e, Store(af[o.e], n.e, v.e)))
            return [(s, V(None, NONE))]
        if isinstance(f, ast.Name) and f.id == 'Task':
            # Task(id=..., estimate=..., spent=...): a fresh task with these three values, the constructor's default public attributes and no relations
            kw = {}
            s = st
            if e.args: raise Unsupported('positional arguments to Task(...)')
            for k in e.keywords:
                s, kw[k.arg] = eng.ev1(k.value, s)
            if set(kw) - {'id', 'estimate', 'spent'}: raise Unsupported('Task(...) keyword ' + str(set(kw)))
            n = fresh('newtask', TASK)
            al = eng.field(s, 'Task', '$alloc')
            s.assume(And(n != TASK.null, Not(al[n])))
            hf = eng.field(s, 'Task', '$has'); af = eng.field(s, 'Task', '$attrs')
            nh = fresh('has', S('SMapB', SMAP_B)); na = fresh('attrs', S('SMapV', SMAP_V))
            s.assume(ForAll([k_], nh[k_] == Or(*[k_ == StringVal(d) for d in DEFAULTS]), patterns=[nh[k_]]))
            s.assume(And(*[na[StringVal(d)] == default_val(StringVal(d)) for d in DEFAULTS]))
            eng.write(s, 'Task.$has', Store(hf, n, nh)); eng.write(s, 'Task.$attrs', Store(af, n, na)); eng.write(s, 'Task.$alloc', Store(al, n, BoolVal(True)))
            eng.write(s, 'Task.$norel', Store(eng.field(s, 'Task', '$norel'), n, BoolVal(True)))
            for fld, key in (('$id', 'id'), ('$est', 'estimate'), ('$spent', 'spent')):
                if key in kw: eng.write(s, 'Task.' + fld, Store(eng.field(s, 'Task', fld), n, kw[key].e))
            return [(s, V(n, TASK))]
        return NotImplemented

    def for_loop(self, eng, stmt, st):
        s0, seq = eng.ev1(stmt.iter, st)
        if seq.s.name == 'KwItems':
            # for k, v in kwargs.items(): the contract covers calls without extra keyword arguments (pre-condition) - the loop body is not entered
            k = eng.loop_contract[eng.loop_ids[id(stmt)]][0]
            return eng.loop(stmt, s0, lambda s: [(s, BoolVal(False))], lambda b: [b])
        return NotImplemented


def clone_unit():
    def build():
        fld = lambda c, f, which='cur': c.fld('Task', f, which)
        pub = lambda k: Not(PrefixOf(StringVal('_'), k))

        def pre(c):
            has = fld(c, '$has')[c['self']]
            return And(c['self'] != TASK.null, fld(c, '$alloc')[c['self']],
                       ForAll([k_], memS(keys_of(c['self']), k_) == has[k_], patterns=[memS(keys_of(c['self']), k_)]),
                       And(*[has[StringVal(d)] for d in DEFAULTS]))            # every task carries the constructor's public attributes
        j = Int('j')

        def inv(c):
            me = c['self']; cl = c['cloned']; KL = keys_of(me); i = c['_i0']
            has0, at0 = fld(c, '$has', 'pre'), fld(c, '$attrs', 'pre'); has1, at1 = fld(c, '$has'), fld(c, '$attrs')
            return And(i >= 0, i <= LS.len(KL), cl != TASK.null, cl != me, Not(fld(c, '$alloc', 'pre')[cl]), fld(c, '$norel')[cl],
                       fld(c, '$id')[cl] == fld(c, '$id', 'pre')[me], fld(c, '$est')[cl] == fld(c, '$est', 'pre')[me], fld(c, '$spent')[cl] == fld(c, '$spent', 'pre')[me],
                       ForAll([t_], Implies(t_ != cl, And(has1[t_] == has0[t_], at1[t_] == at0[t_])), patterns=[has1[t_]]),
                       ForAll([k_], Implies(has1[cl][k_], Or(*[k_ == StringVal(d) for d in DEFAULTS], And(memS(KL, k_), pub(k_)))), patterns=[has1[cl][k_]]),
                       ForAll([k_], Implies(And(memS(KL, k_), idxS(KL, k_) < i, pub(k_)), And(has1[cl][k_], at1[cl][k_] == at0[me][k_])), patterns=[memS(KL, k_)]),
                       And(*[has1[cl][StringVal(d)] for d in DEFAULTS]))
        res = lambda c: c.result.e
        fc = {'sig': {'self': TASK, 'kwargs': S('KwItems0', DeclareSort('Kw'))}, 'locals': {'k': STR, 'cloned': TASK},
              'requires': [('pre', pre)],
              'loops': {0: {'fingerprint': 'for k in self.__dict__.keys()', 'invariant': [('copied-so-far', inv)], 'havoc_heap': ['Task.$has', 'Task.$attrs']},
                        1: {'fingerprint': 'for (k, v) in kwargs.items()', 'invariant': [('same', inv)]}},
              'ensures': [('C10/copy-is-a-new-object', lambda c: And(res(c) != TASK.null, res(c) != c['self'], Not(fld(c, '$alloc', 'pre')[res(c)]))),
                          ('C10/same-id-estimate-spent', lambda c: And(fld(c, '$id')[res(c)] == fld(c, '$id', 'pre')[c['self']], fld(c, '$est')[res(c)] == fld(c, '$est', 'pre')[c['self']],
                                                                       fld(c, '$spent')[res(c)] == fld(c, '$spent', 'pre')[c['self']])),
                          ('C10/every-public-attribute-copied-with-its-value-and-no-other', lambda c: ForAll([k_], Implies(pub(k_), And(
                              fld(c, '$has')[res(c)][k_] == fld(c, '$has', 'pre')[c['self']][k_],
                              Implies(fld(c, '$has', 'pre')[c['self']][k_], fld(c, '$attrs')[res(c)][k_] == fld(c, '$attrs', 'pre')[c['self']][k_]))))),
                          ('C10/copy-has-no-relations', lambda c: fld(c, '$norel')[res(c)]),
                          ('C10/source-and-all-other-tasks-unchanged', lambda c: ForAll([t_], Implies(fld(c, '$alloc', 'pre')[t_], And(fld(c, '$has')[t_] == fld(c, '$has', 'pre')[t_], fld(c, '$attrs')[t_] == fld(c, '$attrs', 'pre')[t_]))))]}
        contracts = {'prop:Task.id': lambda eng, st, recv, a, k, n: [(st, V(Select(eng.field(st, 'Task', '$id'), recv.e), VAL))],
                     'prop:Task.estimate': lambda eng, st, recv, a, k, n: [(st, V(Select(eng.field(st, 'Task', '$est'), recv.e), VAL))],
                     'prop:Task.spent': lambda eng, st, recv, a, k, n: [(st, V(Select(eng.field(st, 'Task', '$spent'), recv.e), VAL))]}
        return Engine(F, 'Task.clone', contracts, CLASSES, fc, plugins=[ClonePlugin()]), AX
    return Unit('Task.clone', F, build, ['C10'], timeout_ms=15000)




# ---------------------------------------------------------------------------------------------------------------- WBS.__clone / clone
# The new-WBS assembly and the WBS attribute copy (C10, src/pjplan/wbs.py).  WBS instance attributes are a per-object map as for tasks; the
# dict returned by __clone_tasks is an abstract value with `has` / `get` keyed by the (abstract) id value; what the roots setter was handed
# is recorded in the ghost field `$rootsval` of the receiving WBS.
FW = 'pjplan/wbs.py'
WBSR = REF('WBS'); LT_ = LIST(TASK); DICT = S('IdDict', DeclareSort('IdDict'))
dhas = Function('iddict_has', DICT.z, VAL.z, BoolSort()); dget = Function('iddict_get', DICT.z, VAL.z, TASK.z)
keys_ofW = Function('wbs_dict_keys', WBSR.z, LS.z)
tidv = lambda eng, st, t: Select(eng.field(st, 'Task', '$id'), t)
W_CLASSES = {'WBS': {'$has': S('SMapB', SMAP_B), '$attrs': S('SMapV', SMAP_V), '$alloc': BOOL, '$rootsval': LT_},
             'Task': {'$id': VAL}}
w_ = Const('w_', WBSR.z); j_ = Int('j_')
PRIVATE_ROOT = '_WBS__root'


class WbsClonePlugin:
    def call(self, eng, e, st):
        f = e.func
        if isinstance(f, ast.Attribute) and f.attr == 'keys' and isinstance(f.value, ast.Attribute) and f.value.attr == '__dict__':
            s, o = eng.ev1(f.value.value, st)
            if o.s != WBSR: raise Unsupported('__dict__ of ' + str(o.s))
            return [(s, V(keys_ofW(o.e), LS))]
        if isinstance(f, ast.Attribute) and f.attr == '__getattribute__' and len(e.args) == 1:
            s, o = eng.ev1(f.value, st); s, n = eng.ev1(e.args[0], s)
            if o.s != WBSR: raise Unsupported('__getattribute__ on ' + str(o.s))
            s.oblige('safe/AttributeError-missing-attribute', Select(eng.field(s, 'WBS', '$has'), o.e)[n.e], f'@{e.lineno}')
            return [(s, V(Select(eng.field(s, 'WBS', '$attrs'), o.e)[n.e], VAL))]
        if isinstance(f, ast.Attribute) and f.attr == '__setattr__' and len(e.args) == 2:
            s, o = eng.ev1(f.value, st); s, n = eng.ev1(e.args[0], s); s, v = eng.ev1(e.args[1], s)
            if o.s != WBSR: raise Unsupported('__setattr__ on ' + str(o.s))
            s.oblige('safe/AttributeError-None', o.e != WBSR.null, f'@{e.lineno}')
            hf = eng.field(s, 'WBS', '$has'); af = eng.field(s, 'WBS', '$attrs')
            eng.write(s, 'WBS.$has', Store(hf, o.e, Store(hf[o.e], n.e, BoolVal(True))))
            eng.write(s, 'WBS.$attrs', Store(af, o.e, Store(af[o.e], n.e, v.e)))
            return [(s, V(None, NONE))]
        if isinstance(f, ast.Name) and f.id == 'WBS':
            # WBS(): assumed contract of the constructor in terms of the attribute map - a fresh object whose only instance attribute is the private `_WBS__root`
            if e.args or e.keywords: raise Unsupported('WBS(...) with arguments')
            n = fresh('newwbs', WBSR); al = eng.field(st, 'WBS', '$alloc')
            st.assume(And(n != WBSR.null, Not(al[n])))
            nh = fresh('has', S('SMapB', SMAP_B))
            st.assume(ForAll([k_], nh[k_] == (k_ == StringVal(PRIVATE_ROOT)), patterns=[nh[k_]]))
            eng.write(st, 'WBS.$has', Store(eng.field(st, 'WBS', '$has'), n, nh)); eng.write(st, 'WBS.$alloc', Store(al, n, BoolVal(True)))
            eng.write(st, 'WBS.$rootsval', Store(eng.field(st, 'WBS', '$rootsval'), n, fresh('noroots', LT_)))
            return [(st, V(n, WBSR))]
        return NotImplemented

    def ev_Subscript(self, eng, e, st):
        s, o = eng.ev1(e.value, st)
        if o.s != DICT: return NotImplemented
        s, key = eng.ev1(e.slice, s)
        if key.s != VAL: raise Unsupported('dict key of sort ' + str(key.s))
        s.oblige('safe/KeyError-no-clone-under-this-id', dhas(o.e, key.e), f'@{e.lineno}')
        return [(s, V(dget(o.e, key.e), TASK))]

    def ev_ListComp(self, eng, e, st):
        # [ELT(r) for r in xs] without condition: a list of the same length whose i-th element is ELT(xs[i]); ELT is evaluated by the engine
        # for the element at an arbitrary position j, so its own obligations (KeyError, None) are obliged for every position
        g = e.generators[0]
        if len(e.generators) != 1 or g.ifs or not isinstance(g.target, ast.Name): raise Unsupported('comprehension form')
        s, xs = eng.ev1(g.iter, st)
        if xs.s != LT_: raise Unsupported('comprehension over ' + str(xs.s))
        j = fresh('pos', INT); saved = s.env.get(g.target.id)
        s.assume(LT_.len(xs.e) >= 0)
        body = s.fork(And(0 <= j, j < LT_.len(xs.e))); body.env = dict(s.env); body.env[g.target.id] = V(LT_.at(xs.e, j), TASK)
        outs = eng.ev(e.elt, body)
        if len(outs) != 1 or isinstance(outs[0][1], Raise): raise Unsupported('comprehension element with several outcomes')
        s3, v = outs[0]
        if v.s != TASK: raise Unsupported('comprehension element of sort ' + str(v.s))
        R = fresh('comp', LT_)
        s.assume(And(LT_.len(R) == LT_.len(xs.e),
                     ForAll([j_], Implies(And(0 <= j_, j_ < LT_.len(R)), LT_.at(R, j_) == substitute(v.e, (j, j_))), patterns=[LT_.at(R, j_)])))
        return [(s, V(R, LT_))]


def wbs_clone_unit():
    def build():
        fld = lambda c, cl, f, which='cur': c.fld(cl, f, which)
        pub = lambda k: Not(PrefixOf(StringVal('_'), k))
        ids = lambda c: fld(c, 'Task', '$id')

        def pre(c):
            me = c['self']; has = fld(c, 'WBS', '$has')[me]; R = c['roots']
            return And(me != WBSR.null, fld(c, 'WBS', '$alloc')[me], LT_.len(R) >= 0,
                       ForAll([j_], Implies(And(0 <= j_, j_ < LT_.len(R)), LT_.at(R, j_) != TASK.null), patterns=[LT_.at(R, j_)]),
                       ForAll([k_], memS(keys_ofW(me), k_) == has[k_], patterns=[memS(keys_ofW(me), k_)]))

        def c_clone_tasks(eng, st, recv, a, k, n):
            # ASSUMED contract of WBS.__clone_tasks (bounded stand-in only): a dict with an entry under the id of every given root; no WBS attribute is touched
            d = fresh('cloned', DICT); R = a[0].e
            st.oblige('call/__clone_tasks/roots-are-tasks', ForAll([j_], Implies(And(0 <= j_, j_ < LT_.len(R)), LT_.at(R, j_) != TASK.null)), f'@{n.lineno}')
            st.assume(ForAll([j_], Implies(And(0 <= j_, j_ < LT_.len(R)), dhas(d, tidv(eng, st, LT_.at(R, j_)))), patterns=[LT_.at(R, j_)]))
            return [(st, V(d, DICT))]

        def c_set_roots(eng, st, recv, a, k, n):
            # roots setter (proved in graph terms by its own unit, contracts/children.py): here only what it was handed is recorded; it may refuse
            ok = st.fork(); rej = st.fork()
            eng.write(ok, 'WBS.$rootsval', Store(eng.field(ok, 'WBS', '$rootsval'), recv.e, a[0].e))
            return [(ok, V(None, NONE)), (rej, Raise('RuntimeError'))]

        def inv(c):
            me = c['self']; cp = c['cloned_project']; KL = keys_ofW(me); i = c['_i0']
            has0, at0 = fld(c, 'WBS', '$has', 'pre'), fld(c, 'WBS', '$attrs', 'pre'); has1, at1 = fld(c, 'WBS', '$has'), fld(c, 'WBS', '$attrs')
            return And(i >= 0, i <= LS.len(KL), cp != WBSR.null, cp != me, Not(fld(c, 'WBS', '$alloc', 'pre')[cp]),
                       ForAll([w_], Implies(w_ != cp, And(has1[w_] == has0[w_], at1[w_] == at0[w_])), patterns=[has1[w_]]),
                       ForAll([k_], Implies(has1[cp][k_], Or(k_ == StringVal(PRIVATE_ROOT), And(memS(KL, k_), pub(k_)))), patterns=[has1[cp][k_]]),
                       ForAll([k_], Implies(And(memS(KL, k_), idxS(KL, k_) < i, pub(k_)), And(has1[cp][k_], at1[cp][k_] == at0[me][k_])), patterns=[memS(KL, k_)]))
        res = lambda c: c.result.e

        def roots_post(c):
            L = fld(c, 'WBS', '$rootsval')[res(c)]; R = c['roots']; d = c['cloned_tasks']
            return And(LT_.len(L) == LT_.len(R),
                       ForAll([j_], Implies(And(0 <= j_, j_ < LT_.len(R)), LT_.at(L, j_) == dget(d, ids(c)[LT_.at(R, j_)]))))
        fc = {'sig': {'self': WBSR, 'roots': LT_}, 'locals': {'k': STR, 'cloned_project': WBSR, 'cloned_tasks': DICT},
              'requires': [('pre', pre)], 'raises': {'RuntimeError': []},
              'loops': {0: {'fingerprint': 'for k in self.__dict__.keys()', 'invariant': [('attributes-copied-so-far', inv)], 'havoc_heap': ['WBS.$has', 'WBS.$attrs']}},
              'ensures': [('C10/copy-is-a-new-WBS', lambda c: And(res(c) != WBSR.null, res(c) != c['self'], Not(fld(c, 'WBS', '$alloc', 'pre')[res(c)]))),
                          ('C10/roots-of-the-copy-are-the-clones-of-the-given-roots-in-order', roots_post),
                          ('C10/every-public-WBS-attribute-carried-over-and-no-other', lambda c: ForAll([k_], Implies(pub(k_), And(
                              fld(c, 'WBS', '$has')[res(c)][k_] == fld(c, 'WBS', '$has', 'pre')[c['self']][k_],
                              Implies(fld(c, 'WBS', '$has', 'pre')[c['self']][k_], fld(c, 'WBS', '$attrs')[res(c)][k_] == fld(c, 'WBS', '$attrs', 'pre')[c['self']][k_]))))),
                          ('C10/source-WBS-and-every-other-WBS-keep-their-attributes', lambda c: ForAll([w_], Implies(fld(c, 'WBS', '$alloc', 'pre')[w_], And(
                              fld(c, 'WBS', '$has')[w_] == fld(c, 'WBS', '$has', 'pre')[w_], fld(c, 'WBS', '$attrs')[w_] == fld(c, 'WBS', '$attrs', 'pre')[w_]))))]}
        contracts = {'prop:Task.id': lambda eng, st, recv, a, k, n: (st.oblige('safe/AttributeError-None', recv.e != TASK.null, f'.id @{n.lineno}'), [(st, V(tidv(eng, st, recv.e), VAL))])[1],
                     'WBS._WBS__clone_tasks': c_clone_tasks, 'setprop:WBS.roots': c_set_roots}
        return Engine(FW, 'WBS.__clone', contracts, W_CLASSES, fc, plugins=[WbsClonePlugin()]), AX
    return Unit('WBS.__clone', FW, build, ['C10'], timeout_ms=15000)


cloneof = Function('wbs_clone_of', WBSR.z, LT_.z, WBSR.z)          # what WBS.__clone(self, roots) returns (its contract is proved by the unit above)
rootsof = Function('wbs_roots_value', WBSR.z, LT_.z)


def wbs_clone_entry_unit():
    """WBS.clone: hands exactly its own root list to __clone and returns what that returns."""
    def build():
        def c_roots(eng, st, recv, a, k, n):
            R = rootsof(recv.e)          # list invariant of the hidden root's children (Inv of the graph units): tasks, never None
            st.assume(And(LT_.len(R) >= 0, ForAll([j_], Implies(And(0 <= j_, j_ < LT_.len(R)), LT_.at(R, j_) != TASK.null), patterns=[LT_.at(R, j_)])))
            return [(st, V(R, LT_))]

        def c_clone(eng, st, recv, a, k, n):
            R = a[0].e
            st.oblige('call/__clone/pre/receiver-is-a-live-WBS', And(recv.e != WBSR.null, Select(eng.field(st, 'WBS', '$alloc'), recv.e)), f'@{n.lineno}')
            st.oblige('call/__clone/pre/roots-are-tasks', ForAll([j_], Implies(And(0 <= j_, j_ < LT_.len(R)), LT_.at(R, j_) != TASK.null)), f'@{n.lineno}')
            ok = st.fork(); rej = st.fork()
            return [(ok, V(cloneof(recv.e, R), WBSR)), (rej, Raise('RuntimeError'))]
        fc = {'sig': {'self': WBSR}, 'locals': {}, 'raises': {'RuntimeError': []},
              'requires': [('pre', lambda c: And(c['self'] != WBSR.null, c.fld('WBS', '$alloc')[c['self']]))],
              'ensures': [('C10/clone-copies-exactly-the-root-list-of-this-WBS', lambda c: c.result.e == cloneof(c['self'], rootsof(c['self'])))]}
        return Engine(FW, 'WBS.clone', {'prop:WBS.roots': c_roots, 'WBS._WBS__clone': c_clone}, W_CLASSES, fc, plugins=[WbsClonePlugin()]), AX
    return Unit('WBS.clone', FW, build, ['C10'], timeout_ms=15000)


tolist = Function('to_list_of', LT_.z, LT_.z)          # _to_list(xs) for a list of tasks without None: the same tasks in the same order (proved for _to_list in contracts/small.py)


def wbs_subtree_unit():
    """WBS.subtree, operand a list of tasks (no None): hands _to_list(roots) - the named tasks in their order - to __clone and returns what that returns."""
    def build():
        def c_to_list(eng, st, recv, a, k, n):
            R = a[0].e; L = tolist(R)
            st.assume(And(LT_.len(L) == LT_.len(R), ForAll([j_], Implies(And(0 <= j_, j_ < LT_.len(R)), LT_.at(L, j_) == LT_.at(R, j_)), patterns=[LT_.at(L, j_)])))
            return [(st, V(L, LT_))]

        def c_clone(eng, st, recv, a, k, n):
            R = a[0].e
            st.oblige('call/__clone/pre/receiver-is-a-live-WBS', And(recv.e != WBSR.null, Select(eng.field(st, 'WBS', '$alloc'), recv.e)), f'@{n.lineno}')
            st.oblige('call/__clone/pre/roots-are-tasks', ForAll([j_], Implies(And(0 <= j_, j_ < LT_.len(R)), LT_.at(R, j_) != TASK.null)), f'@{n.lineno}')
            ok = st.fork(); rej = st.fork()
            return [(ok, V(cloneof(recv.e, R), WBSR)), (rej, Raise('RuntimeError'))]

        def pre(c):
            R = c['roots']
            return And(c['self'] != WBSR.null, c.fld('WBS', '$alloc')[c['self']], LT_.len(R) >= 0,
                       ForAll([j_], Implies(And(0 <= j_, j_ < LT_.len(R)), LT_.at(R, j_) != TASK.null), patterns=[LT_.at(R, j_)]))
        fc = {'sig': {'self': WBSR, 'roots': LT_}, 'locals': {}, 'raises': {'RuntimeError': []}, 'requires': [('pre', pre)],
              'ensures': [('C10/subtree-copies-exactly-the-named-tasks-in-their-order', lambda c: c.result.e == cloneof(c['self'], tolist(c['roots'])))]}
        return Engine(FW, 'WBS.subtree', {'fn:_to_list': c_to_list, 'WBS._WBS__clone': c_clone}, W_CLASSES, fc, plugins=[WbsClonePlugin()]), AX
    return Unit('WBS.subtree', FW, build, ['C10'], timeout_ms=15000)


UNITS = [clone_unit(), wbs_clone_unit(), wbs_clone_entry_unit(), wbs_subtree_unit()]
