"""Sidecar contract for Task.clone (C10): the copy is a fresh object with the same id, estimate, spent, exactly the public instance
attributes of the source with equal values, and no relations.  Instance attributes are modelled as a per-object map name -> value
(`__dict__`), values as an abstract sort.  WBS.__clone_tasks / __clone (the re-wiring of hierarchy and links) are covered by the
bounded stand-in only.
"""
import ast
from z3 import *
from pyvc.core import *
from pyvc.unit import Unit

F = 'pjplan/task.py'
TASK = REF('Task'); VAL = S('Val', DeclareSort('Val')); LS = LIST(STR)
SMAP_B = ArraySort(StringSort(), BoolSort()); SMAP_V = ArraySort(StringSort(), VAL.z)
memS = Function('memS', LS.z, StringSort(), BoolSort()); idxS = Function('idxS', LS.z, StringSort(), IntSort())
keys_of = Function('dict_keys', TASK.z, LS.z)
tid = Function('task_id_val', TASK.z, VAL.z); est = Function('task_estimate_val', TASK.z, VAL.z); spent = Function('task_spent_val', TASK.z, VAL.z)
CLASSES = {'Task': {'$has': S('SMapB', SMAP_B), '$attrs': S('SMapV', SMAP_V), '$alloc': BOOL, '$norel': BOOL, '$id': VAL, '$est': VAL, '$spent': VAL}}
DEFAULTS = ['name', 'resource', 'start', 'end', 'milestone', 'min_start']
default_val = Function('ctor_default', StringSort(), VAL.z)
l_ = Const('l_', LS.z); k_ = Const('k_', StringSort()); i_ = Int('i_'); t_ = Const('t_', TASK.z)
AX = [ForAll([l_], LS.len(l_) >= 0),
      ForAll([l_, i_], Implies(And(0 <= i_, i_ < LS.len(l_)), memS(l_, LS.at(l_, i_))), patterns=[LS.at(l_, i_)]),
      ForAll([l_, k_], Implies(memS(l_, k_), And(0 <= idxS(l_, k_), idxS(l_, k_) < LS.len(l_), LS.at(l_, idxS(l_, k_)) == k_)), patterns=[memS(l_, k_)])]


class ClonePlugin:
    def call(self, eng, e, st):
        f = e.func
        if isinstance(f, ast.Attribute) and f.attr == 'keys' and isinstance(f.value, ast.Attribute) and f.value.attr == '__dict__':
            s, o = eng.ev1(f.value.value, st)
            return [(s, V(keys_of(o.e), LS))]
        if isinstance(f, ast.Attribute) and f.attr == 'items' and isinstance(f.value, ast.Name) and f.value.id == 'kwargs':
            return [(st, V(st.env['kwargs'].e, S('KwItems', None)))]
        if isinstance(f, ast.Attribute) and f.attr == '__getattribute__' and len(e.args) == 1:
            s, o = eng.ev1(f.value, st); s, n = eng.ev1(e.args[0], s)
            has = Select(eng.field(s, 'Task', '$has'), o.e)
            s.oblige('safe/AttributeError-missing-attribute', has[n.e], f'@{e.lineno}')
            return [(s, V(Select(eng.field(s, 'Task', '$attrs'), o.e)[n.e], VAL))]
        if isinstance(f, ast.Attribute) and f.attr == '__setattr__' and len(e.args) == 2:
            s, o = eng.ev1(f.value, st); s, n = eng.ev1(e.args[0], s); s, v = eng.ev1(e.args[1], s)
            s.oblige('safe/AttributeError-None', o.e != TASK.null, f'@{e.lineno}')
            hf = eng.field(s, 'Task', '$has'); af = eng.field(s, 'Task', '$attrs')
            eng.write(s, 'Task.$has', Store(hf, o.e, Store(hf[o.e], n.e, BoolVal(True))))
            eng.write(s, 'Task.$attrs', Store(af, o.e, Store(af[o.e], n.e, v.e)))
            return [(s, V(None, NONE))]
        if isinstance(f, ast.Name) and f.id == 'Task':
            # Task(id=..., estimate=..., spent=...): a fresh task with these three values, the constructor's default public attributes and no relations
            kw = {}
            s = st
            if e.args: raise Unsupported('positional arguments to Task(...)')
            for k in e.keywords:
                s, kw[k.arg] = eng.ev1(k.value, s)
            if set(kw) - {'id', 'estimate', 'spent'}: raise Unsupported('Task(...) keyword ' + str(set(kw)))
            n = fresh('newtask', TASK)
            al = eng.field(s, 'Task', '$alloc')
            s.assume(And(n != TASK.null, Not(al[n])))
            hf = eng.field(s, 'Task', '$has'); af = eng.field(s, 'Task', '$attrs')
            nh = fresh('has', S('SMapB', SMAP_B)); na = fresh('attrs', S('SMapV', SMAP_V))
            s.assume(ForAll([k_], nh[k_] == Or(*[k_ == StringVal(d) for d in DEFAULTS]), patterns=[nh[k_]]))
            s.assume(And(*[na[StringVal(d)] == default_val(StringVal(d)) for d in DEFAULTS]))
            eng.write(s, 'Task.$has', Store(hf, n, nh)); eng.write(s, 'Task.$attrs', Store(af, n, na)); eng.write(s, 'Task.$alloc', Store(al, n, BoolVal(True)))
            eng.write(s, 'Task.$norel', Store(eng.field(s, 'Task', '$norel'), n, BoolVal(True)))
            for fld, key in (('$id', 'id'), ('$est', 'estimate'), ('$spent', 'spent')):
                if key in kw: eng.write(s, 'Task.' + fld, Store(eng.field(s, 'Task', fld), n, kw[key].e))
            return [(s, V(n, TASK))]
        return NotImplemented

    def for_loop(self, eng, stmt, st):
        s0, seq = eng.ev1(stmt.iter, st)
        if seq.s.name == 'KwItems':
            # for k, v in kwargs.items(): the contract covers calls without extra keyword arguments (pre-condition) - the loop body is not entered
            k = eng.loop_contract[eng.loop_ids[id(stmt)]][0]
            return eng.loop(stmt, s0, lambda s: [(s, BoolVal(False))], lambda b: [b])
        return NotImplemented


def clone_unit():
    def build():
        fld = lambda c, f, which='cur': c.fld('Task', f, which)
        pub = lambda k: Not(PrefixOf(StringVal('_'), k))

        def pre(c):
            has = fld(c, '$has')[c['self']]
            return And(c['self'] != TASK.null, fld(c, '$alloc')[c['self']],
                       ForAll([k_], memS(keys_of(c['self']), k_) == has[k_], patterns=[memS(keys_of(c['self']), k_)]),
                       And(*[has[StringVal(d)] for d in DEFAULTS]))            # every task carries the constructor's public attributes
        j = Int('j')

        def inv(c):
            me = c['self']; cl = c['cloned']; KL = keys_of(me); i = c['_i0']
            has0, at0 = fld(c, '$has', 'pre'), fld(c, '$attrs', 'pre'); has1, at1 = fld(c, '$has'), fld(c, '$attrs')
            return And(i >= 0, i <= LS.len(KL), cl != TASK.null, cl != me, Not(fld(c, '$alloc', 'pre')[cl]), fld(c, '$norel')[cl],
                       fld(c, '$id')[cl] == fld(c, '$id', 'pre')[me], fld(c, '$est')[cl] == fld(c, '$est', 'pre')[me], fld(c, '$spent')[cl] == fld(c, '$spent', 'pre')[me],
                       ForAll([t_], Implies(t_ != cl, And(has1[t_] == has0[t_], at1[t_] == at0[t_])), patterns=[has1[t_]]),
                       ForAll([k_], Implies(has1[cl][k_], Or(*[k_ == StringVal(d) for d in DEFAULTS], And(memS(KL, k_), pub(k_)))), patterns=[has1[cl][k_]]),
                       ForAll([k_], Implies(And(memS(KL, k_), idxS(KL, k_) < i, pub(k_)), And(has1[cl][k_], at1[cl][k_] == at0[me][k_])), patterns=[memS(KL, k_)]),
                       And(*[has1[cl][StringVal(d)] for d in DEFAULTS]))
        res = lambda c: c.result.e
        fc = {'sig': {'self': TASK, 'kwargs': S('KwItems0', DeclareSort('Kw'))}, 'locals': {'k': STR, 'cloned': TASK},
              'requires': [('pre', pre)],
              'loops': {0: {'fingerprint': 'for k in self.__dict__.keys()', 'invariant': [('copied-so-far', inv)], 'havoc_heap': ['Task.$has', 'Task.$attrs']},
                        1: {'fingerprint': 'for (k, v) in kwargs.items()', 'invariant': [('same', inv)]}},
              'ensures': [('C10/copy-is-a-new-object', lambda c: And(res(c) != TASK.null, res(c) != c['self'], Not(fld(c, '$alloc', 'pre')[res(c)]))),
                          ('C10/same-id-estimate-spent', lambda c: And(fld(c, '$id')[res(c)] == fld(c, '$id', 'pre')[c['self']], fld(c, '$est')[res(c)] == fld(c, '$est', 'pre')[c['self']],
                                                                       fld(c, '$spent')[res(c)] == fld(c, '$spent', 'pre')[c['self']])),
                          ('C10/every-public-attribute-copied-with-its-value-and-no-other', lambda c: ForAll([k_], Implies(pub(k_), And(
                              fld(c, '$has')[res(c)][k_] == fld(c, '$has', 'pre')[c['self']][k_],
                              Implies(fld(c, '$has', 'pre')[c['self']][k_], fld(c, '$attrs')[res(c)][k_] == fld(c, '$attrs', 'pre')[c['self']][k_]))))),
                          ('C10/copy-has-no-relations', lambda c: fld(c, '$norel')[res(c)]),
                          ('C10/source-and-all-other-tasks-unchanged', lambda c: ForAll([t_], Implies(fld(c, '$alloc', 'pre')[t_], And(fld(c, '$has')[t_] == fld(c, '$has', 'pre')[t_], fld(c, '$attrs')[t_] == fld(c, '$attrs', 'pre')[t_]))))]}
        contracts = {'prop:Task.id': lambda eng, st, recv, a, k, n: [(st, V(Select(eng.field(st, 'Task', '$id'), recv.e), VAL))],
                     'prop:Task.estimate': lambda eng, st, recv, a, k, n: [(st, V(Select(eng.field(st, 'Task', '$est'), recv.e), VAL))],
                     'prop:Task.spent': lambda eng, st, recv, a, k, n: [(st, V(Select(eng.field(st, 'Task', '$spent'), recv.e), VAL))]}
        return Engine(F, 'Task.clone', contracts, CLASSES, fc, plugins=[ClonePlugin()]), AX
    return Unit('Task.clone', F, build, ['C10'], timeout_ms=15000)


UNITS = [clone_unit()]
