"""Sidecar contract for Task.children.setter (C01 C05 C11 C15 C16) - the assignment `task.children = [...]` / `wbs.roots = [...]`.

Shape of the function: checks (nothing written) - release loop (every current child loses its parent; the ones not named again lose their owner,
with their subtree) - clear() - attach loop (`v.parent = self` for every named task, by the contract of the parent setter).

Between the release loop and the end of the attach loop the kept children are detached but still carry the WBS label: W1r is broken for their
subtrees on purpose.  The parent setter is proved for an arbitrary set of tasks exempt from W1r (contracts/task.py); here that set is the set of
current violators, and the invariant of the attach loop says that every violator sits below a named task that is still to be attached - so at the
end there is none.

Proved: Inv (without the id clause U1, as for the parent setter) on normal exit, the exact effect (children list = the given list, parents, released
children detached with their subtrees, everything else untouched), `a call rejected by one of the checks changes nothing`, `rejected only for a stated
reason`.  NOT proved: that the attach loop cannot reject once the checks have passed (needs the meaning of the opaque id-clash predicate) - a
RuntimeError from the attach loop is allowed by this contract and left to the bounded stand-in (C15).
A task named several times ends up listed once, at the place of its last occurrence (each_once_last_occurrence_order, graph_theory.LIST_DL_AX).
"""
import ast
from z3 import *
from pyvc.core import *
from contracts.graph_theory import *
from contracts.task import (F, EMPTY, H, Inv, INV_LABELS, U1, F1below, F2below, walk_pre, oblige_struct, c_all_children, c_check_links, parent_setter_call, links_cross, clashfn, _Quiet, roots_after,
                            links_cross_def, LinkPlugin, KID_AX, kid, t_, c_, a_, b_, u_, w_, c_id)
from pyvc.unit import Unit

CLASHL = Function('idclash_list', PAR, ArraySort(T.z, IntSort()), ArraySort(T.z, W.z), T.z, LT.z, BoolSort())       # _has_id_intersection(parent, children): opaque function of the pre-state (C05: bounded)
LABS = [l_ for l_ in INV_LABELS if l_ != U1]


class ChildrenPlugin(LinkPlugin):
    def __init__(self):
        LinkPlugin.__init__(self, 'pre')

    def ev_ListComp(self, eng, e, st):
        # len([v for v in value if COND(v)]) > 0  : the filtered list is non-empty exactly if some listed task satisfies COND
        g = e.generators[0]
        if len(e.generators) == 1 and isinstance(e.elt, ast.Name) and e.elt.id == g.target.id and len(g.ifs) == 1:
            s, xs = eng.ev1(g.iter, st)
            if xs.s not in (LT, LR): return LinkPlugin.ev_ListComp(self, eng, e, st)
            xs = V(self.listval(eng, s, xs, e.lineno), LT)
            probe = fresh('probe', T); s2 = s.fork(); s2.env = dict(s.env); s2.env[g.target.id] = V(probe, T)
            s2.assume(mem(xs.e, probe))                      # the condition is evaluated for the elements of the list only
            outs = eng.ev(g.ifs[0], s2)
            if len(outs) != 1 or isinstance(outs[0][1], Raise): raise Unsupported('comprehension condition with several outcomes')
            s3, cv = outs[0]
            cond = eng.truth(s3, cv) if cv.s != BOOL else cv.e
            P = lambda t: substitute(cond, (probe, t))
            Fv = fresh('filtered', LT)
            # assumed semantics of a comprehension with a condition (T1): the elements that satisfy it, in the order of the list
            s.assume(And(ln(Fv) >= 0, (ln(Fv) > 0) == Exists([x], And(mem(xs.e, x), P(x))), ForAll([x], mem(Fv, x) == And(mem(xs.e, x), P(x)), patterns=[mem(Fv, x), mem(xs.e, x)]),
                         Implies(nodup(xs.e), nodup(Fv)),
                         ForAll([a_, b_], Implies(And(mem(Fv, a_), mem(Fv, b_)), (idx(Fv, a_) < idx(Fv, b_)) == (idx(xs.e, a_) < idx(xs.e, b_))), patterns=[MultiPattern(idx(Fv, a_), idx(Fv, b_))])))
            return [(s, V(Fv, LT))]
        return LinkPlugin.ev_ListComp(self, eng, e, st)

    def for_loop(self, eng, stmt, st):
        s0, seq = eng.ev1(stmt.iter, st)
        if seq.s == FAC:          # iterating a children facade = iterating the list object it wraps (live)
            s0.oblige('safe/AttributeError-None', seq.e != FAC.null, f'for @{stmt.lineno}')
            seq = V(Select(eng.field(s0, 'ChildrenFacade', '_list'), seq.e), LR)
        if seq.s != LR: return NotImplemented
        k = eng.loop_contract.get(eng.loop_ids[id(stmt)], (eng.loop_ids[id(stmt)], None))[0]; idxn = f'_i{k}'; eng.locals[idxn] = INT
        s0.env[idxn] = V(IntVal(0), INT)
        s0.oblige('safe/AttributeError-None', seq.e != LR.null, f'for @{stmt.lineno}')
        cur = lambda s: Select(eng.field(s, 'PyList', 'elems'), seq.e)

        def guard(s): return [(s, s.env[idxn].e < ln(cur(s)))]

        def pre(b_):
            b_.env[stmt.target.id] = V(at(cur(b_), b_.env[idxn].e), T); b_.env[idxn] = V(b_.env[idxn].e + 1, INT); return [b_]
        return eng.loop(stmt, s0, guard, pre, extra_havoc=[idxn])

    def call(self, eng, e, st):
        f = e.func
        if isinstance(f, ast.Name) and f.id == 'any' and len(e.args) == 1 and isinstance(e.args[0], ast.GeneratorExp):
            ge = e.args[0]; g = ge.generators[0]
            if isinstance(ge.elt, ast.Compare) and len(ge.elt.ops) == 1 and isinstance(ge.elt.ops[0], ast.Is) and isinstance(ge.elt.comparators[0], ast.Name) \
                    and ge.elt.comparators[0].id == g.target.id and not g.ifs:
                s, xs = eng.ev1(g.iter, st); s, a = eng.ev1(ge.elt.left, s)
                return [(s, V(mem(self.listval(eng, s, xs, e.lineno), a.e), BOOL))]          # any(a is n for n in L)  ==  a in L (by identity)
        if isinstance(f, ast.Name) and f.id == 'len' and len(e.args) == 1:
            s, v = eng.ev1(e.args[0], st)
            if v.s == LT: return [(s, V(ln(v.e), INT))]
        return LinkPlugin.call(self, eng, e, st)


def c_to_list(eng, st, recv, args, kws, node):
    # _to_list(value) (proved in contracts/small.py): a list of non-None tasks - public ones (domain restriction of DESIGN 8); a task may be named several times
    Lv = fresh('value', LT); ii = Int('ii'); h = H(eng, st)
    st.assume(And(ln(Lv) >= 0, ForAll([ii], Implies(And(0 <= ii, ii < ln(Lv)), at(Lv, ii) != null), patterns=[at(Lv, ii)]),
                  ForAll([x], Implies(mem(Lv, x), And(x != null, h.tid[x] != EMPTY)), patterns=[mem(Lv, x)])))
    st.ghost['value0'] = Lv
    return [(st, V(Lv, LT))]


def c_none(eng, st, recv, args, kws, node): return [(st, V(None, NONE))]


def c_clash_list(eng, st, recv, args, kws, node):
    h = H(eng, st)
    return [(st, V(CLASHL(h.par, h.tid, h.own, args[0].e, args[1].e), BOOL))]


def c_detach(eng, st, recv, args, kws, node):
    """contract of Task._detach (proved by its unit): the owner of the whole subtree becomes None; nothing else changes"""
    h = H(eng, st); me = recv.e
    for lab, g in (('task-non-null', me != null), ('C01/F4-no-task-is-its-own-ancestor', Acyc(h.par)), ('N-null-has-no-parent', h.par[null] == null), ('C01/F1-below-the-task', F1below(h, me)),
                   ('C01/F2-below-the-task', F2below(h, me)), ('C01/F3-no-child-listed-twice', Inv(h)['C01/F3-no-child-listed-twice']),
                   ('children-list-objects-exist', ForAll([t_], Implies(t_ != null, h.chl[t_] != LR.null), patterns=[h.chl[t_]]))):
        st.oblige(f'req@_detach/{lab}', g, f'@{node.lineno}')
    eng.write(st, 'Task._Task__wbs', Lambda([x], If(insub(h.par, me, x), W.null, h.own[x])))
    return [(st, V(None, NONE))]


def reasons(h, me, V_):
    """the stated reasons for refusing `me.children = V_` (C01: cycle, link along the hierarchy; C11: a named task belongs to another WBS / me is detached and it belongs to one; C05: id clash)"""
    bad = lambda v: Or(v == me, Desc(h.par, v, me), links_cross(h, v, me),
                       If(h.own[me] == W.null, h.own[v] != W.null, And(h.own[v] != W.null, h.own[v] != h.own[me])))
    return Or(Exists([x], And(mem(V_, x), bad(x))), CLASHL(h.par, h.tid, h.own, me, V_))


def children_setter_unit(late=False):
    """late=True: the same function against the part of the contract that says `once the checks have passed, the attach loop cannot refuse` (C15); contract splitting keeps the queries small"""
    def build():
        hc = lambda c: H(c.eng, c.st); h0 = lambda c: H(c.eng, c.pre); me = lambda c: c['self']
        V0 = lambda c: c.st.ghost.get('value0', c.pre.ghost.get('value0'))
        C0 = lambda c: h0(c).ch(me(c))

        def same_heap(c):
            h, g = hc(c), h0(c)
            return And(h.par == g.par, h.own == g.own, h.elems == g.elems, h.chl == g.chl, h.tid == g.tid, h.root == g.root, h.pre == g.pre, h.suc == g.suc)

        def checked_so_far(c, n):
            g = h0(c); j = Int('j'); Vv = c['value']
            return ForAll([j], Implies(And(0 <= j, j < n), And(at(Vv, j) != me(c), Not(Desc(g.par, at(Vv, j), me(c))), Not(links_cross(g, at(Vv, j), me(c))))), patterns=[at(Vv, j)])

        def owners_ok(c):
            g = h0(c); Vv = c['value']
            return And(ForAll([x], Implies(mem(Vv, x), If(g.own[me(c)] == W.null, g.own[x] == W.null, Or(g.own[x] == W.null, g.own[x] == g.own[me(c)]))), patterns=[mem(Vv, x)]),
                       Not(CLASHL(g.par, g.tid, g.own, me(c), Vv)))

        def inv_A(c):
            return And(same_heap(c), c['value'] == V0(c), c['_i0'] >= 0, c['_i0'] <= ln(c['value']), owners_ok(c), checked_so_far(c, c['_i0']))
        def released(c, x, k):
            """x lies below a child of self that the release loop has passed (index < k)"""
            g = h0(c); return And(Desc(g.par, me(c), x), idx(C0(c), kid(g.par, me(c), x)) < k)

        def inv_B(c):
            h, g = hc(c), h0(c); k = c['_i1']; Vv = c['value']; C = C0(c); kd = lambda x: kid(g.par, me(c), x)
            return {'frame': And(h.elems == g.elems, h.chl == g.chl, h.tid == g.tid, h.root == g.root, h.pre == g.pre, h.suc == g.suc, Vv == V0(c), k >= 0, k <= ln(C),
                                 owners_ok(c), checked_so_far(c, ln(Vv)), h.par[null] == null),
                    'parents-of-the-children-passed-are-cleared': ForAll([x], h.par[x] == If(And(mem(C, x), idx(C, x) < k), null, g.par[x]), patterns=[h.par[x]]),
                    'owners-below-the-released-children-are-cleared': ForAll([x], h.own[x] == If(And(released(c, x, k), Not(mem(Vv, kd(x)))), W.null, g.own[x]), patterns=[h.own[x]]),
                    'ancestry-is-the-old-one-cut-above-the-children-passed': ForAll([a_, x], Desc(h.par, a_, x) == And(Desc(g.par, a_, x), Not(And(released(c, x, k), Not(insub(g.par, kd(x), a_))))),
                                                                                    patterns=[Desc(h.par, a_, x)]),
                    'C01/F4-no-task-is-its-own-ancestor': Acyc(h.par)}
        def inv_B_roots(c):
            h, g = hc(c), h0(c); k = c['_i1']; kd = lambda x: kid(g.par, me(c), x)
            return ForAll([x], Implies(x != null, rootof(h.par, x) == If(released(c, x, k), kd(x), rootof(g.par, x))), patterns=[rootof(h.par, x)])
        BL = ['frame', 'parents-of-the-children-passed-are-cleared', 'owners-below-the-released-children-are-cleared', 'ancestry-is-the-old-one-cut-above-the-children-passed', 'C01/F4-no-task-is-its-own-ancestor']
        # ---------------------------------------------------------------- attach loop
        def viol(h):
            """the tasks that carry a WBS label without being reachable from that WBS (kept children between release and re-attachment, and what is below them)"""
            return lambda t: And(h.own[t] != W.null, Not(insub(h.par, h.root[h.own[t]], t)))

        def c_set_parent(eng, st, recv, args, kws, node):
            h = H(eng, st)
            res = parent_setter_call(eng, st, recv.e, eng.coerce(args[0], T), node.lineno, X=viol(h))
            for s2, r in res:
                if isinstance(r, Raise): s2.ghost['attach_rejected'] = BoolVal(True)
            return res

        def inv_C(c):
            h, g = hc(c), h0(c); i = c['_i2']; Vv = c['value']; C = C0(c); m = me(c); k_ = Const('k_', T.z)
            d = {'inv/' + l_: v for l_, v in Inv(h, X=viol(h)).items() if l_ != U1}
            d.update({
                'frame': And(h.chl == g.chl, h.tid == g.tid, h.root == g.root, h.pre == g.pre, h.suc == g.suc, Vv == V0(c), i >= 0, i <= ln(Vv), owners_ok(c), checked_so_far(c, ln(Vv)),
                             Not(c.st.ghost['attach_rejected']), m != null,
                             ForAll([t_], Implies(t_ != null, And(h.P(t_) == g.P(t_), h.S(t_) == g.S(t_))), patterns=[h.pre[t_]])),
                'parents-so-far': ForAll([x], h.par[x] == If(And(mem(Vv, x), idx(Vv, x) < i), m, If(mem(C, x), null, g.par[x])), patterns=[h.par[x]]),
                'children-of-the-task-so-far': h.ch(m) == dl(Vv, i),
                'other-children-lists-so-far': ForAll([t_, x], Implies(And(t_ != null, t_ != m), mem(h.ch(t_), x) == And(mem(g.ch(t_), x), Not(And(mem(Vv, x), idx(Vv, x) < i)))), patterns=[mem(h.ch(t_), x)]),
                'released-children-stay-detached': ForAll([x], Implies(And(mem(C, x), Not(mem(Vv, x))), h.own[x] == W.null), patterns=[h.own[x]]),
                'the-task-itself-is-in-place': And(h.own[m] == g.own[m], Not(viol(h)(m))),
                'every-label-without-membership-sits-below-a-named-task-still-to-be-attached':
                    ForAll([x], Implies(And(x != null, viol(h)(x)), Exists([k_], And(mem(Vv, k_), idx(Vv, k_) >= i, insub(h.par, k_, x)))), patterns=[h.own[x]]),
            })
            return d
        CL = ['inv/' + l_ for l_ in LABS] + ['frame', 'parents-so-far', 'children-of-the-task-so-far', 'other-children-lists-so-far', 'released-children-stay-detached', 'the-task-itself-is-in-place',
                                             'every-label-without-membership-sits-below-a-named-task-still-to-be-attached']

        def final(c):
            h, g = hc(c), h0(c); Vv = V0(c); C = C0(c); m = me(c)
            d = {l_: v for l_, v in Inv(h).items() if l_ != U1}
            d.update({
                'C16/children-list-is-exactly-the-given-list': And(h.ch(m) == dl(Vv, ln(Vv)), Implies(nodup(Vv), h.ch(m) == Vv)),
                'C16/every-named-task-reports-this-parent': ForAll([x], Implies(mem(Vv, x), h.par[x] == m)),
                'C11,C16/children-left-out-are-detached': ForAll([x], Implies(And(mem(C, x), Not(mem(Vv, x))), And(h.par[x] == null, h.own[x] == W.null))),
                'C16/parents-of-all-other-tasks-unchanged': ForAll([x], Implies(And(Not(mem(Vv, x)), Not(mem(C, x))), h.par[x] == g.par[x])),
                'C16/other-children-lists-only-lose-the-named-tasks': ForAll([t_, x], Implies(And(t_ != null, t_ != m), mem(h.ch(t_), x) == And(mem(g.ch(t_), x), Not(mem(Vv, x))))),
                'C16/dependency-lists-ids-and-list-objects-unchanged': And(h.chl == g.chl, h.tid == g.tid, h.root == g.root, h.pre == g.pre, h.suc == g.suc,
                                                                           ForAll([t_], Implies(t_ != null, And(h.P(t_) == g.P(t_), h.S(t_) == g.S(t_))))),
                'C01,C05,C11/accepted-only-without-a-reason-to-reject': Not(reasons(g, m, Vv)),
            })
            return d
        # ---------------------------------------------------------------- late=True: the attach loop cannot refuse
        R0 = lambda c: c.pre.ghost['R0']          # a name for receiving_root(h0, self) (patterns must not contain if-then-else terms)
        k_ = Const('k_', T.z); y_ = Const('y_', T.z)
        NEW0 = lambda c, z: And(Exists([k_], And(mem(V0(c), k_), insub(h0(c).par, k_, z))), Not(insub(h0(c).par, R0(c), z)))

        def inv_L(c):
            h, g = hc(c), h0(c); m = me(c); Vv = c['value']
            return {'late/ancestors-of-the-task-unchanged': ForAll([a_], Desc(h.par, a_, m) == Desc(g.par, a_, m), patterns=[Desc(h.par, a_, m)]),
                    'late/owners-are-the-old-ones-none-or-the-owner-of-the-task': And(h.own[m] == g.own[m], ForAll([x], Or(h.own[x] == g.own[x], h.own[x] == W.null, h.own[x] == g.own[m]), patterns=[h.own[x]])),
                    'late/new-descendants-appear-only-under-the-task-and-its-ancestors': ForAll([t_, x], Implies(Desc(h.par, t_, x), Or(Desc(g.par, t_, x), t_ == m, Desc(g.par, t_, m))), patterns=[Desc(h.par, t_, x)]),
                    'late/the-receiving-tree-only-gains-incoming-tasks': ForAll([x], Implies(insub(h.par, R0(c), x), Or(insub(g.par, R0(c), x), NEW0(c, x))), patterns=[Desc(h.par, R0(c), x)]),
                    'late/the-root-of-the-receiving-tree-is-unchanged': receiving_root(h, m) == R0(c),
                    'late/tasks-of-one-tree-were-in-one-tree-or-are-both-in-the-receiving-tree-or-incoming':
                        ForAll([x, y_], Implies(And(x != null, y_ != null, x != y_, rootof(h.par, x) == rootof(h.par, y_)),
                                                Or(rootof(g.par, x) == rootof(g.par, y_), And(Or(insub(g.par, R0(c), x), NEW0(c, x)), Or(insub(g.par, R0(c), y_), NEW0(c, y_))))),
                               patterns=[MultiPattern(rootof(h.par, x), rootof(h.par, y_))]),
                    'late/ids-are-unique-within-the-receiving-tree': ForAll([x, y_], Implies(And(x != y_, insub(g.par, R0(c), x), insub(g.par, R0(c), y_)), g.tid[x] != g.tid[y_]), patterns=[MultiPattern(g.tid[x], g.tid[y_])]),
                    'late/no-incoming-task-has-the-id-of-a-task-of-the-receiving-tree': ForAll([x, y_], Implies(And(NEW0(c, x), insub(g.par, R0(c), y_)), g.tid[x] != g.tid[y_]), patterns=[MultiPattern(g.tid[x], g.tid[y_])]),
                    'late/no-two-incoming-tasks-share-an-id': ForAll([x, y_], Implies(And(x != y_, NEW0(c, x), NEW0(c, y_)), g.tid[x] != g.tid[y_]), patterns=[MultiPattern(g.tid[x], g.tid[y_])])}
        LL = list(['late/ancestors-of-the-task-unchanged', 'late/owners-are-the-old-ones-none-or-the-owner-of-the-task', 'late/new-descendants-appear-only-under-the-task-and-its-ancestors',
                                               'late/the-receiving-tree-only-gains-incoming-tasks', 'late/the-root-of-the-receiving-tree-is-unchanged', 'late/tasks-of-one-tree-were-in-one-tree-or-are-both-in-the-receiving-tree-or-incoming', 'late/ids-are-unique-within-the-receiving-tree', 'late/no-incoming-task-has-the-id-of-a-task-of-the-receiving-tree', 'late/no-two-incoming-tasks-share-an-id'])

        def c_clash_list_late(eng, st, recv, args, kws, node):
            h = H(eng, st); r = CLASHL(h.par, h.tid, h.own, args[0].e, args[1].e)
            st.assume(r == clash_def(h, args[0].e, args[1].e))          # what _has_id_intersection returns (proved by its unit)
            return [(st, V(r, BOOL))]

        def c_set_parent_late(eng, st, recv, args, kws, node):
            h = H(eng, st); v = recv.e; m = eng.coerce(args[0], T); g = H(eng, eng.pre_state)
            pub = If(Or(h.par[v] == null, h.tid[h.par[v]] == EMPTY), null, h.par[v])
            clash = clashfn(m, v, h)
            st.assume(clash == clash_def(h, m, one_of(v)))                                                  # the id test the parent setter runs (proved by the unit of _has_id_intersection)
            st.assume(links_cross(h, v, m) == links_cross_def(h, v, m))                                     # definition of the opaque predicates (reveal)
            ta, an = Consts('ta_ an_', T.z)
            st.assume(Implies(Not(links_cross(g, v, m)), ForAll([ta, an], Implies(And(insub(g.par, v, ta), Or(an == m, Desc(g.par, an, m))), And(Not(mem(g.P(ta), an)), Not(mem(g.S(ta), an)))),
                                                                patterns=[mem(g.P(ta), an), mem(g.S(ta), an)])))
            cc = Ctx(eng, st, pre=eng.pre_state)
            lemA = ForAll([x], Implies(insub(h.par, v, x), insub(g.par, v, x)), patterns=[Desc(h.par, v, x)])
            st.oblige('lemma/C15/the-subtree-of-the-task-to-attach-has-not-grown', lemA, f'@{node.lineno}'); st.assume(lemA)
            lemB = ForAll([x], Implies(insub(g.par, v, x), Or(insub(g.par, R0(cc), x), NEW0(cc, x))), patterns=[Desc(g.par, v, x)])
            st.oblige('lemma/C15/its-tasks-are-incoming-tasks-or-tasks-of-the-receiving-tree', lemB, f'@{node.lineno}'); st.assume(lemB)
            st.oblige('C15/the-attach-loop-cannot-refuse/owner-test', Not(And(h.own[v] != W.null, h.own[m] != h.own[v])), f'@{node.lineno}')
            st.oblige('C15/the-attach-loop-cannot-refuse/id-test', Not(And(h.own[v] == W.null, pub != m, clash)), f'@{node.lineno}')
            st.oblige('C15/the-attach-loop-cannot-refuse/cycle-test', Not(insub(h.par, v, m)), f'@{node.lineno}')
            st.oblige('C15/the-attach-loop-cannot-refuse/link-test', Not(links_cross(h, v, m)), f'@{node.lineno}')
            res = parent_setter_call(eng, _Quiet(st), v, m, node.lineno, X=viol(h))
            out = []
            for s2, r in res:
                if isinstance(r, Raise): continue          # the refusal has just been shown impossible
                s2.assume(roots_after(h, H(eng, s2), v, m))          # closed form of the tree roots after the move (lemma of Task.parent.setter[ids])
                out.append((s2, r))
            return out
        FL = LABS + ['C16/children-list-is-exactly-the-given-list', 'C16/every-named-task-reports-this-parent', 'C11,C16/children-left-out-are-detached', 'C16/parents-of-all-other-tasks-unchanged',
                     'C16/other-children-lists-only-lose-the-named-tasks', 'C16/dependency-lists-ids-and-list-objects-unchanged', 'C01,C05,C11/accepted-only-without-a-reason-to-reject']
        fc = {'sig': {'self': T, 'value': LT}, 'ghost': {'attach_rejected': BOOL},
              'requires': [(l_, (lambda l_: lambda c: Inv(hc(c))[l_])(l_)) for l_ in LABS] + [('self-non-null', lambda c: me(c) != null), ('ghost-flag-starts-false', lambda c: Not(c.st.ghost['attach_rejected']))],
              'loops': {0: {'fingerprint': 'for ch in value', 'invariant': [('checks-passed-so-far-nothing-written', inv_A)]},
                        1: {'fingerprint': 'for v in self.__children', 'havoc_heap': ['Task._Task__parent', 'Task._Task__wbs'],
                            'invariant': [('release/' + l_, (lambda l_: lambda c: inv_B(c)[l_])(l_)) for l_ in BL] + ([('release/tree-roots-after-the-cuts', inv_B_roots)] if late else [])},
                        2: {'fingerprint': 'for v in value', 'havoc_heap': ['Task._Task__parent', 'Task._Task__wbs', 'PyList.elems'],
                            'invariant': [('attach/' + l_, (lambda l_: lambda c: inv_C(c)[l_])(l_)) for l_ in CL] + ([(l_, (lambda l_: lambda c: inv_L(c)[l_])(l_)) for l_ in LL] if late else [])},
                        },
              'raises': {'RuntimeError': [('C15/a-call-rejected-by-a-check-changes-nothing', lambda c: Or(c.st.ghost['attach_rejected'], same_heap(c))),
                                          ('C01,C05,C11/rejected-by-a-check-only-for-a-stated-reason', lambda c: Or(c.st.ghost['attach_rejected'], reasons(h0(c), me(c), V0(c))))]},
              'ensures': [(l_, (lambda l_: lambda c: final(c)[l_])(l_)) for l_ in FL]}
        contracts = {'fn:_to_list': c_to_list, 'fn:_check_no_nones_in_list': c_none, 'fn:_has_id_intersection': c_clash_list, 'prop:Task.all_children': c_all_children,
                     'fn:_check_no_links_to_ancestors': c_check_links, 'Task._detach': c_detach, 'prop:Task.id': c_id,
                     'setprop:Task.parent': c_set_parent}
        class LatePlugin(ChildrenPlugin):
            """cut lemmas about the PRE-state, proved once at the statement between the two loops (self.__children.clear()), then available to the attach loop"""
            def call(self_, eng, e, st):
                res = ChildrenPlugin.call(self_, eng, e, st)
                if isinstance(e.func, ast.Attribute) and e.func.attr == 'clear' and res is not NotImplemented:
                    for s2, r in res:
                        if isinstance(r, Raise): continue
                        cc = Ctx(eng, s2, pre=eng.pre_state); g = H(eng, eng.pre_state); R = R0(cc)
                        lem1 = And(rootof(g.par, R) == R, g.par[R] == null, R != null, ForAll([x], Implies(Desc(g.par, R, x), rootof(g.par, x) == R), patterns=[Desc(g.par, R, x)]))
                        s2.oblige('lemma/C05,C15/the-receiving-tree-is-the-tree-of-its-root', lem1, f'@{e.lineno}'); s2.assume(lem1)
                        lem2 = inv_L(cc)['late/ids-are-unique-within-the-receiving-tree']
                        s2.oblige('lemma/C05,C15/ids-are-unique-within-the-receiving-tree', lem2, f'@{e.lineno}'); s2.assume(lem2)
                return res
        if late:
            fc['requires'] = fc['requires'] + [(U1, lambda c: Inv(hc(c))[U1]), ('ghost-name-of-the-receiving-root', lambda c: c.st.ghost['R0'] == receiving_root(hc(c), me(c)))]
            fc['ghost'] = dict(fc['ghost'], R0=T)
            fc['ensures'] = [(U1, lambda c: Inv(hc(c))[U1])]; fc['raises'] = {'RuntimeError': []}
            contracts.update({'fn:_has_id_intersection': c_clash_list_late, 'setprop:Task.parent': c_set_parent_late})
            e = Engine(F, 'Task.children.setter', contracts, TASK_CLASSES, fc, plugins=[LatePlugin()]); e.oblige_only = ()          # call-site obligations of the callees: discharged in the core unit
            return e, LIST_AX + LIST_DL_AX + GRAPH_AX + KID_AX + ROOT_AX + ONE_AX
        return Engine(F, 'Task.children.setter', contracts, TASK_CLASSES, fc, plugins=[ChildrenPlugin()]), LIST_AX + LIST_DL_AX + GRAPH_AX + KID_AX
    if late:
        return Unit('Task.children.setter[no-late-refusal]', F, build, ['C15'], shards=4, timeout_ms=15000)
    return Unit('Task.children.setter', F, build, ['C01', 'C05', 'C11', 'C15', 'C16'], shards=4, timeout_ms=15000)


UNITS = [children_setter_unit(), children_setter_unit(late=True)]


# ================================================================================================ callers of the children setter
from contracts.task import FAC_CLASSES, c_check_not_none, c_root

SETTER_FINAL = ['C16/children-list-is-exactly-the-given-list', 'C16/every-named-task-reports-this-parent', 'C11,C16/children-left-out-are-detached', 'C16/parents-of-all-other-tasks-unchanged',
                'C16/other-children-lists-only-lose-the-named-tasks', 'C16/dependency-lists-ids-and-list-objects-unchanged']


def setter_effect(h, g, m, Vv):
    C = g.ch(m)
    return {'C16/children-list-is-exactly-the-given-list': And(h.ch(m) == dl(Vv, ln(Vv)), Implies(nodup(Vv), h.ch(m) == Vv)),
            'C16/every-named-task-reports-this-parent': ForAll([x], Implies(mem(Vv, x), h.par[x] == m), patterns=[mem(Vv, x)]),
            'C11,C16/children-left-out-are-detached': ForAll([x], Implies(And(mem(C, x), Not(mem(Vv, x))), And(h.par[x] == null, h.own[x] == W.null)), patterns=[mem(C, x)]),
            'C16/parents-of-all-other-tasks-unchanged': ForAll([x], Implies(And(Not(mem(Vv, x)), Not(mem(C, x))), h.par[x] == g.par[x]), patterns=[h.par[x]]),
            'C16/other-children-lists-only-lose-the-named-tasks': ForAll([t_, x], Implies(And(t_ != null, t_ != m), mem(h.ch(t_), x) == And(mem(g.ch(t_), x), Not(mem(Vv, x)))), patterns=[mem(h.ch(t_), x)]),
            'C16/dependency-lists-ids-and-list-objects-unchanged': And(h.chl == g.chl, h.tid == g.tid, h.root == g.root, h.pre == g.pre, h.suc == g.suc,
                                                                       ForAll([t_], Implies(t_ != null, And(h.P(t_) == g.P(t_), h.S(t_) == g.S(t_))), patterns=[h.pre[t_]]))}


def children_setter_call(eng, st, m, Vv, line):
    """the contract of Task.children.setter at a call site, for a list value Vv (proved by children_setter_unit for lists without repetitions).
    Three outcomes: rejected by a check (nothing changed, a stated reason holds), rejected inside the attach loop (NOT excluded by the proof: the heap is
    unspecified then - C15 for this path is the bounded stand-in's), accepted (Inv + effect)."""
    g = H(eng, st)
    for lab, f in Inv(g).items():
        if lab != U1: st.oblige(f'req@children.setter/{lab}', f, f'@{line}')
    st.oblige('req@children.setter/task-non-null', m != null, f'@{line}')
    st.oblige('req@children.setter/list-of-public-tasks', ForAll([x], Implies(mem(Vv, x), And(x != null, g.tid[x] != EMPTY)), patterns=[mem(Vv, x)]), f'@{line}')
    rc = reasons(g, m, Vv)
    exc1 = st.fork(rc); exc2 = st.fork(And(Not(rc), Not(Inv(g)[U1]))); ok = st.fork(Not(rc))          # a refusal out of the attach loop needs ids that were not unique before (unit [no-late-refusal])
    for s2 in (exc2, ok):
        for k in ('Task._Task__parent', 'Task._Task__wbs', 'PyList.elems'): eng.havoc(s2, k)
    exc2.ghost['attach_rejected'] = BoolVal(True)
    h = H(eng, ok)
    for lab, f in Inv(h).items():
        if lab != U1: ok.assume(f)
    for f in setter_effect(h, g, m, Vv).values(): ok.assume(f)
    ok.assume(Implies(Inv(g)[U1], Inv(h)[U1]))          # ids stay unique within every tree (unit [no-late-refusal])
    return [(ok, V(None, NONE)), (exc1, Raise('RuntimeError')), (exc2, Raise('RuntimeError'))]


def roots_setter_unit():
    """WBS.roots = value  ==  <hidden root>.children = value"""
    def build():
        hc = lambda c: H(c.eng, c.st); h0 = lambda c: H(c.eng, c.pre); root = lambda c: h0(c).root[c['self']]

        def c_set_children(eng, st, recv, args, kws, node):
            return children_setter_call(eng, st, recv.e, args[0].e, node.lineno)
        fc = {'sig': {'self': W, 'value': LT}, 'ghost': {'attach_rejected': BOOL},
              'requires': [(l_, (lambda l_: lambda c: Inv(hc(c))[l_])(l_)) for l_ in LABS] +
                          [('wbs-non-null', lambda c: c['self'] != W.null), ('ghost-flag-starts-false', lambda c: Not(c.st.ghost['attach_rejected'])),
                           ('list-of-public-tasks', lambda c: ForAll([x], Implies(mem(c['value'], x), And(x != null, hc(c).tid[x] != EMPTY))))],
              'raises': {'RuntimeError': [('C15/a-call-rejected-by-a-check-changes-nothing', lambda c: Or(c.st.ghost['attach_rejected'], And(hc(c).par == h0(c).par, hc(c).own == h0(c).own, hc(c).elems == h0(c).elems))),
                                          ('C01,C05,C11/rejected-by-a-check-only-for-a-stated-reason', lambda c: Or(c.st.ghost['attach_rejected'], reasons(h0(c), root(c), c['value']))), ('C15/a-refusal-out-of-the-attach-loop-needs-ids-that-were-not-unique', lambda c: Implies(c.st.ghost['attach_rejected'], Not(Inv(H(c.eng, c.pre))[U1])))]},
              'ensures': [(l_, (lambda l_: lambda c: Inv(hc(c))[l_])(l_)) for l_ in LABS] + [('C05/ids-stay-unique-within-every-tree', lambda c: Implies(Inv(H(c.eng, c.pre))[U1], Inv(H(c.eng, c.st))[U1]))] +
                         [(l_.replace('children-list', 'list-of-root-tasks'), (lambda l_: lambda c: setter_effect(hc(c), h0(c), root(c), c['value'])[l_])(l_)) for l_ in SETTER_FINAL]}
        return Engine('pjplan/wbs.py', 'WBS.roots.setter', {'setprop:Task.children': c_set_children}, TASK_CLASSES, fc, plugins=[ChildrenPlugin()]), LIST_AX + GRAPH_AX
    return Unit('WBS.roots.setter', 'pjplan/wbs.py', build, ['C01', 'C11', 'C15', 'C16'], timeout_ms=15000)


def facade_remove_unit():
    """_ChildrenList.remove(task): the children of the facade's task without `task`, assigned through the children setter"""
    def build():
        hc = lambda c: H(c.eng, c.st); h0 = lambda c: H(c.eng, c.pre)
        fp = lambda c, w='cur': Select(c.fld('ChildrenFacade', '_ChildrenList__parent', w), c['self'])
        fl = lambda c, w='cur': Select(c.fld('ChildrenFacade', '_list', w), c['self'])
        L0 = lambda c: h0(c).ch(fp(c, 'pre'))

        def c_set_children(eng, st, recv, args, kws, node):
            Vv = ChildrenPlugin().listval(eng, st, args[0], node.lineno)
            st.ghost['assigned'] = Vv
            return children_setter_call(eng, st, recv.e, Vv, node.lineno)
        unchanged = lambda c: And(hc(c).par == h0(c).par, hc(c).own == h0(c).own, hc(c).elems == h0(c).elems)
        fc = {'sig': {'self': FAC, 'task': T}, 'ghost': {'attach_rejected': BOOL},
              'requires': [(l_, (lambda l_: lambda c: Inv(hc(c))[l_])(l_)) for l_ in LABS] +
                          [('facade-of-a-task-reading-its-current-children-list', lambda c: And(c['self'] != FAC.null, fp(c) != null, fl(c) == hc(c).chl[fp(c)])),
                           ('ghost-flag-starts-false', lambda c: Not(c.st.ghost['attach_rejected']))],
              'raises': {'RuntimeError': [('C15/rejected-before-anything-is-written-changes-nothing', lambda c: Or(c.st.ghost['attach_rejected'], unchanged(c))), ('C15/a-refusal-out-of-the-attach-loop-needs-ids-that-were-not-unique', lambda c: Implies(c.st.ghost['attach_rejected'], Not(Inv(H(c.eng, c.pre))[U1])))]},
              'ensures': [('C05/ids-stay-unique-within-every-tree', lambda c: Implies(Inv(H(c.eng, c.pre))[U1], Inv(H(c.eng, c.st))[U1])), ('C16/return-value-tells-membership', lambda c: c.result.e == mem(L0(c), c['task'])),
                          ('C15,C16/a-task-that-is-not-listed-changes-nothing', lambda c: Implies(Not(mem(L0(c), c['task'])), unchanged(c))),
                          ('C16/list-is-the-old-list-without-the-task-order-kept', lambda c: Implies(mem(L0(c), c['task']),
                              And(ForAll([x], mem(hc(c).ch(fp(c, 'pre')), x) == And(mem(L0(c), x), x != c['task'])),
                                  ForAll([a_, b_], Implies(And(mem(hc(c).ch(fp(c, 'pre')), a_), mem(hc(c).ch(fp(c, 'pre')), b_)),
                                                           (idx(hc(c).ch(fp(c, 'pre')), a_) < idx(hc(c).ch(fp(c, 'pre')), b_)) == (idx(L0(c), a_) < idx(L0(c), b_))))))),
                          ('C11,C16/the-removed-task-has-no-parent-and-no-owner', lambda c: Implies(mem(L0(c), c['task']), And(hc(c).par[c['task']] == null, hc(c).own[c['task']] == W.null))),
                          ('C16/parents-of-all-other-tasks-unchanged', lambda c: ForAll([x], Implies(x != c['task'], hc(c).par[x] == h0(c).par[x])))] +
                         [(l_, (lambda l_: lambda c: Inv(hc(c))[l_])(l_)) for l_ in LABS]}
        return Engine(F, '_ChildrenList.remove', {'fn:_check_not_none': c_check_not_none, 'setprop:Task.children': c_set_children}, FAC_CLASSES, fc, plugins=[ChildrenPlugin()]), LIST_AX + GRAPH_AX
    return Unit('_ChildrenList.remove', F, build, ['C01', 'C11', 'C15', 'C16'], timeout_ms=15000)


UNITS += [roots_setter_unit(), facade_remove_unit()]


# ================================================================================================ WBS.__remove / WBS.remove
FWBS = 'pjplan/wbs.py'


def removal_effect(h, g, p, task):
    """effect of removing `task` from the children of p (what _ChildrenList.remove proves)"""
    L0 = g.ch(p)
    return And(ForAll([x], mem(h.ch(p), x) == And(mem(L0, x), x != task), patterns=[mem(h.ch(p), x)]),
               ForAll([a_, b_], Implies(And(mem(h.ch(p), a_), mem(h.ch(p), b_)), (idx(h.ch(p), a_) < idx(h.ch(p), b_)) == (idx(L0, a_) < idx(L0, b_))), patterns=[MultiPattern(idx(h.ch(p), a_), idx(h.ch(p), b_))]),
               h.par[task] == null, h.own[task] == W.null, ForAll([x], Implies(x != task, h.par[x] == g.par[x]), patterns=[h.par[x]]))


def c_facade_remove(eng, st, recv, args, kws, node):
    """contract of _ChildrenList.remove on a facade just obtained from `current.children` (proved by facade_remove_unit)"""
    g = H(eng, st); p = Select(eng.field(st, 'ChildrenFacade', '_ChildrenList__parent'), recv.e); task = args[0].e
    for lab, f in Inv(g).items():
        if lab != U1: st.oblige(f'req@children.remove/{lab}', f, f'@{node.lineno}')
    st.oblige('req@children.remove/facade-of-a-task-reading-its-current-children-list', And(recv.e != FAC.null, p != null, Select(eng.field(st, 'ChildrenFacade', '_list'), recv.e) == g.chl[p]), f'@{node.lineno}')
    none = st.fork(task == null); absent = st.fork(And(task != null, Not(mem(g.ch(p), task)))); found = st.fork(And(task != null, mem(g.ch(p), task))); rej = st.fork(And(task != null, mem(g.ch(p), task), Not(Inv(g)[U1])))
    for s2 in (found, rej):
        for k in ('Task._Task__parent', 'Task._Task__wbs', 'PyList.elems'): eng.havoc(s2, k)
    rej.ghost['attach_rejected'] = BoolVal(True)
    h = H(eng, found)
    for lab, f in Inv(h).items():
        if lab != U1: found.assume(f)
    found.assume(removal_effect(h, g, p, task)); found.assume(Implies(Inv(g)[U1], Inv(h)[U1]))
    return [(absent, V(BoolVal(False), BOOL)), (found, V(BoolVal(True), BOOL)), (none, Raise('RuntimeError')), (rej, Raise('RuntimeError'))]


def wbs_remove_units():
    from contracts.task import c_children

    def spec(c, cur):
        """relational post-condition of __remove(task, cur)"""
        h, g = H(c.eng, c.st), H(c.eng, c.pre); task = c['task_to_remove']
        unchanged = And(h.par == g.par, h.own == g.own, h.elems == g.elems)
        return {'C16/returns-whether-the-task-is-below-the-start-task': c.result.e == And(task != null, Desc(g.par, cur, task)),
                'C15,C16/nothing-changes-if-it-is-not': Implies(Not(And(task != null, Desc(g.par, cur, task))), unchanged),
                'C11,C16/the-task-is-removed-from-the-children-of-its-parent-and-detached': Implies(And(task != null, Desc(g.par, cur, task)), removal_effect(h, g, g.par[task], task))}
    SL = ['C16/returns-whether-the-task-is-below-the-start-task', 'C15,C16/nothing-changes-if-it-is-not', 'C11,C16/the-task-is-removed-from-the-children-of-its-parent-and-detached']

    def c_rec(eng, st, recv, args, kws, node, rec=True):
        g = H(eng, st); task, cur = args[0].e, args[1].e; me = st.env['current'].e if rec else None
        for lab, f in Inv(g).items():
            if lab != U1: st.oblige(f'req@recursive-call/{lab}', f, f'@{node.lineno}')
        st.oblige('req@recursive-call/start-task-non-null', cur != null, f'@{node.lineno}')
        if rec: st.oblige('dec/C14/height-decreases-at-the-recursive-call', And(hgt(g.par, cur) < hgt(g.par, me), hgt(g.par, cur) >= 0), f'@{node.lineno}')
        below = And(task != null, Desc(g.par, cur, task))
        no = st.fork(Not(below)); yes = st.fork(below); rej = st.fork(And(below, Not(Inv(g)[U1])))
        for s2 in (yes, rej):
            for k in ('Task._Task__parent', 'Task._Task__wbs', 'PyList.elems'): eng.havoc(s2, k)
        rej.ghost['attach_rejected'] = BoolVal(True)
        h = H(eng, yes)
        for lab, f in Inv(h).items():
            if lab != U1: yes.assume(f)
        yes.assume(removal_effect(h, g, g.par[task], task)); yes.assume(Implies(Inv(g)[U1], Inv(h)[U1]))
        return [(no, V(BoolVal(False), BOOL)), (yes, V(BoolVal(True), BOOL)), (rej, Raise('RuntimeError'))]

    def build_rec():
        hc = lambda c: H(c.eng, c.st); h0 = lambda c: H(c.eng, c.pre)

        def inv(c):
            h, g = hc(c), h0(c); cur = c['current']; task = c['task_to_remove']; C = g.ch(cur); i = c['_i0']
            return And(h.par == g.par, h.own == g.own, h.elems == g.elems, h.chl == g.chl, h.tid == g.tid, h.root == g.root, h.pre == g.pre, h.suc == g.suc,
                       i >= 0, i <= ln(C), task != null, Not(mem(C, task)), Not(c.st.ghost['attach_rejected']),
                       ForAll([x], Implies(And(mem(C, x), idx(C, x) < i), Not(Desc(g.par, x, task))), patterns=[mem(C, x)]))
        fc = {'sig': {'self': W, 'task_to_remove': T, 'current': T}, 'ghost': {'attach_rejected': BOOL},
              'requires': [(l_, (lambda l_: lambda c: Inv(hc(c))[l_])(l_)) for l_ in LABS] + [('wbs-and-start-task-non-null', lambda c: And(c['self'] != W.null, c['current'] != null)), ('ghost-flag-starts-false', lambda c: Not(c.st.ghost['attach_rejected']))],
              'loops': {0: {'fingerprint': 'for ch in current.children', 'invariant': [('not-below-the-children-visited-so-far-nothing-changed', inv)]}},
              'raises': {'RuntimeError': [('C15/only-the-removal-itself-may-be-refused', lambda c: c.st.ghost['attach_rejected']), ('C15/a-refusal-out-of-the-attach-loop-needs-ids-that-were-not-unique', lambda c: Implies(c.st.ghost['attach_rejected'], Not(Inv(H(c.eng, c.pre))[U1])))]},
              'ensures': [('C05/ids-stay-unique-within-every-tree', lambda c: Implies(Inv(H(c.eng, c.pre))[U1], Inv(H(c.eng, c.st))[U1]))] + [(l_, (lambda l_: lambda c: spec(c, c['current'])[l_])(l_)) for l_ in SL] + [(l_, (lambda l_: lambda c: Inv(hc(c))[l_])(l_)) for l_ in LABS]}
        contracts = {'prop:Task.children': c_children, 'ChildrenFacade.remove': c_facade_remove, 'WBS._WBS__remove': c_rec}
        return Engine(FWBS, 'WBS.__remove', contracts, FAC_CLASSES, fc, plugins=[ChildrenPlugin()]), LIST_AX + GRAPH_AX + KID_AX + MEASURE_AX
    def build_remove():
        hc = lambda c: H(c.eng, c.st); h0 = lambda c: H(c.eng, c.pre); root = lambda c: h0(c).root[c['self']]

        class IsTask(ChildrenPlugin):
            def call(self, eng, e, st):
                if isinstance(e.func, ast.Name) and e.func.id == 'isinstance' and ast.unparse(e.args[1]) == 'Task':
                    s, v = eng.ev1(e.args[0], st)
                    if v.s == T: return [(s, V(v.e != null, BOOL))]          # the parameter is a Task or None
                if isinstance(e.func, ast.Name) and e.func.id == 'type': return [(st, V(fresh('typename', STR), STR))]
                return ChildrenPlugin.call(self, eng, e, st)
        fc = {'sig': {'self': W, 'task': T}, 'ghost': {'attach_rejected': BOOL},
              'requires': [(l_, (lambda l_: lambda c: Inv(hc(c))[l_])(l_)) for l_ in LABS] + [('wbs-non-null', lambda c: c['self'] != W.null), ('ghost-flag-starts-false', lambda c: Not(c.st.ghost['attach_rejected']))],
              'raises': {'RuntimeError': [('C15/refused-only-for-None-or-by-the-removal-itself', lambda c: Or(c.st.ghost['attach_rejected'], And(c['task'] == null, hc(c).par == h0(c).par, hc(c).own == h0(c).own, hc(c).elems == h0(c).elems))), ('C15/a-refusal-out-of-the-attach-loop-needs-ids-that-were-not-unique', lambda c: Implies(c.st.ghost['attach_rejected'], Not(Inv(H(c.eng, c.pre))[U1])))]},
              'ensures': [('C05/ids-stay-unique-within-every-tree', lambda c: Implies(Inv(H(c.eng, c.pre))[U1], Inv(H(c.eng, c.st))[U1])), ('C11,C16/returns-whether-the-task-is-a-member-of-this-WBS', lambda c: c.result.e == Desc(h0(c).par, root(c), c['task'])),
                          ('C15,C16/nothing-changes-for-a-task-that-is-no-member', lambda c: Implies(Not(Desc(h0(c).par, root(c), c['task'])), And(hc(c).par == h0(c).par, hc(c).own == h0(c).own, hc(c).elems == h0(c).elems))),
                          ('C11,C16/a-member-is-removed-from-the-children-of-its-parent-and-detached', lambda c: Implies(Desc(h0(c).par, root(c), c['task']), removal_effect(hc(c), h0(c), h0(c).par[c['task']], c['task'])))] +
                         [(l_, (lambda l_: lambda c: Inv(hc(c))[l_])(l_)) for l_ in LABS]}
        contracts = {'WBS._WBS__remove': lambda eng, st, recv, args, kws, node: c_rec(eng, st, recv, args, kws, node, rec=False)}
        return Engine(FWBS, 'WBS.remove', contracts, FAC_CLASSES, fc, plugins=[IsTask()]), LIST_AX + GRAPH_AX
    return [Unit('WBS.__remove', FWBS, build_rec, ['C11', 'C14', 'C15', 'C16'], timeout_ms=15000), Unit('WBS.remove', FWBS, build_remove, ['C11', 'C15', 'C16'], timeout_ms=15000)]


UNITS += wbs_remove_units()


# ================================================================================================ the operators  t << others,  t >> others,  t // others
from contracts.task import LInv_side, LINK_LABS, link_setter_call, forest_struct, up_struct


def link_operator_unit(side, single=False):
    """Task.__lshift__ / __rshift__:  self.predecessors += other  ==  self.predecessors = list(self.predecessors) + _to_list(other)  (facade __add__), through the link setter"""
    fname = '__lshift__' if side == 'pre' else '__rshift__'; pname = 'predecessors' if side == 'pre' else 'successors'
    M = (lambda h, t: h.P(t)) if side == 'pre' else (lambda h, t: h.S(t)); O = (lambda h, t: h.S(t)) if side == 'pre' else (lambda h, t: h.P(t))
    mref = (lambda h, t: h.pre[t]) if side == 'pre' else (lambda h, t: h.suc[t])

    def build():
        hc = lambda c: H(c.eng, c.st); h0 = lambda c: H(c.eng, c.pre); me = lambda c: c['self']
        state = {}
        oth = (lambda c: If(c['other'] == null, empty, one_of(c['other']))) if single else (lambda c: c['other'])          # the right operand as a list (_to_list: a task is a one-element list, None the empty one)

        class OpPlugin(ChildrenPlugin):
            def ev_Attribute(self_, eng, e, st):
                if e.attr == pname and isinstance(e.ctx, ast.Load):
                    s, o = eng.ev1(e.value, st)
                    if o.s == T:
                        s.oblige('safe/AttributeError-None', o.e != null, f'@{e.lineno}')
                        return [(s, V(mref(H(eng, s), o.e), LR))]          # the facade stands for the list object it wraps
                return NotImplemented

            def binop(self_, eng, st, k, l_, r, line):
                # facade + other  ==  facade._list.__add__(_to_list(other)); other is a list of non-None tasks here, so _to_list is the identity
                if k == 'Add' and l_.s in (LR, LT) and r.s == LT: return V(cat(self_.listval(eng, st, l_, line), r.e), LT)
                if k == 'Add' and l_.s in (LR, LT) and r.s == T: return V(cat(self_.listval(eng, st, l_, line), If(r.e == null, empty, one_of(r.e))), LT)          # _to_list(task) = [task], _to_list(None) = []
                return NotImplemented

            def assign(self_, eng, s, target, v):
                if isinstance(target, ast.Attribute) and target.attr == pname and v.s == LT:
                    s2, o = eng.ev1(target.value, s)
                    res, rc = link_setter_call(eng, s2, side, o.e, v.e, target.lineno); state['rc'] = rc
                    return [(s3, r if isinstance(r, Raise) else FALL) for s3, r in res]
                return NotImplemented

        def rc(c):
            hh = h0(c); E0 = c.pre.ghost['E']; m = me(c); Vv = cat(M(hh, m), oth(c))
            return Exists([x], And(mem(Vv, x), Or(x == m, Desc(hh.par, x, m), Desc(hh.par, m, x), TCp(E0, m, x))))
        reqs = [(l_, (lambda l_: lambda c: LInv_side(side, hc(c), c.st.ghost['E'])[l_])(l_)) for l_ in LINK_LABS] + \
               [('task-and-the-named-tasks-are-public', lambda c: And(me(c) != null, hc(c).tid[me(c)] != EMPTY, ForAll([x], Implies(mem(oth(c), x), And(x != null, hc(c).tid[x] != EMPTY))),
                                                                       ForAll([x], Implies(mem(M(hc(c), me(c)), x), hc(c).tid[x] != EMPTY), patterns=[mem(M(hc(c), me(c)), x)]))),
                ('C01/F4-no-task-is-its-own-ancestor', lambda c: And(Acyc(hc(c).par), hc(c).par[null] == null)),
                ('C01/F1-F3-children-lists-mirror-the-parents', lambda c: forest_struct(hc(c), me(c))), ('DR-reserved-id-only-on-parentless-tasks', lambda c: up_struct(hc(c))),
                ('hidden-root-has-reserved-id', lambda c: ForAll([w_], Implies(w_ != W.null, And(hc(c).root[w_] != null, hc(c).tid[hc(c).root[w_]] == EMPTY, hc(c).par[hc(c).root[w_]] == null)), patterns=[hc(c).root[w_]]))]
        unchanged = lambda c: And(hc(c).elems == h0(c).elems, hc(c).pre == h0(c).pre, hc(c).suc == h0(c).suc, hc(c).par == h0(c).par)
        fc = {'sig': {'self': T, 'other': T if single else LT}, 'ghost': {'E': S('REL', REL)}, 'requires': reqs,
              'raises': {'RuntimeError': [('C15/rejected-call-changes-nothing', unchanged), ('C01/rejected-only-for-a-stated-reason', rc)]},
              'ensures': [(l_, (lambda l_: lambda c: LInv_side(side, hc(c), c.st.ghost['E'])[l_])(l_)) for l_ in LINK_LABS] +
                         [('C16/links-are-the-old-ones-plus-the-named-tasks', lambda c: ForAll([x], mem(M(hc(c), me(c)), x) == Or(mem(M(h0(c), me(c)), x), mem(oth(c), x)))),
                          ('C16/old-links-keep-their-order-and-come-first', lambda c: And(
                              ForAll([a_, b_], Implies(And(mem(M(h0(c), me(c)), a_), mem(M(h0(c), me(c)), b_)), (idx(M(hc(c), me(c)), a_) < idx(M(hc(c), me(c)), b_)) == (idx(M(h0(c), me(c)), a_) < idx(M(h0(c), me(c)), b_)))),
                              ForAll([a_, b_], Implies(And(mem(M(h0(c), me(c)), a_), mem(oth(c), b_), Not(mem(M(h0(c), me(c)), b_))), idx(M(hc(c), me(c)), a_) < idx(M(hc(c), me(c)), b_))))),
                          ('C16/mirror-side-updated', lambda c: ForAll([a_, b_], Implies(a_ != null, mem(O(hc(c), a_), b_) == If(b_ == me(c), Or(mem(O(h0(c), a_), b_), mem(oth(c), a_)), mem(O(h0(c), a_), b_))))),
                          ('C16/links-of-all-other-tasks-unchanged', lambda c: ForAll([t_], Implies(And(t_ != null, t_ != me(c)), M(hc(c), t_) == M(h0(c), t_)))),
                          ('C16/returns-the-right-operand', lambda c: c.result.e == c['other']),
                          ('C01/accepted-only-without-a-reason-to-reject', lambda c: Not(rc(c)))]}
        return Engine(F, f'Task.{fname}', {}, TASK_CLASSES, fc, plugins=[OpPlugin()]), LIST_AX + LIST_CAT_AX + GRAPH_AX + DEP_AX + ONE_AX
    return Unit(f'Task.{fname}' + ('[single task]' if single else ''), F, build, ['C01', 'C15', 'C16'], timeout_ms=15000)


UNITS += [link_operator_unit('pre'), link_operator_unit('suc'), link_operator_unit('pre', single=True), link_operator_unit('suc', single=True)]


def bulk_link_operator_unit(side, single=False):
    """_ImmutableTaskList.__lshift__ / __rshift__:  for t in self: t.predecessors += other  - every member of the task list gets the named tasks as predecessors (successors).
    Domain: the list is a query result, i.e. a list of its own that no task uses as a dependency list (`self` is a list value here).  Nothing is claimed for a refused call:
    the loop stops half-way (known finding A-38, C15)."""
    fname = '__lshift__' if side == 'pre' else '__rshift__'; pname = 'predecessors' if side == 'pre' else 'successors'
    M = (lambda h, t: h.P(t)) if side == 'pre' else (lambda h, t: h.S(t)); O = (lambda h, t: h.S(t)) if side == 'pre' else (lambda h, t: h.P(t))
    mref = (lambda h, t: h.pre[t]) if side == 'pre' else (lambda h, t: h.suc[t])

    def build():
        hc = lambda c: H(c.eng, c.st); h0 = lambda c: H(c.eng, c.pre)
        oth = (lambda c: c.st.ghost['OTH']) if single else (lambda c: c['other'])          # the right operand as a list (_to_list); for a single task a ghost name for [task] / [] (patterns must not contain if-terms)

        class OpPlugin(ChildrenPlugin):
            def ev_Attribute(self_, eng, e, st):
                if e.attr == pname and isinstance(e.ctx, ast.Load):
                    s, o = eng.ev1(e.value, st)
                    if o.s == T:
                        s.oblige('safe/AttributeError-None', o.e != null, f'@{e.lineno}')
                        return [(s, V(mref(H(eng, s), o.e), LR))]          # the facade stands for the list object it wraps
                return NotImplemented

            def binop(self_, eng, st, k, l_, r, line):
                if k == 'Add' and l_.s in (LR, LT) and r.s == LT: return V(cat(self_.listval(eng, st, l_, line), r.e), LT)
                if k == 'Add' and l_.s in (LR, LT) and r.s == T: return V(cat(self_.listval(eng, st, l_, line), If(r.e == null, empty, one_of(r.e))), LT)
                return NotImplemented

            def assign(self_, eng, s, target, v):
                if isinstance(target, ast.Attribute) and target.attr == pname and v.s == LT:
                    s2, o = eng.ev1(target.value, s)
                    res, rc = link_setter_call(eng, s2, side, o.e, v.e, target.lineno)
                    return [(s3, r if isinstance(r, Raise) else FALL) for s3, r in res]
                return NotImplemented

        I = lambda c: Inv(hc(c))
        STRUCT = ['C01/F1-listed-child-reports-that-parent', 'C01/F2-parent-lists-its-child', 'C01/F3-no-child-listed-twice', 'C01/F4-no-task-is-its-own-ancestor', 'N-null-has-no-parent', 'O1-list-objects-distinct',
                  'C11/WR-hidden-roots', 'DR-reserved-id-marks-hidden-roots-only']
        done = lambda c, t, i: And(mem(c['self'], t), idx(c['self'], t) < i)          # the member has been passed (its first occurrence lies before position i)

        def effect(c, i):
            return ForAll([t_, x], Implies(t_ != null, mem(M(hc(c), t_), x) == Or(mem(M(h0(c), t_), x), And(done(c, t_, i), mem(oth(c), x)))), patterns=[mem(M(hc(c), t_), x)])
        hier_same = lambda c: And(hc(c).par == h0(c).par, hc(c).chl == h0(c).chl, hc(c).tid == h0(c).tid, hc(c).root == h0(c).root, hc(c).own == h0(c).own,
                                  ForAll([t_], Implies(t_ != null, hc(c).ch(t_) == h0(c).ch(t_)), patterns=[hc(c).chl[t_]]))
        public_links = lambda c: ForAll([t_, x], Implies(And(t_ != null, mem(M(hc(c), t_), x)), hc(c).tid[x] != EMPTY), patterns=[mem(M(hc(c), t_), x)])
        reqs = [(l_, (lambda l_: lambda c: LInv_side(side, hc(c), c.st.ghost['E'])[l_])(l_)) for l_ in LINK_LABS] + [(l_, (lambda l_: lambda c: I(c)[l_])(l_)) for l_ in STRUCT] + \
               [('members-and-named-tasks-are-public-tasks', lambda c: And(ForAll([x], Implies(mem(c['self'], x), And(x != null, hc(c).tid[x] != EMPTY)), patterns=[mem(c['self'], x)]),
                                                                        ForAll([x], Implies(mem(oth(c), x), And(x != null, hc(c).tid[x] != EMPTY)), patterns=[mem(oth(c), x)]))),
                ('linked-tasks-are-public', public_links)]
        inv = [('links/' + l_, (lambda l_: lambda c: LInv_side(side, hc(c), c.st.ghost['E'])[l_])(l_)) for l_ in LINK_LABS] + \
              [('hierarchy-ids-owners-unchanged', hier_same), ('linked-tasks-are-public', public_links), ('index', lambda c: And(c['_i0'] >= 0, c['_i0'] <= ln(c['self']))),
               ('members-passed-so-far-have-the-named-tasks', lambda c: effect(c, c['_i0']))]
        fc = {'sig': {'self': LT, 'other': T if single else LT}, 'locals': {'t': T}, 'ghost': dict({'E': S('REL', REL)}, **({'OTH': LT} if single else {})),
              'requires': reqs + ([('ghost-name-of-the-operand-as-a-list', lambda c: c.st.ghost['OTH'] == If(c['other'] == null, empty, one_of(c['other'])))] if single else []),
              'loops': {0: {'fingerprint': 'for t in self', 'havoc_heap': ['PyList.elems', 'Task._Task__predecessors', 'Task._Task__successors'], 'havoc_ghost': ['E'], 'invariant': inv}},
              'raises': {'RuntimeError': []},
              'ensures': [(l_, (lambda l_: lambda c: LInv_side(side, hc(c), c.st.ghost['E'])[l_])(l_)) for l_ in LINK_LABS] +
                         [('C16,C18/every-member-has-its-old-links-plus-the-named-tasks-and-no-other-task-changes', lambda c: ForAll([t_, x], Implies(t_ != null, mem(M(hc(c), t_), x) == Or(mem(M(h0(c), t_), x), And(mem(c['self'], t_), mem(oth(c), x)))))),
                          ('C16/hierarchy-ids-owners-unchanged', hier_same), ('C16/returns-the-right-operand', lambda c: c.result.e == c['other'])]}
        return Engine(F, f'_ImmutableTaskList.{fname}', {}, TASK_CLASSES, fc, plugins=[OpPlugin()]), LIST_AX + LIST_CAT_AX + GRAPH_AX + DEP_AX + ONE_AX
    return Unit(f'_ImmutableTaskList.{fname}' + ('[single task]' if single else ''), F, build, ['C01', 'C16', 'C18'], timeout_ms=15000)


UNITS += [bulk_link_operator_unit('pre'), bulk_link_operator_unit('suc'), bulk_link_operator_unit('pre', single=True), bulk_link_operator_unit('suc', single=True)]


def floordiv_unit(single=False):
    """Task.__floordiv__:  self.children += other  ==  self.children = list(self.children) + _to_list(other), through the children setter.
    `other` may name current children and may name a task twice: the assigned list then has repetitions and every task ends up once, at its last place"""
    def build():
        hc = lambda c: H(c.eng, c.st); h0 = lambda c: H(c.eng, c.pre); me = lambda c: c['self']
        oth = (lambda c: c.st.ghost['OTH']) if single else (lambda c: c['other'])
        Vv = lambda c: cat(h0(c).ch(me(c)), oth(c))

        class OpPlugin(ChildrenPlugin):
            def ev_Attribute(self_, eng, e, st):
                if e.attr == 'children' and isinstance(e.ctx, ast.Load):
                    s, o = eng.ev1(e.value, st)
                    if o.s == T:
                        s.oblige('safe/AttributeError-None', o.e != null, f'@{e.lineno}')
                        return [(s, V(H(eng, s).chl[o.e], LR))]
                return NotImplemented

            def binop(self_, eng, st, k, l_, r, line):
                if k == 'Add' and l_.s in (LR, LT) and r.s == LT: return V(cat(self_.listval(eng, st, l_, line), r.e), LT)
                if k == 'Add' and l_.s in (LR, LT) and r.s == T:          # _to_list(task) = [task], _to_list(None) = []: the ghost name of that list (checked here to be it)
                    st.oblige('lemma/ghost-name-is-the-operand-as-a-list', st.ghost['OTH'] == If(r.e == null, empty, one_of(r.e)), f'@{line}')
                    return V(cat(self_.listval(eng, st, l_, line), st.ghost['OTH']), LT)
                return NotImplemented

            def assign(self_, eng, s, target, v):
                if isinstance(target, ast.Attribute) and target.attr == 'children' and v.s == LT:
                    s2, o = eng.ev1(target.value, s)
                    return [(s3, r if isinstance(r, Raise) else FALL) for s3, r in children_setter_call(eng, s2, o.e, v.e, target.lineno)]
                return NotImplemented
        unchanged = lambda c: And(hc(c).par == h0(c).par, hc(c).own == h0(c).own, hc(c).elems == h0(c).elems)
        fc = {'sig': {'self': T, 'other': T if single else LT}, 'ghost': dict({'attach_rejected': BOOL}, **({'OTH': LT} if single else {})),
              'requires': ([('ghost-name-of-the-operand-as-a-list', lambda c: c.st.ghost['OTH'] == If(c['other'] == null, empty, one_of(c['other'])))] if single else []) + [(l_, (lambda l_: lambda c: Inv(hc(c))[l_])(l_)) for l_ in LABS] +
                          [('task-non-null', lambda c: me(c) != null), ('ghost-flag-starts-false', lambda c: Not(c.st.ghost['attach_rejected'])),
                           ('named-tasks-are-public-tasks', lambda c: ForAll([x], Implies(mem(oth(c), x), And(x != null, hc(c).tid[x] != EMPTY))))],
              'raises': {'RuntimeError': [('C15/a-call-rejected-by-a-check-changes-nothing', lambda c: Or(c.st.ghost['attach_rejected'], unchanged(c))),
                                          ('C01,C05,C11/rejected-by-a-check-only-for-a-stated-reason', lambda c: Or(c.st.ghost['attach_rejected'], reasons(h0(c), me(c), Vv(c)))), ('C15/a-refusal-out-of-the-attach-loop-needs-ids-that-were-not-unique', lambda c: Implies(c.st.ghost['attach_rejected'], Not(Inv(H(c.eng, c.pre))[U1])))]},
              'ensures': [(l_, (lambda l_: lambda c: Inv(hc(c))[l_])(l_)) for l_ in LABS] + [('C05/ids-stay-unique-within-every-tree', lambda c: Implies(Inv(H(c.eng, c.pre))[U1], Inv(H(c.eng, c.st))[U1]))] +
                         [('C16/children-are-the-old-ones-followed-by-the-named-tasks-(a-task-named-again-moves-to-its-last-place)', lambda c: And(hc(c).ch(me(c)) == dl(Vv(c), ln(Vv(c))), Implies(nodup(Vv(c)), hc(c).ch(me(c)) == Vv(c)))),
                          ('C16/every-named-task-reports-this-parent', lambda c: ForAll([x], Implies(mem(oth(c), x), hc(c).par[x] == me(c)))),
                          ('C16/parents-of-all-other-tasks-unchanged', lambda c: ForAll([x], Implies(Not(mem(oth(c), x)), hc(c).par[x] == h0(c).par[x]))),
                          ('C16/returns-the-right-operand', lambda c: c.result.e == c['other'])]}
        return Engine(F, 'Task.__floordiv__', {}, TASK_CLASSES, fc, plugins=[OpPlugin()]), LIST_AX + LIST_CAT_AX + LIST_DL_AX + GRAPH_AX + ONE_AX
    return Unit('Task.__floordiv__' + ('[single task]' if single else ''), F, build, ['C01', 'C11', 'C15', 'C16'], timeout_ms=15000)


UNITS += [floordiv_unit(), floordiv_unit(single=True)]


# ================================================================================================ Task.__init__
ANY = S('Any', DeclareSort('Any'))
INIT_CLASSES = dict(TASK_CLASSES)
INIT_CLASSES['Task'] = dict(TASK_CLASSES['Task'], name=ANY, resource=ANY, start=ANY, end=ANY, milestone=ANY, min_start=ANY, _Task__estimate=ANY, _Task__spent=ANY)
KWD = REF('KwArgs')


def blank(h, t):
    """a task object that has not been constructed yet: nobody refers to it (the unallocated part of the heap is modelled as blank objects that satisfy Inv trivially)"""
    return And(t != null, h.par[t] == null, h.own[t] == W.null,
               ForAll([t_], Implies(t_ != null, And(h.par[t_] != t, Not(mem(h.ch(t_), t)), Not(mem(h.P(t_), t)), Not(mem(h.S(t_), t)))), patterns=[h.par[t_], mem(h.ch(t_), t), mem(h.P(t_), t), mem(h.S(t_), t)]),
               ForAll([w_], Implies(w_ != W.null, h.root[w_] != t), patterns=[h.root[w_]]))


def task_init_unit():
    def build():
        hc = lambda c: H(c.eng, c.st); h0 = lambda c: H(c.eng, c.pre); me = lambda c: c['self']

        class InitPlugin(ChildrenPlugin):
            def ev_List(self_, eng, e, st):
                if not e.elts: return [(st, V(empty, LT))]
                return NotImplemented

            def truth(self_, eng, st, v):
                if v.s == LT: return ln(v.e) > 0
                return NotImplemented

            def assign(self_, eng, s, target, v):
                # plain data attributes (name, resource, dates, ...) and the private estimate / spent cells: no part of the task graph
                if isinstance(target, ast.Attribute) and eng.classes.get('Task', {}).get(eng.mangle(target.attr)) == ANY: return [(s, FALL)]
                return ListPlugin.assign(self_, eng, s, target, v)          # self.__children = [] ...: a NEW list object

            def for_loop(self_, eng, stmt, st):
                if ast.unparse(stmt.iter) != 'kwargs.items()': return ChildrenPlugin.for_loop(self_, eng, stmt, st)
                k = eng.loop_contract[eng.loop_ids[id(stmt)]][0]; idxn = f'_i{k}'; eng.locals[idxn] = INT
                st.env[idxn] = V(IntVal(0), INT); n = fresh('n_kwargs', INT); st.assume(n >= 0)

                def guard(s): return [(s, s.env[idxn].e < n)]

                def pre(b):
                    for nm in [e_.id for e_ in stmt.target.elts]: b.env[nm] = V(fresh(nm, ANY), ANY)
                    b.env[idxn] = V(b.env[idxn].e + 1, INT); return [b]
                return eng.loop(stmt, st, guard, pre, extra_havoc=[idxn] + [e_.id for e_ in stmt.target.elts])

        def c_plain_setter(eng, st, recv, args, kws, node):          # estimate / spent: store the value or refuse a negative one; no effect on the task graph
            return [(st.fork(), V(None, NONE)), (st.fork(), Raise('RuntimeError'))]

        def c_setattr(eng, st, recv, args, kws, node):               # object.__setattr__(name, value) for an additional public attribute: no effect on the task graph (domain: the name is none of the graph attributes)
            return [(st, V(None, NONE))]

        def c_set_parent(eng, st, recv, args, kws, node):
            return parent_setter_call(eng, st, recv.e, eng.coerce(args[0], T), node.lineno)

        def c_set_children(eng, st, recv, args, kws, node):
            st.ghost['children_assigned'] = BoolVal(True)
            return children_setter_call(eng, st, recv.e, args[0].e, node.lineno)

        LX = ['ND-no-link-listed-twice', 'O1-list-objects-distinct', 'SYNC-ghost-relation-mirrors-the-lists', 'C01/M2-dependency-relation-acyclic']          # the clauses of the link invariant that Inv does not carry

        def c_set_links(side):
            """self.successors = ... / self.predecessors = ...: the proved contract of the link setter of that side.  Two ghost relations mirror the lists: E (predecessors) and Es (successors),
            each the transpose of the other; after a call on one side the relation of the other side is re-introduced by its definition (SYNC) and is acyclic because its transpose is (TRANSP_AX)"""
            mine, other = ('E', 'Es') if side == 'pre' else ('Es', 'E')

            def c(eng, st, recv, args, kws, node):
                keep = st.ghost['E']; st.ghost['E'] = st.ghost[mine]          # link_setter_call works on the ghost named E
                res, rc = link_setter_call(eng, st, side, recv.e, args[0].e, node.lineno)
                st.ghost['E'] = keep
                for s2, r in res:
                    if isinstance(r, Raise): continue
                    new_mine = s2.ghost['E']; h2 = H(eng, s2)
                    new_other = Const(f'E!{fresh_id()}', REL)
                    s2.assume(LInv_side('suc' if side == 'pre' else 'pre', h2, new_other)['SYNC-ghost-relation-mirrors-the-lists'])          # definition of the mirror of the other side
                    s2.ghost[mine] = new_mine; s2.ghost[other] = new_other
                    if mine != 'E': s2.ghost['E'] = new_other
                return res
            return c

        def graph_same(c, a, b):
            return And(a.par == b.par, a.own == b.own, a.elems == b.elems, a.chl == b.chl, a.tid == b.tid, a.root == b.root, a.pre == b.pre, a.suc == b.suc)
        E_ok = lambda c, side: LInv_side(side, hc(c), c.st.ghost['E'])
        fc = {'sig': {'self': T, 'id': INT, 'name': ANY, 'resource': ANY, 'start': ANY, 'end': ANY, 'milestone': ANY, 'estimate': ANY, 'spent': ANY, 'parent': T, 'children': LT, 'predecessors': LT,
                      'successors': LT, 'min_start': ANY, 'kwargs': KWD},
              'ghost': {'attach_rejected': BOOL, 'E': S('REL', REL), 'Es': S('REL', REL), 'children_given': BOOL},
              'requires': [(l_, (lambda l_: lambda c: Inv(hc(c))[l_])(l_)) for l_ in LABS] +
                          [('the-object-under-construction-is-blank', lambda c: blank(hc(c), me(c))), ('id-is-not-the-reserved-one', lambda c: c['id'] != EMPTY),
                           ('ghost-flag-starts-false', lambda c: Not(c.st.ghost['attach_rejected'])),
                           ('children-given-as-a-list-of-public-tasks', lambda c: ForAll([x], Implies(mem(c['children'], x), And(x != null, x != me(c), hc(c).tid[x] != EMPTY)))),
                           ('dependency-arguments-are-lists-of-public-tasks', lambda c: ForAll([x], Implies(Or(mem(c['predecessors'], x), mem(c['successors'], x)), And(x != null, hc(c).tid[x] != EMPTY)))),
                           ] +
                          [('links(predecessors)/' + l_, (lambda l_: lambda c: LInv_side('pre', hc(c), c.st.ghost['E'])[l_])(l_)) for l_ in LX] +
                          [('links(successors)/' + l_, (lambda l_: lambda c: LInv_side('suc', hc(c), c.st.ghost['Es'])[l_])(l_)) for l_ in LX],
              'loops': {0: {'fingerprint': 'for (k, v) in kwargs.items()', 'invariant': [('additional-attributes-do-not-touch-the-task-graph', lambda c: And(c['_i0'] >= 0, graph_same(c, hc(c), H(c.eng, c.entry)),
                                                                                                                                                     *[Inv(hc(c))[l_] for l_ in LABS]))]}},
              'raises': {'RuntimeError': []},          # the constructor is not atomic (known finding A-12): nothing is claimed for a refused construction
              'ensures': [(l_, (lambda l_: lambda c: Inv(hc(c))[l_])(l_)) for l_ in LABS] +
                         [('C05/the-task-carries-the-given-id', lambda c: hc(c).tid[me(c)] == c['id']),
                          ('C05/ids-of-all-other-tasks-unchanged', lambda c: ForAll([x], Implies(x != me(c), hc(c).tid[x] == h0(c).tid[x]))),
                          ('C16/parent-as-given', lambda c: Implies(c['parent'] != null, hc(c).par[me(c)] == c['parent'])),
                          ('C16/predecessors-as-given', lambda c: Implies(ln(c['predecessors']) > 0, ForAll([x], mem(hc(c).P(me(c)), x) == mem(c['predecessors'], x)))),
                          ('C16/successors-as-given-(also-when-predecessors-are-set-afterwards)', lambda c: Implies(ln(c['successors']) > 0, ForAll([x], mem(hc(c).S(me(c)), x) == mem(c['successors'], x)))),
                          ('C01/M2-predecessor-relation-acyclic', lambda c: AcycP(c.st.ghost['E'])), ('C01/M2-successor-relation-acyclic', lambda c: AcycP(c.st.ghost['Es'])),
                          ('links/ghost-relations-mirror-the-lists', lambda c: And(LInv_side('pre', hc(c), c.st.ghost['E'])['SYNC-ghost-relation-mirrors-the-lists'], LInv_side('suc', hc(c), c.st.ghost['Es'])['SYNC-ghost-relation-mirrors-the-lists'])),
                          ('links/ND-no-link-listed-twice', lambda c: LInv_side('pre', hc(c), c.st.ghost['E'])['ND-no-link-listed-twice']),
                          ('links/O1-list-objects-distinct', lambda c: LInv_side('pre', hc(c), c.st.ghost['E'])['O1-list-objects-distinct'])]}
        contracts = {'setprop:Task.estimate': c_plain_setter, 'setprop:Task.spent': c_plain_setter, 'Task.__setattr__': c_setattr,
                     'setprop:Task.parent': c_set_parent, 'setprop:Task.children': c_set_children, 'setprop:Task.successors': c_set_links('suc'), 'setprop:Task.predecessors': c_set_links('pre')}
        return Engine(F, 'Task.__init__', contracts, INIT_CLASSES, fc, plugins=[InitPlugin()]), LIST_AX + GRAPH_AX + KID_AX + DEP_AX + TRANSP_AX
    return Unit('Task.__init__', F, build, ['C01', 'C05', 'C11', 'C16'], timeout_ms=15000)


UNITS += [task_init_unit()]


# ================================================================================================ _has_id_intersection (the id test of C05)
from contracts.closure import SetPlugin, forest_struct as forest_below, WFH, same_heap as reads_only, MEASURE_AX as _M, one_of, ONE_AX
IDSET = S('IdSet', ArraySort(IntSort(), BoolSort()))


def receiving_root(h, p):
    """the root of the tree that `p` belongs to: the hidden root of its WBS, or the root of its detached tree"""
    return If(h.own[p] != W.null, h.root[h.own[p]], rootof(h.par, p))


def clash_def(h, p, Lc, part=None):
    """the meaning of the id test (C05): among the tasks below the named tasks that are not yet in the receiving tree, two share an id, or one has the id of a task of the receiving tree"""
    R = receiving_root(h, p); y, z, k1, k2 = Consts('y_ z_ k1_ k2_', T.z)
    new = lambda t, k: And(mem(Lc, k), insub(h.par, k, t), Not(insub(h.par, R, t)))
    parts = (Exists([y, z, k1, k2], And(new(y, k1), new(z, k2), y != z, h.tid[y] == h.tid[z])),
             Exists([y, z, k1], And(new(y, k1), insub(h.par, R, z), h.tid[y] == h.tid[z])))
    return Or(*parts) if part is None else parts[part]


def id_test_unit():
    def build():
        hc = lambda c: H(c.eng, c.st)
        prov = {}          # id-set term -> the task list it was built from

        class IdPlugin(SetPlugin):
            def ev_ListComp(self_, eng, e, st):
                g = e.generators[0]
                if len(g.ifs) == 1: return ChildrenPlugin.ev_ListComp(self_, eng, e, st)          # [t for t in L if COND]
                raise Unsupported('comprehension form')

            def cmp(self_, eng, st, k, l_, r, line):
                if k in ('Eq', 'NotEq') and l_.s == INT and r.s == INT: return NotImplemented
                return SetPlugin.cmp(self_, eng, st, k, l_, r, line)

            def binop(self_, eng, st, k, l_, r, line):
                if k == 'Add' and l_.s == LT and r.s == LT: return V(cat(l_.e, r.e), LT)
                return NotImplemented

            def call(self_, eng, e, st):
                f = e.func
                if isinstance(f, ast.Name) and f.id == 'set' and len(e.args) == 1 and isinstance(e.args[0], ast.ListComp):
                    lc = e.args[0]; g = lc.generators[0]
                    if g.ifs: raise Unsupported('set comprehension form')
                    s, xs = eng.ev1(g.iter, st); Lx = self_.listval(eng, s, xs, e.lineno); tv_ = g.target.id
                    src = ast.unparse(lc.elt).replace(' ', '')
                    if src == f'id({tv_})':          # the set of the objects themselves
                        Sx = fresh('objects', SetPlugin.SETS); s.assume(ForAll([x], Sx[x] == mem(Lx, x), patterns=[Sx[x]]))
                        s.ghost.setdefault('objset_of', {})[Sx.get_id()] = Lx
                        return [(s, V(Sx, SetPlugin.SETS))]
                    if src == f'{tv_}.id':           # the set of their ids
                        h = H(eng, s); Ix = fresh('ids', IDSET); kk = Int('kk'); wit_ = Function(f'idwit!{fresh_id()}', IntSort(), T.z)
                        s.assume(And(ForAll([x], Implies(mem(Lx, x), Ix[h.tid[x]]), patterns=[mem(Lx, x)]),
                                     ForAll([kk], Implies(Ix[kk], And(mem(Lx, wit_(kk)), h.tid[wit_(kk)] == kk)), patterns=[Ix[kk]])))
                        s.ghost.setdefault('idset_of', {})[Ix.get_id()] = Lx
                        return [(s, V(Ix, IDSET))]
                if isinstance(f, ast.Name) and f.id == 'len' and len(e.args) == 1:
                    s, v = eng.ev1(e.args[0], st)
                    if v.s == LT: return [(s, V(ln(v.e), INT))]
                    if v.s in (IDSET, SetPlugin.SETS):
                        # the size of a finite set: an integer tied to the set it measures; only comparisons of two sizes built from the SAME list are interpreted (below)
                        n = fresh('size', INT); s.assume(n >= 0)
                        s.ghost.setdefault('size_of', {})[n.get_id()] = (v.s, v.e)
                        if v.s == IDSET:
                            kk = Int('kk'); s.assume((n > 0) == Exists([kk], v.e[kk]))
                        return [(s, V(n, INT))]
                if isinstance(f, ast.Attribute) and f.attr == 'intersection':
                    s, a1 = eng.ev1(f.value, st); s, a2 = eng.ev1(e.args[0], s)
                    Ix = fresh('common', IDSET); kk = Int('kk'); s.assume(ForAll([kk], Ix[kk] == And(a1.e[kk], a2.e[kk]), patterns=[Ix[kk], a1.e[kk], a2.e[kk]]))
                    return [(s, V(Ix, IDSET))]
                return SetPlugin.call(self_, eng, e, st)

            def ev_Compare(self_, eng, e, st):
                # len(<set of the ids of L>) != len(<set of the objects of L>): the ids of the tasks of L are not pairwise different (pigeonhole; assumed fact about finite sets)
                if len(e.ops) == 1 and isinstance(e.ops[0], ast.NotEq) and all(isinstance(z, ast.Call) and isinstance(z.func, ast.Name) and z.func.id == 'len' for z in (e.left, e.comparators[0])):
                    s, a = eng.ev1(e.left, st); s, b = eng.ev1(e.comparators[0], s)
                    so = s.ghost.get('size_of', {}); sa, sb = so.get(a.e.get_id()), so.get(b.e.get_id())
                    if sa and sb and {sa[0], sb[0]} == {IDSET, SetPlugin.SETS}:
                        ids_, objs_ = (sa[1], sb[1]) if sa[0] == IDSET else (sb[1], sa[1])
                        La = s.ghost.get('idset_of', {}).get(ids_.get_id()); Lb = s.ghost.get('objset_of', {}).get(objs_.get_id())
                        if La is not None and Lb is not None and La.eq(Lb):
                            h = H(eng, s); y, z = Consts('y_ z_', T.z)
                            return [(s, V(Exists([y, z], And(mem(La, y), mem(La, z), y != z, h.tid[y] == h.tid[z])), BOOL))]
                return NotImplemented

        def c_find_root(eng, st, recv, args, kws, node):
            h = H(eng, st); t = args[0].e
            st.oblige('req@_find_root/task-non-null-outside-every-WBS', And(t != null, h.own[t] == W.null, Inv(h)['C11/W1-owner-follows-the-hierarchy'], Inv(h)['DR-reserved-id-marks-hidden-roots-only']), f'@{node.lineno}')
            return [(st, V(rootof(h.par, t), T))]

        def c_collect(eng, st, recv, args, kws, node):
            h = H(eng, st); t = args[0].e
            st.oblige('req@_collect_subtree/task-non-null', t != null, f'@{node.lineno}')
            st.oblige('req@_collect_subtree/forest', forest_below(h, t), f'@{node.lineno}'); st.assume(WFH(h.par, h.chl, h.elems))
            t0 = fresh('of', T); st.assume(t0 == t)          # a name for the argument (patterns must not contain if-then-else terms)
            R = fresh('sub', LT); st.assume(And(ForAll([x], mem(R, x) == insub(h.par, t0, x), patterns=[mem(R, x), Desc(h.par, t0, x)]), mem(R, t0), nodup(R)))
            return [(st, V(R, LT))]
        k_ = Const('k_', T.z)

        def inv(c):
            h = hc(c); Lc = c['children']; i = c['_i0']; acc = c['all_children_tasks']; R = receiving_root(h, c['parent'])
            return And(reads_only(c), i >= 0, i <= ln(Lc), c['parent_root'] == R, ForAll([x], mem(c['parent_tree'], x) == insub(h.par, c['parent_root'], x), patterns=[mem(c['parent_tree'], x), Desc(h.par, c['parent_root'], x)]), mem(c['parent_tree'], c['parent_root']),
                       ForAll([x], Implies(mem(acc, x), Exists([k_], And(mem(Lc, k_), idx(Lc, k_) < i, insub(h.par, k_, x)))), patterns=[mem(acc, x)]),
                       ForAll([k_], Implies(And(mem(Lc, k_), idx(Lc, k_) < i), mem(acc, k_)), patterns=[mem(Lc, k_)]),
                       ForAll([k_, x], Implies(And(mem(Lc, k_), idx(Lc, k_) < i, Desc(h.par, k_, x)), mem(acc, x)), patterns=[MultiPattern(mem(Lc, k_), Desc(h.par, k_, x))]))
        fc = {'sig': {'parent': T, 'children': LT}, 'locals': {'parent_root': T, 'parent_tree': LT, 'all_children_tasks': LT, 'new_tasks': LT},
              'requires': [(l_, (lambda l_: lambda c: Inv(hc(c))[l_])(l_)) for l_ in LABS] +
                          [('parent-and-named-tasks-non-null', lambda c: And(c['parent'] != null, ForAll([x], Implies(mem(c['children'], x), x != null)),
                                                                              ForAll([ii_], Implies(And(0 <= ii_, ii_ < ln(c['children'])), at(c['children'], ii_) != null))))],
              'loops': {0: {'fingerprint': 'for ch in children', 'invariant': [('collected-so-far-are-the-subtrees-of-the-named-tasks-visited', inv)]}},
              'ensures': [('C05/true-only-if-a-new-task-shares-an-id-with-another-new-task-or-with-a-task-of-the-receiving-tree', lambda c: Implies(c.result.e, clash_def(hc(c), c['parent'], c['children']))),
                          ('C05/false-only-if-no-two-new-tasks-share-an-id', lambda c: Implies(Not(c.result.e), Not(clash_def(hc(c), c['parent'], c['children'], 0)))),
                          ('C05/false-only-if-no-new-task-has-the-id-of-a-task-of-the-receiving-tree', lambda c: Implies(Not(c.result.e), Not(clash_def(hc(c), c['parent'], c['children'], 1)))),
                          ('C16/reads-only', reads_only)]}
        contracts = {'prop:Task.wbs': lambda eng, st, recv, a, k, n: [(st, V(H(eng, st).own[recv.e], W))], 'WBS._root': c_root, 'fn:_find_root': c_find_root, 'fn:_collect_subtree': c_collect,
                     'prop:Task.id': c_id}
        return Engine(F, '_has_id_intersection', contracts, TASK_CLASSES, fc, plugins=[IdPlugin()]), LIST_AX + LIST_CAT_AX + GRAPH_AX + ROOT_AX
    return Unit('_has_id_intersection', F, build, ['C05', 'C15'], timeout_ms=15000)


ii_ = Int('ii_')
UNITS += [id_test_unit()]


# ================================================================================================ WBS.__init__ (without initial tasks)
def wbs_init_unit():
    """WBS(): a new hidden root (reserved id) that the new WBS owns.  Domain: no `tasks` argument (with it: clones are attached through the children setter - bounded)"""
    def build():
        hc = lambda c: H(c.eng, c.st); h0 = lambda c: H(c.eng, c.pre)

        def blank_wbs(h, w):
            return And(w != W.null, ForAll([t_], h.own[t_] != w, patterns=[h.own[t_]]))

        def c_new_task(eng, st, recv, args, kws, node):
            """Task(EMPTY_TASK_ID, **kwargs): the constructor on a blank object (proved for public ids by task_init_unit; for the reserved id the same body runs - the
            only difference is that the invariant clause DR is not re-established until the WBS has adopted the object): id set, three new empty list objects, nothing else touched"""
            h = H(eng, st); r = fresh('newtask', T)
            st.assume(blank(h, r))
            eng.write(st, 'Task._Task__id', Store(h.tid, r, args[0].e))
            for fld in ('_Task__children', '_Task__predecessors', '_Task__successors'):
                lo = fresh('newlist', LR); st.assume(lo != LR.null)
                for f2 in ('_Task__children', '_Task__predecessors', '_Task__successors'):
                    arr = eng.field(st, 'Task', f2); st.assume(ForAll([t_], arr[t_] != lo, patterns=[arr[t_]]))
                eng.write(st, 'PyList.elems', Store(eng.field(st, 'PyList', 'elems'), lo, empty))
                eng.write(st, 'Task.' + fld, Store(eng.field(st, 'Task', fld), r, lo))
            return [(st, V(r, T))]

        def c_attach_new(eng, st, recv, args, kws, node):
            h = H(eng, st); me = recv.e
            for lab, g in (('task-non-null', me != null), ('C01/F4-no-task-is-its-own-ancestor', Acyc(h.par)), ('N-null-has-no-parent', h.par[null] == null), ('C01/F1-below-the-task', F1below(h, me)),
                           ('C01/F2-below-the-task', F2below(h, me)), ('C01/F3-no-child-listed-twice', Inv(h)['C01/F3-no-child-listed-twice']),
                           ('children-list-objects-exist', ForAll([t_], Implies(t_ != null, h.chl[t_] != LR.null), patterns=[h.chl[t_]]))):
                st.oblige(f'req@_attach/{lab}', g, f'@{node.lineno}')
            Wn = args[0].e
            eng.write(st, 'Task._Task__wbs', Lambda([x], If(And(Wn != W.null, insub(h.par, me, x)), Wn, h.own[x])))
            return [(st, V(None, NONE))]

        class WPlugin(ChildrenPlugin):
            def truth(self_, eng, st, v):
                if v.s == LT: return ln(v.e) > 0
                return NotImplemented

            def ev_ListComp(self_, eng, e, st):
                if ast.unparse(e).replace(' ', '') == '[v.clone()forvintasks]':
                    st.oblige('domain/no-initial-tasks-so-the-cloning-branch-is-not-reached', BoolVal(False), f'@{e.lineno}')
                    return []          # proved unreachable: the path ends here
                return ChildrenPlugin.ev_ListComp(self_, eng, e, st)
        fc = {'sig': {'self': W, 'tasks': LT, 'kwargs': KWD}, 'globals': {'EMPTY_TASK_ID': V(EMPTY, INT)},
              'requires': [(l_, (lambda l_: lambda c: Inv(hc(c), whole=c['self'])[l_])(l_)) for l_ in LABS] +
                          [('the-WBS-under-construction-owns-nothing-yet', lambda c: blank_wbs(hc(c), c['self'])), ('no-initial-tasks (domain of this proof)', lambda c: ln(c['tasks']) == 0)],
              'ensures': [(l_, (lambda l_: lambda c: Inv(hc(c))[l_])(l_)) for l_ in LABS] +
                         [('C11/the-new-WBS-has-a-hidden-root-and-no-tasks', lambda c: And(hc(c).root[c['self']] != null, hc(c).tid[hc(c).root[c['self']]] == EMPTY, hc(c).ch(hc(c).root[c['self']]) == empty,
                                                                                          hc(c).own[hc(c).root[c['self']]] == c['self'])),
                          ('C16/existing-tasks-untouched', lambda c: And(hc(c).par == h0(c).par, ForAll([x], Implies(x != hc(c).root[c['self']], And(hc(c).own[x] == h0(c).own[x], hc(c).tid[x] == h0(c).tid[x]))),
                                                                       ForAll([w_], Implies(w_ != c['self'], hc(c).root[w_] == h0(c).root[w_]))))]}
        contracts = {'fn:Task': c_new_task, 'Task._attach': c_attach_new}
        return Engine('pjplan/wbs.py', 'WBS.__init__', contracts, TASK_CLASSES, fc, plugins=[WPlugin()]), LIST_AX + GRAPH_AX + KID_AX + ROOT_AX
    return Unit('WBS.__init__', 'pjplan/wbs.py', build, ['C01', 'C05', 'C11'], timeout_ms=15000)
UNITS += [wbs_init_unit()]


# ================================================================================================ WBS.remove_all
cov = Function('below_one_of_the_first', LT.z, PAR, IntSort(), T.z, BoolSort())          # cov(SEL, par0, i, x): x is one of the first i selected tasks or lies below one (in the heap the call started with)
_sel = Const('_sel', LT.z); _ci = Int('_ci')
COV_AX = [ForAll([_sel, pm, x], Not(cov(_sel, pm, 0, x)), patterns=[cov(_sel, pm, 0, x)]),
          ForAll([_sel, pm, _ci, x], Implies(_ci >= 0, cov(_sel, pm, _ci + 1, x) == Or(cov(_sel, pm, _ci, x), insub(pm, at(_sel, _ci), x))), patterns=[cov(_sel, pm, _ci + 1, x)])]


def wbs_remove_all_unit():
    def build():
        hc = lambda c: H(c.eng, c.st); h0 = lambda c: H(c.eng, c.pre); root = lambda c: h0(c).root[c['self']]
        SEL = lambda c: c.st.ghost.get('selection', c.pre.ghost.get('selection'))
        member = lambda h, c, t: Desc(h.par, root(c), t)

        def c_query(eng, st, recv, args, kws, node):
            """self.tasks(key, **kwargs): contract of WBS.tasks + _ImmutableTaskList.__call__ (both proved): a selection of members, each once, in listing order"""
            h = H(eng, st); me = st.env['self'].e; S_ = fresh('selection', LT); ii = Int('ii')
            st.assume(And(ln(S_) >= 0, nodup(S_), ForAll([x], Implies(mem(S_, x), And(x != null, Desc(h.par, h.root[me], x))), patterns=[mem(S_, x)]),
                          ForAll([ii], Implies(And(0 <= ii, ii < ln(S_)), mem(S_, at(S_, ii))), patterns=[at(S_, ii)])))
            st.ghost['selection'] = S_
            return [(st, V(S_, LT))]

        def c_remove(eng, st, recv, args, kws, node):
            g = H(eng, st); task, cur = args[0].e, args[1].e
            for lab, f in Inv(g).items():
                if lab != U1: st.oblige(f'req@__remove/{lab}', f, f'@{node.lineno}')
            st.oblige('req@__remove/start-task-non-null', cur != null, f'@{node.lineno}')
            below = And(task != null, Desc(g.par, cur, task))
            no = st.fork(Not(below)); yes = st.fork(below); rej = st.fork(And(below, Not(Inv(g)[U1])))
            for s2 in (yes, rej):
                for k in ('Task._Task__parent', 'Task._Task__wbs', 'PyList.elems'): eng.havoc(s2, k)
            rej.ghost['attach_rejected'] = BoolVal(True)
            h = H(eng, yes)
            for lab, f in Inv(h).items():
                if lab != U1: yes.assume(f)
            yes.assume(removal_effect(h, g, g.par[task], task)); yes.assume(h.par == Store(g.par, task, null)); yes.assume(Implies(Inv(g)[U1], Inv(h)[U1]))
            return [(no, V(BoolVal(False), BOOL)), (yes, V(BoolVal(True), BOOL)), (rej, Raise('RuntimeError'))]

        class RPlugin(ChildrenPlugin):
            def truth(self_, eng, st, v):
                if v.s == LT: return ln(v.e) > 0
                return NotImplemented

            def call(self_, eng, e, st):
                f = e.func
                if isinstance(f, ast.Attribute) and f.attr == 'tasks' and e.keywords: return c_query(eng, st, None, [], {}, e)          # self.tasks(key, **kwargs)
                if isinstance(f, ast.Name) and f.id == '_ImmutableTaskList': return [(st, V(empty, LT))]
                return ChildrenPlugin.call(self_, eng, e, st)

        def inv(c):
            h, g = hc(c), h0(c); i = c['_i0']; S_ = SEL(c); r = root(c)
            d = {l_: v for l_, v in Inv(h).items() if l_ != U1}
            d.update({'ids-stay-unique': Implies(Inv(g)[U1], Inv(h)[U1]),
                      'frame': And(h.root == g.root, h.tid == g.tid, h.chl == g.chl, c['tasks_to_delete'] == S_, i >= 0, i <= ln(S_), Not(c.st.ghost['attach_rejected']), c['self'] != W.null),
                      'members-are-the-old-members-not-below-a-task-removed-so-far': ForAll([x], member(h, c, x) == And(member(g, c, x), Not(cov(S_, g.par, i, x))), patterns=[Desc(h.par, r, x)]),
                      'removed-so-far-is-closed-downwards': ForAll([a_, x], Implies(And(cov(S_, g.par, i, a_), insub(g.par, a_, x)), cov(S_, g.par, i, x)), patterns=[MultiPattern(cov(S_, g.par, i, a_), Desc(g.par, a_, x))]),
                      'selected-tasks-passed-are-removed': ForAll([x], Implies(And(mem(S_, x), idx(S_, x) < i), cov(S_, g.par, i, x)), patterns=[mem(S_, x)]),
                      'ancestry-only-shrinks': ForAll([a_, x], Implies(Desc(h.par, a_, x), Desc(g.par, a_, x)), patterns=[Desc(h.par, a_, x)]),
                      'ancestry-among-the-remaining-members-is-unchanged': ForAll([a_, x], Implies(And(Desc(g.par, a_, x), member(h, c, x), Or(a_ == r, member(h, c, a_))), Desc(h.par, a_, x)),
                                                                                 patterns=[MultiPattern(Desc(g.par, a_, x), Desc(h.par, r, x))])})
            return d
        IL = LABS + ['ids-stay-unique', 'frame', 'members-are-the-old-members-not-below-a-task-removed-so-far', 'removed-so-far-is-closed-downwards', 'selected-tasks-passed-are-removed', 'ancestry-only-shrinks', 'ancestry-among-the-remaining-members-is-unchanged']
        fc = {'sig': {'self': W, 'key': ANY, 'kwargs': KWD}, 'locals': {'tasks_to_delete': LT}, 'ghost': {'attach_rejected': BOOL},
              'requires': [(l_, (lambda l_: lambda c: Inv(hc(c))[l_])(l_)) for l_ in LABS] + [('wbs-non-null', lambda c: c['self'] != W.null), ('ghost-flag-starts-false', lambda c: Not(c.st.ghost['attach_rejected']))],
              'loops': {0: {'fingerprint': 'for t in tasks_to_delete', 'havoc_heap': ['Task._Task__parent', 'Task._Task__wbs', 'PyList.elems'],
                            'invariant': [('removal/' + l_, (lambda l_: lambda c: inv(c)[l_])(l_)) for l_ in IL]}},
              'raises': {'RuntimeError': [('C15/only-a-removal-itself-may-be-refused', lambda c: c.st.ghost['attach_rejected']), ('C15/a-refusal-out-of-the-attach-loop-needs-ids-that-were-not-unique', lambda c: Implies(c.st.ghost['attach_rejected'], Not(Inv(H(c.eng, c.pre))[U1])))]},
              'ensures': [(l_, (lambda l_: lambda c: Inv(hc(c))[l_])(l_)) for l_ in LABS] + [('C05/ids-stay-unique-within-every-tree', lambda c: Implies(Inv(H(c.eng, c.pre))[U1], Inv(H(c.eng, c.st))[U1]))] +
                         [('C18/returns-the-selected-tasks', lambda c: Or(c.result.e == SEL(c), And(ln(SEL(c)) == 0, ln(c.result.e) == 0)) if SEL(c) is not None else BoolVal(False)),
                          ('C11,C18/members-afterwards-are-exactly-the-members-that-were-not-selected-and-not-below-a-selected-task',
                           lambda c: ForAll([x], member(hc(c), c, x) == And(member(h0(c), c, x), Not(cov(SEL(c), h0(c).par, ln(SEL(c)), x))))),
                          ('C18/no-selected-task-is-a-member-afterwards', lambda c: ForAll([x], Implies(mem(SEL(c), x), Not(member(hc(c), c, x)))))]}
        contracts = {'WBS._WBS__remove': c_remove}
        return Engine(FWBS, 'WBS.remove_all', contracts, TASK_CLASSES, fc, plugins=[RPlugin()]), LIST_AX + GRAPH_AX + COV_AX
    return Unit('WBS.remove_all', FWBS, build, ['C11', 'C16', 'C18'], timeout_ms=15000)
UNITS += [wbs_remove_all_unit()]


def facade_remove_all_unit():
    """_TaskList.remove_all on a children facade: every selected child is removed through _ChildrenList.remove (the receiver's own remove)"""
    def build():
        hc = lambda c: H(c.eng, c.st); h0 = lambda c: H(c.eng, c.pre)
        fp = lambda c, w='cur': Select(c.fld('ChildrenFacade', '_ChildrenList__parent', w), c['self'])
        fl = lambda c, w='cur': Select(c.fld('ChildrenFacade', '_list', w), c['self'])
        SEL = lambda c: c.st.ghost.get('selection', c.pre.ghost.get('selection'))
        L0 = lambda c: h0(c).ch(fp(c, 'pre'))

        def c_query(eng, st, e):
            h = H(eng, st); me = st.env['self'].e; S_ = fresh('selection', LT); ii = Int('ii')
            L = h.elems[Select(eng.field(st, 'ChildrenFacade', '_list'), me)]
            st.assume(And(ln(S_) >= 0, nodup(S_), ForAll([x], Implies(mem(S_, x), And(x != null, mem(L, x))), patterns=[mem(S_, x)]),
                          ForAll([ii], Implies(And(0 <= ii, ii < ln(S_)), mem(S_, at(S_, ii))), patterns=[at(S_, ii)]),
                          ForAll([a_, b_], Implies(And(mem(S_, a_), mem(S_, b_)), (idx(S_, a_) < idx(S_, b_)) == (idx(L, a_) < idx(L, b_))), patterns=[MultiPattern(idx(S_, a_), idx(S_, b_))])))
            st.ghost['selection'] = S_
            return [(st, V(S_, LT))]

        class RPlugin(ChildrenPlugin):
            def truth(self_, eng, st, v):
                if v.s == LT: return ln(v.e) > 0
                return NotImplemented

            def call(self_, eng, e, st):
                f = e.func
                if isinstance(f, ast.Name) and f.id == 'self' and e.keywords: return c_query(eng, st, e)          # self(key, **kwargs): the query (proved: _ImmutableTaskList.__call__)
                if isinstance(f, ast.Name) and f.id == '_ImmutableTaskList': return [(st, V(empty, LT))]
                return ChildrenPlugin.call(self_, eng, e, st)

        def inv(c):
            h, g = hc(c), h0(c); i = c['_i0']; S_ = SEL(c); p = fp(c, 'pre'); C = L0(c)
            d = {l_: v for l_, v in Inv(h).items() if l_ != U1}
            d.update({'ids-stay-unique': Implies(Inv(g)[U1], Inv(h)[U1]),
                      'frame': And(h.root == g.root, h.tid == g.tid, h.chl == g.chl, c['tasks_to_delete'] == S_, i >= 0, i <= ln(S_), Not(c.st.ghost['attach_rejected']), c['self'] != FAC.null, p != null,
                                   fp(c) == p, fl(c) == g.chl[p]),
                      'children-left-are-the-old-ones-without-the-selected-tasks-passed': ForAll([x], mem(h.ch(p), x) == And(mem(C, x), Not(And(mem(S_, x), idx(S_, x) < i))), patterns=[mem(h.ch(p), x)]),
                      'order-of-the-children-left-is-kept': ForAll([a_, b_], Implies(And(mem(h.ch(p), a_), mem(h.ch(p), b_)), (idx(h.ch(p), a_) < idx(h.ch(p), b_)) == (idx(C, a_) < idx(C, b_))),
                                                                   patterns=[MultiPattern(idx(h.ch(p), a_), idx(h.ch(p), b_))]),
                      'tasks-removed-so-far-are-detached': ForAll([x], Implies(And(mem(S_, x), idx(S_, x) < i), And(h.par[x] == null, h.own[x] == W.null)), patterns=[mem(S_, x)]),
                      'parents-of-the-other-tasks-unchanged': ForAll([x], Implies(Not(And(mem(S_, x), idx(S_, x) < i)), h.par[x] == g.par[x]), patterns=[h.par[x]])})
            return d
        IL = LABS + ['ids-stay-unique', 'frame', 'children-left-are-the-old-ones-without-the-selected-tasks-passed', 'order-of-the-children-left-is-kept', 'tasks-removed-so-far-are-detached', 'parents-of-the-other-tasks-unchanged']
        fc = {'sig': {'self': FAC, 'key': ANY, 'kwargs': KWD}, 'locals': {'tasks_to_delete': LT}, 'ghost': {'attach_rejected': BOOL},
              'requires': [(l_, (lambda l_: lambda c: Inv(hc(c))[l_])(l_)) for l_ in LABS] +
                          [('facade-of-a-task-reading-its-current-children-list', lambda c: And(c['self'] != FAC.null, fp(c) != null, fl(c) == hc(c).chl[fp(c)])),
                           ('ghost-flag-starts-false', lambda c: Not(c.st.ghost['attach_rejected']))],
              'loops': {0: {'fingerprint': 'for t in tasks_to_delete', 'havoc_heap': ['Task._Task__parent', 'Task._Task__wbs', 'PyList.elems'],
                            'invariant': [('removal/' + l_, (lambda l_: lambda c: inv(c)[l_])(l_)) for l_ in IL]}},
              'raises': {'RuntimeError': [('C15/only-a-removal-itself-may-be-refused', lambda c: c.st.ghost['attach_rejected']), ('C15/a-refusal-out-of-the-attach-loop-needs-ids-that-were-not-unique', lambda c: Implies(c.st.ghost['attach_rejected'], Not(Inv(H(c.eng, c.pre))[U1])))]},
              'ensures': [(l_, (lambda l_: lambda c: Inv(hc(c))[l_])(l_)) for l_ in LABS] + [('C05/ids-stay-unique-within-every-tree', lambda c: Implies(Inv(H(c.eng, c.pre))[U1], Inv(H(c.eng, c.st))[U1]))] +
                         [('C18/returns-the-selected-tasks', lambda c: Or(c.result.e == SEL(c), And(ln(SEL(c)) == 0, ln(c.result.e) == 0))),
                          ('C18/children-afterwards-are-exactly-the-children-that-were-not-selected-order-kept', lambda c: And(
                              ForAll([x], mem(hc(c).ch(fp(c, 'pre')), x) == And(mem(L0(c), x), Not(mem(SEL(c), x)))),
                              ForAll([a_, b_], Implies(And(mem(hc(c).ch(fp(c, 'pre')), a_), mem(hc(c).ch(fp(c, 'pre')), b_)), (idx(hc(c).ch(fp(c, 'pre')), a_) < idx(hc(c).ch(fp(c, 'pre')), b_)) == (idx(L0(c), a_) < idx(L0(c), b_)))))),
                          ('C11,C18/selected-tasks-are-detached', lambda c: ForAll([x], Implies(mem(SEL(c), x), And(hc(c).par[x] == null, hc(c).own[x] == W.null)))),
                          ('C16,C18/parents-of-all-other-tasks-unchanged', lambda c: ForAll([x], Implies(Not(mem(SEL(c), x)), hc(c).par[x] == h0(c).par[x])))]}
        return Engine(F, '_TaskList.remove_all', {'ChildrenFacade.remove': c_facade_remove}, FAC_CLASSES, fc, plugins=[RPlugin()]), LIST_AX + GRAPH_AX
    return Unit('_TaskList.remove_all', F, build, ['C11', 'C16', 'C18'], timeout_ms=15000)
UNITS += [facade_remove_all_unit()]
