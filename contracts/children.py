"""Sidecar contract for Task.children.setter (C01 C05 C11 C15 C16) - the assignment `task.children = [...]` / `wbs.roots = [...]`.

Shape of the function: checks (nothing written) - release loop (every current child loses its parent; the ones not named again lose their owner,
with their subtree) - clear() - attach loop (`v.parent = self` for every named task, by the contract of the parent setter).

Between the release loop and the end of the attach loop the kept children are detached but still carry the WBS label: W1r is broken for their
subtrees on purpose.  The parent setter is proved for an arbitrary set of tasks exempt from W1r (contracts/task.py); here that set is the set of
current violators, and the invariant of the attach loop says that every violator sits below a named task that is still to be attached - so at the
end there is none.

Proved: Inv (without the id clause U1, as for the parent setter) on normal exit, the exact effect (children list = the given list, parents, released
children detached with their subtrees, everything else untouched), `a call rejected by one of the checks changes nothing`, `rejected only for a stated
reason`.  NOT proved: that the attach loop cannot reject once the checks have passed (needs the meaning of the opaque id-clash predicate) - a
RuntimeError from the attach loop is allowed by this contract and left to the bounded stand-in (C15).
Domain of the proof: the given list names no task twice (lists with repetitions: bounded stand-in).
"""
import ast
from z3 import *
from pyvc.core import *
from contracts.graph_theory import *
from contracts.task import (F, EMPTY, H, Inv, INV_LABELS, U1, F1below, F2below, walk_pre, oblige_struct, c_all_children, c_check_links, parent_setter_call, links_cross,
                            links_cross_def, LinkPlugin, KID_AX, kid, t_, c_, a_, b_, u_, w_, c_id)
from pyvc.unit import Unit

CLASHL = Function('idclash_list', PAR, ArraySort(T.z, IntSort()), ArraySort(T.z, W.z), T.z, LT.z, BoolSort())       # _has_id_intersection(parent, children): opaque function of the pre-state (C05: bounded)
LABS = [l_ for l_ in INV_LABELS if l_ != U1]


class ChildrenPlugin(LinkPlugin):
    def __init__(self):
        LinkPlugin.__init__(self, 'pre')

    def ev_ListComp(self, eng, e, st):
        # len([v for v in value if COND(v)]) > 0  : the filtered list is non-empty exactly if some listed task satisfies COND
        g = e.generators[0]
        if len(e.generators) == 1 and isinstance(e.elt, ast.Name) and e.elt.id == g.target.id and len(g.ifs) == 1 and isinstance(g.iter, ast.Name):
            s, xs = eng.ev1(g.iter, st)
            if xs.s != LT: return LinkPlugin.ev_ListComp(self, eng, e, st)
            probe = fresh('probe', T); s2 = s.fork(); s2.env = dict(s.env); s2.env[g.target.id] = V(probe, T)
            s2.assume(mem(xs.e, probe))                      # the condition is evaluated for the elements of the list only
            outs = eng.ev(g.ifs[0], s2)
            if len(outs) != 1 or isinstance(outs[0][1], Raise): raise Unsupported('comprehension condition with several outcomes')
            s3, cv = outs[0]
            cond = eng.truth(s3, cv) if cv.s != BOOL else cv.e
            P = lambda t: substitute(cond, (probe, t))
            Fv = fresh('filtered', LT)
            s.assume(And(ln(Fv) >= 0, (ln(Fv) > 0) == Exists([x], And(mem(xs.e, x), P(x))), ForAll([x], mem(Fv, x) == And(mem(xs.e, x), P(x)), patterns=[mem(Fv, x)])))
            return [(s, V(Fv, LT))]
        return LinkPlugin.ev_ListComp(self, eng, e, st)

    def call(self, eng, e, st):
        f = e.func
        if isinstance(f, ast.Name) and f.id == 'any' and len(e.args) == 1 and isinstance(e.args[0], ast.GeneratorExp):
            ge = e.args[0]; g = ge.generators[0]
            if isinstance(ge.elt, ast.Compare) and len(ge.elt.ops) == 1 and isinstance(ge.elt.ops[0], ast.Is) and isinstance(ge.elt.comparators[0], ast.Name) \
                    and ge.elt.comparators[0].id == g.target.id and not g.ifs:
                s, xs = eng.ev1(g.iter, st); s, a = eng.ev1(ge.elt.left, s)
                return [(s, V(mem(self.listval(eng, s, xs, e.lineno), a.e), BOOL))]          # any(a is n for n in L)  ==  a in L (by identity)
        if isinstance(f, ast.Name) and f.id == 'len' and len(e.args) == 1:
            s, v = eng.ev1(e.args[0], st)
            if v.s == LT: return [(s, V(ln(v.e), INT))]
        return LinkPlugin.call(self, eng, e, st)


def c_to_list(eng, st, recv, args, kws, node):
    # _to_list(value): some list of non-None public tasks; domain of this proof: no task named twice
    Lv = fresh('value', LT); ii = Int('ii'); h = H(eng, st)
    st.assume(And(ln(Lv) >= 0, nodup(Lv), ForAll([ii], Implies(And(0 <= ii, ii < ln(Lv)), at(Lv, ii) != null), patterns=[at(Lv, ii)]),
                  ForAll([x], Implies(mem(Lv, x), And(x != null, h.tid[x] != EMPTY)), patterns=[mem(Lv, x)])))
    st.ghost['value0'] = Lv
    return [(st, V(Lv, LT))]


def c_none(eng, st, recv, args, kws, node): return [(st, V(None, NONE))]


def c_clash_list(eng, st, recv, args, kws, node):
    h = H(eng, st)
    return [(st, V(CLASHL(h.par, h.tid, h.own, args[0].e, args[1].e), BOOL))]


def c_detach(eng, st, recv, args, kws, node):
    """contract of Task._detach (proved by its unit): the owner of the whole subtree becomes None; nothing else changes"""
    h = H(eng, st); me = recv.e
    for lab, g in (('task-non-null', me != null), ('C01/F4-no-task-is-its-own-ancestor', Acyc(h.par)), ('N-null-has-no-parent', h.par[null] == null), ('C01/F1-below-the-task', F1below(h, me)),
                   ('C01/F2-below-the-task', F2below(h, me)), ('C01/F3-no-child-listed-twice', Inv(h)['C01/F3-no-child-listed-twice']),
                   ('children-list-objects-exist', ForAll([t_], Implies(t_ != null, h.chl[t_] != LR.null), patterns=[h.chl[t_]]))):
        st.oblige(f'req@_detach/{lab}', g, f'@{node.lineno}')
    eng.write(st, 'Task._Task__wbs', Lambda([x], If(insub(h.par, me, x), W.null, h.own[x])))
    return [(st, V(None, NONE))]


def reasons(h, me, V_):
    """the stated reasons for refusing `me.children = V_` (C01: cycle, link along the hierarchy; C11: a named task belongs to another WBS / me is detached and it belongs to one; C05: id clash)"""
    bad = lambda v: Or(v == me, Desc(h.par, v, me), links_cross(h, v, me),
                       If(h.own[me] == W.null, h.own[v] != W.null, And(h.own[v] != W.null, h.own[v] != h.own[me])))
    return Or(Exists([x], And(mem(V_, x), bad(x))), CLASHL(h.par, h.tid, h.own, me, V_))


def children_setter_unit():
    def build():
        hc = lambda c: H(c.eng, c.st); h0 = lambda c: H(c.eng, c.pre); me = lambda c: c['self']
        V0 = lambda c: c.st.ghost.get('value0', c.pre.ghost.get('value0'))
        C0 = lambda c: h0(c).ch(me(c))

        def same_heap(c):
            h, g = hc(c), h0(c)
            return And(h.par == g.par, h.own == g.own, h.elems == g.elems, h.chl == g.chl, h.tid == g.tid, h.root == g.root, h.pre == g.pre, h.suc == g.suc)

        def checked_so_far(c, n):
            g = h0(c); j = Int('j'); Vv = c['value']
            return ForAll([j], Implies(And(0 <= j, j < n), And(at(Vv, j) != me(c), Not(Desc(g.par, at(Vv, j), me(c))), Not(links_cross(g, at(Vv, j), me(c))))), patterns=[at(Vv, j)])

        def owners_ok(c):
            g = h0(c); Vv = c['value']
            return And(ForAll([x], Implies(mem(Vv, x), If(g.own[me(c)] == W.null, g.own[x] == W.null, Or(g.own[x] == W.null, g.own[x] == g.own[me(c)]))), patterns=[mem(Vv, x)]),
                       Not(CLASHL(g.par, g.tid, g.own, me(c), Vv)))

        def inv_A(c):
            return And(same_heap(c), c['value'] == V0(c), c['_i0'] >= 0, c['_i0'] <= ln(c['value']), owners_ok(c), checked_so_far(c, c['_i0']))
        def released(c, x, k):
            """x lies below a child of self that the release loop has passed (index < k)"""
            g = h0(c); return And(Desc(g.par, me(c), x), idx(C0(c), kid(g.par, me(c), x)) < k)

        def inv_B(c):
            h, g = hc(c), h0(c); k = c['_i1']; Vv = c['value']; C = C0(c); kd = lambda x: kid(g.par, me(c), x)
            return {'frame': And(h.elems == g.elems, h.chl == g.chl, h.tid == g.tid, h.root == g.root, h.pre == g.pre, h.suc == g.suc, Vv == V0(c), k >= 0, k <= ln(C),
                                 owners_ok(c), checked_so_far(c, ln(Vv)), h.par[null] == null),
                    'parents-of-the-children-passed-are-cleared': ForAll([x], h.par[x] == If(And(mem(C, x), idx(C, x) < k), null, g.par[x]), patterns=[h.par[x]]),
                    'owners-below-the-released-children-are-cleared': ForAll([x], h.own[x] == If(And(released(c, x, k), Not(mem(Vv, kd(x)))), W.null, g.own[x]), patterns=[h.own[x]]),
                    'ancestry-is-the-old-one-cut-above-the-children-passed': ForAll([a_, x], Desc(h.par, a_, x) == And(Desc(g.par, a_, x), Not(And(released(c, x, k), Not(insub(g.par, kd(x), a_))))),
                                                                                    patterns=[Desc(h.par, a_, x)]),
                    'C01/F4-no-task-is-its-own-ancestor': Acyc(h.par)}
        BL = ['frame', 'parents-of-the-children-passed-are-cleared', 'owners-below-the-released-children-are-cleared', 'ancestry-is-the-old-one-cut-above-the-children-passed', 'C01/F4-no-task-is-its-own-ancestor']
        # ---------------------------------------------------------------- attach loop
        def viol(h):
            """the tasks that carry a WBS label without being reachable from that WBS (kept children between release and re-attachment, and what is below them)"""
            return lambda t: And(h.own[t] != W.null, Not(insub(h.par, h.root[h.own[t]], t)))

        def c_set_parent(eng, st, recv, args, kws, node):
            h = H(eng, st)
            res = parent_setter_call(eng, st, recv.e, eng.coerce(args[0], T), node.lineno, X=viol(h))
            for s2, r in res:
                if isinstance(r, Raise): s2.ghost['attach_rejected'] = BoolVal(True)
            return res

        def inv_C(c):
            h, g = hc(c), h0(c); i = c['_i2']; Vv = c['value']; C = C0(c); m = me(c); k_ = Const('k_', T.z)
            d = {'inv/' + l_: v for l_, v in Inv(h, X=viol(h)).items() if l_ != U1}
            d.update({
                'frame': And(h.chl == g.chl, h.tid == g.tid, h.root == g.root, h.pre == g.pre, h.suc == g.suc, Vv == V0(c), i >= 0, i <= ln(Vv), owners_ok(c), checked_so_far(c, ln(Vv)),
                             Not(c.st.ghost['attach_rejected']), m != null,
                             ForAll([t_], Implies(t_ != null, And(h.P(t_) == g.P(t_), h.S(t_) == g.S(t_))), patterns=[h.pre[t_]])),
                'parents-so-far': ForAll([x], h.par[x] == If(And(mem(Vv, x), idx(Vv, x) < i), m, If(mem(C, x), null, g.par[x])), patterns=[h.par[x]]),
                'children-of-the-task-so-far': h.ch(m) == take(Vv, i),
                'other-children-lists-so-far': ForAll([t_, x], Implies(And(t_ != null, t_ != m), mem(h.ch(t_), x) == And(mem(g.ch(t_), x), Not(And(mem(Vv, x), idx(Vv, x) < i)))), patterns=[mem(h.ch(t_), x)]),
                'released-children-stay-detached': ForAll([x], Implies(And(mem(C, x), Not(mem(Vv, x))), h.own[x] == W.null), patterns=[h.own[x]]),
                'the-task-itself-is-in-place': And(h.own[m] == g.own[m], Not(viol(h)(m))),
                'every-label-without-membership-sits-below-a-named-task-still-to-be-attached':
                    ForAll([x], Implies(And(x != null, viol(h)(x)), Exists([k_], And(mem(Vv, k_), idx(Vv, k_) >= i, insub(h.par, k_, x)))), patterns=[h.own[x]]),
            })
            return d
        CL = ['inv/' + l_ for l_ in LABS] + ['frame', 'parents-so-far', 'children-of-the-task-so-far', 'other-children-lists-so-far', 'released-children-stay-detached', 'the-task-itself-is-in-place',
                                             'every-label-without-membership-sits-below-a-named-task-still-to-be-attached']

        def final(c):
            h, g = hc(c), h0(c); Vv = V0(c); C = C0(c); m = me(c)
            d = {l_: v for l_, v in Inv(h).items() if l_ != U1}
            d.update({
                'C16/children-list-is-exactly-the-given-list': h.ch(m) == Vv,
                'C16/every-named-task-reports-this-parent': ForAll([x], Implies(mem(Vv, x), h.par[x] == m)),
                'C11,C16/children-left-out-are-detached': ForAll([x], Implies(And(mem(C, x), Not(mem(Vv, x))), And(h.par[x] == null, h.own[x] == W.null))),
                'C16/parents-of-all-other-tasks-unchanged': ForAll([x], Implies(And(Not(mem(Vv, x)), Not(mem(C, x))), h.par[x] == g.par[x])),
                'C16/other-children-lists-only-lose-the-named-tasks': ForAll([t_, x], Implies(And(t_ != null, t_ != m), mem(h.ch(t_), x) == And(mem(g.ch(t_), x), Not(mem(Vv, x))))),
                'C16/dependency-lists-ids-and-list-objects-unchanged': And(h.chl == g.chl, h.tid == g.tid, h.root == g.root, h.pre == g.pre, h.suc == g.suc,
                                                                           ForAll([t_], Implies(t_ != null, And(h.P(t_) == g.P(t_), h.S(t_) == g.S(t_))))),
                'C01,C05,C11/accepted-only-without-a-reason-to-reject': Not(reasons(g, m, Vv)),
            })
            return d
        FL = LABS + ['C16/children-list-is-exactly-the-given-list', 'C16/every-named-task-reports-this-parent', 'C11,C16/children-left-out-are-detached', 'C16/parents-of-all-other-tasks-unchanged',
                     'C16/other-children-lists-only-lose-the-named-tasks', 'C16/dependency-lists-ids-and-list-objects-unchanged', 'C01,C05,C11/accepted-only-without-a-reason-to-reject']
        fc = {'sig': {'self': T, 'value': LT}, 'ghost': {'attach_rejected': BOOL},
              'requires': [(l_, (lambda l_: lambda c: Inv(hc(c))[l_])(l_)) for l_ in LABS] + [('self-non-null', lambda c: me(c) != null), ('ghost-flag-starts-false', lambda c: Not(c.st.ghost['attach_rejected']))],
              'loops': {0: {'fingerprint': 'for ch in value', 'invariant': [('checks-passed-so-far-nothing-written', inv_A)]},
                        1: {'fingerprint': 'for v in self.__children', 'havoc_heap': ['Task._Task__parent', 'Task._Task__wbs'],
                            'invariant': [('release/' + l_, (lambda l_: lambda c: inv_B(c)[l_])(l_)) for l_ in BL]},
                        2: {'fingerprint': 'for v in value', 'havoc_heap': ['Task._Task__parent', 'Task._Task__wbs', 'PyList.elems'],
                            'invariant': [('attach/' + l_, (lambda l_: lambda c: inv_C(c)[l_])(l_)) for l_ in CL]},
                        },
              'raises': {'RuntimeError': [('C15/a-call-rejected-by-a-check-changes-nothing', lambda c: Or(c.st.ghost['attach_rejected'], same_heap(c))),
                                          ('C01,C05,C11/rejected-by-a-check-only-for-a-stated-reason', lambda c: Or(c.st.ghost['attach_rejected'], reasons(h0(c), me(c), V0(c))))]},
              'ensures': [(l_, (lambda l_: lambda c: final(c)[l_])(l_)) for l_ in FL]}
        contracts = {'fn:_to_list': c_to_list, 'fn:_check_no_nones_in_list': c_none, 'fn:_has_id_intersection': c_clash_list, 'prop:Task.all_children': c_all_children,
                     'fn:_check_no_links_to_ancestors': c_check_links, 'Task._detach': c_detach, 'prop:Task.id': c_id,
                     'setprop:Task.parent': c_set_parent}
        return Engine(F, 'Task.children.setter', contracts, TASK_CLASSES, fc, plugins=[ChildrenPlugin()]), LIST_AX + LIST_TAKE_AX + GRAPH_AX + KID_AX
    return Unit('Task.children.setter', F, build, ['C01', 'C05', 'C11', 'C15', 'C16'], shards=4, timeout_ms=15000)


UNITS = [children_setter_unit()]
