"""Sidecar contracts for the resource-usage table (C20): ResourceUsageReport.__repr__ in pjplan/schedule.py and the three table builders it uses,
TextTable.new_row / new_cell and _TextTableRow.add_cell in pjplan/utils.py.

Proved (structure of the table handed to text_repr, for a report with at least one row): one header line plus one line per day d = first, first + 1 day, ...
up to the last reservation date - i.e. n day lines with  first + (n-1) days <= last < first + n days  - and every line has one cell per resource plus
the date cell.  The table is a heap of row / cell objects with list VALUES in fields (rows of the table, cells of a row); the builders are proved on that
model and used by contract.  Texts are opaque here (what the cells say - date format, one decimal, colours - is the bounded stand-in's), and
text_repr itself is proved in contracts/text.py on its own model of the same classes: that the two models describe the same objects is assumed.
"""
import ast
from z3 import *
from pyvc.core import *
from pyvc.unit import Unit

FS = 'pjplan/schedule.py'; FU = 'pjplan/utils.py'
TAB = REF('TextTable'); ROW = REF('_TextTableRow'); CELL = REF('_TextTableCell'); REP = REF('ResourceUsageReport'); UROW = REF('ResourceUsageRow'); RES = REF('IResource')
ANYV = S('AnyValue', DeclareSort('AnyValue')); OANY = OPT(ANYV)
LR_ = LIST(ROW); LC_ = LIST(CELL); LU = LIST(UROW); LT_ = LIST(TIME); LRES = LIST(RES)
CLASSES = {'TextTable': {'_TextTable__rows': LR_, '_TextTable__current_row': ROW},
           '_TextTableRow': {'cells': LC_, 'color': OANY, 'bg_color': OANY, 'alive': BOOL},
           '_TextTableCell': {'text': OANY, 'color': OANY, 'bg_color': OANY, 'alive': BOOL},
           'ResourceUsageReport': {'_ResourceUsageReport__rows': LU}, 'ResourceUsageRow': {'date': TIME, 'resource': RES, 'units': REAL}, 'IResource': {'name': OANY}}
appR = Function('app_rows', LR_.z, ROW.z, LR_.z); appC = Function('app_cells', LC_.z, CELL.z, LC_.z); noR = Const('no_rows', LR_.z); noC = Const('no_cells', LC_.z)
lr_ = Const('lr_', LR_.z); lc_ = Const('lc_', LC_.z); r_ = Const('r_', ROW.z); c_ = Const('c_', CELL.z); t_ = Const('t_', TAB.z); i_, k_ = Ints('i_ k_')
TAB_AX = [ForAll([lr_], LR_.len(lr_) >= 0), ForAll([lc_], LC_.len(lc_) >= 0), LR_.len(noR) == 0, LC_.len(noC) == 0,
          ForAll([lr_, r_], And(LR_.len(appR(lr_, r_)) == LR_.len(lr_) + 1, LR_.at(appR(lr_, r_), LR_.len(lr_)) == r_), patterns=[appR(lr_, r_)]),
          ForAll([lr_, r_, i_], Implies(And(0 <= i_, i_ < LR_.len(lr_)), LR_.at(appR(lr_, r_), i_) == LR_.at(lr_, i_)), patterns=[LR_.at(appR(lr_, r_), i_)]),
          ForAll([lc_, c_], And(LC_.len(appC(lc_, c_)) == LC_.len(lc_) + 1, LC_.at(appC(lc_, c_), LC_.len(lc_)) == c_), patterns=[appC(lc_, c_)]),
          ForAll([lc_, c_, i_], Implies(And(0 <= i_, i_ < LC_.len(lc_)), LC_.at(appC(lc_, c_), i_) == LC_.at(lc_, i_)), patterns=[LC_.at(appC(lc_, c_), i_)])]


class Hp:
    def __init__(self, eng, st):
        f = lambda c, n: eng.field(st, c, n)
        self.rows, self.cur = f('TextTable', '_TextTable__rows'), f('TextTable', '_TextTable__current_row')
        self.cells, self.ralive, self.rcolor = f('_TextTableRow', 'cells'), f('_TextTableRow', 'alive'), f('_TextTableRow', 'color')
        self.calive, self.ctext = f('_TextTableCell', 'alive'), f('_TextTableCell', 'text')


def opt(eng, v):
    """an argument that may be None, as an optional opaque value"""
    if v is None or v.s == NONE: return OANY.dt.none
    if v.s == OANY: return v.e
    return OANY.dt.some(fresh('value', ANYV))


class TablePlugin:
    """_TextTableRow(color, bg) / _TextTableCell(text, color, bg) allocate; row.cells.append(cell), table.__rows.append(row); opaque texts and colours"""

    def ev_Constant(self, eng, e, st):
        if isinstance(e.value, str): return [(st, V(OANY.dt.some(fresh('text', ANYV)), OANY))]
        return NotImplemented

    def call(self, eng, e, st):
        f = e.func
        if isinstance(f, ast.Name) and f.id in ('_TextTableRow', '_TextTableCell'):
            out = []
            for s, vs in eng.ev_seq(e.args, st):
                if isinstance(vs, Raise): out.append((s, vs)); continue
                vs = list(vs) + [None] * 3
                if f.id == '_TextTableRow':
                    h = Hp(eng, s); r = fresh('row', ROW); s.assume(And(r != ROW.null, Not(h.ralive[r])))
                    eng.write(s, '_TextTableRow.alive', Store(h.ralive, r, True)); eng.write(s, '_TextTableRow.cells', Store(h.cells, r, noC))
                    eng.write(s, '_TextTableRow.color', Store(h.rcolor, r, opt(eng, vs[0]))); eng.write(s, '_TextTableRow.bg_color', Store(eng.field(s, '_TextTableRow', 'bg_color'), r, opt(eng, vs[1])))
                    out.append((s, V(r, ROW)))
                else:
                    h = Hp(eng, s); r = fresh('cell', CELL); s.assume(And(r != CELL.null, Not(h.calive[r])))
                    eng.write(s, '_TextTableCell.alive', Store(h.calive, r, True)); eng.write(s, '_TextTableCell.text', Store(h.ctext, r, opt(eng, vs[0])))
                    out.append((s, V(r, CELL)))
            return out
        if isinstance(f, ast.Attribute) and f.attr == 'append' and isinstance(f.value, ast.Attribute) and len(e.args) == 1:
            fld = eng.mangle(f.value.attr)
            if fld in ('cells', '_TextTable__rows'):
                s, o = eng.ev1(f.value.value, st); s, v = eng.ev1(e.args[0], s)
                if (o.s == ROW) != (fld == 'cells'): return NotImplemented
                cls = '_TextTableRow' if o.s == ROW else 'TextTable'
                s.oblige('safe/AttributeError-None', o.e != o.s.null, f'@{e.lineno}')
                arr = eng.field(s, cls, fld)
                eng.write(s, f'{cls}.{fld}', Store(arr, o.e, (appC if o.s == ROW else appR)(arr[o.e], v.e)))
                return [(s, V(None, NONE))]
        return NotImplemented

    def cmp(self, eng, st, k, l_, r, line):
        if l_.s == OANY and r.s == NONE and k in ('Is', 'IsNot'): return OANY.dt.is_none(l_.e) if k == 'Is' else OANY.dt.is_some(l_.e)
        return NotImplemented


TKEYS = ['TextTable._TextTable__rows', 'TextTable._TextTable__current_row', '_TextTableRow.cells', '_TextTableRow.color', '_TextTableRow.bg_color', '_TextTableRow.alive',
         '_TextTableCell.text', '_TextTableCell.color', '_TextTableCell.bg_color', '_TextTableCell.alive']


def add_cell_post(h0, h1, row, res=None):
    cnew = LC_.at(h1.cells[row], LC_.len(h0.cells[row]))
    return {'C20/one-new-cell-at-the-end-of-this-row': And(LC_.len(h1.cells[row]) == LC_.len(h0.cells[row]) + 1, cnew != CELL.null, Not(h0.calive[cnew]),
                                                          ForAll([i_], Implies(And(0 <= i_, i_ < LC_.len(h0.cells[row])), LC_.at(h1.cells[row], i_) == LC_.at(h0.cells[row], i_)), patterns=[LC_.at(h1.cells[row], i_)])),
            'C20/other-rows-and-the-table-unchanged': And(ForAll([r_], Implies(r_ != row, h1.cells[r_] == h0.cells[r_]), patterns=[h1.cells[r_]]), h1.rows == h0.rows, h1.cur == h0.cur, h1.ralive == h0.ralive)}
AC = ['C20/one-new-cell-at-the-end-of-this-row', 'C20/other-rows-and-the-table-unchanged']


def new_row_post(h0, h1, tab):
    r = h1.cur[tab]
    return {'C20/one-new-empty-row-at-the-end-which-becomes-the-current-row': And(r != ROW.null, Not(h0.ralive[r]), h1.ralive == Store(h0.ralive, r, True), h1.rows[tab] == appR(h0.rows[tab], r), h1.cells[r] == noC),
            'C20/other-rows-and-tables-unchanged': And(ForAll([r_], Implies(r_ != r, h1.cells[r_] == h0.cells[r_]), patterns=[h1.cells[r_]]),
                                                       ForAll([t_], Implies(t_ != tab, And(h1.rows[t_] == h0.rows[t_], h1.cur[t_] == h0.cur[t_])), patterns=[h1.rows[t_]]))}
NR = ['C20/one-new-empty-row-at-the-end-which-becomes-the-current-row', 'C20/other-rows-and-tables-unchanged']


def c_add_cell(eng, st, recv, args, kws, node):
    h0 = Hp(eng, st)
    for k in TKEYS: eng.havoc(st, k)
    for g in add_cell_post(h0, Hp(eng, st), recv.e).values(): st.assume(g)
    return [(st, V(None, NONE))]


def c_new_row(eng, st, recv, args, kws, node):
    h0 = Hp(eng, st)
    for k in TKEYS: eng.havoc(st, k)
    for g in new_row_post(h0, Hp(eng, st), recv.e).values(): st.assume(g)
    return [(st, V(None, NONE))]


def c_new_cell(eng, st, recv, args, kws, node):
    h0 = Hp(eng, st)
    st.oblige('req@new_cell/a-row-has-been-started', h0.cur[recv.e] != ROW.null, f'@{node.lineno}')
    for k in TKEYS: eng.havoc(st, k)
    for g in add_cell_post(h0, Hp(eng, st), h0.cur[recv.e]).values(): st.assume(g)
    return [(st, V(None, NONE))]


def builder_units():
    def add_cell():
        fc = {'sig': {'self': ROW, 'text': OANY, 'color': OANY, 'bg_color': OANY}, 'requires': [('row-exists', lambda c: c['self'] != ROW.null)],
              'ensures': [(l, (lambda l: lambda c: add_cell_post(Hp(c.eng, c.pre), Hp(c.eng, c.st), c['self'])[l])(l)) for l in AC]}
        return Engine(FU, '_TextTableRow.add_cell', {}, CLASSES, fc, plugins=[TablePlugin()]), TAB_AX

    def new_row():
        fc = {'sig': {'self': TAB, 'color': OANY, 'bg_color': OANY}, 'requires': [('table-exists', lambda c: c['self'] != TAB.null)],
              'ensures': [(l, (lambda l: lambda c: new_row_post(Hp(c.eng, c.pre), Hp(c.eng, c.st), c['self'])[l])(l)) for l in NR]}
        return Engine(FU, 'TextTable.new_row', {}, CLASSES, fc, plugins=[TablePlugin()]), TAB_AX

    def new_cell():
        fc = {'sig': {'self': TAB, 'text': OANY, 'color': OANY, 'bg_color': OANY}, 'requires': [('table-exists-and-a-row-has-been-started', lambda c: And(c['self'] != TAB.null, Hp(c.eng, c.st).cur[c['self']] != ROW.null))],
              'ensures': [(l, (lambda l: lambda c: add_cell_post(Hp(c.eng, c.pre), Hp(c.eng, c.st), Hp(c.eng, c.pre).cur[c['self']])[l])(l)) for l in AC]}
        return Engine(FU, 'TextTable.new_cell', {'_TextTableRow.add_cell': c_add_cell}, CLASSES, fc, plugins=[TablePlugin()]), TAB_AX
    return [Unit('_TextTableRow.add_cell', FU, add_cell, ['C20']), Unit('TextTable.new_row', FU, new_row, ['C20']), Unit('TextTable.new_cell', FU, new_cell, ['C20'])]


class ReportPlugin(TablePlugin):
    """the comprehensions over the ledger rows, min / max of the dates, the set of resources (iterated twice in the same order), TextTable()"""

    def ev_ListComp(self, eng, e, st):
        src = ast.unparse(e)
        if src in ('[item.date for item in self.__rows]', '[item.resource for item in self.__rows]'):
            s, me = eng.ev1(ast.Name(id='self', ctx=ast.Load()), st)
            rows = Select(eng.field(s, 'ResourceUsageReport', '_ResourceUsageReport__rows'), me.e)
            if 'date' in src:
                D = fresh('dates', LT_); dt = eng.field(s, 'ResourceUsageRow', 'date')
                s.assume(And(LT_.len(D) == LU.len(rows), ForAll([i_], Implies(And(0 <= i_, i_ < LU.len(rows)), LT_.at(D, i_) == dt[LU.at(rows, i_)]), patterns=[LT_.at(D, i_)])))
                s.oblige('safe/AttributeError-None', ForAll([i_], Implies(And(0 <= i_, i_ < LU.len(rows)), LU.at(rows, i_) != UROW.null)), f'@{e.lineno}')
                return [(s, V(D, LT_))]
            R = fresh('resources_of_the_rows', LRES)
            s.oblige('safe/AttributeError-None', ForAll([i_], Implies(And(0 <= i_, i_ < LU.len(rows)), LU.at(rows, i_) != UROW.null)), f'@{e.lineno}')
            s.assume(LRES.len(R) == LU.len(rows))
            return [(s, V(R, LRES))]
        return NotImplemented

    def call(self, eng, e, st):
        f = e.func
        if isinstance(f, ast.Name) and f.id in ('min', 'max') and len(e.args) == 1:
            s, v = eng.ev1(e.args[0], st)
            if v.s == LT_:
                s.oblige('safe/ValueError-empty-sequence', LT_.len(v.e) > 0, f'{f.id}() @{e.lineno}')
                m = fresh(f.id + '_date', TIME); w = fresh('witness', INT)
                s.assume(And(0 <= w, w < LT_.len(v.e), m == LT_.at(v.e, w),
                             ForAll([i_], Implies(And(0 <= i_, i_ < LT_.len(v.e)), (m <= LT_.at(v.e, i_)) if f.id == 'min' else (m >= LT_.at(v.e, i_))), patterns=[LT_.at(v.e, i_)])))
                return [(s, V(m, TIME))]
        if isinstance(f, ast.Name) and f.id == 'set' and len(e.args) == 1:
            s, v = eng.ev1(e.args[0], st)
            if v.s == LRES:          # the distinct resources in SOME order that stays the same while the set is not modified; none of them None if none of the listed ones is
                R = fresh('resource_set', LRES); s.assume(And(LRES.len(R) >= 0, LRES.len(R) <= LRES.len(v.e)))
                s.assume(ForAll([i_], Implies(And(0 <= i_, i_ < LRES.len(R)), LRES.at(R, i_) != RES.null), patterns=[LRES.at(R, i_)]))          # ledger rows name a resource (reserve() is only called with one)
                return [(s, V(R, LRES))]
        if isinstance(f, ast.Name) and f.id == 'TextTable' and not e.args:
            t = fresh('table', TAB); s = st; s.assume(t != TAB.null)
            eng.write(s, 'TextTable._TextTable__rows', Store(eng.field(s, 'TextTable', '_TextTable__rows'), t, noR))
            eng.write(s, 'TextTable._TextTable__current_row', Store(eng.field(s, 'TextTable', '_TextTable__current_row'), t, ROW.null))
            return [(s, V(t, TAB))]
        if isinstance(f, ast.Attribute) and f.attr == 'upper':
            s, v = eng.ev1(f.value, st)
            if v.s == OANY:
                s.oblige('safe/AttributeError-None', OANY.dt.is_some(v.e), f'.upper() @{e.lineno}')
                return [(s, V(OANY.dt.some(fresh('upper', ANYV)), OANY))]
        return TablePlugin.call(self, eng, e, st)


def report_repr_unit():
    def build():
        hc = lambda c: Hp(c.eng, c.st)
        urows = lambda c: Select(c.fld('ResourceUsageReport', '_ResourceUsageReport__rows'), c['self'])
        T_ = lambda c: c['table']; nres = lambda c: LRES.len(c['resources'])
        rows = lambda c: hc(c).rows[T_(c)]
        DAY = 86400

        def shape(c, upto, last_len=None):          # the first `upto` lines are complete: date / header cell plus one cell per resource
            h = hc(c)
            return ForAll([k_], Implies(And(0 <= k_, k_ < upto), And(LR_.at(rows(c), k_) != ROW.null, LC_.len(h.cells[LR_.at(rows(c), k_)]) == 1 + nres(c))), patterns=[LR_.at(rows(c), k_)])

        def distinct_rows(c):          # the lines are different row objects (each was new when it was added)
            a, b = Ints('a_ b_')
            return And(ForAll([a, b], Implies(And(0 <= a, a < b, b < LR_.len(rows(c))), LR_.at(rows(c), a) != LR_.at(rows(c), b))),
                       ForAll([a], Implies(And(0 <= a, a < LR_.len(rows(c))), And(hc(c).ralive[LR_.at(rows(c), a)], LR_.at(rows(c), a) != ROW.null)), patterns=[LR_.at(rows(c), a)]))
        cur_is_last = lambda c: And(LR_.len(rows(c)) >= 1, hc(c).cur[T_(c)] == LR_.at(rows(c), LR_.len(rows(c)) - 1))
        days_done = lambda c: c['d'] == c['min_date'] + (LR_.len(rows(c)) - 1) * DAY
        common = lambda c: And(T_(c) != TAB.null, nres(c) >= 0, distinct_rows(c), cur_is_last(c), c['min_date'] <= c['max_date'])

        def c_text_repr(eng, st, recv, args, kws, node):
            """TextTable.text_repr (proved in contracts/text.py): the rendered text; the table it is given is what the post-condition describes"""
            st.ghost['final_rows'] = Hp(eng, st).rows[recv.e]; st.ghost['final_cells'] = Hp(eng, st).cells
            return [(st, V(OANY.dt.some(fresh('rendered', ANYV)), OANY))]

        def c_opaque_real(eng, st, recv, args, kws, node): return [(st, V(fresh('units', REAL), REAL))]

        def final(c):
            FR = c.st.ghost['final_rows']; FC = c.st.ghost['final_cells']; n = LR_.len(FR) - 1
            return {'C20/one-header-line-plus-one-line-per-day-from-the-first-to-the-last-reservation': And(n >= 1, c['min_date'] + (n - 1) * DAY <= c['max_date'], c['max_date'] < c['min_date'] + n * DAY),
                    'C20/every-line-has-the-date-cell-plus-one-cell-per-resource': ForAll([k_], Implies(And(0 <= k_, k_ <= n), LC_.len(FC[LR_.at(FR, k_)]) == 1 + nres(c)))}
        FL = ['C20/one-header-line-plus-one-line-per-day-from-the-first-to-the-last-reservation', 'C20/every-line-has-the-date-cell-plus-one-cell-per-resource']
        fc = {'sig': {'self': REP}, 'locals': {'table': TAB, 'resources': LRES, 'dates': LT_, 'min_date': TIME, 'max_date': TIME, 'd': TIME, 'k': RES, 'name': OANY, 'val': REAL, 'color': OANY},
              'ghost': {'final_rows': LR_, 'final_cells': S('CellsOfRows', ArraySort(ROW.z, LC_.z)), 'rendered': BOOL},
              'globals': {g: V(OANY.dt.some(Const('colour_' + g, ANYV.z)), OANY) for g in ('RED', 'GREY', 'GREEN', 'YELLOW')},
              'requires': [('report-exists-rows-are-row-objects', lambda c: And(c['self'] != REP.null, LU.len(urows(c)) >= 0,
                                                                                ForAll([i_], Implies(And(0 <= i_, i_ < LU.len(urows(c))), LU.at(urows(c), i_) != UROW.null), patterns=[LU.at(urows(c), i_)])))],
              'loops': {0: {'fingerprint': 'for k in resources', 'havoc_heap': TKEYS,
                            'invariant': [('header', lambda c: And(common(c), LR_.len(rows(c)) == 1, c['_i0'] >= 0, c['_i0'] <= nres(c), LC_.len(hc(c).cells[LR_.at(rows(c), 0)]) == 1 + c['_i0']))]},
                        1: {'fingerprint': 'while d <= max_date', 'havoc_heap': TKEYS,
                            'invariant': [('day-lines', lambda c: And(common(c), days_done(c), shape(c, LR_.len(rows(c))), Implies(LR_.len(rows(c)) > 1, c['d'] - DAY <= c['max_date'])))]},
                        2: {'fingerprint': 'for k in resources', 'havoc_heap': TKEYS,
                            'invariant': [('day-line-under-construction', lambda c: And(common(c), LR_.len(rows(c)) >= 2, c['d'] == c['min_date'] + (LR_.len(rows(c)) - 2) * DAY, c['d'] <= c['max_date'],
                                                                                      shape(c, LR_.len(rows(c)) - 1), c['_i2'] >= 0, c['_i2'] <= nres(c),
                                                                                      LC_.len(hc(c).cells[LR_.at(rows(c), LR_.len(rows(c)) - 1)]) == 1 + c['_i2']))]}},
              'ensures': [(l, (lambda l: lambda c: Not(LU.len(urows(c)) > 0) if c.st.env.get('min_date') is None else final(c)[l])(l)) for l in FL]}          # the early return is taken exactly by the empty report
        contracts = {'TextTable.new_row': c_new_row, 'TextTable.new_cell': c_new_cell, 'TextTable.text_repr': c_text_repr,
                     'ResourceUsageReport.reserved': c_opaque_real, 'IResource.get_available_units': c_opaque_real}
        return Engine(FS, 'ResourceUsageReport.__repr__', contracts, CLASSES, fc, plugins=[ReportPlugin()]), TAB_AX
    return Unit('ResourceUsageReport.__repr__', FS, build, ['C20'], timeout_ms=15000)


UNITS = builder_units() + [report_repr_unit()]
