"""Sidecar contracts for pjplan/wbs.py: WBS.start / WBS.end (C07: earliest start / latest end over the root tasks; with the roll-up clauses of the
passes this is the earliest / latest over all tasks) and lookup by id (C05).  The mutating WBS operations are covered by the bounded stand-in."""
import ast
from z3 import *
from pyvc.core import *
from contracts.passes import *
from pyvc.unit import Unit

FW = 'pjplan/wbs.py'
WCLASSES = dict(CLASSES); WCLASSES['WBS'] = {'_WBS__root': T}


def start_end_unit(which):
    fld = which          # 'start' / 'end'

    def build():
        root = lambda c: Select(c.fld('WBS', '_WBS__root'), c['self'])
        L = (lambda c: rootsL(c['self'])) if which == 'start' else (lambda c: chL(root(c)))
        arr = lambda c: c.fld('Task', fld); j = Int('j'); k = Int('k')
        OTr = lambda c: c.eng.coerce(c.result, OT) if c.result.s != NONE else OT.dt.none
        better = (lambda a, b: a <= b) if which == 'start' else (lambda a, b: a >= b)

        def spec(c):
            r = OTr(c); anyv = Exists([j], And(0 <= j, j < ln(L(c)), some(arr(c)[at(L(c), j)])))
            return And(some(r) == anyv,
                       Implies(some(r), And(ForAll([j], Implies(And(0 <= j, j < ln(L(c)), some(arr(c)[at(L(c), j)])), better(tv(r), tv(arr(c)[at(L(c), j)])))),
                                            Exists([k], And(0 <= k, k < ln(L(c)), some(arr(c)[at(L(c), k)]), tv(arr(c)[at(L(c), k)]) == tv(r))))))
        fc = {'sig': {'self': WB}, 'locals': {},
              'requires': [('pre', lambda c: And(c['self'] != WB.null, root(c) != null, ForAll([j], Implies(And(0 <= j, j < ln(L(c))), at(L(c), j) != null), patterns=[at(L(c), j)])))],
              'ensures': [(f'C07/WBS.{which}-is-the-{"earliest start" if which == "start" else "latest end"}-over-the-root-tasks-None-if-none-has-one'.replace(' ', '-'), spec)]}
        contracts = {'prop:WBS.roots': lambda eng, st, recv, a, k_, n: [(st, V(rootsL(recv.e), LT))], 'prop:Task.children': c_list(chL)}
        return Engine(FW, f'WBS.{which}', contracts, WCLASSES, fc, plugins=[PassPlugin()]), all_ax()
    return Unit(f'WBS.{which}', FW, build, ['C07'])


UNITS = [start_end_unit('start'), start_end_unit('end')]


# ------------------------------------------------------------------------------------------------ lookup by id
allL = Function('all_children_list', T.z, LT.z)      # Task.all_children: the depth-first listing of the strict descendants (assumed contract, C05)


class NextPlugin(PassPlugin):
    def call(self, eng, e, st):
        f = e.func
        if isinstance(f, ast.Name) and f.id == 'next' and len(e.args) == 1 and isinstance(e.args[0], ast.GeneratorExp):
            g = e.args[0]
            if len(g.generators) != 1 or not (isinstance(g.elt, ast.Name) and g.elt.id == g.generators[0].target.id): raise Unsupported('next(generator) form')
            gen = g.generators[0]
            s, xs = eng.ev1(gen.iter, st)
            if xs.s != LT: raise Unsupported('next over ' + str(xs.s))
            var = gen.target.id; jv = fresh('found', INT); i_ = Int('i_')

            def cond(s_, idx_term):
                s2 = s_.fork(); s2.env = dict(s_.env); s2.env[var] = V(at(xs.e, idx_term), T); s2.obs = []
                cs = []
                for c_ in gen.ifs:
                    s2, v = eng.ev1(c_, s2); cs.append(eng.truth(s2, v))
                for name, hyps, goal, detail in s2.obs:          # safety of the filter for EVERY element of the sequence
                    if goal is not None:
                        q = Int('q_'); s_.oblige(name, ForAll([q], Implies(And(0 <= q, q < ln(xs.e)), substitute(goal, (idx_term, q)))), detail)
                return And(*cs) if cs else BoolVal(True)
            found = s.fork(); none = s.fork()
            found.assume(And(0 <= jv, jv < ln(xs.e), cond(found, jv), ForAll([i_], Implies(And(0 <= i_, i_ < jv), Not(cond(found, i_))))))
            none.assume(ForAll([i_], Implies(And(0 <= i_, i_ < ln(xs.e)), Not(cond(none, i_)))))
            return [(found, V(at(xs.e, jv), T)), (none, Raise('StopIteration'))]
        return PassPlugin.call(self, eng, e, st)


def getitem_unit():
    def build():
        root = lambda c: Select(c.fld('WBS', '_WBS__root'), c['self'])
        L = lambda c: allL(root(c)); j = Int('j'); tid = lambda c: c.fld('Task', '_Task__id')
        exists = lambda c: Exists([j], And(0 <= j, j < ln(L(c)), tid(c)[at(L(c), j)] == c['task_id']))
        fc = {'sig': {'self': WB, 'task_id': INT},
              'requires': [('pre', lambda c: And(c['self'] != WB.null, root(c) != null, ln(L(c)) >= 0, ForAll([j], Implies(And(0 <= j, j < ln(L(c))), at(L(c), j) != null), patterns=[at(L(c), j)])))],
              'raises': {'RuntimeError': [('C05/raises-only-if-no-member-has-the-id', lambda c: Not(exists(c)))]},
              'ensures': [('C05/returns-a-member-with-that-id', lambda c: Exists([j], And(0 <= j, j < ln(L(c)), at(L(c), j) == c.result.e, tid(c)[c.result.e] == c['task_id'])))]}
        contracts = {'prop:Task.all_children': c_list(allL), 'prop:Task.children': c_list(chL), 'prop:Task.id': c_field('Task', '_Task__id', INT)}
        return Engine(FW, 'WBS.__getitem__', contracts, WCLASSES, fc, plugins=[NextPlugin()]), all_ax()
    return Unit('WBS.__getitem__', FW, build, ['C05'])


UNITS.append(getitem_unit())
