"""Sidecar contracts for the sheet builder _Repr.__print_task_subtree / _Repr.repr in pjplan/task.py (C20), at the level of the table structure:
the table handed to text_repr has one header line plus ONE LINE PER TASK SHOWN - the given tasks, and with `children` on every descendant of each:
1 + len(dfs(task)) lines per given task, dfs = the depth-first listing proved for Task.all_children - and every line has exactly one cell per field.
(That every line has the same number of cells is what makes text_repr's column widths cover every cell.)

The table model and the contracts of its builders are those of contracts/usage.py (rows and cells as heap objects; new_row / new_cell proved there).
Cell texts are opaque: indentation, link cells, the order of the lines and `__get_field_value` (used as a total function returning a text) are
the bounded stand-in's.  Domain: the theme has the documented key 'level_colors'; level >= 0.
"""
import ast
from z3 import *
from pyvc.core import *
from contracts.graph_theory import *
from contracts.task import F, H, FAC_CLASSES, c_children, forest_struct, hgt
from contracts.children import ChildrenPlugin
from contracts.closure import dfs, flat, DFS_AX, WFH, same_heap, MEASURE_AX
from contracts.usage import CLASSES as TCL, TablePlugin, Hp as TH, c_new_row, c_new_cell, TAB, ROW, OANY, ANYV, LR_, LC_, TAB_AX, TKEYS
from pyvc.unit import Unit

LF = LIST(OANY); THEME = REF('ThemeDict')
appF = Function('app_texts', LF.z, OANY.z, LF.z); noF = Const('no_texts', LF.z); lf_ = Const('lf_', LF.z); o_ = Const('o_', OANY.z); i_, k_ = Ints('i_ k_')
SHEET_AX = [ForAll([lf_], LF.len(lf_) >= 0), LF.len(noF) == 0, ForAll([lf_, o_], LF.len(appF(lf_, o_)) == LF.len(lf_) + 1, patterns=[appF(lf_, o_)])]
CLASSES = dict(FAC_CLASSES); CLASSES.update(TCL)
opaque = lambda: V(OANY.dt.some(fresh('text', ANYV)), OANY)
shown = Function('lines_for', ArraySort(T.z, LR.z), ArraySort(LR.z, LT.z), LT.z, BoolSort(), IntSort(), IntSort())          # lines for the first i given tasks
cm_, em_ = Const('cm_', ArraySort(T.z, LR.z)), Const('em_', ArraySort(LR.z, LT.z)); l0_ = Const('l0_', LT.z); b0_ = Bool('b0_')
SHOWN_AX = [ForAll([cm_, em_, l0_, b0_], shown(cm_, em_, l0_, b0_, 0) == 0, patterns=[shown(cm_, em_, l0_, b0_, 0)]),
            ForAll([cm_, em_, l0_, b0_, i_], Implies(i_ >= 0, shown(cm_, em_, l0_, b0_, i_ + 1) == shown(cm_, em_, l0_, b0_, i_) + 1 + If(b0_, ln(dfs(cm_, em_, at(l0_, i_))), 0)), patterns=[shown(cm_, em_, l0_, b0_, i_ + 1)])]


def lines_of(h, t, children):
    return 1 + If(children, ln(dfs(h.chl, h.elems, t)), 0)


class SheetPlugin:
    """the opaque parts: texts, colours, the theme dictionary, task.__dict__ / task.name / task.print_color; the local list `values`; calls through the class name _Repr"""

    def ev_List(self, eng, e, st):
        if not e.elts: return [(st, V(noF, LF))]
        if all(isinstance(x, ast.Constant) and isinstance(x.value, str) for x in e.elts):
            v = fresh('default_fields', LF); st.assume(And(LF.len(v) == len(e.elts), ForAll([k_], OANY.dt.is_some(LF.at(v, k_)), patterns=[LF.at(v, k_)]))); return [(st, V(v, LF))]
        return NotImplemented

    def ev_Attribute(self, eng, e, st):
        if isinstance(e.ctx, ast.Load) and e.attr in ('name', 'print_color', '__dict__'):
            s, o = eng.ev1(e.value, st)
            if o.s == T:
                s.oblige('safe/AttributeError-None', o.e != null, f'@{e.lineno}')
                return [(s, V(fresh('optional_text', OANY), OANY))]
        if isinstance(e.value, ast.Name) and e.value.id == '_Repr' and e.attr == '__DEFAULT_THEME':
            t = fresh('default_theme', THEME); st.assume(t != THEME.null); return [(st, V(t, THEME))]
        return NotImplemented

    def ev_Subscript(self, eng, e, st):
        s, o = eng.ev1(e.value, st)
        if o.s == THEME:          # theme['level_colors'] (domain: the key is there), theme['header_color'] (guarded by `in`)
            s.oblige('safe/AttributeError-None', o.e != THEME.null, f'@{e.lineno}')
            if isinstance(e.slice, ast.Constant) and e.slice.value == 'level_colors':
                v = fresh('level_colours', LF); return [(s, V(v, LF))]
            return [(s, opaque())]
        return NotImplemented

    def ev_BinOp(self, eng, e, st):
        if ast.unparse(e) == "'   ' * level + (task.name if task.name is not None else '')":          # the indented name: a text (a conditional inside an operand - evaluated here as a whole)
            s, o = eng.ev1(ast.Name(id='task', ctx=ast.Load()), st)
            s.oblige('safe/AttributeError-None', o.e != null, f'@{e.lineno}')
            return [(s, opaque())]
        return NotImplemented

    def binop(self, eng, st, k, l_, r, line):
        if OANY in (l_.s, r.s) and k in ('Add', 'Mult'):
            for v in (l_, r):
                if v.s == OANY: st.oblige('safe/TypeError-None-in-text-arithmetic', OANY.dt.is_some(v.e), f'@{line}')
            return opaque()
        return NotImplemented

    def cmp(self, eng, st, k, l_, r, line):
        if k in ('Eq', 'NotEq') and l_.s == OANY and r.s == OANY: return fresh('same_text', BOOL)
        if k in ('Is', 'IsNot') and l_.s == LF and r.s == NONE: return fresh('no_fields_given', BOOL)          # `fields is None`: the parameter is either None (then replaced by the default list) or a list
        if k in ('In', 'NotIn') and l_.s == OANY and r.s in (OANY, THEME): return fresh('has_key', BOOL)
        return NotImplemented

    def call(self, eng, e, st):
        f = e.func
        if isinstance(f, ast.Attribute) and f.attr == 'append' and isinstance(f.value, ast.Name) and st.env.get(f.value.id) is not None and st.env[f.value.id].s == LF:
            s, v = eng.ev1(e.args[0], st)
            s.env[f.value.id] = V(appF(s.env[f.value.id].e, v.e if v.s == OANY else OANY.dt.some(fresh('text', ANYV))), LF)
            return [(s, V(None, NONE))]
        if isinstance(f, ast.Attribute) and f.attr == 'upper':
            s, v = eng.ev1(f.value, st)
            if v.s == OANY:
                s.oblige('safe/AttributeError-None', OANY.dt.is_some(v.e), f'.upper() @{e.lineno}'); return [(s, opaque())]
        if isinstance(f, ast.Attribute) and isinstance(f.value, ast.Name) and f.value.id == '_Repr':
            key = 'fn:_Repr.' + f.attr
            if key in eng.contracts:
                out = []
                for s, vs in eng.ev_seq(e.args, st):
                    out += [(s, vs)] if isinstance(vs, Raise) else eng.contracts[key](eng, s, None, vs, {}, e)
                return out
        if isinstance(f, ast.Name) and f.id == 'TextTable' and not e.args:
            t = fresh('table', TAB); st.assume(t != TAB.null)
            eng.write(st, 'TextTable._TextTable__rows', Store(eng.field(st, 'TextTable', '_TextTable__rows'), t, Const('no_rows', LR_.z)))
            eng.write(st, 'TextTable._TextTable__current_row', Store(eng.field(st, 'TextTable', '_TextTable__current_row'), t, ROW.null))
            return [(st, V(t, TAB))]
        return NotImplemented


def table_ok(th, tab):
    """the lines of the table are allocated row objects, none of them twice"""
    a, b = Ints('a_ b_'); R = th.rows[tab]
    return And(tab != TAB.null, ForAll([a], Implies(And(0 <= a, a < LR_.len(R)), And(LR_.at(R, a) != ROW.null, th.ralive[LR_.at(R, a)])), patterns=[LR_.at(R, a)]),
               ForAll([a, b], Implies(And(0 <= a, a < b, b < LR_.len(R)), LR_.at(R, a) != LR_.at(R, b))))


def subtree_post(h, t0, t1, tab, task, children, nfields):
    """t0 / t1: table heap before / after; h: the (unchanged) task heap"""
    K = lines_of(h, task, children); n0 = LR_.len(t0.rows[tab]); R1 = t1.rows[tab]
    return {'C20/one-line-for-the-task-and-with-children-on-one-for-every-descendant': LR_.len(R1) == n0 + K,
            'C20/lines-that-were-there-are-untouched': And(ForAll([k_], Implies(And(0 <= k_, k_ < n0), LR_.at(R1, k_) == LR_.at(t0.rows[tab], k_)), patterns=[LR_.at(R1, k_)]),
                                                         ForAll([Const('r_', ROW.z)], Implies(t0.ralive[Const('r_', ROW.z)], And(t1.cells[Const('r_', ROW.z)] == t0.cells[Const('r_', ROW.z)], t1.ralive[Const('r_', ROW.z)])), patterns=[t1.cells[Const('r_', ROW.z)]])),
            'C20/every-new-line-is-a-new-row-with-one-cell-per-field': ForAll([k_], Implies(And(n0 <= k_, k_ < n0 + K), And(Not(t0.ralive[LR_.at(R1, k_)]), LC_.len(t1.cells[LR_.at(R1, k_)]) == nfields)), patterns=[LR_.at(R1, k_)]),
            'C20/table-stays-well-formed': table_ok(t1, tab)}
SP = ['C20/one-line-for-the-task-and-with-children-on-one-for-every-descendant', 'C20/lines-that-were-there-are-untouched', 'C20/every-new-line-is-a-new-row-with-one-cell-per-field', 'C20/table-stays-well-formed']


def c_subtree(rec):
    def c(eng, st, recv, args, kws, node):
        """_Repr.__print_task_subtree(task, fields, level, table, children, theme) at a call site"""
        task, fields, level, tab, children = args[0].e, args[1].e, args[2].e, args[3].e, eng.truth(st, args[4])
        h = H(eng, st); t0 = TH(eng, st)
        st.oblige('req@__print_task_subtree/task-exists-level-not-negative', And(task != null, level >= 0), f'@{node.lineno}')
        st.oblige('req@__print_task_subtree/forest', forest_struct(h, task), f'@{node.lineno}'); st.assume(WFH(h.par, h.chl, h.elems))
        st.oblige('req@__print_task_subtree/table-well-formed', table_ok(t0, tab), f'@{node.lineno}')
        if rec:
            st.oblige('dec/C14/height-decreases-at-the-recursive-call', And(hgt(h.par, task) < hgt(h.par, st.env['task'].e), hgt(h.par, task) >= 0), f'@{node.lineno}')
        for k in TKEYS: eng.havoc(st, k)
        for g in subtree_post(h, t0, TH(eng, st), tab, task, children, LF.len(fields)).values(): st.assume(g)
        return [(st, V(None, NONE))]
    return c


def c_field_value(eng, st, recv, args, kws, node):          # _Repr.__get_field_value(task, field): a text (assumed total; its meaning is the bounded stand-in's)
    st.oblige('req@__get_field_value/task-exists', args[0].e != null, f'@{node.lineno}')
    return [(st, opaque())]


def subtree_unit():
    def build():
        hc = lambda c: H(c.eng, c.st); th = lambda c: TH(c.eng, c.st); t0 = lambda c: TH(c.eng, c.pre)
        tab = lambda c: c['table']; nf = lambda c: LF.len(c['fields']); n0 = lambda c: LR_.len(t0(c).rows[tab(c)])
        kids = lambda c: hc(c).ch(c['task'])

        def own(c, ncells, extra):          # the task's own line has been started; `extra` complete lines (of descendants) follow it
            t1 = th(c); R1 = t1.rows[tab(c)]; r_ = Const('r_', ROW.z)
            return {'frame': And(same_heap(c), LR_.len(R1) == n0(c) + 1 + extra, extra >= 0),
                    'table-well-formed': table_ok(t1, tab(c)),
                    'lines-that-were-there-are-untouched': And(ForAll([k_], Implies(And(0 <= k_, k_ < n0(c)), LR_.at(R1, k_) == LR_.at(t0(c).rows[tab(c)], k_)), patterns=[LR_.at(R1, k_)]),
                                                               ForAll([r_], Implies(t0(c).ralive[r_], And(t1.cells[r_] == t0(c).cells[r_], t1.ralive[r_])), patterns=[t1.cells[r_]])),
                    'own-line-is-new': And(Not(t0(c).ralive[LR_.at(R1, n0(c))]), LC_.len(t1.cells[LR_.at(R1, n0(c))]) == ncells),
                    'lines-of-descendants-are-new-and-complete': ForAll([k_], Implies(And(n0(c) < k_, k_ < n0(c) + 1 + extra), And(Not(t0(c).ralive[LR_.at(R1, k_)]), LC_.len(t1.cells[LR_.at(R1, k_)]) == nf(c))), patterns=[LR_.at(R1, k_)])}
        OL = ['frame', 'table-well-formed', 'lines-that-were-there-are-untouched', 'own-line-is-new', 'lines-of-descendants-are-new-and-complete']
        own1 = lambda c: own(c, c['_i1'], IntVal(0)); own2 = lambda c: own(c, nf(c), ln(flat(hc(c).chl, hc(c).elems, kids(c), c['_i2'])))
        fc = {'sig': {'task': T, 'fields': LF, 'level': INT, 'table': TAB, 'children': BOOL, 'theme': THEME},
              'locals': {'values': LF, 'f': OANY, 'v': OANY, 'color': OANY, 'colors': LF, 'ch': T},
              'globals': {'GREY': V(OANY.dt.some(Const('colour_GREY', ANYV.z)), OANY)},
              'requires': [('task-exists-level-not-negative', lambda c: And(c['task'] != null, c['level'] >= 0, c['theme'] != THEME.null, nf(c) >= 0)),
                           ('forest', lambda c: And(forest_struct(hc(c), c['task']), WFH(hc(c).par, hc(c).chl, hc(c).elems))), ('table-well-formed', lambda c: table_ok(th(c), tab(c)))],
              'loops': {0: {'fingerprint': 'for f in fields', 'havoc': ['values'], 'invariant': [('one-value-per-field-so-far', lambda c: And(c['_i0'] >= 0, c['_i0'] <= nf(c), LF.len(c['values']) == c['_i0'], same_heap(c)))]},
                        1: {'fingerprint': 'for v in values', 'havoc_heap': TKEYS,
                            'invariant': [('own-line/' + l, (lambda l: lambda c: own1(c)[l])(l)) for l in OL] +
                                         [('own-line/cells-so-far', lambda c: And(c['_i1'] >= 0, c['_i1'] <= nf(c), LF.len(c['values']) == nf(c), th(c).cur[tab(c)] == LR_.at(th(c).rows[tab(c)], n0(c))))]},
                        2: {'fingerprint': 'for ch in task.children', 'havoc_heap': TKEYS,
                            'invariant': [('children/' + l, (lambda l: lambda c: own2(c)[l])(l)) for l in OL] +
                                         [('children/index', lambda c: And(c['_i2'] >= 0, c['_i2'] <= ln(kids(c)), c['children']))]}},
              'ensures': [(l, (lambda l: lambda c: subtree_post(hc(c), t0(c), th(c), tab(c), c['task'], c['children'], nf(c))[l])(l)) for l in SP] + [('C20/reads-the-task-graph-only', same_heap)]}
        contracts = {'fn:_Repr.__get_field_value': c_field_value, 'fn:_Repr.__print_task_subtree': c_subtree(True), 'TextTable.new_row': c_new_row, 'TextTable.new_cell': c_new_cell, 'prop:Task.children': c_children}
        return Engine(F, '_Repr.__print_task_subtree', contracts, CLASSES, fc, plugins=[SheetPlugin(), TablePlugin(), ChildrenPlugin()]), LIST_AX + LIST_CAT_AX + GRAPH_AX + DFS_AX + MEASURE_AX + TAB_AX + SHEET_AX
    return Unit('_Repr.__print_task_subtree', F, build, ['C20'], timeout_ms=15000)


def repr_unit():
    def build():
        hc = lambda c: H(c.eng, c.st); th = lambda c: TH(c.eng, c.st)
        tab = lambda c: c['table']; nf = lambda c: LF.len(c['fields']); TS = lambda c: c['tasks']
        lines = lambda c, i: shown(hc(c).chl, hc(c).elems, TS(c), c['children'], i)

        def built(c, ncells_header, i):
            t1 = th(c); R1 = t1.rows[tab(c)]
            return And(same_heap(c), table_ok(t1, tab(c)), LR_.len(R1) == 1 + lines(c, i), LC_.len(t1.cells[LR_.at(R1, 0)]) == ncells_header,
                       ForAll([k_], Implies(And(1 <= k_, k_ < 1 + lines(c, i)), LC_.len(t1.cells[LR_.at(R1, k_)]) == nf(c)), patterns=[LR_.at(R1, k_)]))

        def c_text_repr(eng, st, recv, args, kws, node):
            st.ghost['final_rows'] = TH(eng, st).rows[recv.e]; st.ghost['final_cells'] = TH(eng, st).cells; st.ghost['final_nfields'] = LF.len(st.env['fields'].e)
            return [(st, opaque())]
        fc = {'sig': {'tasks': LT, 'fields': LF, 'children': BOOL, 'theme': THEME}, 'locals': {'table': TAB, 's': OANY, '_task': T, 'header_color': OANY},
              'ghost': {'final_rows': LR_, 'final_cells': S('CellsOfRows', ArraySort(ROW.z, LC_.z)), 'final_nfields': INT},
              'globals': {'GREY': V(OANY.dt.some(Const('colour_GREY', ANYV.z)), OANY)},
              'requires': [('field-names-are-texts', lambda c: ForAll([k_], Implies(And(0 <= k_, k_ < nf(c)), OANY.dt.is_some(LF.at(c['fields'], k_))), patterns=[LF.at(c['fields'], k_)])),
                           ('tasks-exist', lambda c: ForAll([k_], Implies(And(0 <= k_, k_ < ln(TS(c))), at(TS(c), k_) != null), patterns=[at(TS(c), k_)])),
                           ('forest', lambda c: And(ForAll([k_], Implies(And(0 <= k_, k_ < ln(TS(c))), forest_struct(hc(c), at(TS(c), k_))), patterns=[at(TS(c), k_)]), WFH(hc(c).par, hc(c).chl, hc(c).elems)))],
              'loops': {0: {'fingerprint': 'for s in fields', 'havoc_heap': TKEYS,
                            'invariant': [('header-under-construction', lambda c: And(built(c, c['_i0'], 0), c['_i0'] >= 0, c['_i0'] <= nf(c), th(c).cur[tab(c)] == LR_.at(th(c).rows[tab(c)], 0)))]},
                        1: {'fingerprint': 'for _task in tasks', 'havoc_heap': TKEYS,
                            'invariant': [('lines-of-the-tasks-passed-so-far', lambda c: And(built(c, nf(c), c['_i1']), c['_i1'] >= 0, c['_i1'] <= ln(TS(c))))]}},
              'ensures': [('C20/one-header-line-plus-one-line-per-task-shown', lambda c: LR_.len(c.st.ghost['final_rows']) == 1 + shown(hc(c).chl, hc(c).elems, TS(c), c['children'], ln(TS(c)))),
                          ('C20/every-line-has-one-cell-per-field', lambda c: ForAll([k_], Implies(And(0 <= k_, k_ < LR_.len(c.st.ghost['final_rows'])), LC_.len(c.st.ghost['final_cells'][LR_.at(c.st.ghost['final_rows'], k_)]) == c.st.ghost['final_nfields']))),
                          ('C20/reads-the-task-graph-only', same_heap)]}
        contracts = {'fn:_Repr.__print_task_subtree': c_subtree(False), 'TextTable.new_row': c_new_row, 'TextTable.new_cell': c_new_cell, 'TextTable.text_repr': c_text_repr}
        return Engine(F, '_Repr.repr', contracts, CLASSES, fc, plugins=[SheetPlugin(), TablePlugin(), ChildrenPlugin()]), LIST_AX + GRAPH_AX + DFS_AX + TAB_AX + SHEET_AX + SHOWN_AX
    return Unit('_Repr.repr', F, build, ['C20'], timeout_ms=15000)


UNITS = [subtree_unit(), repr_unit()]
