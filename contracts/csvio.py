"""Sidecar contracts for pjplan/io/csv_io.py and pjplan/io/raw.py (C13): the cell parsers are proved against their specification,
and for every default column the *writer's cell expression* (taken from the real AST of write_csv) composed with the parser's
specification is proved to give back an equivalent value (None ~ '' for text) - field-level inverse pairs, for all strings / values.

Library contracts assumed (L, trusted; cross-checked natively by the bounded stand-in): csv.reader(csv.writer(rows)) = rows for rows of
arbitrary strings; the csv writer renders None as '', str as itself, other values by str(); float(str(x)) = x; int(str(i)) = i;
strptime(strftime(d, fmt), fmt) = d for day-precision dates in 1969-2068 (finite domain, enumerated completely in the thorough tier).
"""
import ast
from z3 import *
from pyvc.core import *
from pyvc.unit import Unit

F = 'pjplan/io/csv_io.py'
OS = OPT(STR); OR_ = OPT(REAL); OI = OPT(INT); OT = OPT(TIME)
RAW = REF('TaskRaw')
str_of_real = Function('str_of_real', RealSort(), StringSort()); real_of_str = Function('float', StringSort(), RealSort())
str_of_int = Function('str_of_int', IntSort(), StringSort()); int_of_str = Function('int', StringSort(), IntSort())
strftime = Function('strftime', RealSort(), StringSort()); strptime = Function('strptime', StringSort(), RealSort())
_r = Real('_r'); _i = Int('_i'); _t = Real('_t')
LIB_AX = [ForAll([_r], And(real_of_str(str_of_real(_r)) == _r, Length(str_of_real(_r)) > 0), patterns=[str_of_real(_r)]),
          ForAll([_i], And(int_of_str(str_of_int(_i)) == _i, Length(str_of_int(_i)) > 0), patterns=[str_of_int(_i)]),
          ForAll([_t], And(strptime(strftime(_t)) == _t, Length(strftime(_t)) > 0), patterns=[strftime(_t)])]


class CsvPlugin:
    def call(self, eng, e, st):
        f = e.func
        if isinstance(f, ast.Name) and f.id in ('float', 'int') and len(e.args) == 1:
            s, v = eng.ev1(e.args[0], st)
            if v.s != STR: return NotImplemented
            return [(s, V(real_of_str(v.e), REAL) if f.id == 'float' else V(int_of_str(v.e), INT))]
        if isinstance(f, ast.Attribute) and f.attr == 'strptime':
            s, v = eng.ev1(e.args[0], st)
            return [(s, V(strptime(v.e), TIME))]
        if isinstance(f, ast.Attribute) and f.attr == 'strftime':
            s, v = eng.ev1(f.value, st)
            d = eng.as_sort(s, v, TIME, 'safe/AttributeError-None', f'.strftime @{e.lineno}')
            return [(s, V(strftime(d), STR))]
        return NotImplemented

    def ev_Name(self, eng, e, st):
        if e.id == '__DATE_FORMAT': return [(st, V(StringVal('%d.%m.%y'), STR))]
        return NotImplemented


def parser_units():
    def mk(name, sig_sort, spec, props=('C13',)):
        def build():
            fc = {'sig': {'_val' if name != '__parse_date' else '_date': STR}, 'ensures': [(f'C13/{name[2:]}-meaning', spec)]}
            return Engine(F, name, {}, {}, fc, plugins=[CsvPlugin()]), LIB_AX
        return Unit(name, F, build, list(props))

    def opt(c, srt):
        r = c.result
        if r.s == NONE: return srt.dt.none
        return c.eng.coerce(r, srt)
    return [
        mk('__parse_str', STR, lambda c: opt(c, OS) == If(c['_val'] == StringVal(''), OS.dt.none, OS.dt.some(c['_val']))),
        mk('__parse_bool', STR, lambda c: c.result.e == (c['_val'] == StringVal('True'))),
        mk('__parse_float', STR, lambda c: opt(c, OR_) == If(Length(c['_val']) == 0, OR_.dt.none, OR_.dt.some(real_of_str(c['_val'])))),
        mk('__parse_int', STR, lambda c: opt(c, OI) == If(Length(c['_val']) == 0, OI.dt.none, OI.dt.some(int_of_str(c['_val'])))),
        mk('__parse_date', STR, lambda c: opt(c, OT) == If(Length(c['_date']) == 0, OT.dt.none, OT.dt.some(strptime(c['_date'])))),
    ]


# ------------------------------------------------------------------------------------------------ writer cell o parser = identity (up to ~)
RAW_CLASSES = {'TaskRaw': {'id': INT, 'name': OS, 'resource': OS, 'start': OT, 'end': OT, 'estimate': OR_, 'spent': OR_, 'milestone': BOOL, 'parent_id': OI}}
DEFAULT_FIELDS = ['id', 'name', 'resource', 'start', 'end', 'estimate', 'spent', 'milestone', 'parent_id', 'predecessor_ids']


class CellLemmas:
    """pseudo-engine: evaluates the cell expressions of the row written by write_csv (real AST) and composes them with the parsers' specs"""

    def __init__(self):
        self.src = Source.get(F)
        fn, _ = self.src.find('write_csv')
        rows = [n for n in ast.walk(fn) if isinstance(n, ast.Call) and isinstance(n.func, ast.Attribute) and n.func.attr == 'writerow']
        if len(rows) != 2: raise Unsupported('write_csv: expected the header row and the task row')
        arg = rows[1].args[0]
        if not (isinstance(arg, ast.BinOp) and isinstance(arg.left, ast.List) and len(arg.left.elts) == len(DEFAULT_FIELDS)):
            raise Unsupported('write_csv: task row is not `[10 default cells] + [custom cells]`')
        self.cells = arg.left.elts
        hdr = rows[0].args[0]
        if 'DEFAULT_FIELDS' not in ast.unparse(hdr): raise Unsupported('write_csv: header row does not start with the default fields')
        self.eng = Engine(F, 'write_csv', {}, RAW_CLASSES, {'sig': {}, 'expressions_only': True}, plugins=[CsvPlugin()])

    def cell_text(self, st, v):
        """the csv writer's rendering of a cell value (library contract L): None -> '', str -> itself, bool/number -> str(value)"""
        if v.s == NONE: return StringVal('')
        if v.s == STR: return v.e
        if v.s == OS: return If(OS.dt.is_some(v.e), OS.dt.val(v.e), StringVal(''))
        if v.s == BOOL: return If(v.e, StringVal('True'), StringVal('False'))
        if v.s == INT: return str_of_int(v.e)
        if v.s == OI: return If(OI.dt.is_some(v.e), str_of_int(OI.dt.val(v.e)), StringVal(''))
        if v.s == REAL: return str_of_real(v.e)
        if v.s == OR_: return If(OR_.dt.is_some(v.e), str_of_real(OR_.dt.val(v.e)), StringVal(''))
        raise Unsupported(f'cell of sort {v.s}')

    def run(self):
        obs = []
        task = Const('task', RAW.z)
        specs = {   # parser specification (proved for the real parser bodies by parser_units) applied to the cell text; want: equivalent to the field
            'id': lambda h, txt: int_of_str(txt) == h('id'),
            'name': lambda h, txt: If(txt == StringVal(''), Or(OS.dt.is_none(h('name')), OS.dt.val(h('name')) == StringVal('')), And(OS.dt.is_some(h('name')), OS.dt.val(h('name')) == txt)),
            'resource': lambda h, txt: If(txt == StringVal(''), Or(OS.dt.is_none(h('resource')), OS.dt.val(h('resource')) == StringVal('')), And(OS.dt.is_some(h('resource')), OS.dt.val(h('resource')) == txt)),
            'start': lambda h, txt: If(Length(txt) == 0, OT.dt.is_none(h('start')), And(OT.dt.is_some(h('start')), strptime(txt) == OT.dt.val(h('start')))),
            'end': lambda h, txt: If(Length(txt) == 0, OT.dt.is_none(h('end')), And(OT.dt.is_some(h('end')), strptime(txt) == OT.dt.val(h('end')))),
            'estimate': lambda h, txt: If(Length(txt) == 0, OR_.dt.is_none(h('estimate')), And(OR_.dt.is_some(h('estimate')), real_of_str(txt) == OR_.dt.val(h('estimate')))),
            'spent': lambda h, txt: If(Length(txt) == 0, OR_.dt.is_none(h('spent')), And(OR_.dt.is_some(h('spent')), real_of_str(txt) == OR_.dt.val(h('spent')))),
            'milestone': lambda h, txt: (txt == StringVal('True')) == h('milestone'),
            'parent_id': lambda h, txt: If(Length(txt) == 0, OI.dt.is_none(h('parent_id')), And(OI.dt.is_some(h('parent_id')), int_of_str(txt) == OI.dt.val(h('parent_id')))),
        }
        for k, fld in enumerate(DEFAULT_FIELDS):
            if fld not in specs: continue
            st = St(); st.env['task'] = V(task, RAW); st.assume(task != RAW.null)
            for s, v in self.eng.ev(self.cells[k], st):
                if isinstance(v, Raise):
                    s.oblige(f'lemma/C13/cell-{fld}-never-raises', BoolVal(False)); continue
                h = lambda f: Select(self.eng.field(s, 'TaskRaw', f), task)
                txt = self.cell_text(s, v)
                s.oblige(f'lemma/C13/{fld}-read-back-from-its-written-cell-is-equivalent', specs[fld](h, txt), f'cell #{k}: {ast.unparse(self.cells[k])[:60]}')
            obs += st.obs
        return obs


def cell_unit():
    def build():
        e = CellLemmas()
        return e, LIB_AX
    return Unit('write_csv.cells', F, build, ['C13'])


UNITS = parser_units() + [cell_unit()]


# ------------------------------------------------------------------------------------------------ raw.py: Task -> TaskRaw field by field
FR = 'pjplan/io/raw.py'
TASK = REF('Task')
RAWSRC_CLASSES = {'Task': {'name': OS, 'resource': OS, 'start': OT, 'end': OT, 'milestone': BOOL}}
t_id = Function('task_id', TASK.z, IntSort()); t_est = Function('task_estimate', TASK.z, OR_.z); t_spent = Function('task_spent', TASK.z, OR_.z); t_par = Function('task_parent', TASK.z, TASK.z)


class RawLemmas:
    """evaluates the keyword arguments of the TaskRaw(...) call in tasks_to_raws (real AST): every field of the raw row is the task's
    field; parent_id is the parent's id whenever the task reports a parent (ids 0 and negative included), None for a root task"""

    def __init__(self):
        self.src = Source.get(FR)
        fn, _ = self.src.find('tasks_to_raws')
        calls = [n for n in ast.walk(fn) if isinstance(n, ast.Call) and isinstance(n.func, ast.Name) and n.func.id == 'TaskRaw']
        if len(calls) != 1: raise Unsupported('tasks_to_raws: expected one TaskRaw(...) call')
        self.kw = {k.arg: k.value for k in calls[0].keywords}
        contracts = {'prop:Task.id': lambda eng, st, recv, a, k, n: [(st, V(t_id(recv.e), INT))],
                     'prop:Task.estimate': lambda eng, st, recv, a, k, n: [(st, V(t_est(recv.e), OR_))],
                     'prop:Task.spent': lambda eng, st, recv, a, k, n: [(st, V(t_spent(recv.e), OR_))],
                     'prop:Task.parent': lambda eng, st, recv, a, k, n: [(st, V(t_par(recv.e), TASK))]}
        self.eng = Engine(FR, 'tasks_to_raws', contracts, RAWSRC_CLASSES, {'sig': {}, 'expressions_only': True})

    def run(self):
        t = Const('t', TASK.z); obs = []
        want = {'id': lambda h: ('int', t_id(t)), 'name': lambda h: ('os', h('name')), 'resource': lambda h: ('os', h('resource')), 'start': lambda h: ('ot', h('start')), 'end': lambda h: ('ot', h('end')),
                'estimate': lambda h: ('or', t_est(t)), 'spent': lambda h: ('or', t_spent(t)), 'milestone': lambda h: ('bool', h('milestone')),
                'parent_id': lambda h: ('oi', If(t_par(t) != TASK.null, OI.dt.some(t_id(t_par(t))), OI.dt.none))}
        srt = {'int': INT, 'os': OS, 'ot': OT, 'or': OR_, 'bool': BOOL, 'oi': OI}
        for fld, w in want.items():
            if fld not in self.kw:
                st = St(); st.oblige(f'lemma/C13/raw-{fld}-is-passed', BoolVal(False), 'keyword missing'); obs += st.obs; continue
            st = St(); st.env['t'] = V(t, TASK); st.assume(t != TASK.null)
            for s, v in self.eng.ev(self.kw[fld], st):
                if isinstance(v, Raise):
                    s.oblige(f'lemma/C13/raw-{fld}-never-raises', BoolVal(False)); continue
                h = lambda f: Select(self.eng.field(s, 'Task', f), t)
                kind, expect = w(h)
                got = srt[kind].dt.none if v.s == NONE else self.eng.coerce(v, srt[kind])
                s.oblige(f'lemma/C13/raw-{fld}-is-the-task-value', got == expect, ast.unparse(self.kw[fld])[:70])
            obs += st.obs
        return obs


def raw_unit():
    return Unit('tasks_to_raws.fields', FR, lambda: (RawLemmas(), []), ['C13'])


UNITS.append(raw_unit())
