"""Theory for the task-graph contracts (task.py / wbs.py): abstract list theory for the built-in list (trusted base T1), list
*objects* on the heap (PyList.elems), reachability in the hierarchy (Desc / Acyc with the Lean-proved lemma axioms D1-D5 of
lemmas/Graph.lean) and in the dependency relation (TCp / AcycP with G1).
"""
import ast
from z3 import *
from pyvc.core import *

T = REF('Task'); W = REF('WBS'); LR = REF('PyList'); FAC = REF('ChildrenFacade')
LT = LIST(T)
null = T.null
mem = Function('mem', LT.z, T.z, BoolSort()); idx = Function('idx', LT.z, T.z, IntSort()); nodup = Function('nodup', LT.z, BoolSort())
rem = Function('rem', LT.z, T.z, LT.z); app = Function('app', LT.z, T.z, LT.z); empty = Const('empty_LT', LT.z)
ln, at = LT.len, LT.at
l = Const('l', LT.z); x, y, a, b, c, s_, p_ = Consts('x y a b c s p', T.z); i = Int('i')
# assumed contract of the built-in list (append / remove / in / index), validated against CPython lists in selftest/axioms_vs_cpython.py
LIST_AX = [
    ForAll([l], ln(l) >= 0),
    ln(empty) == 0, ForAll([x], Not(mem(empty, x)), patterns=[mem(empty, x)]), nodup(empty),
    ForAll([l, i], Implies(And(0 <= i, i < ln(l)), mem(l, at(l, i))), patterns=[at(l, i)]),
    ForAll([l, x], Implies(mem(l, x), And(0 <= idx(l, x), idx(l, x) < ln(l), at(l, idx(l, x)) == x)), patterns=[mem(l, x)]),
    ForAll([l, i], Implies(And(nodup(l), 0 <= i, i < ln(l)), idx(l, at(l, i)) == i), patterns=[MultiPattern(nodup(l), at(l, i))]),
    ForAll([l, i], Implies(And(0 <= i, i < ln(l)), idx(l, at(l, i)) <= i), patterns=[at(l, i)]),                                              # list.index finds the FIRST occurrence
    ForAll([l, x, y], Implies(nodup(l), mem(rem(l, x), y) == And(mem(l, y), y != x)), patterns=[mem(rem(l, x), y)]),
    ForAll([l, x], Implies(And(nodup(l), mem(l, x)), And(nodup(rem(l, x)), ln(rem(l, x)) == ln(l) - 1)), patterns=[rem(l, x)]),
    ForAll([l, x, y], Implies(And(nodup(l), mem(l, x), mem(l, y), y != x), idx(rem(l, x), y) == If(idx(l, y) > idx(l, x), idx(l, y) - 1, idx(l, y))), patterns=[idx(rem(l, x), y)]),
    ForAll([l, x, y], mem(app(l, x), y) == Or(mem(l, y), y == x), patterns=[mem(app(l, x), y)]),
    ForAll([l, x], And(ln(app(l, x)) == ln(l) + 1, Implies(And(nodup(l), Not(mem(l, x))), nodup(app(l, x)))), patterns=[app(l, x)]),
    ForAll([l, x, y], Implies(mem(l, y), idx(app(l, x), y) == idx(l, y)), patterns=[idx(app(l, x), y)]),
    ForAll([l, x], Implies(Not(mem(l, x)), idx(app(l, x), x) == ln(l)), patterns=[app(l, x)]),
    ForAll([l, x, i], Implies(And(0 <= i, i < ln(l)), at(app(l, x), i) == at(l, i)), patterns=[at(app(l, x), i)]),
    ForAll([l, x], at(app(l, x), ln(l)) == x, patterns=[app(l, x)]),
    ForAll([l, x], Implies(And(nodup(l), Not(mem(l, x))), rem(app(l, x), x) == l), patterns=[rem(app(l, x), x)]),
]
# "the list objects of different tasks are different objects", stated so that the solver needs one instance per task instead of one per pair of tasks:
# inj(a): the task -> list-object map a is injective on the non-null tasks; disj(a, b): no list object of a non-null task in a is one in b.
# Both are DEFINED predicates (axioms = the two directions of the definition, the <= direction skolemised); owner_ / side_ are the witnesses of the => direction
# (owner_(a, .) a left inverse of a, side_(a, b, .) a function that tells the two ranges apart) - they exist exactly when the predicate holds.
OBJMAP = ArraySort(T.z, LR.z)
inj = Function('inj', OBJMAP, BoolSort()); disj = Function('disj', OBJMAP, OBJMAP, BoolSort())
owner_ = Function('owner_of_list', OBJMAP, LR.z, T.z); side_ = Function('side_of_list', OBJMAP, OBJMAP, LR.z, IntSort())
isk1 = Function('inj_sk1', OBJMAP, T.z); isk2 = Function('inj_sk2', OBJMAP, T.z); dsk1 = Function('disj_sk1', OBJMAP, OBJMAP, T.z); dsk2 = Function('disj_sk2', OBJMAP, OBJMAP, T.z)
om, om2 = Consts('om om2', OBJMAP)
INJ_AX = [
    ForAll([om, x], Implies(And(inj(om), x != null), owner_(om, om[x]) == x), patterns=[MultiPattern(inj(om), om[x])]),
    ForAll([om], Implies(Implies(And(isk1(om) != null, isk2(om) != null, isk1(om) != isk2(om)), om[isk1(om)] != om[isk2(om)]), inj(om)), patterns=[inj(om)]),
    ForAll([om, om2, x], Implies(And(disj(om, om2), x != null), And(side_(om, om2, om[x]) == 0, side_(om, om2, om2[x]) == 1)), patterns=[MultiPattern(disj(om, om2), om[x]), MultiPattern(disj(om, om2), om2[x])]),
    ForAll([om, om2], Implies(Implies(And(dsk1(om, om2) != null, dsk2(om, om2) != null), om[dsk1(om, om2)] != om2[dsk2(om, om2)]), disj(om, om2)), patterns=[disj(om, om2)]),
]
LIST_AX_CORE = LIST_AX; LIST_AX = LIST_AX_CORE + INJ_AX
# list.insert(i, x) for 0 <= i <= len (the only way the repository calls it after its own index() look-ups)
ins = Function('ins', LT.z, IntSort(), T.z, LT.z)
LIST_INS_AX = [
    ForAll([l, i, x], Implies(And(0 <= i, i <= ln(l)), ln(ins(l, i, x)) == ln(l) + 1), patterns=[ins(l, i, x)]),
    ForAll([l, i, x, y], Implies(And(0 <= i, i <= ln(l)), mem(ins(l, i, x), y) == Or(mem(l, y), y == x)), patterns=[mem(ins(l, i, x), y)]),
    ForAll([l, i, x], Implies(And(0 <= i, i <= ln(l), nodup(l), Not(mem(l, x))), And(nodup(ins(l, i, x)), idx(ins(l, i, x), x) == i)), patterns=[ins(l, i, x)]),
    ForAll([l, i, x, y], Implies(And(0 <= i, i <= ln(l), mem(l, y), y != x, nodup(l), Not(mem(l, x))), idx(ins(l, i, x), y) == If(idx(l, y) >= i, idx(l, y) + 1, idx(l, y))), patterns=[idx(ins(l, i, x), y)]),
]
# prefix of a list: take(l, n) = l[:n] for 0 <= n <= len(l)
take = Function('take', LT.z, IntSort(), LT.z)
LIST_TAKE_AX = [
    ForAll([l], take(l, 0) == empty, patterns=[take(l, 0)]),
    ForAll([l, i], Implies(And(0 <= i, i < ln(l)), take(l, i + 1) == app(take(l, i), at(l, i))), patterns=[take(l, i + 1)]),
    ForAll([l], take(l, ln(l)) == l, patterns=[take(l, ln(l))]),
    ForAll([l, i], Implies(And(0 <= i, i <= ln(l)), ln(take(l, i)) == i), patterns=[take(l, i)]),
    ForAll([l, i, x], Implies(And(0 <= i, i <= ln(l), nodup(l)), mem(take(l, i), x) == And(mem(l, x), idx(l, x) < i)), patterns=[mem(take(l, i), x)]),
    ForAll([l, i], Implies(And(0 <= i, i <= ln(l), nodup(l)), nodup(take(l, i))), patterns=[take(l, i)]),
]
# the list that results from appending the first n elements of l one after the other, an element that is already listed being MOVED to the end
# (what `for v in value: v.parent = p` builds): each element once, in the order of the last occurrences
dl = Function('each_once_last_occurrence_order', LT.z, IntSort(), LT.z)
LIST_DL_AX = [
    ForAll([l], dl(l, 0) == empty, patterns=[dl(l, 0)]),
    ForAll([l, i], Implies(And(0 <= i, i < ln(l)), dl(l, i + 1) == app(If(mem(dl(l, i), at(l, i)), rem(dl(l, i), at(l, i)), dl(l, i)), at(l, i))), patterns=[dl(l, i + 1)]),
    ForAll([l], Implies(nodup(l), dl(l, ln(l)) == l), patterns=[dl(l, ln(l))]),                                                       # no repetition: the list itself (lemma by induction; validated)
    ForAll([l, i], Implies(And(0 <= i, i <= ln(l)), nodup(dl(l, i))), patterns=[dl(l, i)]),
    ForAll([l, i, x], Implies(And(0 <= i, i <= ln(l)), mem(dl(l, i), x) == And(mem(l, x), idx(l, x) < i)), patterns=[mem(dl(l, i), x)]),
]
# list concatenation l1 + l2
cat = Function('cat', LT.z, LT.z, LT.z); l2_ = Const('l2_', LT.z)
LIST_CAT_AX = [
    ForAll([l, l2_], ln(cat(l, l2_)) == ln(l) + ln(l2_), patterns=[cat(l, l2_)]),
    ForAll([l, l2_, x], mem(cat(l, l2_), x) == Or(mem(l, x), mem(l2_, x)), patterns=[mem(cat(l, l2_), x)]),
    ForAll([l, l2_, i], Implies(And(0 <= i, i < ln(l)), at(cat(l, l2_), i) == at(l, i)), patterns=[at(cat(l, l2_), i)]),
    ForAll([l, l2_, i], Implies(And(ln(l) <= i, i < ln(l) + ln(l2_)), at(cat(l, l2_), i) == at(l2_, i - ln(l))), patterns=[at(cat(l, l2_), i)]),
    ForAll([l, l2_, x], Implies(mem(l, x), idx(cat(l, l2_), x) == idx(l, x)), patterns=[idx(cat(l, l2_), x)]),
    ForAll([l, l2_, x], Implies(And(Not(mem(l, x)), mem(l2_, x)), idx(cat(l, l2_), x) == ln(l) + idx(l2_, x)), patterns=[idx(cat(l, l2_), x)]),
    ForAll([l, l2_], Implies(And(nodup(l), nodup(l2_), ForAll([x], Not(And(mem(l, x), mem(l2_, x))))), nodup(cat(l, l2_))), patterns=[cat(l, l2_)]),
]
# hierarchy: parent map par : Task -> Task (null = no parent)
PAR = ArraySort(T.z, T.z)
Desc = Function('Desc', PAR, T.z, T.z, BoolSort())          # Desc(par, a, x): a is a strict ancestor of x
Acyc = Function('Acyc', PAR, BoolSort())
pm = Const('pm', PAR)


def insub(m, s, x):
    """x is s or a descendant of s"""
    return Or(x == s, Desc(m, s, x))


_cond = lambda m, s, p: And(Acyc(m), Not(insub(m, s, p)), p != null, s != null)
# transcriptions of lemmas/Graph.lean (D1 step, D2 trans, D3 unfold-up, Acyc def, D4s+D4c re-parenting closed form, D4acyc, D5 detach, G2)
GRAPH_AX = [
    ForAll([pm, x], Implies(pm[x] != null, Desc(pm, pm[x], x)), patterns=[pm[x]]),
    ForAll([pm, a, b, c], Implies(And(Desc(pm, a, b), Desc(pm, b, c)), Desc(pm, a, c)), patterns=[MultiPattern(Desc(pm, a, b), Desc(pm, b, c))]),
    ForAll([pm, a, x], Implies(Desc(pm, a, x), And(pm[x] != null, Or(pm[x] == a, Desc(pm, a, pm[x])))), patterns=[Desc(pm, a, x)]),
    ForAll([pm, x], Implies(Acyc(pm), Not(Desc(pm, x, x))), patterns=[Desc(pm, x, x)]),
    ForAll([pm, s_, p_, a, x], Implies(_cond(pm, s_, p_),
           Desc(Store(pm, s_, p_), a, x) == If(insub(pm, s_, x), Or(And(Desc(pm, a, x), insub(pm, s_, a)), a == p_, Desc(pm, a, p_)), Desc(pm, a, x))),
           patterns=[Desc(Store(pm, s_, p_), a, x)]),
    ForAll([pm, s_, p_], Implies(_cond(pm, s_, p_), Acyc(Store(pm, s_, p_))), patterns=[Acyc(Store(pm, s_, p_))]),
    ForAll([pm, s_, a, x], Implies(And(Acyc(pm), s_ != null), Desc(Store(pm, s_, null), a, x) == And(Desc(pm, a, x), Implies(insub(pm, s_, x), insub(pm, s_, a)))),
           patterns=[Desc(Store(pm, s_, null), a, x)]),
    ForAll([pm, s_], Implies(Acyc(pm), Acyc(Store(pm, s_, null))), patterns=[Acyc(Store(pm, s_, null))]),
]
# sets (given as lists) closed under children: closedL(par, L) <=> every non-null child of a member of L is a member of L (lemma CL1 of lemmas/Graph.lean)
closedL = Function('closedL', PAR, LT.z, BoolSort()); skc = Function('skc', PAR, LT.z, T.z)
L_ = Const('L_', LT.z)
CLOSED_AX = [
    ForAll([pm, L_, x], Implies(And(closedL(pm, L_), pm[x] != null, mem(L_, pm[x])), mem(L_, x)), patterns=[MultiPattern(closedL(pm, L_), mem(L_, pm[x]))]),          # definition, =>
    ForAll([pm, L_], Implies(Implies(And(pm[skc(pm, L_)] != null, mem(L_, pm[skc(pm, L_)])), mem(L_, skc(pm, L_))), closedL(pm, L_)), patterns=[closedL(pm, L_)]),        # definition, <= (skolemised)
    ForAll([pm, L_, a, x], Implies(And(closedL(pm, L_), mem(L_, a), Desc(pm, a, x)), mem(L_, x)), patterns=[MultiPattern(closedL(pm, L_), Desc(pm, a, x))]),             # CL1
]
# root of a task's tree (lemmas R1none/R1some/R2/root_sub/root_unique/R3a/R3b/R3det of lemmas/Graph.lean); meaningful for acyclic maps
rootof = Function('rootof', PAR, T.z, T.z)
r_ = Const('r_', T.z)
ROOT_AX = [
    ForAll([pm, x], Implies(And(Acyc(pm), x != null, pm[null] == null), And(insub(pm, rootof(pm, x), x), pm[rootof(pm, x)] == null, rootof(pm, x) != null)), patterns=[rootof(pm, x)]),          # root_sub
    ForAll([pm, r_, x], Implies(And(Acyc(pm), Desc(pm, r_, x), pm[r_] == null, r_ != null), rootof(pm, x) == r_), patterns=[MultiPattern(Desc(pm, r_, x), rootof(pm, x))]),               # root_unique
    ForAll([pm, x], Implies(And(Acyc(pm), x != null, pm[x] == null), rootof(pm, x) == x), patterns=[rootof(pm, x)]),                                                                   # R1none
    ForAll([pm, a, x], Implies(And(Acyc(pm), Desc(pm, a, x)), rootof(pm, x) == rootof(pm, a)), patterns=[MultiPattern(Desc(pm, a, x), rootof(pm, x))]),                                # R2
    ForAll([pm, x], Implies(And(Acyc(pm), x != null, pm[null] == null), rootof(pm, rootof(pm, x)) == rootof(pm, x)), patterns=[rootof(pm, rootof(pm, x))]),                             # root of a root (stops the R2 / root_sub chain)
    ForAll([pm, s_, p_, x], Implies(And(_cond(pm, s_, p_), x != null, pm[null] == null), rootof(Store(pm, s_, p_), x) == If(insub(pm, s_, x), rootof(pm, p_), rootof(pm, x))),
           patterns=[rootof(Store(pm, s_, p_), x)]),                                                                                                                                     # R3a, R3b
    ForAll([pm, s_, x], Implies(And(Acyc(pm), s_ != null, x != null, pm[null] == null), rootof(Store(pm, s_, null), x) == If(insub(pm, s_, x), s_, rootof(pm, x))),
           patterns=[rootof(Store(pm, s_, null), x)]),                                                                                                                                   # R3det
]
# "ids are unique within every tree" as a defined predicate (same device as inj above): uniq(par, ids) <=> no two different non-null tasks with the same tree root have the same id.
# who_(par, ids, root, id) is the witness of the => direction (the task of that tree with that id); usk1 / usk2 the skolems of the <= direction.
IDM = ArraySort(T.z, IntSort())
uniq = Function('uniq', PAR, IDM, BoolSort()); who_ = Function('task_with_id', PAR, IDM, T.z, IntSort(), T.z)
usk1 = Function('uniq_sk1', PAR, IDM, T.z); usk2 = Function('uniq_sk2', PAR, IDM, T.z)
idm = Const('idm', IDM)
UNIQ_AX = [
    ForAll([pm, idm, x], Implies(And(uniq(pm, idm), x != null), who_(pm, idm, rootof(pm, x), idm[x]) == x), patterns=[MultiPattern(uniq(pm, idm), rootof(pm, x))]),
    ForAll([pm, idm], Implies(Implies(And(usk1(pm, idm) != null, usk2(pm, idm) != null, usk1(pm, idm) != usk2(pm, idm), rootof(pm, usk1(pm, idm)) == rootof(pm, usk2(pm, idm))),
                                      idm[usk1(pm, idm)] != idm[usk2(pm, idm)]), uniq(pm, idm)), patterns=[uniq(pm, idm)]),
]
ROOT_AX_CORE = ROOT_AX; ROOT_AX = ROOT_AX_CORE + UNIQ_AX
# dependency relation as ghost E : Task -> (Task -> Bool)  (E[x][a]: a is a predecessor of x)
SET = ArraySort(T.z, BoolSort()); REL = ArraySort(T.z, SET)
TCp = Function('TCp', REL, T.z, T.z, BoolSort()); AcycP = Function('AcycP', REL, BoolSort()); wit = Function('wit', REL, T.z, SET, T.z)
hint_ = Function('hint', T.z, BoolSort())          # hint_(t) is true (axiom below); writing hint_(term) in a goal only puts `term` in front of the solver
lastp = Function('lastp', REL, T.z, T.z, T.z)          # a direct predecessor of x through which a reaches x (skolem of G4)
E_ = Const('E_', REL); V_ = Const('V_', SET)
DEP_AX = [   # G1 (Lean: PjGraph.G1) in skolemised form; TCp(E, a, x): a is a transitive predecessor of x
    ForAll([E_, s_, V_], Implies(And(AcycP(E_), Not(AcycP(Store(E_, s_, V_)))),
                                 And(V_[wit(E_, s_, V_)], Or(wit(E_, s_, V_) == s_, TCp(E_, s_, wit(E_, s_, V_))))), patterns=[AcycP(Store(E_, s_, V_))]),
    ForAll([E_, a, x], Implies(And(x != null, E_[x][a]), TCp(E_, a, x)), patterns=[E_[x][a]]),
    ForAll([E_, a, b, c], Implies(And(TCp(E_, a, b), TCp(E_, b, c)), TCp(E_, a, c)), patterns=[MultiPattern(TCp(E_, a, b), TCp(E_, b, c))]),       # transitivity (TransGen.trans)
    ForAll([E_, x], Implies(AcycP(E_), Not(TCp(E_, x, x))), patterns=[TCp(E_, x, x)]),                                                           # definition of Acyclic
    ForAll([E_, a, x], Implies(And(AcycP(E_), x != null, E_[x][a]), Not(TCp(E_, x, a))), patterns=[TCp(E_, x, a)]),                                # corollary of the three above (a direct link excludes the reverse path)
    ForAll([E_, a, x], Implies(TCp(E_, a, x), And(x != null, E_[x][lastp(E_, a, x)], Or(a == lastp(E_, a, x), TCp(E_, a, lastp(E_, a, x))))), patterns=[lastp(E_, a, x)]),   # G4: last step of a path (TransGen.tail), skolemised; fires only where a proof names the witness (hint_), else it would unfold paths for ever
    ForAll([x], hint_(x), patterns=[hint_(x)]),
]
# the successor relation is the transpose of the predecessor relation; a relation is acyclic iff its transpose is (Lean: PjGraph.transpose_acyclic).
# Skolemised: tsk / ask name a pair on which the two relations are NOT transposes of each other, if there is one.
tsk = Function('transp_sk1', REL, REL, T.z); ask = Function('transp_sk2', REL, REL, T.z); E2_ = Const('E2_', REL)
TRANSP_AX = [
    ForAll([E_, E2_], Implies(And(tsk(E_, E2_) != null, E2_[tsk(E_, E2_)][ask(E_, E2_)]) == And(ask(E_, E2_) != null, E_[ask(E_, E2_)][tsk(E_, E2_)]), AcycP(E_) == AcycP(E2_)),
           patterns=[MultiPattern(AcycP(E_), AcycP(E2_))]),
]

# termination measures: functions of the heap they are measured in.  Their existence for every acyclic finite graph is lemma K1 / wfE of
# lemmas/Graph.lean (rank = number of transitive predecessors); heaps are finite.  Stated per heap, so a mutator's two heaps cannot clash.
hgt = Function('height_in', PAR, T.z, IntSort()); dep = Function('depth_in', PAR, T.z, IntSort()); prk = Function('linkrank_in', REL, T.z, IntSort())
MEASURE_AX = [
    ForAll([pm, c], Implies(And(Acyc(pm), c != null, pm[c] != null), And(hgt(pm, c) < hgt(pm, pm[c]), dep(pm, pm[c]) < dep(pm, c))), patterns=[hgt(pm, c)], ),
    ForAll([pm, c], Implies(And(Acyc(pm), c != null, pm[c] != null), dep(pm, pm[c]) < dep(pm, c)), patterns=[dep(pm, c)]),
    ForAll([pm, c], And(hgt(pm, c) >= 0, dep(pm, c) >= 0), patterns=[hgt(pm, c)]), ForAll([pm, c], dep(pm, c) >= 0, patterns=[dep(pm, c)]),
    ForAll([E_, x, a], Implies(And(AcycP(E_), x != null, E_[x][a]), prk(E_, a) < prk(E_, x)), patterns=[MultiPattern(E_[x][a], prk(E_, a))]),
    ForAll([E_, x], prk(E_, x) >= 0, patterns=[prk(E_, x)]),
]

TASK_CLASSES = {'Task': {'_Task__parent': T, '_Task__children': LR, '_Task__wbs': W, '_Task__id': INT, '_Task__predecessors': LR, '_Task__successors': LR},
                'WBS': {'_WBS__root': T}, 'PyList': {'elems': LT},
                'ChildrenFacade': {'_ChildrenList__parent': T, '_list': LR}}


class ListPlugin:
    """list objects on the heap: `x in lst`, lst.append(x), lst.remove(x), lst.clear(), `[v for v in lst]` (copy = fresh list object),
    `for v in <list object>` (iterates the live object by index), id(x)"""

    def listval(self, eng, st, v, line):
        if v.s == LR:
            st.oblige('safe/AttributeError-None', v.e != LR.null, f'list @{line}')
            return Select(eng.field(st, 'PyList', 'elems'), v.e)
        if v.s == LT: return v.e
        raise Unsupported(f'not a list: {v.s}')

    def assign(self, eng, s, target, v):
        # obj.field = <list value> where the field holds a list object: the value (e.g. the result of sorted()) is a NEW list object
        if isinstance(target, ast.Attribute) and v.s == LT:
            s2, o = eng.ev1(target.value, s)
            if o.s.is_ref and eng.classes.get(o.s.cls, {}).get(eng.mangle(target.attr)) == LR:
                r = fresh('newlist', LR); s2.assume(r != LR.null)
                for fld in ('_Task__children', '_Task__predecessors', '_Task__successors'):
                    arr = eng.field(s2, 'Task', fld); tt = Const('tt_', T.z)
                    s2.assume(ForAll([tt], arr[tt] != r, patterns=[arr[tt]]))
                eng.write(s2, 'PyList.elems', Store(eng.field(s2, 'PyList', 'elems'), r, v.e))
                s2.oblige('safe/AttributeError-None', o.e != o.s.null, f'@{target.lineno}')
                key = o.s.cls + '.' + eng.mangle(target.attr)
                eng.write(s2, key, Store(eng.field(s2, o.s.cls, eng.mangle(target.attr)), o.e, r))
                return [(s2, FALL)]
        return NotImplemented

    def cmp(self, eng, st, k, l_, r, line):
        if k in ('In', 'NotIn') and r.s in (LR, LT):
            if l_.s == NONE: cnd = mem(self.listval(eng, st, r, line), null)
            elif l_.s == T: cnd = mem(self.listval(eng, st, r, line), l_.e)
            else: return NotImplemented
            return cnd if k == 'In' else Not(cnd)
        return NotImplemented

    def length(self, eng, s, v, node):
        return V(ln(self.listval(eng, s, v, node.lineno)), INT)

    def call(self, eng, e, st):
        f = e.func
        if isinstance(f, ast.Name) and f.id == 'len' and len(e.args) == 1:
            s, v = eng.ev1(e.args[0], st)
            if v.s == LR: return [(s, self.length(eng, s, v, e))]
            return NotImplemented
        if isinstance(f, ast.Name) and f.id == 'list' and len(e.args) == 1:
            s, v = eng.ev1(e.args[0], st)
            if v.s not in (LR, LT): return NotImplemented
            lv = self.listval(eng, s, v, e.lineno)
            r = fresh('newlist', LR); s.assume(r != LR.null)
            if v.s == LR: s.assume(r != v.e)                          # list(x) allocates a new list object with the same elements
            for fld in ('_Task__children', '_Task__predecessors', '_Task__successors'):
                arr = eng.field(s, 'Task', fld); tt = Const('tt_', T.z)
                s.assume(ForAll([tt], arr[tt] != r, patterns=[arr[tt]]))
            eng.write(s, 'PyList.elems', Store(eng.field(s, 'PyList', 'elems'), r, lv))
            return [(s, V(r, LR))]
        if isinstance(f, ast.Attribute) and f.attr in ('insert', 'index'):
            out = []
            for s, recv in eng.ev(f.value, st):
                if isinstance(recv, Raise): out.append((s, recv)); continue
                if recv.s != LR: return NotImplemented
                s.oblige('safe/AttributeError-None', recv.e != LR.null, f'list @{e.lineno}')
                cur = Select(eng.field(s, 'PyList', 'elems'), recv.e)
                if f.attr == 'index':
                    s, v = eng.ev1(e.args[0], s)
                    s.oblige('safe/ValueError-list.index', mem(cur, v.e), f'@{e.lineno}')
                    out.append((s, V(idx(cur, v.e), INT)))
                else:
                    s, iv_ = eng.ev1(e.args[0], s); s, v = eng.ev1(e.args[1], s)
                    s.oblige('req@list.insert/index-within-0-and-len', And(0 <= iv_.e, iv_.e <= ln(cur)), f'@{e.lineno}')     # outside this range Python clamps: not modelled
                    nl = fresh('lv', LT); s.assume(nl == ins(cur, iv_.e, eng.coerce(v, T)))
                    eng.write(s, 'PyList.elems', Store(eng.field(s, 'PyList', 'elems'), recv.e, nl))
                    out.append((s, V(None, NONE)))
            return out
        if isinstance(f, ast.Attribute) and f.attr in ('append', 'remove', 'clear'):
            out = []
            for s, recv in eng.ev(f.value, st):
                if isinstance(recv, Raise): out.append((s, recv)); continue
                if recv.s != LR: return NotImplemented
                s.oblige('safe/AttributeError-None', recv.e != LR.null, f'list @{e.lineno}')
                cur = Select(eng.field(s, 'PyList', 'elems'), recv.e)
                if f.attr == 'clear':
                    new = empty
                else:
                    s, v = eng.ev1(e.args[0], s)
                    if f.attr == 'remove':
                        if 'ValueError' in eng.fc.get('raises', {}):        # the function's contract declares the exception: fork instead of obliging
                            out.append((s.fork(Not(mem(cur, v.e))), Raise('ValueError'))); s = s.fork(mem(cur, v.e))
                        else:
                            s.oblige('safe/ValueError-list.remove', mem(cur, v.e), f'@{e.lineno}')
                        new = rem(cur, v.e)
                    else:
                        new = app(cur, eng.coerce(v, T))
                nl = fresh('lv', LT); s.assume(nl == new)
                eng.write(s, 'PyList.elems', Store(eng.field(s, 'PyList', 'elems'), recv.e, nl))
                out.append((s, V(None, NONE)))
            return out
        return NotImplemented
