"""Sidecar contracts for pjplan/task.py: hierarchy and dependency mutators (C01 C05 C11 C15 C16).

Shared invariant Inv (DESIGN.md section 8): F1 F2 F3 F4 (forest), O1 (list objects distinct), N, W1 (ownership follows the
hierarchy), WR (hidden roots), M1 M2 ND NN (dependency lists symmetric, acyclic, duplicate-free, non-null), X1 (no link
along the hierarchy).  Every mutator has Inv as pre-condition and as post-condition on BOTH exits; rejected calls leave the
heap unchanged (C15); accepted calls have exactly their effect (C16).
"""
import ast, itertools
from z3 import *
from pyvc.core import *
from contracts.graph_theory import *
from pyvc.unit import Unit

F = 'pjplan/task.py'
EMPTY = IntVal(2 ** 63 - 1)
t_, c_, u_, a_, b_ = Consts('t_ c_ u_ a_ b_', T.z); w_ = Const('w_', W.z)
# _has_id_intersection(parent, [child]) - assumed contract (B), opaque predicate of the pre-state; its meaning (taken from C05) is revealed where a proof needs it:
# some task of the incoming subtree that is not yet in the receiving tree has the id of a task of the receiving tree
_CLASH = Function('idclash', PAR, ArraySort(T.z, IntSort()), T.z, T.z, BoolSort())
clash_heap = {}


def clashfn(parent, child, h=None):
    h = h or clash_heap['h']
    return _CLASH(h.par, h.tid, parent, child)


def clash_reveal_neg(h, parent, child):
    """not clash => no task of the incoming subtree that is outside the receiving tree shares an id with a task of the receiving tree"""
    xa, ya = Consts('xa_ ya_', T.z)
    return Implies(Not(_CLASH(h.par, h.tid, parent, child)),
                   ForAll([xa, ya], Implies(And(insub(h.par, child, xa), rootof(h.par, xa) != rootof(h.par, parent), ya != null, rootof(h.par, ya) == rootof(h.par, parent)), h.tid[xa] != h.tid[ya]),
                          patterns=[MultiPattern(rootof(h.par, xa), rootof(h.par, ya))]))


class H:
    """view of one heap version"""

    def __init__(self, eng, st):
        g = lambda cl, f: eng.field(st, cl, f)
        self.par, self.chl, self.own, self.tid = g('Task', '_Task__parent'), g('Task', '_Task__children'), g('Task', '_Task__wbs'), g('Task', '_Task__id')
        self.pre, self.suc = g('Task', '_Task__predecessors'), g('Task', '_Task__successors')
        self.root, self.elems = g('WBS', '_WBS__root'), g('PyList', 'elems')

    def ch(self, t): return self.elems[self.chl[t]]
    def P(self, t): return self.elems[self.pre[t]]
    def S(self, t): return self.elems[self.suc[t]]


def Inv(h, hole=None, X=None, whole=None):
    """X: optional predicate over tasks - the tasks exempt from W1r (detached subtrees that still carry a WBS label, as they exist between the
    release loop and the attach loop of the children setter); None = nobody"""
    f2 = And(c_ != null, h.par[c_] != null) if hole is None else And(c_ != null, h.par[c_] != null, c_ != hole)
    wok = (w_ != W.null) if whole is None else And(w_ != W.null, w_ != whole)          # whole: a WBS object under construction (no hidden root yet)
    return {
        'C01/F1-listed-child-reports-that-parent': ForAll([t_, c_], Implies(And(t_ != null, mem(h.ch(t_), c_)), And(h.par[c_] == t_, c_ != null)), patterns=[mem(h.ch(t_), c_)]),
        'C01/F2-parent-lists-its-child': ForAll([c_], Implies(f2, mem(h.ch(h.par[c_]), c_)), patterns=[h.par[c_]]),
        'C01/F3-no-child-listed-twice': ForAll([t_], Implies(t_ != null, nodup(h.ch(t_))), patterns=[h.chl[t_]]),
        'C01/F4-no-task-is-its-own-ancestor': Acyc(h.par),
        'O1-list-objects-distinct': And(inj(h.chl), disj(h.chl, h.pre), disj(h.chl, h.suc),          # (see graph_theory.INJ_AX: different tasks, different list objects; children lists are no dependency lists)
                                        ForAll([t_], Implies(t_ != null, h.chl[t_] != LR.null), patterns=[h.chl[t_]])),
        'O2-link-list-objects-exist': ForAll([t_], Implies(t_ != null, And(h.pre[t_] != LR.null, h.suc[t_] != LR.null)), patterns=[h.pre[t_], h.suc[t_]]),
        'N-null-has-no-parent': h.par[null] == null,
        'C11/W1-owner-follows-the-hierarchy': ForAll([t_, c_], Implies(Desc(h.par, t_, c_), h.own[c_] == h.own[t_]), patterns=[Desc(h.par, t_, c_)]),
        'C11/W1r-owner-only-if-reachable-from-that-WBS-root': ForAll([c_], Implies(And(c_ != null, h.own[c_] != W.null, *([] if X is None else [Not(X(c_))])), insub(h.par, h.root[h.own[c_]], c_)), patterns=[h.own[c_]]),
        'C11/WR-hidden-roots': ForAll([w_], Implies(wok, And(h.root[w_] != null, h.own[h.root[w_]] == w_, h.par[h.root[w_]] == null, h.tid[h.root[w_]] == EMPTY)), patterns=[h.root[w_]]),
        'C01/X1-no-link-along-the-hierarchy': ForAll([a_, b_], Implies(And(b_ != null, mem(h.P(b_), a_)), And(Not(Desc(h.par, a_, b_)), Not(Desc(h.par, b_, a_)), a_ != b_)), patterns=[mem(h.P(b_), a_)]),
        'C05/U1-ids-unique-within-every-tree': uniq(h.par, h.tid),          # no two different tasks of one tree with the same id (graph_theory.UNIQ_AX)
        'C01/M1-links-symmetric': ForAll([a_, b_], Implies(And(a_ != null, b_ != null), mem(h.P(b_), a_) == mem(h.S(a_), b_)), patterns=[mem(h.P(b_), a_), mem(h.S(a_), b_)]),
        'NN-no-None-in-links': ForAll([t_, a_], Implies(And(t_ != null, Or(mem(h.P(t_), a_), mem(h.S(t_), a_))), a_ != null), patterns=[mem(h.P(t_), a_), mem(h.S(t_), a_)]),
        'DR-reserved-id-marks-hidden-roots-only': ForAll([c_], Implies(And(c_ != null, h.tid[c_] == EMPTY), And(h.own[c_] != W.null, h.root[h.own[c_]] == c_)), patterns=[h.tid[c_]]),
        'hidden-roots-have-no-links': ForAll([w_, a_], Implies(wok, And(Not(mem(h.P(h.root[w_]), a_)), Not(mem(h.S(h.root[w_]), a_)))), patterns=[mem(h.P(h.root[w_]), a_), mem(h.S(h.root[w_]), a_)]),
    }


INV_LABELS = list(Inv(type('X', (), {'par': Const('p0', PAR), 'chl': Const('c0', ArraySort(T.z, LR.z)), 'own': Const('o0', ArraySort(T.z, W.z)), 'tid': Const('i0', ArraySort(T.z, IntSort())),
                                      'pre': Const('pr0', ArraySort(T.z, LR.z)), 'suc': Const('su0', ArraySort(T.z, LR.z)), 'root': Const('r0', ArraySort(W.z, T.z)),
                                      'elems': Const('e0', ArraySort(LR.z, LT.z)),
                                      'ch': lambda self, t: self.elems[self.chl[t]], 'P': lambda self, t: self.elems[self.pre[t]], 'S': lambda self, t: self.elems[self.suc[t]]})()).keys())


# opaque predicate (opaque / reveal): "some task of the subtree of s is linked (either direction) with p or an ancestor of p"
# [_check_no_links_to_ancestors(s, p)]; its definition is revealed only where a proof needs it (the ok-branch of the check)
_LX = Function('links_cross', PAR, ArraySort(LR.z, LT.z), ArraySort(T.z, LR.z), ArraySort(T.z, LR.z), T.z, T.z, BoolSort())


def links_cross(h, s, p):
    return _LX(h.par, h.elems, h.pre, h.suc, s, p)


def links_cross_def(h, s, p):
    ta, an = Consts('ta_ an_', T.z)
    return Exists([ta, an], And(insub(h.par, s, ta), Or(an == p, Desc(h.par, an, p)), Or(mem(h.P(ta), an), mem(h.S(ta), an))))


def raise_cond(h, self_, parent, clash):
    """when Task.parent.setter may raise (taken from the properties: cross-WBS move C11, id clash C05, cycle C01-F4, link along the hierarchy C01-X1)"""
    pub = If(Or(h.par[self_] == null, h.tid[h.par[self_]] == EMPTY), null, h.par[self_])          # the parent the task reports
    return And(parent != null, Or(And(h.own[self_] != W.null, h.own[parent] != h.own[self_]), And(h.own[self_] == W.null, pub != parent, clash), insub(h.par, self_, parent),
                                  links_cross(h, self_, parent)))


def roots_after(h0, h1, self_, parent):
    """closed form of the tree roots after `self_.parent = parent` (lemmas R3a / R3b / R3det): the subtree of self_ joins the tree of its new parent (or becomes a tree of its own)"""
    newp = If(parent != null, parent, If(h0.own[self_] != W.null, h0.root[h0.own[self_]], null))
    newroot = If(newp == null, self_, rootof(h0.par, newp))
    return ForAll([x], Implies(x != null, rootof(h1.par, x) == If(insub(h0.par, self_, x), newroot, rootof(h0.par, x))), patterns=[rootof(h1.par, x)])


def effect(h0, h1, self_, parent):
    newp = If(parent != null, parent, If(h0.own[self_] != W.null, h0.root[h0.own[self_]], null))
    return {
        'C16/task-reports-the-new-parent': h1.par[self_] == newp,
        'C16/parents-of-all-other-tasks-unchanged': ForAll([x], Implies(x != self_, h1.par[x] == h0.par[x]), patterns=[h1.par[x]]),
        'C16/list-objects-ids-roots-unchanged': And(h1.chl == h0.chl, h1.root == h0.root, h1.tid == h0.tid, h1.pre == h0.pre, h1.suc == h0.suc),
        'C16/children-lists-of-uninvolved-tasks-unchanged': ForAll([t_], Implies(And(t_ != null, t_ != h0.par[self_], t_ != newp), h1.ch(t_) == h0.ch(t_)), patterns=[h1.chl[t_]]),
        'C16/dependency-lists-unchanged': ForAll([t_], Implies(t_ != null, And(h1.P(t_) == h0.P(t_), h1.S(t_) == h0.S(t_))), patterns=[h1.pre[t_]]),
        # exact list values (the relative order of the other siblings and "the task is last" are corollaries by the list axioms, see list_lemma_unit)
        'C16/old-parent-loses-exactly-this-task': Implies(And(h0.par[self_] != null, h0.par[self_] != newp),
                                                          h1.ch(h0.par[self_]) == If(mem(h0.ch(h0.par[self_]), self_), rem(h0.ch(h0.par[self_]), self_), h0.ch(h0.par[self_]))),
        'C16/new-parent-gains-the-task-at-the-end': Implies(newp != null, h1.ch(newp) == app(If(mem(h0.ch(newp), self_), rem(h0.ch(newp), self_), h0.ch(newp)), self_)),
        'C11/subtree-takes-the-owner-of-the-new-parent': ForAll([x], h1.own[x] == If(And(parent != null, h0.own[parent] != W.null, insub(h0.par, self_, x)), h0.own[parent], h0.own[x]), patterns=[h1.own[x]]),
    }


EFFECT_LABELS = ['C16/task-reports-the-new-parent', 'C16/parents-of-all-other-tasks-unchanged', 'C16/list-objects-ids-roots-unchanged', 'C16/children-lists-of-uninvolved-tasks-unchanged',
                 'C16/dependency-lists-unchanged', 'C16/old-parent-loses-exactly-this-task', 'C16/new-parent-gains-the-task-at-the-end', 'C11/subtree-takes-the-owner-of-the-new-parent']
HEAP_KEYS = ['Task._Task__parent', 'Task._Task__wbs', 'PyList.elems']


# ------------------------------------------------------------------------------------------------ callee contracts
def c_pubparent(eng, st, recv, args, kws, node):
    h = H(eng, st); p = h.par[recv.e]
    return [(st, V(If(Or(p == null, h.tid[p] == EMPTY), null, p), T))]


def c_id(eng, st, recv, args, kws, node):
    return [(st, V(H(eng, st).tid[recv.e], INT))]


def c_has_id_intersection(eng, st, recv, args, kws, node):
    # assumed contract (B): a pure function of the pre-state; its meaning (id clash between the incoming subtree and the receiving tree) is
    # checked by the bounded stand-in (C05)
    child = args[1].e[0].e if args[1].s.name == 'TaskListLit' else None
    if child is None: raise Unsupported('_has_id_intersection argument form')
    h = H(eng, st)
    st.assume(clash_reveal_neg(h, args[0].e, child))
    return [(st, V(clashfn(args[0].e, child, h), BOOL))]


def forest_struct(h, t):
    """pre-condition of the closure helpers of the hierarchy (contracts/closure.py): the forest part of Inv, F2 for the tasks below t"""
    I = Inv(h)
    return And(Acyc(h.par), h.par[null] == null, I['C01/F1-listed-child-reports-that-parent'], F2below(h, t), I['C01/F3-no-child-listed-twice'],
               ForAll([t_], Implies(t_ != null, h.chl[t_] != LR.null), patterns=[h.chl[t_]]))


def up_struct(h):
    """pre-condition of all_parents: acyclic, and the reserved id only on parentless tasks (from DR + WR)"""
    return And(Acyc(h.par), h.par[null] == null, ForAll([c_], Implies(And(c_ != null, h.tid[c_] == EMPTY), h.par[c_] == null), patterns=[h.tid[c_]]))


def F2below(h, t):
    """F2 for the tasks below t (what the closure of t's descendants reads; the parent setter runs while ITS OWN entry in its parent's list may be missing)"""
    return ForAll([c_], Implies(And(c_ != null, h.par[c_] != null, Desc(h.par, t, c_)), mem(h.ch(h.par[c_]), c_)), patterns=[Desc(h.par, t, c_)])


class _Quiet:
    """the [ids] unit of the parent setter carries only the clauses U1 needs; the call-site obligations of the callees are discharged in the core unit"""
    def __init__(self, st): self.st = st
    def oblige(self, *a, **k): pass
    def __getattr__(self, n): return getattr(self.st, n)


def quiet(eng, st):
    return _Quiet(st) if getattr(eng, 'oblige_only', None) is not None else st


def oblige_struct(st, h, who, line, up=False, forest=True, below=None):
    """the callee's structural pre-condition, obliged clause by clause (each is a clause of the caller's invariant: one small query each)"""
    I = Inv(h)
    st.oblige(f'req@{who}/C01/F4-no-task-is-its-own-ancestor', Acyc(h.par), f'@{line}'); st.oblige(f'req@{who}/N-null-has-no-parent', h.par[null] == null, f'@{line}')
    if forest:
        for lab in ('C01/F1-listed-child-reports-that-parent', 'C01/F3-no-child-listed-twice'): st.oblige(f'req@{who}/{lab}', I[lab], f'@{line}')
        st.oblige(f'req@{who}/C01/F2-parent-lists-its-child(below-the-task)', F2below(h, below), f'@{line}')
        st.oblige(f'req@{who}/children-list-objects-exist', ForAll([t_], Implies(t_ != null, h.chl[t_] != LR.null), patterns=[h.chl[t_]]), f'@{line}')
    if up:
        st.oblige(f'req@{who}/DR-reserved-id-only-on-parentless-tasks', ForAll([c_], Implies(And(c_ != null, h.tid[c_] == EMPTY), h.par[c_] == null), patterns=[h.tid[c_]]), f'@{line}')


def c_all_children(eng, st, recv, args, kws, node):
    # contract of Task.all_children, proved in contracts/closure.py (there also: depth-first order, each once); the part used here: exactly the strict descendants
    h = H(eng, st); q = quiet(eng, st)
    q.oblige('req@all_children/task-non-null', recv.e != null, f'@{node.lineno}'); oblige_struct(q, h, 'all_children', node.lineno, below=recv.e)
    A = fresh('allch', LT)
    st.assume(ForAll([x], mem(A, x) == Desc(h.par, recv.e, x), patterns=[mem(A, x)]))
    return [(st, V(A, LT))]


def c_root(eng, st, recv, args, kws, node):
    return [(st, V(H(eng, st).root[recv.e], T))]


def c_children(eng, st, recv, args, kws, node):
    Fc = fresh('facade', FAC); st.assume(Fc != FAC.null)
    st.assume(Select(eng.field(st, 'ChildrenFacade', '_ChildrenList__parent'), Fc) == recv.e)
    st.assume(Select(eng.field(st, 'ChildrenFacade', '_list'), Fc) == H(eng, st).chl[recv.e])
    return [(st, V(Fc, FAC))]


def c_attach(eng, st, recv, args, kws, node):
    # Task._attach(wbs): sets the owner of the whole subtree when wbs is not None (its own unit: attach_unit)
    h = H(eng, st); Wn = args[0].e; me = recv.e; st_real = st; st = quiet(eng, st)
    for lab, g in (('task-non-null', me != null), ('C01/F4-no-task-is-its-own-ancestor', Acyc(h.par)), ('N-null-has-no-parent', h.par[null] == null), ('C01/F1-below-the-task', F1below(h, me)),
                   ('C01/F2-below-the-task', F2below(h, me)), ('C01/F3-no-child-listed-twice', Inv(h)['C01/F3-no-child-listed-twice']),
                   ('children-list-objects-exist', ForAll([t_], Implies(t_ != null, h.chl[t_] != LR.null), patterns=[h.chl[t_]]))):
        st.oblige(f'req@_attach/{lab}', g, f'@{node.lineno}')
    st = st_real
    eng.write(st, 'Task._Task__wbs', Lambda([x], If(And(Wn != W.null, insub(h.par, recv.e, x)), Wn, h.own[x])))
    return [(st, V(None, NONE))]


def c_check_links(eng, st, recv, args, kws, node):
    # contract of _check_no_links_to_ancestors, proved in contracts/closure.py
    h = H(eng, st); s, p = args[0].e, args[1].e; st_real = st; st = quiet(eng, st)
    st.oblige('req@_check_no_links_to_ancestors/tasks-non-null', And(s != null, p != null), f'@{node.lineno}')
    oblige_struct(st, h, '_check_no_links_to_ancestors', node.lineno, up=True, below=s)
    st.oblige('req@_check_no_links_to_ancestors/link-list-objects-exist', ForAll([t_], Implies(t_ != null, h.pre[t_] != LR.null), patterns=[h.pre[t_]]), f'@{node.lineno}')
    st.oblige('req@_check_no_links_to_ancestors/link-list-objects-exist(successors)', ForAll([t_], Implies(t_ != null, h.suc[t_] != LR.null), patterns=[h.suc[t_]]), f'@{node.lineno}')
    st.oblige('req@_check_no_links_to_ancestors/reserved-id-tasks-are-not-linked',
              ForAll([t_, a_], Implies(And(t_ != null, h.tid[a_] == EMPTY), And(Not(mem(h.P(t_), a_)), Not(mem(h.S(t_), a_)))), patterns=[mem(h.P(t_), a_), mem(h.S(t_), a_)]), f'@{node.lineno}')
    st.oblige('req@_check_no_links_to_ancestors/NN-no-None-in-links', Inv(h)['NN-no-None-in-links'], f'@{node.lineno}')
    st = st_real
    ok = st.fork(Not(links_cross(h, s, p))); exc = st.fork(links_cross(h, s, p))
    ta, an = Consts('ta_ an_', T.z)
    # reveal (definition, contrapositive): no task of the subtree is linked with p or one of its ancestors
    ok.assume(ForAll([ta, an], Implies(And(insub(h.par, s, ta), Or(an == p, Desc(h.par, an, p))), And(Not(mem(h.P(ta), an)), Not(mem(h.S(ta), an)))),
                     patterns=[mem(h.P(ta), an), mem(h.S(ta), an)]))
    return [(ok, V(None, NONE)), (exc, Raise('RuntimeError'))]


def exempt_ok(h, X, newparent):
    return And(Implies(newparent != null, Not(X(newparent))), ForAll([w_], Implies(w_ != W.null, Not(X(h.root[w_]))), patterns=[h.root[w_]]))


def parent_setter_call(eng, st, task, newparent, line, X=None, ids=False):
    """the contract of Task.parent.setter used at a call site (also: its own nested call through roots.append).  X: tasks exempt from W1r before
    the call (see Inv); after the call the subtree of `task` is no longer exempt"""
    h0 = H(eng, st)
    only = getattr(eng, 'oblige_only', None)
    for lab, g in Inv(h0, hole=task, X=X).items():
        if (only is None and (lab != U1 or ids)) or (only is not None and lab in only): st.oblige(f'req@parent.setter/{lab}', g, f'@{line}')
    st.oblige('req@parent.setter/task-is-no-hidden-root', And(task != null, ForAll([w_], Implies(w_ != W.null, h0.root[w_] != task))), f'@{line}')
    if X is not None and only is None: st.oblige('req@parent.setter/exempt-set-spares-the-new-parent-and-the-hidden-roots', exempt_ok(h0, X, newparent), f'@{line}')
    clash = clashfn(newparent, task, h0)
    rc = raise_cond(h0, task, newparent, clash)
    exc = st.fork(rc); ok = st.fork(Not(rc))
    exc.assume(Implies(links_cross(h0, task, newparent), links_cross_def(h0, task, newparent)))       # reveal: a caller may have to show that the callee cannot reject
    for k in HEAP_KEYS: eng.havoc(ok, k)
    h1 = H(eng, ok)
    post = Inv(h1, X=None if X is None else (lambda c: And(X(c), Not(insub(h0.par, task, c)))))
    if only is None:
        if not ids: post.pop(U1)
    else: post = {k: v for k, v in post.items() if k in only}
    for g in list(post.values()) + list(effect(h0, h1, task, newparent).values()): ok.assume(g)
    newp = If(newparent != null, newparent, If(h0.own[task] != W.null, h0.root[h0.own[task]], null))
    ok.assume(h1.par == Store(h0.par, task, newp))          # the two parent clauses of the effect, as one array equation (extensionality)
    return [(ok, V(None, NONE)), (exc, Raise('RuntimeError'))]


def c_facade_append(eng, st, recv, args, kws, node):
    # _ChildrenList.append(task)  ==  task.parent = facade.__parent   (proved for the body in its own unit)
    task = args[0].e; newparent = Select(eng.field(st, 'ChildrenFacade', '_ChildrenList__parent'), recv.e)
    X0 = st.ghost.get('X')
    return parent_setter_call(eng, st, task, newparent, node.lineno, X=None if X0 is None else (lambda c: X0[c]))


class TaskListLit:
    """`[self]` as an argument of _has_id_intersection"""
    @staticmethod
    def ev_List(eng, e, st):
        out = []
        for s, vs in eng.ev_seq(e.elts, st):
            out.append((s, vs if isinstance(vs, Raise) else V(tuple(vs), S('TaskListLit', None))))
        return out


U1 = 'C05/U1-ids-unique-within-every-tree'
IDS_NEED = ['O1-list-objects-distinct', 'C01/F4-no-task-is-its-own-ancestor', 'N-null-has-no-parent', 'C11/W1-owner-follows-the-hierarchy', 'C11/W1r-owner-only-if-reachable-from-that-WBS-root', 'C11/WR-hidden-roots', U1]


def parent_setter_unit(kind='core'):
    """kind='core': everything except the id-uniqueness clause; kind='ids': the same function against the part of the contract that carries
    C05/U1 (contract splitting keeps each query small; the two units together oblige the whole pre-condition at the nested call)"""
    ids = kind == 'ids'

    def build():
        contracts = {'prop:Task.parent': c_pubparent, 'prop:Task.id': c_id, 'fn:_has_id_intersection': c_has_id_intersection, 'prop:Task.all_children': c_all_children,
                     'WBS._root': c_root, 'prop:Task.children': c_children, 'Task._attach': c_attach, 'ChildrenFacade.append': c_facade_append,
                     'fn:_check_no_links_to_ancestors': c_check_links}
        pre_h = lambda c: H(c.eng, c.pre)

        def req(lab):
            def f(c):
                h = H(c.eng, c.st)
                X0 = c.st.ghost['X']
                extra = {'task-is-no-hidden-root': And(c['self'] != null, ForAll([w_], Implies(w_ != W.null, h.root[w_] != c['self']))),
                         'exempt-set-spares-the-new-parent-and-the-hidden-roots': exempt_ok(h, lambda t: X0[t], c['parent'])}
                return {**Inv(h, hole=c['self'], X=None if ids else (lambda t: X0[t])), **extra}[lab]
            return f
        Xpost = lambda c: (lambda t: And(c.pre.ghost['X'][t], Not(insub(pre_h(c).par, c['self'], t))))
        rc = lambda c: raise_cond(pre_h(c), c['self'], c['parent'], clashfn(c['parent'], c['self'], pre_h(c)))
        if ids:
            fc = {'sig': {'self': T, 'parent': T}, 'ghost': {'X': S('SET', SET)},
                  'requires': [(l_, req(l_)) for l_ in IDS_NEED + ['task-is-no-hidden-root']],
                  'raises': {'RuntimeError': []}, 'chain_ensures': True,
                  'ensures': [('lemma/C05/tree-roots-after-the-move', lambda c: roots_after(pre_h(c), H(c.eng, c.st), c['self'], c['parent'])),
                              ('lemma/C05/the-moved-subtree-was-in-one-tree', lambda c: ForAll([x], Implies(And(x != null, insub(pre_h(c).par, c['self'], x)), rootof(pre_h(c).par, x) == rootof(pre_h(c).par, c['self'])),
                                                                                                 patterns=[rootof(pre_h(c).par, x)])),
                              ('lemma/C05/a-task-whose-tree-root-is-the-moved-task-is-in-its-subtree', lambda c: ForAll([x], Implies(And(x != null, rootof(pre_h(c).par, x) == c['self']), insub(pre_h(c).par, c['self'], x)),
                                                                                                                          patterns=[rootof(pre_h(c).par, x)])),
                              (U1, lambda c: Inv(H(c.eng, c.st))[U1])]}
            e = Engine(F, 'Task.parent.setter', contracts, TASK_CLASSES, fc, plugins=[ListPlugin(), TaskListLit]); e.oblige_only = IDS_NEED
            return e, LIST_AX + GRAPH_AX + ROOT_AX
        fc = {'sig': {'self': T, 'parent': T}, 'ghost': {'X': S('SET', SET)},
              'requires': [(l_, req(l_)) for l_ in INV_LABELS + ['task-is-no-hidden-root', 'exempt-set-spares-the-new-parent-and-the-hidden-roots'] if l_ != U1],
              'raises': {'RuntimeError': [('C15/parents-unchanged', lambda c: H(c.eng, c.st).par == pre_h(c).par), ('C15/lists-unchanged', lambda c: H(c.eng, c.st).elems == pre_h(c).elems),
                                          ('C15/owners-unchanged', lambda c: H(c.eng, c.st).own == pre_h(c).own),
                                          ('C01,C05,C11/rejected-only-for-a-stated-reason', rc)]},
              'ensures': [(l_, (lambda l_: lambda c: Inv(H(c.eng, c.st), X=Xpost(c))[l_])(l_)) for l_ in INV_LABELS if l_ != U1] +
                         [(l_, (lambda l_: lambda c: effect(pre_h(c), H(c.eng, c.st), c['self'], c['parent'])[l_])(l_)) for l_ in EFFECT_LABELS] +
                         [('C01,C05,C11/accepted-only-if-no-reason-to-reject', lambda c: Not(rc(c)))]}
        return Engine(F, 'Task.parent.setter', contracts, TASK_CLASSES, fc, plugins=[ListPlugin(), TaskListLit]), LIST_AX + GRAPH_AX
    if ids:
        return Unit('Task.parent.setter[ids]', F, build, ['C05'], shards=4, timeout_ms=15000)
    return Unit('Task.parent.setter', F, build, ['C01', 'C05', 'C11', 'C15', 'C16'], shards=8, timeout_ms=15000)


# parent_setter_unit('ids') carries C05/U1 (ids unique within every tree) through the root-of-tree function: a lemma chain (closed form of the roots after the
# move, the moved subtree was in one tree, ...) keeps each query small; every path is decided by one of three seeds within the short budget
UNITS = [parent_setter_unit(), parent_setter_unit('ids')]


# ================================================================================================ dependency setters
class LinkPlugin(ListPlugin):
    """adds to ListPlugin: the de-duplication idiom of the link setters, copying comprehension `[v for v in value]` (fresh list object),
    iteration over list objects / list values, ghost update of the dependency relation at the one statement that rebinds the list"""

    def __init__(self, side):
        self.side = side          # 'pre' or 'suc'

    def ev_ListComp(self, eng, e, st):
        src = ast.unparse(e)
        g = e.generators[0]
        if len(e.generators) == 1 and isinstance(g.iter, ast.Call) and ast.unparse(g.iter.func) == 'enumerate' \
                and src.replace(' ', '') == '[vfori,vinenumerate(value)ifnotany((viswforwinvalue[:i]))]'.replace(' ', ''):
            # value = [v for i, v in enumerate(value) if not any(v is w for w in value[:i])] : first occurrences, order kept (library idiom, T1)
            s, xs = eng.ev1(g.iter.args[0], st)
            D = fresh('dedup', LT); j = Int('j'); k2 = Int('k2')
            s.assume(And(nodup(D), ForAll([x], mem(D, x) == mem(xs.e, x), patterns=[mem(D, x)]),
                         ForAll([a_, b_], Implies(And(mem(D, a_), mem(D, b_)), (idx(D, a_) < idx(D, b_)) == (idx(xs.e, a_) < idx(xs.e, b_))), patterns=[MultiPattern(idx(D, a_), idx(D, b_))])))
            s.ghost['deduped_from'] = xs.e
            return [(s, V(D, LT))]
        if len(e.generators) == 1 and isinstance(e.elt, ast.Name) and e.elt.id == g.target.id and not g.ifs:
            # [v for v in xs] : a fresh list object holding the same abstract value
            s, xs = eng.ev1(g.iter, st); lv = self.listval(eng, s, xs, e.lineno)
            r = fresh('newlist', LR); h = H(eng, s)
            s.assume(r != LR.null); s.assume(ForAll([t_], And(r != h.pre[t_], r != h.suc[t_], r != h.chl[t_])))        # allocation freshness
            eng.write(s, 'PyList.elems', Store(eng.field(s, 'PyList', 'elems'), r, lv))
            return [(s, V(r, LR))]
        return NotImplemented

    def for_loop(self, eng, stmt, st):
        s0, seq = eng.ev1(stmt.iter, st)
        if seq.s != LR: return NotImplemented
        k = eng.loop_contract.get(eng.loop_ids[id(stmt)], (eng.loop_ids[id(stmt)], None))[0]; idxn = f'_i{k}'; eng.locals[idxn] = INT
        s0.env[idxn] = V(IntVal(0), INT)
        s0.oblige('safe/AttributeError-None', seq.e != LR.null, f'for @{stmt.lineno}')
        cur = lambda s: Select(eng.field(s, 'PyList', 'elems'), seq.e)                       # the live list object

        def guard(s): return [(s, s.env[idxn].e < ln(cur(s)))]

        def pre(b_):
            b_.env[stmt.target.id] = V(at(cur(b_), b_.env[idxn].e), T); b_.env[idxn] = V(b_.env[idxn].e + 1, INT); return [b_]
        return eng.loop(stmt, s0, guard, pre, extra_havoc=[idxn])

    def assign(self, eng, s, target, v):
        fld = '__predecessors' if self.side == 'pre' else '__successors'
        if isinstance(target, ast.Attribute) and target.attr == fld:
            r = Engine.assign(eng, s, target, v) if False else None
            # plain field store, then the ghost update (sidecar): E[self] := set of value
            s2, o = eng.ev1(target.value, s)
            key = 'Task.' + eng.mangle(target.attr)
            eng.write(s2, key, Store(eng.field(s2, 'Task', eng.mangle(target.attr)), o.e, eng.coerce(v, LR)))
            Sv = fresh('setof', S('SET', SET)); val = s2.env['value'].e
            s2.assume(ForAll([a_], Sv[a_] == mem(val, a_), patterns=[Sv[a_]]))
            nE = Const(f'E!{fresh_id()}', REL); s2.assume(nE == Store(s2.ghost['E'], o.e, Sv)); s2.ghost['E'] = nE
            return [(s2, FALL)]
        return NotImplemented


def LInv_side(side, h, E):
    def M(h, t): return h.P(t) if side == 'pre' else h.S(t)
    def O(h, t): return h.S(t) if side == 'pre' else h.P(t)
    return {
        'C01/M1-links-symmetric': ForAll([a_, b_], Implies(And(a_ != null, b_ != null), mem(M(h, b_), a_) == mem(O(h, a_), b_)), patterns=[mem(M(h, b_), a_), mem(O(h, a_), b_)]),
        'ND-no-link-listed-twice': ForAll([t_], Implies(t_ != null, And(nodup(h.P(t_)), nodup(h.S(t_)))), patterns=[h.pre[t_]]),
        'NN-no-None-in-links': ForAll([t_, a_], Implies(And(t_ != null, Or(mem(h.P(t_), a_), mem(h.S(t_), a_))), a_ != null), patterns=[mem(h.P(t_), a_), mem(h.S(t_), a_)]),
        'O1-list-objects-distinct': And(inj(h.pre), inj(h.suc), disj(h.pre, h.suc), disj(h.chl, h.pre), disj(h.chl, h.suc),
                                        ForAll([t_], Implies(t_ != null, And(h.pre[t_] != LR.null, h.suc[t_] != LR.null)), patterns=[h.pre[t_]])),
        'SYNC-ghost-relation-mirrors-the-lists': ForAll([t_, a_], Implies(t_ != null, E[t_][a_] == mem(M(h, t_), a_)), patterns=[E[t_][a_]]),
        'C01/M2-dependency-relation-acyclic': AcycP(E),
        'C01/X1-no-link-along-the-hierarchy': ForAll([a_, b_], Implies(And(b_ != null, mem(M(h, b_), a_)), And(Not(Desc(h.par, a_, b_)), Not(Desc(h.par, b_, a_)), a_ != b_)), patterns=[mem(M(h, b_), a_)]),
    }


LINK_LABS = ['C01/M1-links-symmetric', 'ND-no-link-listed-twice', 'NN-no-None-in-links', 'O1-list-objects-distinct', 'SYNC-ghost-relation-mirrors-the-lists',
             'C01/M2-dependency-relation-acyclic', 'C01/X1-no-link-along-the-hierarchy']


def link_setter_unit(side):
    mine, other = ('pre', 'suc') if side == 'pre' else ('suc', 'pre')
    pname = 'predecessors' if side == 'pre' else 'successors'

    def build():
        def M(h, t): return h.P(t) if side == 'pre' else h.S(t)          # the edited side
        def O(h, t): return h.S(t) if side == 'pre' else h.P(t)          # the mirror side
        def mref(h, t): return h.pre[t] if side == 'pre' else h.suc[t]
        def oref(h, t): return h.suc[t] if side == 'pre' else h.pre[t]

        def LInv(h, E): return LInv_side(side, h, E)
        LABS = ['C01/M1-links-symmetric', 'ND-no-link-listed-twice', 'NN-no-None-in-links', 'O1-list-objects-distinct', 'SYNC-ghost-relation-mirrors-the-lists',
                'C01/M2-dependency-relation-acyclic', 'C01/X1-no-link-along-the-hierarchy']

        def c_to_list(eng, st, recv, args, kws, node):
            # _to_list(value): None -> [], a Task -> [task], an iterable -> its non-None elements: some list of non-null tasks (any repetitions)
            Lv = fresh('value', LT); ii = Int('ii')
            st.assume(ForAll([ii], Implies(And(0 <= ii, ii < ln(Lv)), at(Lv, ii) != null), patterns=[at(Lv, ii)]))
            st.assume(ForAll([x], Implies(mem(Lv, x), x != null), patterns=[mem(Lv, x)]))
            h = H(eng, st)
            st.assume(ForAll([x], Implies(mem(Lv, x), h.tid[x] != EMPTY), patterns=[mem(Lv, x)]))     # hidden roots (reserved id) are not public: domain restriction of DESIGN 8
            st.ghost['value0'] = Lv
            return [(st, V(Lv, LT))]

        def c_none(eng, st, recv, args, kws, node): return [(st, V(None, NONE))]

        def c_all_parents(eng, st, recv, args, kws, node):
            A = fresh('parents', LT); h = H(eng, st)
            st.oblige('req@all_parents/task-non-null', recv.e != null, f'@{node.lineno}'); oblige_struct(st, h, 'all_parents', node.lineno, up=True, forest=False)
            st.assume(ForAll([x], mem(A, x) == And(Desc(h.par, x, recv.e), h.tid[x] != EMPTY), patterns=[mem(A, x)]))       # contract of all_parents (proved in contracts/closure.py)
            return [(st, V(A, LT))]

        def c_all_links(eng, st, recv, args, kws, node):
            A = fresh('alllinks', LT); hh = H(eng, st); LL = LInv(hh, st.ghost['E'])
            st.oblige('req@all_links/dependency-lists', And(recv.e != null, LL['SYNC-ghost-relation-mirrors-the-lists'], LL['NN-no-None-in-links'], LL['O1-list-objects-distinct'], LL['C01/M2-dependency-relation-acyclic']), f'@{node.lineno}')
            st.assume(ForAll([x], mem(A, x) == And(x != null, TCp(st.ghost['E'], x, recv.e)), patterns=[mem(A, x)]))       # contract of all_predecessors / all_successors (proved in contracts/closure.py)
            return [(st, V(A, LT))]
        contracts = {'fn:_to_list': c_to_list, 'fn:_check_no_nones_in_list': c_none, 'prop:Task.all_parents': c_all_parents, 'prop:Task.all_children': c_all_children,
                     'prop:Task.all_predecessors': c_all_links, 'prop:Task.all_successors': c_all_links, 'prop:Task.id': c_id}
        me = lambda c: c['self']
        val = lambda c: c['value']
        h0 = lambda c: H(c.eng, c.pre); E0 = lambda c: c.pre.ghost['E']
        hc = lambda c: H(c.eng, c.st); Ec = lambda c: c.st.ghost['E']

        def same_shape(c):       # what the checking loops do not change
            h, hh = hc(c), h0(c)
            return And(h.pre == hh.pre, h.suc == hh.suc, Ec(c) == E0(c), h.elems == hh.elems, h.par == hh.par, h.chl == hh.chl, h.tid == hh.tid, h.root == hh.root)

        def inv_L0(c):
            j = Int('j'); h = h0(c)
            return And(same_shape(c), c['_i0'] >= 0, ForAll([j], Implies(And(0 <= j, j < c['_i0']), And(at(val(c), j) != me(c), Not(And(Desc(h.par, at(val(c), j), me(c)), h.tid[at(val(c), j)] != EMPTY)),
                                                                                                         Not(Desc(h.par, me(c), at(val(c), j)))))))

        def checked(c):
            j = Int('j'); h = h0(c)
            return ForAll([x], Implies(mem(val(c), x), And(x != me(c), Not(And(Desc(h.par, x, me(c)), h.tid[x] != EMPTY)), Not(Desc(h.par, me(c), x)))), patterns=[mem(val(c), x)])

        def inv_L1(c):
            j = Int('j')
            return And(same_shape(c), checked(c), c['_i1'] >= 0, ForAll([j], Implies(And(0 <= j, j < c['_i1']), Not(TCp(E0(c), me(c), at(val(c), j))))))

        def nocycle(c):
            return ForAll([x], Implies(mem(val(c), x), Not(TCp(E0(c), me(c), x))), patterns=[mem(val(c), x)])

        def inv_L2(c):
            h, hh = hc(c), h0(c); OP = M(hh, me(c)); k = c['_i2']
            return {'frame': And(h.pre == hh.pre, h.suc == hh.suc, Ec(c) == E0(c), h.par == hh.par, h.chl == hh.chl, h.tid == hh.tid, h.root == hh.root, checked(c), nocycle(c), k >= 0, k <= ln(OP)),
                    'edited-side-and-children-lists-unchanged': ForAll([t_], Implies(t_ != null, And(M(h, t_) == M(hh, t_), h.ch(t_) == hh.ch(t_))), patterns=[mref(h, t_), h.chl[t_]]),
                    'mirror-entries-removed-so-far': ForAll([a_, b_], Implies(a_ != null, mem(O(h, a_), b_) == And(mem(O(hh, a_), b_), Not(And(b_ == me(c), mem(OP, a_), idx(OP, a_) < k)))), patterns=[mem(O(h, a_), b_)]),
                    'mirror-lists-duplicate-free': ForAll([t_], Implies(t_ != null, nodup(O(h, t_))), patterns=[oref(h, t_)])}

        def inv_L3(c):
            h, hh = hc(c), h0(c); k = c['_i3']
            same_other = (h.suc == hh.suc) if side == 'pre' else (h.pre == hh.pre)
            mine_arr, mine_arr0 = (h.pre, hh.pre) if side == 'pre' else (h.suc, hh.suc)
            return {'frame': And(same_other, h.par == hh.par, h.chl == hh.chl, h.tid == hh.tid, h.root == hh.root, checked(c), nocycle(c), k >= 0, k <= ln(val(c)),
                                 mine_arr == Store(mine_arr0, me(c), mine_arr[me(c)]), M(h, me(c)) == val(c), mine_arr[me(c)] != LR.null,
                                 Ec(c) == Store(E0(c), me(c), Ec(c)[me(c)]), ForAll([a_], Ec(c)[me(c)][a_] == mem(val(c), a_), patterns=[Ec(c)[me(c)][a_]])),
                    'edited-side-of-others-unchanged': ForAll([t_], Implies(And(t_ != null, t_ != me(c)), M(h, t_) == M(hh, t_)), patterns=[mref(h, t_)]),
                    'children-lists-unchanged': ForAll([t_], Implies(t_ != null, h.ch(t_) == hh.ch(t_)), patterns=[h.chl[t_]]),
                    'new-list-object-is-fresh': And(ForAll([t_, u_], Implies(And(t_ != null, u_ != null), h.pre[t_] != h.suc[u_]), patterns=[MultiPattern(h.pre[t_], h.suc[u_])]),
                                                    ForAll([t_], Implies(And(t_ != null, t_ != me(c)), mine_arr[me(c)] != mine_arr[t_]), patterns=[mine_arr[t_]]),
                                                    ForAll([t_], Implies(t_ != null, mine_arr[me(c)] != h.chl[t_]), patterns=[h.chl[t_]])),
                    'mirror-entries-added-so-far': ForAll([a_, b_], Implies(a_ != null, mem(O(h, a_), b_) == Or(And(b_ != me(c), mem(O(hh, a_), b_)), And(b_ == me(c), mem(val(c), a_), idx(val(c), a_) < k))), patterns=[mem(O(h, a_), b_)]),
                    'mirror-lists-duplicate-free': ForAll([t_], Implies(t_ != null, nodup(O(h, t_))), patterns=[oref(h, t_)])}
        L2P = ['frame', 'edited-side-and-children-lists-unchanged', 'mirror-entries-removed-so-far', 'mirror-lists-duplicate-free']
        L3P = ['frame', 'edited-side-of-others-unchanged', 'children-lists-unchanged', 'new-list-object-is-fresh', 'mirror-entries-added-so-far', 'mirror-lists-duplicate-free']

        def rc(c):      # the stated reasons for rejecting (C01): the task itself, an ancestor, a descendant, or a task that already depends on it (cycle)
            h = h0(c); v0 = c.st.ghost.get('value0', c.pre.ghost.get('value0'))
            return Exists([x], And(mem(v0, x), Or(x == me(c), Desc(h.par, x, me(c)), Desc(h.par, me(c), x), TCp(E0(c), me(c), x))))
        v0 = lambda c: c.st.ghost['value0']
        fps = {0: 'for v in value', 1: 'for v in value', 2: f'for v in self.__{pname}', 3: 'for v in value'}
        fc = {'sig': {'self': T, 'value': LT}, 'ghost': {'E': S('REL', REL)},
              'requires': [(l_, (lambda l_: lambda c: LInv(hc(c), Ec(c))[l_])(l_)) for l_ in LABS] +
                          [('self-non-null', lambda c: me(c) != null), ('C01/F4-no-task-is-its-own-ancestor', lambda c: And(Acyc(hc(c).par), hc(c).par[null] == null)),
                           ('C01/F1-F3-children-lists-mirror-the-parents', lambda c: forest_struct(hc(c), me(c))), ('DR-reserved-id-only-on-parentless-tasks', lambda c: up_struct(hc(c))),
                           ('hidden-root-has-reserved-id', lambda c: ForAll([w_], Implies(w_ != W.null, And(hc(c).root[w_] != null, hc(c).tid[hc(c).root[w_]] == EMPTY, hc(c).par[hc(c).root[w_]] == null)), patterns=[hc(c).root[w_]])),
                           ],
              'loops': {0: {'fingerprint': fps[0], 'invariant': [('checked-so-far', inv_L0)]},
                        1: {'fingerprint': fps[1], 'invariant': [('no-cycle-so-far', inv_L1)]},
                        2: {'fingerprint': fps[2], 'invariant': [('un-mirror/' + l_, (lambda l_: lambda c: inv_L2(c)[l_])(l_)) for l_ in L2P], 'havoc_heap': ['PyList.elems']},
                        3: {'fingerprint': fps[3], 'invariant': [('mirror/' + l_, (lambda l_: lambda c: inv_L3(c)[l_])(l_)) for l_ in L3P], 'havoc_heap': ['PyList.elems']}},
              'raises': {'RuntimeError': [('C15/lists-unchanged', lambda c: And(hc(c).elems == h0(c).elems, hc(c).pre == h0(c).pre, hc(c).suc == h0(c).suc, hc(c).par == h0(c).par)),
                                          ('C01/rejected-only-for-a-stated-reason', rc)]},
              'ensures': [(l_, (lambda l_: lambda c: LInv(hc(c), Ec(c))[l_])(l_)) for l_ in LABS] +
                         [('C16/list-is-exactly-the-given-tasks-in-first-occurrence-order', lambda c: And(ForAll([x], mem(M(hc(c), me(c)), x) == mem(v0(c), x)), nodup(M(hc(c), me(c))),
                             ForAll([a_, b_], Implies(And(mem(M(hc(c), me(c)), a_), mem(M(hc(c), me(c)), b_)), (idx(M(hc(c), me(c)), a_) < idx(M(hc(c), me(c)), b_)) == (idx(v0(c), a_) < idx(v0(c), b_)))))),
                          ('C16/same-side-lists-of-all-other-tasks-unchanged', lambda c: ForAll([t_], Implies(And(t_ != null, t_ != me(c)), M(hc(c), t_) == M(h0(c), t_)))),
                          ('C16/mirror-side-updated-for-exactly-this-task', lambda c: ForAll([a_, b_], Implies(a_ != null, mem(O(hc(c), a_), b_) == If(b_ == me(c), mem(v0(c), a_), mem(O(h0(c), a_), b_))))),
                          ('C16/hierarchy-untouched', lambda c: And(hc(c).par == h0(c).par, hc(c).chl == h0(c).chl, ForAll([t_], Implies(t_ != null, hc(c).ch(t_) == h0(c).ch(t_))))),
                          ('C01/accepted-only-if-no-reason-to-reject/not-the-task-itself', lambda c: ForAll([x], Implies(mem(v0(c), x), x != me(c)))),
                          ('C01/accepted-only-if-no-reason-to-reject/not-an-ancestor', lambda c: ForAll([x], Implies(mem(v0(c), x), Not(Desc(h0(c).par, x, me(c)))))),
                          ('C01/accepted-only-if-no-reason-to-reject/not-a-descendant', lambda c: ForAll([x], Implies(mem(v0(c), x), Not(Desc(h0(c).par, me(c), x))))),
                          ('C01/accepted-only-if-no-reason-to-reject/closes-no-cycle', lambda c: ForAll([x], Implies(mem(v0(c), x), Not(TCp(E0(c), me(c), x)))))]}
        return Engine(F, f'Task.{pname}.setter', contracts, TASK_CLASSES, fc, plugins=[LinkPlugin(side)]), LIST_AX + GRAPH_AX + DEP_AX
    return Unit(f'Task.{pname}.setter', F, build, ['C01', 'C15', 'C16'], timeout_ms=15000)


UNITS += [link_setter_unit('pre'), link_setter_unit('suc')]


# ================================================================================================ ownership helpers, list-object setter
kid = Function('kid', PAR, T.z, T.z, T.z)          # kid(par, t, x): the child of t on the way down to its descendant x (skolem of lemma D6; unique by D6u)
height = Function('height', T.z, IntSort())       # decreases along child edges (exists in a finite forest: K1)
KID_AX = [
    ForAll([pm, a, x], Implies(Desc(pm, a, x), And(pm[kid(pm, a, x)] == a, kid(pm, a, x) != null, insub(pm, kid(pm, a, x), x))), patterns=[Desc(pm, a, x)]),                  # D6
    ForAll([pm, c, x], Implies(And(Acyc(pm), c != null, pm[c] != null, Desc(pm, c, x)), And(Desc(pm, pm[c], x), kid(pm, pm[c], x) == c)), patterns=[Desc(pm, c, x)]),   # D6u
    ForAll([pm, c], Implies(And(Acyc(pm), c != null, pm[c] != null), kid(pm, pm[c], c) == c), patterns=[pm[c]]),
]


def F1below(h, t):
    """F1 for the children lists of t and of the tasks below t"""
    return ForAll([t_, c_], Implies(And(t_ != null, insub(h.par, t, t_), mem(h.ch(t_), c_)), And(h.par[c_] == t_, c_ != null)), patterns=[mem(h.ch(t_), c_)])


def walk_pre(h, me):
    """pre-condition of the ownership walks _attach / _detach: what they read - the children lists at and below the task (the walks also run on the
    transient heaps of the children setter, where the list of the task's FORMER parent still names it)"""
    return And(me != null, Acyc(h.par), h.par[null] == null, F1below(h, me), F2below(h, me), Inv(h)['C01/F3-no-child-listed-twice'],
               ForAll([t_], Implies(t_ != null, h.chl[t_] != LR.null), patterns=[h.chl[t_]]))


def owner_walk_unit(attach):
    name = '_attach' if attach else '_detach'

    def build():
        target = (lambda c: c['wbs']) if attach else (lambda c: W.null)
        active = (lambda c: c['wbs'] != W.null) if attach else (lambda c: BoolVal(True))

        def pre(c):
            return walk_pre(H(c.eng, c.st), c['self'])

        def post(h0, h1, me, wv, act):
            return {'C11/owner-of-the-whole-subtree-set': ForAll([x], h1.own[x] == If(And(act, insub(h0.par, me, x)), wv, h0.own[x]), patterns=[h1.own[x]]),
                    'C16/nothing-else-changes': And(h1.par == h0.par, h1.chl == h0.chl, h1.elems == h0.elems, h1.pre == h0.pre, h1.suc == h0.suc)}

        def c_rec(eng, st, recv, args, kws, node):
            h0 = H(eng, st); me = st.env['self'].e
            st.oblige('req@recursive-call/child-non-null', recv.e != null, f'@{node.lineno}')
            st.oblige('req@recursive-call/children-lists-below-the-child', walk_pre(h0, recv.e), f'@{node.lineno}')
            st.oblige('dec/C14/height-decreases-at-the-recursive-call', And(hgt(h0.par, recv.e) < hgt(h0.par, me), hgt(h0.par, recv.e) >= 0), f'@{node.lineno}')
            wv = args[0].e if attach else W.null
            act = (wv != W.null) if attach else BoolVal(True)
            eng.havoc(st, 'Task._Task__wbs'); h1 = H(eng, st)
            st.assume(post(h0, h1, recv.e, wv, act)['C11/owner-of-the-whole-subtree-set'])
            return [(st, V(None, NONE))]

        def inv(c):
            h, h0 = H(c.eng, c.st), H(c.eng, c.pre); me = c['self']; C = h0.ch(me); i = c['_i0']
            return And(i >= 0, i <= ln(C), h.par == h0.par, h.chl == h0.chl, h.elems == h0.elems, h.pre == h0.pre, h.suc == h0.suc, active(c),
                       ForAll([x], h.own[x] == If(Or(x == me, And(Desc(h0.par, me, x), idx(C, kid(h0.par, me, x)) < i)), target(c), h0.own[x]), patterns=[h.own[x]]))
        sig = {'self': T, 'wbs': W} if attach else {'self': T}
        fp = 'for ch in self.children' if attach else 'for ch in self.__children'
        contracts = {f'Task.{name}': c_rec, 'prop:Task.children': lambda eng, st, recv, a, k, n: [(st, V(H(eng, st).chl[recv.e], LR))]}
        fc = {'sig': sig, 'requires': [('pre', pre)],
              'loops': {0: {'fingerprint': fp, 'invariant': [('owners-set-for-the-children-visited-so-far', inv)], 'havoc_heap': ['Task._Task__wbs']}},
              'ensures': [(l_, (lambda l_: lambda c: post(H(c.eng, c.pre), H(c.eng, c.st), c['self'], target(c), active(c))[l_])(l_)) for l_ in
                          ['C11/owner-of-the-whole-subtree-set', 'C16/nothing-else-changes']]}
        return Engine(F, f'Task.{name}', contracts, TASK_CLASSES, fc, plugins=[LinkPlugin('pre')]), LIST_AX + GRAPH_AX + KID_AX + MEASURE_AX
    return Unit(f'Task.{name}', F, build, ['C11', 'C14', 'C16'], timeout_ms=15000)


def set_children_unit():
    def build():
        fc = {'sig': {'self': T, 'lst': LR}, 'requires': [('nn', lambda c: c['self'] != null)],
              'ensures': [('C01,C11,C16/the-list-object-handed-in-becomes-the-children-list (facades keep aliasing it)', lambda c: H(c.eng, c.st).chl[c['self']] == c['lst']),
                          ('C16/nothing-else-changes', lambda c: And(H(c.eng, c.st).elems == H(c.eng, c.pre).elems, H(c.eng, c.st).par == H(c.eng, c.pre).par,
                                                                     ForAll([t_], Implies(t_ != c['self'], H(c.eng, c.st).chl[t_] == H(c.eng, c.pre).chl[t_]))))]}
        return Engine(F, 'Task.__set_children', {}, TASK_CLASSES, fc, plugins=[ListPlugin()]), LIST_AX
    return Unit('Task.__set_children', F, build, ['C01', 'C11', 'C16'])


UNITS += [owner_walk_unit(True), owner_walk_unit(False), set_children_unit()]


def list_lemma_unit():
    """pure list-theory corollaries used to read the exact-list effect clauses as the sentences of C16"""
    class Lemmas:
        src = Source.get(F)

        def run(self):
            st = St(); L = Const('L0', LT.z); xx, aa, bb = Consts('xx aa bb', T.z)
            hyp = And(nodup(L), aa != xx, bb != xx, mem(L, aa), mem(L, bb))
            R1 = If(mem(L, xx), rem(L, xx), L)
            st.oblige('lemma/C16/removing-a-task-keeps-the-relative-order-of-the-other-siblings',
                      Implies(hyp, And(mem(R1, aa), mem(R1, bb), (idx(R1, aa) < idx(R1, bb)) == (idx(L, aa) < idx(L, bb)))), 'list theory')
            A1 = app(R1, xx)
            st.oblige('lemma/C16/appending-puts-the-task-last-and-keeps-the-order-of-the-others',
                      Implies(hyp, And(mem(A1, xx), idx(A1, xx) == ln(A1) - 1, mem(A1, aa), mem(A1, bb), (idx(A1, aa) < idx(A1, bb)) == (idx(L, aa) < idx(L, bb)), nodup(A1))), 'list theory')
            return st.obs
    return Unit('list-lemmas(remove/append)', F, lambda: (Lemmas(), LIST_AX), ['C16'])


UNITS.append(list_lemma_unit())


# ================================================================================================ _ChildrenList.move
FAC_CLASSES = dict(TASK_CLASSES)
FAC_CLASSES['ChildrenFacade'] = {'_ChildrenList__parent': T, '_list': LR, '_ChildrenList__setter': REF('Setter')}


def single_move_result(L0, t, before, after):
    R = rem(L0, t)
    return If(before != null, ins(R, idx(R, before), t), ins(R, idx(R, after) + 1, t))


def move_unit():
    def build():
        OTk = OPT(T)
        fl = lambda c, w='cur': Select(c.fld('ChildrenFacade', '_list', w), c['self'])
        fp = lambda c: Select(c.fld('ChildrenFacade', '_ChildrenList__parent'), c['self'])
        cur = lambda c, w='cur': Select(c.fld('PyList', 'elems', w), fl(c, 'pre'))
        L0 = lambda c: cur(c, 'pre')

        def c_to_list(eng, st, recv, args, kws, node):
            Lv = fresh('tasks', LT); ii = Int('ii')
            st.assume(And(ln(Lv) >= 0, ForAll([ii], Implies(And(0 <= ii, ii < ln(Lv)), at(Lv, ii) != null), patterns=[at(Lv, ii)]), ForAll([x], Implies(mem(Lv, x), x != null), patterns=[mem(Lv, x)])))
            st.ghost['tasks0'] = Lv
            return [(st, V(Lv, LT))]

        def c_setter(eng, st, recv, args, kws, node):
            # self.__setter is the bound Task.__set_children of the facade's parent (proved in its own unit): installs the list object handed in
            me = st.env['self'].e; par_ = Select(eng.field(st, 'ChildrenFacade', '_ChildrenList__parent'), me)
            eng.write(st, 'Task._Task__children', Store(eng.field(st, 'Task', '_Task__children'), par_, args[0].e))
            return [(st, V(None, NONE))]

        class MovePlugin(ListPlugin):
            def call(self_, eng, e, st):
                f = e.func
                if isinstance(f, ast.Attribute) and f.attr == '__setter':
                    s, a = eng.ev1(e.args[0], st)
                    return c_setter(eng, s, None, [a], {}, e)
                if isinstance(f, ast.Name) and f.id == 'any' and len(e.args) == 1 and isinstance(e.args[0], ast.GeneratorExp):
                    g = e.args[0]
                    if ast.unparse(g).replace(' ', '') != '(tisbeforeortisafterfortintasks)': raise Unsupported('any(...) form')
                    s, xs = eng.ev1(g.generators[0].iter, st)
                    b, a = s.env['before'], s.env['after']
                    return [(s, V(Or(And(b.e != null, mem(xs.e, b.e)), And(a.e != null, mem(xs.e, a.e))), BOOL))]
                return ListPlugin.call(self_, eng, e, st)
        tk = lambda c: c['tasks']
        h = lambda c, w='cur': H(c.eng, c.st if w == 'cur' else c.pre)

        def reject(c):       # the stated reasons (C15: all of them are found before anything is changed)
            t0 = c.st.ghost.get('tasks0', c.pre.ghost.get('tasks0')); b, a = c.old('before'), c.old('after')
            return Or(Exists([x], And(mem(t0, x), Not(mem(L0(c), x)))), And(b != null, Not(mem(L0(c), b))), And(a != null, Not(mem(L0(c), a))), And(b != null, a != null), And(b == null, a == null),
                      And(b != null, mem(t0, b)), And(a != null, mem(t0, a)))

        def inv0(c):
            j = Int('j')
            return And(c['_i0'] >= 0, cur(c) == L0(c), h(c).chl == h(c, 'pre').chl, h(c).elems == h(c, 'pre').elems, ForAll([j], Implies(And(0 <= j, j < c['_i0']), mem(L0(c), at(tk(c), j)))))

        def inv1(c):
            j = Int('j'); b, a = c['before'], c['after']; Lc = cur(c); anchor = If(b != null, b, a)
            return And(c['_i1'] >= 0, c['_i1'] <= ln(tk(c)), h(c).chl == h(c, 'pre').chl, h(c).par == h(c, 'pre').par,
                       ForAll([t_], Implies(h(c, 'pre').chl[t_] != fl(c, 'pre'), h(c).ch(t_) == h(c, 'pre').ch(t_)), patterns=[h(c).chl[t_]]),
                       nodup(Lc), ln(Lc) == ln(L0(c)), ForAll([x], mem(Lc, x) == mem(L0(c), x), patterns=[mem(Lc, x)]),
                       ForAll([x], Implies(mem(tk(c), x), mem(L0(c), x)), patterns=[mem(tk(c), x)]),
                       Or(And(b != null, a == null), And(b == null, a != null)), mem(L0(c), anchor), Not(mem(tk(c), anchor)),
                       # the tasks that are not moved keep their relative order
                       ForAll([a_, b_], Implies(And(mem(L0(c), a_), mem(L0(c), b_), Not(mem(tk(c), a_)), Not(mem(tk(c), b_))), (idx(Lc, a_) < idx(Lc, b_)) == (idx(L0(c), a_) < idx(L0(c), b_))),
                              patterns=[MultiPattern(idx(Lc, a_), idx(Lc, b_))]),
                       # the task moved last sits next to the anchor
                       Implies(c['_i1'] > 0, If(b != null, idx(Lc, at(tk(c), c['_i1'] - 1)) + 1 == idx(Lc, b), idx(Lc, at(tk(c), c['_i1'] - 1)) == idx(Lc, a) + 1)),
                       Implies(c['_i1'] == 0, Lc == L0(c)), Implies(c['_i1'] == 1, Lc == single_move_result(L0(c), at(tk(c), 0), b, a)))
        fc = {'sig': {'self': FAC, 'tasks': LT, 'before': T, 'after': T}, 'locals': {},
              'requires': [('pre', lambda c: And(c['self'] != FAC.null, fp(c) != null, fl(c) != LR.null, fl(c) == h(c).chl[fp(c)],        # V1: the facade aliases its parent's list object
                                                 nodup(cur(c)), ForAll([x], Implies(mem(cur(c), x), x != null), patterns=[mem(cur(c), x)]))),
                           ('O1-list-objects-distinct', lambda c: Inv(h(c))['O1-list-objects-distinct'])],
              'loops': {0: {'fingerprint': 'for task in tasks', 'invariant': [('all-moved-tasks-are-members-so-far', inv0)]},
                        1: {'fingerprint': 'for task in tasks', 'invariant': [('permutation-with-order-and-adjacency', inv1)], 'havoc_heap': ['PyList.elems']}},
              'raises': {'RuntimeError': [('C15/rejected-call-changes-nothing', lambda c: And(h(c).elems == h(c, 'pre').elems, h(c).chl == h(c, 'pre').chl, h(c).par == h(c, 'pre').par)),
                                          ('C15,C16/rejected-only-for-a-stated-reason', reject)]},
              'ensures': [('C16/accepted-only-without-a-reason-to-reject', lambda c: Not(reject(c))),
                          ('C01/same-members-each-once (F1 F2 F3 preserved: nobody joins or leaves the list)', lambda c: And(nodup(cur(c)), ForAll([x], mem(cur(c), x) == mem(L0(c), x)), h(c).par == h(c, 'pre').par)),
                          ('C01,C11/list-object-of-the-parent-unchanged', lambda c: And(h(c).chl[fp(c)] == fl(c, 'pre'), ForAll([t_], Implies(t_ != fp(c), h(c).chl[t_] == h(c, 'pre').chl[t_])))),
                          ('C16/tasks-that-are-not-moved-keep-their-relative-order', lambda c: ForAll([a_, b_], Implies(And(mem(L0(c), a_), mem(L0(c), b_), Not(mem(tk(c), a_)), Not(mem(tk(c), b_))),
                                                                                                                     (idx(cur(c), a_) < idx(cur(c), b_)) == (idx(L0(c), a_) < idx(L0(c), b_))))),
                          ('C16/a-single-moved-task-ends-up-immediately-before-or-after-the-anchor', lambda c: Implies(ln(tk(c)) == 1, If(c['before'] != null, idx(cur(c), at(tk(c), 0)) + 1 == idx(cur(c), c['before']),
                                                                                                                                           idx(cur(c), at(tk(c), 0)) == idx(cur(c), c['after']) + 1))),
                          ('C16/children-lists-of-all-other-tasks-unchanged', lambda c: ForAll([t_], Implies(h(c, 'pre').chl[t_] != fl(c, 'pre'), h(c).ch(t_) == h(c, 'pre').ch(t_)))),
                          ('C16/a-single-moved-task-exact-list', lambda c: Implies(ln(tk(c)) == 1, cur(c) == single_move_result(L0(c), at(tk(c), 0), c['before'], c['after'])))]}
        return Engine(F, '_ChildrenList.move', {'fn:_to_list': c_to_list}, FAC_CLASSES, fc, plugins=[MovePlugin()]), LIST_AX + LIST_INS_AX
    return Unit('_ChildrenList.move', F, build, ['C01', 'C15', 'C16'], timeout_ms=15000)


UNITS.append(move_unit())


# ================================================================================================ _ChildrenList.sort
KEYARG = S('KeyArg', None)     # dynamically typed `key`: a str, a list/tuple/set of str, or something else
sorted_by = Function('sorted_by', LT.z, IntSort(), BoolSort(), LT.z)          # sorted(l, key=<key function k>, reverse=r)  (library contract L)
kle = Function('key_le', IntSort(), T.z, T.z, BoolSort())                      # the total preorder induced by key function k
_kf = Int('_kf'); _rv = Bool('_rv')
SORTED_AX = [   # assumed contract of the built-in sorted: a stable permutation ordered by the key (reverse=True: descending, still stable)
    ForAll([l, _kf, _rv], And(ln(sorted_by(l, _kf, _rv)) == ln(l), Implies(nodup(l), nodup(sorted_by(l, _kf, _rv)))), patterns=[sorted_by(l, _kf, _rv)]),
    ForAll([l, _kf, _rv, x], mem(sorted_by(l, _kf, _rv), x) == mem(l, x), patterns=[mem(sorted_by(l, _kf, _rv), x)]),
    ForAll([l, _kf, _rv, a, b], Implies(And(nodup(l), mem(l, a), mem(l, b), idx(sorted_by(l, _kf, _rv), a) < idx(sorted_by(l, _kf, _rv), b)),
                                        And(If(_rv, kle(_kf, b, a), kle(_kf, a, b)), Implies(And(kle(_kf, a, b), kle(_kf, b, a)), idx(l, a) < idx(l, b)))),
           patterns=[MultiPattern(idx(sorted_by(l, _kf, _rv), a), idx(sorted_by(l, _kf, _rv), b))]),
]


def sort_unit():
    def build():
        fl = lambda c, w='cur': Select(c.fld('ChildrenFacade', '_list', w), c['self'])
        fp = lambda c: Select(c.fld('ChildrenFacade', '_ChildrenList__parent'), c['self'])
        cur = lambda c, w='cur': Select(c.fld('PyList', 'elems', w), fl(c, 'pre'))
        L0 = lambda c: cur(c, 'pre')
        h = lambda c, w='cur': H(c.eng, c.st if w == 'cur' else c.pre)
        key = {'isstr': Bool('key_is_str'), 'isseq': Bool('key_is_list_tuple_or_set'), 'fn_single': Int('keyfn_attribute'), 'fn_joined': Int('keyfn_joined_attributes')}

        class SortPlugin(ListPlugin):
            def call(self_, eng, e, st):
                f = e.func
                if isinstance(f, ast.Name) and f.id == 'type' and len(e.args) == 1:
                    s, v = eng.ev1(e.args[0], st)
                    if v.s == KEYARG: return [(s, V(v.e, S('TypeOfKey', None)))]
                if isinstance(f, ast.Name) and f.id == 'sorted' and len(e.args) == 1:
                    s, v = eng.ev1(e.args[0], st)
                    kws = {k.arg: k.value for k in e.keywords}
                    if set(kws) != {'key', 'reverse'} or not isinstance(kws['key'], ast.Lambda): raise Unsupported('sorted(...) form')
                    src_ = ast.unparse(kws['key'].body)
                    if src_ == 'x.__getattribute__(key)': kf = key['fn_single']
                    elif src_.startswith("'-'.join(") and 'for k in key' in src_: kf = key['fn_joined']
                    else: raise Unsupported('sort key function form')
                    s, rv = eng.ev1(kws['reverse'], s)
                    return [(s, V(sorted_by(self_.listval(eng, s, v, e.lineno), kf, rv.e), LT))]
                if isinstance(f, ast.Attribute) and f.attr == '__setter':
                    s, a = eng.ev1(e.args[0], st)
                    me = s.env['self'].e; par_ = Select(eng.field(s, 'ChildrenFacade', '_ChildrenList__parent'), me)
                    eng.write(s, 'Task._Task__children', Store(eng.field(s, 'Task', '_Task__children'), par_, a.e))
                    return [(s, V(None, NONE))]
                return ListPlugin.call(self_, eng, e, st)

            def ev_Name(self_, eng, e, st):
                if e.id in ('str', 'list', 'tuple', 'set') and e.id not in st.env: return [(st, V(e.id, S('TypeName', None)))]
                return NotImplemented

            def cmp(self_, eng, st, k, l_, r, line):
                if k in ('Is', 'IsNot') and l_.s.name == 'TypeOfKey' and r.s.name == 'TypeName':
                    c = key['isstr'] if r.e == 'str' else (key['isseq'] if r.e in ('list', 'tuple', 'set') else None)
                    if c is None: raise Unsupported('type name')
                    return c if k == 'Is' else Not(c)
                return ListPlugin.cmp(self_, eng, st, k, l_, r, line)

            def assign(self_, eng, s, target, v):
                # self._list[:] = <list value>: the contents of the SAME list object are replaced
                if isinstance(target, ast.Subscript) and isinstance(target.slice, ast.Slice) and target.slice.lower is None and target.slice.upper is None:
                    s2, o = eng.ev1(target.value, s)
                    if o.s == LR:
                        s2.oblige('safe/AttributeError-None', o.e != LR.null, f'@{target.lineno}')
                        nl = fresh('lv', LT); s2.assume(nl == self_.listval(eng, s2, v, target.lineno))
                        eng.write(s2, 'PyList.elems', Store(eng.field(s2, 'PyList', 'elems'), o.e, nl))
                        return [(s2, FALL)]
                return ListPlugin.assign(self_, eng, s, target, v)
        kf = lambda c: If(key['isstr'], key['fn_single'], key['fn_joined'])
        fc = {'sig': {'self': FAC, 'reverse': BOOL}, 'globals': {'key': V(key, KEYARG)},
              'requires': [('pre', lambda c: And(c['self'] != FAC.null, fp(c) != null, fl(c) != LR.null, fl(c) == h(c).chl[fp(c)], nodup(cur(c)), Not(And(key['isstr'], key['isseq'])))),
                           ('O1-list-objects-distinct', lambda c: Inv(h(c))['O1-list-objects-distinct'])],
              'raises': {'RuntimeError': [('C15/rejected-call-changes-nothing', lambda c: And(h(c).elems == h(c, 'pre').elems, h(c).chl == h(c, 'pre').chl)),
                                          ('C16/rejected-only-for-an-unsupported-key-type', lambda c: And(Not(key['isstr']), Not(key['isseq'])))]},
              'ensures': [('C16/list-is-the-stable-sort-of-the-old-list-by-the-attribute-(reversed-on-request)', lambda c: cur(c) == sorted_by(L0(c), kf(c), c['reverse'])),
                          ('C01/same-members-each-once (F1 F2 F3 preserved)', lambda c: And(nodup(cur(c)), ForAll([x], mem(cur(c), x) == mem(L0(c), x)), h(c).par == h(c, 'pre').par)),
                          ('C01,C11/list-object-of-the-parent-unchanged (earlier facades stay valid)', lambda c: And(h(c).chl[fp(c)] == fl(c, 'pre'), ForAll([t_], Implies(t_ != fp(c), h(c).chl[t_] == h(c, 'pre').chl[t_])))),
                          ('C16/children-lists-of-all-other-tasks-unchanged', lambda c: ForAll([t_], Implies(h(c, 'pre').chl[t_] != fl(c, 'pre'), h(c).ch(t_) == h(c, 'pre').ch(t_))))]}
        return Engine(F, '_ChildrenList.sort', {}, FAC_CLASSES, fc, plugins=[SortPlugin()]), LIST_AX + SORTED_AX
    return Unit('_ChildrenList.sort', F, build, ['C01', 'C15', 'C16'])


UNITS.append(sort_unit())


# ================================================================================================ _ChildrenList.reorder
def reorder_unit():
    def build():
        LI_ = LIST(INT)
        fl = lambda c, w='cur': Select(c.fld('ChildrenFacade', '_list', w), c['self'])
        fp = lambda c: Select(c.fld('ChildrenFacade', '_ChildrenList__parent'), c['self'])
        cur = lambda c, w='cur': Select(c.fld('PyList', 'elems', w), fl(c, 'pre'))
        L0 = lambda c: cur(c, 'pre')
        h = lambda c, w='cur': H(c.eng, c.st if w == 'cur' else c.pre)
        el = lambda c, ref: Select(c.fld('PyList', 'elems'), ref)
        j = Int('j'); k2 = Int('k2')

        def first_with_id(c, t, i_):       # t is the first task of the old list whose id is i_
            return And(mem(L0(c), t), h(c).tid[t] == i_, ForAll([k2], Implies(And(0 <= k2, k2 < idx(L0(c), t)), h(c).tid[at(L0(c), k2)] != i_)))

        class ReorderPlugin(ListPlugin):
            def call(self_, eng, e, st):
                f = e.func
                if isinstance(f, ast.Attribute) and f.attr == 'copy' and not e.args:
                    s, v = eng.ev1(f.value, st)
                    if v.s == LR:
                        s.oblige('safe/AttributeError-None', v.e != LR.null, f'@{e.lineno}')
                        return self_.fresh_list(eng, s, Select(eng.field(s, 'PyList', 'elems'), v.e))
                if isinstance(f, ast.Name) and f.id == 'next' and len(e.args) == 1 and isinstance(e.args[0], ast.GeneratorExp):
                    g = e.args[0]
                    if ast.unparse(g).replace(' ', '') != '(tfortinselfift.id==_id)': raise Unsupported('next(...) form')
                    me = st.env['self'].e
                    lst = Select(eng.field(st, 'PyList', 'elems'), Select(eng.field(st, 'ChildrenFacade', '_list'), me))        # iterating the facade iterates its list
                    idv = st.env['_id'].e; tidf = eng.field(st, 'Task', '_Task__id')
                    jv = fresh('found', INT); found = st.fork(); none = st.fork()
                    found.assume(And(0 <= jv, jv < ln(lst), tidf[at(lst, jv)] == idv, ForAll([k2], Implies(And(0 <= k2, k2 < jv), tidf[at(lst, k2)] != idv))))
                    none.assume(ForAll([k2], Implies(And(0 <= k2, k2 < ln(lst)), tidf[at(lst, k2)] != idv)))
                    return [(found, V(at(lst, jv), T)), (none, Raise('StopIteration'))]
                if isinstance(f, ast.Attribute) and f.attr == '__setter':
                    s, a = eng.ev1(e.args[0], st)
                    me = s.env['self'].e; par_ = Select(eng.field(s, 'ChildrenFacade', '_ChildrenList__parent'), me)
                    eng.write(s, 'Task._Task__children', Store(eng.field(s, 'Task', '_Task__children'), par_, a.e))
                    return [(s, V(None, NONE))]
                return ListPlugin.call(self_, eng, e, st)

            def fresh_list(self_, eng, s, value):
                r = fresh('locallist', LR); s.assume(r != LR.null)
                for fld in ('_Task__children', '_Task__predecessors', '_Task__successors'):
                    arr = eng.field(s, 'Task', fld); tt = Const('tt_', T.z)
                    s.assume(ForAll([tt], arr[tt] != r, patterns=[arr[tt]]))
                s.assume(r != Select(eng.field(s, 'ChildrenFacade', '_list'), s.env['self'].e))
                for other in s.ghost.get('locals_', []): s.assume(r != other)
                s.ghost['locals_'] = s.ghost.get('locals_', []) + [r]
                eng.write(s, 'PyList.elems', Store(eng.field(s, 'PyList', 'elems'), r, value))
                return [(s, V(r, LR))]

            def ev_List(self_, eng, e, st):
                if e.elts: return NotImplemented
                return self_.fresh_list(eng, st, empty)

            def binop(self_, eng, st, k, l_, r, line):
                if k == 'Add' and l_.s == LR and r.s == LR:
                    return V(cat(self_.listval(eng, st, l_, line), self_.listval(eng, st, r, line)), LT)
                return NotImplemented

            def cmp(self_, eng, st, k, l_, r, line):
                if k in ('Is', 'IsNot') and l_.s.name == 'Ref:Setter' and r.s == NONE:
                    c = l_.e == REF('Setter').null; return c if k == 'Is' else Not(c)
                return ListPlugin.cmp(self_, eng, st, k, l_, r, line)

            def assign(self_, eng, s, target, v):
                if isinstance(target, ast.Subscript) and isinstance(target.slice, ast.Slice) and target.slice.lower is None and target.slice.upper is None:
                    s2, o = eng.ev1(target.value, s)
                    if o.s == LR:
                        nl = fresh('lv', LT); s2.assume(nl == self_.listval(eng, s2, v, target.lineno))
                        eng.write(s2, 'PyList.elems', Store(eng.field(s2, 'PyList', 'elems'), o.e, nl))
                        return [(s2, FALL)]
                return ListPlugin.assign(self_, eng, s, target, v)

            def for_loop(self_, eng, stmt, st):
                return NotImplemented
        ids = lambda c: c['ids']

        def inv(c):
            i = c['_i0']; N = el(c, c['new_list']); A = el(c, c['_all'])
            return And(i >= 0, i <= LI_.len(ids(c)), h(c).chl == h(c, 'pre').chl, cur(c) == L0(c), h(c).par == h(c, 'pre').par, h(c).tid == h(c, 'pre').tid,
                       c['new_list'] != c['_all'], c['new_list'] != fl(c, 'pre'), c['_all'] != fl(c, 'pre'), c['new_list'] != LR.null, c['_all'] != LR.null,
                       ForAll([t_], And(h(c).chl[t_] != c['new_list'], h(c).chl[t_] != c['_all']), patterns=[h(c).chl[t_]]),
                       ForAll([t_], Implies(t_ != null, h(c).ch(t_) == h(c, 'pre').ch(t_)), patterns=[h(c).chl[t_]]),
                       ln(N) == i, nodup(N), nodup(A),
                       ForAll([x], mem(A, x) == And(mem(L0(c), x), Not(mem(N, x))), patterns=[mem(A, x)]),
                       ForAll([x], Implies(mem(N, x), mem(L0(c), x)), patterns=[mem(N, x)]),
                       ForAll([j], Implies(And(0 <= j, j < i), first_with_id(c, at(N, j), LI_.at(ids(c), j))), patterns=[at(N, j)]),
                       ForAll([a_, b_], Implies(And(mem(A, a_), mem(A, b_)), (idx(A, a_) < idx(A, b_)) == (idx(L0(c), a_) < idx(L0(c), b_))), patterns=[MultiPattern(idx(A, a_), idx(A, b_))]))
        unchanged = lambda c: And(h(c).chl == h(c, 'pre').chl, h(c).par == h(c, 'pre').par, ForAll([t_], Implies(t_ != null, h(c).ch(t_) == h(c, 'pre').ch(t_))))
        n_ids = lambda c: LI_.len(ids(c))
        fc = {'sig': {'self': FAC, 'ids': LI_}, 'locals': {'_id': INT, 'ch': T, '_all': LR, 'new_list': LR},
              'requires': [('pre', lambda c: And(c['self'] != FAC.null, fp(c) != null, fl(c) != LR.null, fl(c) == h(c).chl[fp(c)], nodup(cur(c)), LI_.len(ids(c)) >= 0,
                                                 ForAll([x], Implies(mem(cur(c), x), x != null), patterns=[mem(cur(c), x)]))),
                           ('O1-list-objects-distinct', lambda c: Inv(h(c))['O1-list-objects-distinct'])],
              'loops': {0: {'fingerprint': 'for _id in ids', 'invariant': [('listed-tasks-collected-in-order-rest-keeps-its-order', inv)], 'havoc_heap': ['PyList.elems']}},
              'raises': {'RuntimeError': [('C15/rejected-call-changes-nothing', unchanged)], 'StopIteration': [('C15/rejected-call-changes-nothing', unchanged)], 'ValueError': [('C15/rejected-call-changes-nothing', unchanged)]},
              'ensures': [('C16/listed-ids-first-in-the-given-order', lambda c: ForAll([j], Implies(And(0 <= j, j < n_ids(c)), first_with_id(c, at(cur(c), j), LI_.at(ids(c), j))))),
                          ('C16/the-rest-keeps-its-old-relative-order-behind-them', lambda c: ForAll([a_, b_], Implies(And(mem(L0(c), a_), mem(L0(c), b_), idx(cur(c), a_) >= n_ids(c), idx(cur(c), b_) >= n_ids(c)),
                                                                                                                    (idx(cur(c), a_) < idx(cur(c), b_)) == (idx(L0(c), a_) < idx(L0(c), b_))))),
                          ('C01/same-members-each-once (F1 F2 F3 preserved)', lambda c: And(nodup(cur(c)), ForAll([x], mem(cur(c), x) == mem(L0(c), x)), h(c).par == h(c, 'pre').par)),
                          ('C01,C11/list-object-of-the-parent-unchanged (earlier facades stay valid)', lambda c: And(h(c).chl[fp(c)] == fl(c, 'pre'), ForAll([t_], Implies(t_ != fp(c), h(c).chl[t_] == h(c, 'pre').chl[t_])))),
                          ('C16/children-lists-of-all-other-tasks-unchanged', lambda c: ForAll([t_], Implies(And(t_ != null, h(c, 'pre').chl[t_] != fl(c, 'pre')), h(c).ch(t_) == h(c, 'pre').ch(t_))))]}
        return Engine(F, '_ChildrenList.reorder', {'prop:Task.id': c_id}, FAC_CLASSES, fc, plugins=[ReorderPlugin()]), LIST_AX + LIST_CAT_AX
    return Unit('_ChildrenList.reorder', F, build, ['C01', 'C15', 'C16'], timeout_ms=15000)


UNITS.append(reorder_unit())


# ================================================================================================ _ChildrenList.append
def c_check_not_none(eng, st, recv, args, kws, node):
    a = args[0]
    isnone = (a.e == a.s.null) if a.s.is_ref else BoolVal(a.s == NONE)
    return [(st.fork(Not(isnone)), V(None, NONE)), (st.fork(isnone), Raise('RuntimeError'))]


def c_set_parent(eng, st, recv, args, kws, node):
    return parent_setter_call(eng, st, recv.e, args[0].e, node.lineno, ids=True)


def append_unit():
    def build():
        fp = lambda c: Select(c.fld('ChildrenFacade', '_ChildrenList__parent'), c['self'])
        pre_h = lambda c: H(c.eng, c.pre)
        rc = lambda c: Or(c['task'] == null, raise_cond(pre_h(c), c['task'], fp(c), clashfn(fp(c), c['task'], pre_h(c))))

        def req(lab):
            def f(c):
                h = H(c.eng, c.st)
                extra = {'task-is-no-hidden-root': ForAll([w_], Implies(w_ != W.null, h.root[w_] != c['task'])), 'facade-non-null': c['self'] != FAC.null}
                return {**Inv(h), **extra}[lab]
            return f
        labels = list(INV_LABELS)
        fc = {'sig': {'self': FAC, 'task': T},
              'requires': [(l_, req(l_)) for l_ in labels + ['task-is-no-hidden-root', 'facade-non-null']],
              'raises': {'RuntimeError': [('C15/rejected-call-changes-nothing', lambda c: And(H(c.eng, c.st).par == pre_h(c).par, H(c.eng, c.st).elems == pre_h(c).elems, H(c.eng, c.st).own == pre_h(c).own)),
                                          ('C01,C05,C11/rejected-only-for-None-or-a-stated-reason', rc)]},
              'ensures': [(l_, (lambda l_: lambda c: Inv(H(c.eng, c.st))[l_])(l_)) for l_ in labels] +
                         [(l_, (lambda l_: lambda c: effect(pre_h(c), H(c.eng, c.st), c['task'], fp(c))[l_])(l_)) for l_ in EFFECT_LABELS] +
                         [('C01,C05,C11/accepted-only-without-a-reason-to-reject', lambda c: Not(rc(c)))]}
        return Engine(F, '_ChildrenList.append', {'fn:_check_not_none': c_check_not_none, 'setprop:Task.parent': c_set_parent}, FAC_CLASSES, fc, plugins=[ListPlugin()]), LIST_AX + GRAPH_AX
    return Unit('_ChildrenList.append', F, build, ['C01', 'C11', 'C15', 'C16'], timeout_ms=15000)


UNITS.append(append_unit())


# ================================================================================================ _ChildrenList.insert
def move_call(eng, st, fac, tasklist, before, after, line):
    """contract of _ChildrenList.move at a call site (the clauses proved by move_unit, for a one-element task list)"""
    h0 = H(eng, st)
    lref = Select(eng.field(st, 'ChildrenFacade', '_list'), fac); par_ = Select(eng.field(st, 'ChildrenFacade', '_ChildrenList__parent'), fac)
    L0 = h0.elems[lref]
    st.oblige('req@move/facade-aliases-its-parents-list-object', And(fac != FAC.null, par_ != null, lref != LR.null, lref == h0.chl[par_], nodup(L0)), f'@{line}')
    st.oblige('req@move/O1-list-objects-distinct', Inv(h0)['O1-list-objects-distinct'], f'@{line}')
    reject = Or(Exists([x], And(mem(tasklist, x), Not(mem(L0, x)))), And(before != null, Not(mem(L0, before))), And(after != null, Not(mem(L0, after))), And(before != null, after != null),
                And(before == null, after == null), And(before != null, mem(tasklist, before)), And(after != null, mem(tasklist, after)))
    exc = st.fork(reject); ok = st.fork(Not(reject))
    eng.havoc(ok, 'PyList.elems'); h1 = H(eng, ok); L1 = h1.elems[lref]
    ok.assume(And(nodup(L1), ln(L1) == ln(L0), ForAll([x], mem(L1, x) == mem(L0, x), patterns=[mem(L1, x)]),
                  ForAll([t_], Implies(h0.chl[t_] != lref, h1.ch(t_) == h0.ch(t_)), patterns=[h1.chl[t_]]),
                  ForAll([t_], Implies(t_ != null, And(h1.P(t_) == h0.P(t_), h1.S(t_) == h0.S(t_))), patterns=[h1.pre[t_]]),
                  ForAll([a_, b_], Implies(And(mem(L0, a_), mem(L0, b_), Not(mem(tasklist, a_)), Not(mem(tasklist, b_))), (idx(L1, a_) < idx(L1, b_)) == (idx(L0, a_) < idx(L0, b_))),
                         patterns=[MultiPattern(idx(L1, a_), idx(L1, b_))]),
                  Implies(ln(tasklist) == 1, If(before != null, idx(L1, at(tasklist, 0)) + 1 == idx(L1, before), idx(L1, at(tasklist, 0)) == idx(L1, after) + 1)),
                  Implies(ln(tasklist) == 1, L1 == single_move_result(L0, at(tasklist, 0), before, after))))
    return [(ok, V(None, NONE)), (exc, Raise('RuntimeError'))]


def insert_unit():
    def build():
        fp = lambda c, w='cur': Select(c.fld('ChildrenFacade', '_ChildrenList__parent', w), c['self'])
        fl = lambda c, w='cur': Select(c.fld('ChildrenFacade', '_list', w), c['self'])
        pre_h = lambda c: H(c.eng, c.pre)
        L0 = lambda c: pre_h(c).elems[fl(c, 'pre')]
        L1 = lambda c: H(c.eng, c.st).elems[fl(c, 'pre')]
        rc = lambda c: Or(c['task'] == null, raise_cond(pre_h(c), c['task'], fp(c, 'pre'), clashfn(fp(c, 'pre'), c['task'], pre_h(c))))

        class InsertPlugin(ListPlugin):
            def call(self_, eng, e, st):
                f = e.func
                if isinstance(f, ast.Attribute) and f.attr == 'move' and isinstance(f.value, ast.Name) and f.value.id == 'self':
                    s, tk_ = eng.ev1(e.args[0], st)
                    kws = {}
                    for k in e.keywords: s, kws[k.arg] = eng.ev1(k.value, s)
                    Lv = fresh('one', LT); s.assume(And(ln(Lv) == 1, at(Lv, 0) == tk_.e, ForAll([x], mem(Lv, x) == (x == tk_.e), patterns=[mem(Lv, x)])))      # _to_list(task) = [task]
                    b = kws['before'].e if 'before' in kws else null; a = kws['after'].e if 'after' in kws else null
                    return move_call(eng, s, s.env['self'].e, Lv, b, a, e.lineno)
                return ListPlugin.call(self_, eng, e, st)

            def ev_Subscript(self_, eng, e, st):
                if isinstance(e.slice, ast.Slice): return NotImplemented
                s, o = eng.ev1(e.value, st)
                if o.s != LR: return NotImplemented
                s, i_ = eng.ev1(e.slice, s)
                lst = self_.listval(eng, s, o, e.lineno); n = ln(lst)
                s.oblige('safe/IndexError', And(i_.e < n, i_.e >= -n), f'@{e.lineno}')
                return [(s, V(at(lst, If(i_.e < 0, n + i_.e, i_.e)), T))]
        def req(lab):
            def f(c):
                h = H(c.eng, c.st)
                extra = {'task-is-no-hidden-root': ForAll([w_], Implies(w_ != W.null, h.root[w_] != c['task'])),
                         'facade-aliases-its-parents-list-object': And(c['self'] != FAC.null, fp(c) != null, fl(c) != LR.null, fl(c) == h.chl[fp(c)]),
                         'NN-children-non-null': ForAll([t_, x], Implies(And(t_ != null, mem(h.ch(t_), x)), x != null), patterns=[mem(h.ch(t_), x)])}
                return {**Inv(h), **extra}[lab]
            return f
        labels = list(INV_LABELS)
        newtask = lambda c: Not(mem(L0(c), c['task']))
        fc = {'sig': {'self': FAC, 'index': INT, 'task': T}, 'locals': {'anchor': T},
              'requires': [(l_, req(l_)) for l_ in labels + ['task-is-no-hidden-root', 'facade-aliases-its-parents-list-object', 'NN-children-non-null']],
              'raises': {'RuntimeError': [('C15/rejected-call-changes-nothing', lambda c: And(H(c.eng, c.st).par == pre_h(c).par, H(c.eng, c.st).elems == pre_h(c).elems, H(c.eng, c.st).own == pre_h(c).own)),
                                          ('C01,C05,C11/rejected-only-for-None-or-a-stated-reason', rc)]},
              'ensures': [('C16/a-new-task-ends-up-at-index-i (0 <= i <= old length)', lambda c: Implies(And(newtask(c), 0 <= c['index'], c['index'] <= ln(L0(c))), And(mem(L1(c), c['task']), idx(L1(c), c['task']) == c['index']))),
                          ('C16/members-are-the-old-members-plus-the-task-each-once', lambda c: And(nodup(L1(c)), ForAll([x], mem(L1(c), x) == Or(mem(L0(c), x), x == c['task'])))),
                          ('C16/other-siblings-keep-their-relative-order', lambda c: ForAll([a_, b_], Implies(And(mem(L0(c), a_), mem(L0(c), b_), a_ != c['task'], b_ != c['task']),
                                                                                                           (idx(L1(c), a_) < idx(L1(c), b_)) == (idx(L0(c), a_) < idx(L0(c), b_))))),
                          ('C01,C05,C11/accepted-only-without-a-reason-to-reject', lambda c: Not(rc(c))),
                          ('C16/task-reports-the-facades-parent', lambda c: H(c.eng, c.st).par[c['task']] == fp(c, 'pre'))]}
        return Engine(F, '_ChildrenList.insert', {'fn:_check_not_none': c_check_not_none, 'setprop:Task.parent': c_set_parent}, FAC_CLASSES, fc, plugins=[InsertPlugin()]), LIST_AX + LIST_INS_AX + GRAPH_AX
    return Unit('_ChildrenList.insert', F, build, ['C15', 'C16'], timeout_ms=15000)


UNITS.append(insert_unit())


# ================================================================================================ link list facades: append / remove
LFAC = REF('LinkFacade')
LFAC_CLASSES = dict(TASK_CLASSES); LFAC_CLASSES['LinkFacade'] = {'_parent': T, '_list': LR}


def link_setter_call(eng, st, side, me, V_, line):
    """contract of Task.predecessors.setter / successors.setter at a call site with a list value V_ of non-None tasks (proved by link_setter_unit)"""
    h0 = H(eng, st); E0 = st.ghost['E']
    M = (lambda h, t: h.P(t)) if side == 'pre' else (lambda h, t: h.S(t))
    O = (lambda h, t: h.S(t)) if side == 'pre' else (lambda h, t: h.P(t))
    for lab, g in LInv_side(side, h0, E0).items(): st.oblige(f'req@link.setter/{lab}', g, f'@{line}')
    st.oblige('req@link.setter/C01/F4-no-task-is-its-own-ancestor', And(Acyc(h0.par), h0.par[null] == null), f'@{line}')
    st.oblige('req@link.setter/hidden-root-has-reserved-id', ForAll([w_], Implies(w_ != W.null, And(h0.root[w_] != null, h0.tid[h0.root[w_]] == EMPTY, h0.par[h0.root[w_]] == null)), patterns=[h0.root[w_]]), f'@{line}')
    oblige_struct(st, h0, 'link.setter', line, up=True, below=me)
    st.oblige('req@link.setter/value-of-public-non-None-tasks', And(me != null, ForAll([x], Implies(mem(V_, x), And(x != null, h0.tid[x] != EMPTY)))), f'@{line}')
    rc = Exists([x], And(mem(V_, x), Or(x == me, Desc(h0.par, x, me), Desc(h0.par, me, x), TCp(E0, me, x))))
    exc = st.fork(rc); ok = st.fork(Not(rc))
    for k in ('PyList.elems', 'Task._Task__predecessors', 'Task._Task__successors'): eng.havoc(ok, k)
    E1 = Const(f'E!{fresh_id()}', REL); ok.ghost['E'] = E1
    h1 = H(eng, ok)
    for g in LInv_side(side, h1, E1).values(): ok.assume(g)
    ok.assume(And(ForAll([x], mem(M(h1, me), x) == mem(V_, x), patterns=[mem(M(h1, me), x)]), nodup(M(h1, me)),
                  ForAll([a_, b_], Implies(And(mem(M(h1, me), a_), mem(M(h1, me), b_)), (idx(M(h1, me), a_) < idx(M(h1, me), b_)) == (idx(V_, a_) < idx(V_, b_))), patterns=[MultiPattern(idx(M(h1, me), a_), idx(M(h1, me), b_))]),
                  ForAll([t_], Implies(And(t_ != null, t_ != me), M(h1, t_) == M(h0, t_)), patterns=[M(h1, t_)]),
                  ForAll([a_, b_], Implies(a_ != null, mem(O(h1, a_), b_) == If(b_ == me, mem(V_, a_), mem(O(h0, a_), b_))), patterns=[mem(O(h1, a_), b_)]),
                  h1.par == h0.par, h1.chl == h0.chl, ForAll([t_], Implies(t_ != null, h1.ch(t_) == h0.ch(t_)), patterns=[h1.chl[t_]])))
    return [(ok, V(None, NONE)), (exc, Raise('RuntimeError'))], rc


def link_facade_unit(side, op):
    cls = '_PredecessorsList' if side == 'pre' else '_SuccessorsList'
    pname = 'predecessors' if side == 'pre' else 'successors'

    def build():
        M = (lambda h, t: h.P(t)) if side == 'pre' else (lambda h, t: h.S(t))
        O = (lambda h, t: h.S(t)) if side == 'pre' else (lambda h, t: h.P(t))
        mref = (lambda h, t: h.pre[t]) if side == 'pre' else (lambda h, t: h.suc[t])
        par_ = lambda c, w='cur': Select(c.fld('LinkFacade', '_parent', w), c['self'])
        fl = lambda c, w='cur': Select(c.fld('LinkFacade', '_list', w), c['self'])
        hc = lambda c: H(c.eng, c.st); h0 = lambda c: H(c.eng, c.pre)
        state = {}

        class FacadePlugin(ListPlugin):
            def getattr_hook(self_, eng, s, o, attr, node):
                return None

            def ev_Attribute(self_, eng, e, st):
                # self.__parent (name-mangled per class) -> the facade's owner task; owner.predecessors / .successors -> the owner's list object
                if isinstance(e.value, ast.Name) and e.value.id == 'self' and e.attr == '__parent':
                    return [(st, V(Select(eng.field(st, 'LinkFacade', '_parent'), st.env['self'].e), T))]
                if e.attr == pname and isinstance(e.ctx, ast.Load):
                    s, o = eng.ev1(e.value, st)
                    if o.s == T:
                        s.oblige('safe/AttributeError-None', o.e != null, f'@{e.lineno}')
                        return [(s, V(mref(H(eng, s), o.e), LR))]
                return NotImplemented

            def ev_ListComp(self_, eng, e, st):
                g = e.generators[0]
                if not (isinstance(e.elt, ast.Name) and e.elt.id == g.target.id): return NotImplemented
                s, xs = eng.ev1(g.iter, st); lv = self_.listval(eng, s, xs, e.lineno)
                if not g.ifs: return [(s, V(lv, LT))]
                if len(g.ifs) == 1 and ast.unparse(g.ifs[0]).replace(' ', '') == f'{g.target.id}!=task':
                    tk_ = s.env['task'].e; Fv = fresh('without', LT)
                    s.assume(And(ForAll([x], mem(Fv, x) == And(mem(lv, x), x != tk_), patterns=[mem(Fv, x)]), Implies(nodup(lv), nodup(Fv)),
                                 ForAll([a_, b_], Implies(And(mem(Fv, a_), mem(Fv, b_)), (idx(Fv, a_) < idx(Fv, b_)) == (idx(lv, a_) < idx(lv, b_))), patterns=[MultiPattern(idx(Fv, a_), idx(Fv, b_))])))
                    return [(s, V(Fv, LT))]
                raise Unsupported('comprehension filter')

            def ev_List(self_, eng, e, st):
                if len(e.elts) != 1: return NotImplemented
                s, v = eng.ev1(e.elts[0], st)
                Lv = fresh('one', LT); s.assume(And(ln(Lv) == 1, at(Lv, 0) == v.e, nodup(Lv), ForAll([x], mem(Lv, x) == (x == v.e), patterns=[mem(Lv, x)])))
                return [(s, V(Lv, LT))]

            def binop(self_, eng, st, k, l_, r, line):
                if k == 'Add' and l_.s == LT and r.s == LT: return V(cat(l_.e, r.e), LT)
                return NotImplemented

            def assign(self_, eng, s, target, v):
                if isinstance(target, ast.Attribute) and target.attr == pname and v.s == LT:
                    s2, o = eng.ev1(target.value, s)
                    if op == 'remove':
                        # cut: a task's current links never give the setter a reason to reject (they passed its checks when they were made:
                        # X1 for the hierarchy, M2 + SYNC for cycles) - proved here clause by clause, then used
                        hh = H(eng, s2); E0 = s2.ghost['E']; m = o.e; cur = M(hh, m); cut = []
                        for lab, g in (('not-the-task-itself', lambda y: y != m), ('not-an-ancestor', lambda y: Not(Desc(hh.par, y, m))), ('not-a-descendant', lambda y: Not(Desc(hh.par, m, y))),
                                       ('not-on-a-cycle', lambda y: And(E0[m][y], Not(TCp(E0, m, y))))):
                            f = ForAll([x], Implies(mem(cur, x), g(x)), patterns=[mem(cur, x)])
                            s2.oblige(f'lemma/C01/current-links-are-acceptable/{lab}', f, f'@{target.lineno}'); cut.append(f)
                        for f in cut: s2.assume(f)
                    res, rc = link_setter_call(eng, s2, side, o.e, v.e, target.lineno)
                    state['rc'] = rc
                    return [(s3, r if isinstance(r, Raise) else FALL) for s3, r in res]
                return NotImplemented
        me = lambda c: par_(c, 'pre')
        V0 = lambda c: cat(M(h0(c), me(c)), _one(c['task'])) if op == 'append' else None

        def rc(c):
            if op == 'remove': return c['task'] == null
            hh = h0(c); E0 = c.pre.ghost['E']; t = c['task']; m = me(c)
            bad = lambda x: Or(x == m, Desc(hh.par, x, m), Desc(hh.par, m, x), TCp(E0, m, x))
            return Or(t == null, bad(t), Exists([x], And(mem(M(hh, m), x), bad(x))))
        reqs = [(l_, (lambda l_: lambda c: LInv_side(side, hc(c), c.st.ghost['E'])[l_])(l_)) for l_ in LINK_LABS] + \
               [('facade-of-a-public-task', lambda c: And(c['self'] != LFAC.null, par_(c) != null, fl(c) == mref(hc(c), par_(c)), hc(c).tid[par_(c)] != EMPTY, Implies(c['task'] != null, hc(c).tid[c['task']] != EMPTY),
                                                        ForAll([x], Implies(mem(M(hc(c), par_(c)), x), hc(c).tid[x] != EMPTY), patterns=[mem(M(hc(c), par_(c)), x)]))),
                ('C01/F4-no-task-is-its-own-ancestor', lambda c: And(Acyc(hc(c).par), hc(c).par[null] == null)),
                ('C01/F1-F3-children-lists-mirror-the-parents', lambda c: forest_struct(hc(c), me(c))), ('DR-reserved-id-only-on-parentless-tasks', lambda c: up_struct(hc(c))),
                ('hidden-root-has-reserved-id', lambda c: ForAll([w_], Implies(w_ != W.null, And(hc(c).root[w_] != null, hc(c).tid[hc(c).root[w_]] == EMPTY, hc(c).par[hc(c).root[w_]] == null)), patterns=[hc(c).root[w_]]))]
        unchanged = lambda c: And(hc(c).elems == h0(c).elems, hc(c).pre == h0(c).pre, hc(c).suc == h0(c).suc, hc(c).par == h0(c).par)
        ens = [(l_, (lambda l_: lambda c: LInv_side(side, hc(c), c.st.ghost['E'])[l_])(l_)) for l_ in LINK_LABS]
        if op == 'append':
            ens += [('C16/list-is-the-old-list-plus-the-task', lambda c: ForAll([x], mem(M(hc(c), me(c)), x) == Or(mem(M(h0(c), me(c)), x), x == c['task']))),
                    ('C16/old-links-keep-their-order', lambda c: ForAll([a_, b_], Implies(And(mem(M(h0(c), me(c)), a_), mem(M(h0(c), me(c)), b_)),
                                                                                          (idx(M(hc(c), me(c)), a_) < idx(M(hc(c), me(c)), b_)) == (idx(M(h0(c), me(c)), a_) < idx(M(h0(c), me(c)), b_))))),
                    ('C16/a-new-link-comes-last', lambda c: Implies(Not(mem(M(h0(c), me(c)), c['task'])), ForAll([a_], Implies(mem(M(h0(c), me(c)), a_), idx(M(hc(c), me(c)), a_) < idx(M(hc(c), me(c)), c['task']))))),
                    ('C16/mirror-side-updated', lambda c: ForAll([a_, b_], Implies(a_ != null, mem(O(hc(c), a_), b_) == If(And(b_ == me(c), a_ == c['task']), BoolVal(True), mem(O(h0(c), a_), b_))))),
                    ('C16/links-of-all-other-tasks-unchanged', lambda c: ForAll([t_], Implies(And(t_ != null, t_ != me(c)), M(hc(c), t_) == M(h0(c), t_)))),
                    ('C01/accepted-only-without-a-reason-to-reject', lambda c: Not(rc(c)))]
        else:
            ens += [('C16/return-value-tells-membership', lambda c: c.result.e == mem(M(h0(c), me(c)), c['task'])),
                    ('C16/list-is-the-old-list-without-the-task-order-kept', lambda c: And(ForAll([x], mem(M(hc(c), me(c)), x) == And(mem(M(h0(c), me(c)), x), x != c['task'])),
                                                                                         ForAll([a_, b_], Implies(And(mem(M(hc(c), me(c)), a_), mem(M(hc(c), me(c)), b_)),
                                                                                                                  (idx(M(hc(c), me(c)), a_) < idx(M(hc(c), me(c)), b_)) == (idx(M(h0(c), me(c)), a_) < idx(M(h0(c), me(c)), b_)))))),
                    ('C16/mirror-side-updated', lambda c: ForAll([a_, b_], Implies(a_ != null, mem(O(hc(c), a_), b_) == And(mem(O(h0(c), a_), b_), Not(And(b_ == me(c), a_ == c['task'])))))),
                    ('C16/links-of-all-other-tasks-unchanged', lambda c: ForAll([t_], Implies(And(t_ != null, t_ != me(c)), M(hc(c), t_) == M(h0(c), t_))))]
        fc = {'sig': {'self': LFAC, 'task': T}, 'ghost': {'E': S('REL', REL)},
              'requires': reqs,
              'raises': {'RuntimeError': [('C15/rejected-call-changes-nothing', unchanged), ('C01/rejected-only-for-None-or-a-stated-reason', rc)]},
              'ensures': ens}
        return Engine(F, f'{cls}.{op}', {'fn:_check_not_none': c_check_not_none}, LFAC_CLASSES, fc, plugins=[FacadePlugin()]), LIST_AX + LIST_CAT_AX + GRAPH_AX + DEP_AX
    return Unit(f'{cls}.{op}', F, build, ['C01', 'C15', 'C16'], timeout_ms=15000)


def _one(t):
    return None


UNITS += [link_facade_unit('pre', 'append'), link_facade_unit('pre', 'remove'), link_facade_unit('suc', 'append'), link_facade_unit('suc', 'remove')]
