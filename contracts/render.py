"""Sidecar contracts for the renderers (C19) - reduced scope (DESIGN.md section 10): only the value-level clauses that live in
pjplan's own code are proved: the state/flag token of a Mermaid Gantt task line and the DHTMLX progress value.  Everything about
the emitted documents (one line / entry per task, separators, JSON well-formedness, escaping, what a browser makes of a task name)
is covered by the bounded native stand-in at the lexical level only.
"""
import ast
from z3 import *
from pyvc.core import *
from pyvc.unit import Unit

TASK = REF('Task'); OT = OPT(TIME); OR_ = OPT(REAL)
t_est = Function('task_estimate', TASK.z, OR_.z); t_spent = Function('task_spent', TASK.z, OR_.z)
CLASSES = {'Task': {'milestone': BOOL, 'start': OT, 'end': OT}}
CONTRACTS = {'prop:Task.estimate': lambda eng, st, recv, a, k, n: [(st, V(t_est(recv.e), OR_))],
             'prop:Task.spent': lambda eng, st, recv, a, k, n: [(st, V(t_spent(recv.e), OR_))]}
FG = 'pjplan/viz/mermaid/gantt.py'; FD = 'pjplan/viz/dhtmlx/gantt.py'


def state_unit():
    def build():
        ms = lambda c: Select(c.fld('Task', 'milestone'), c['task'])
        st_ = lambda c: OT.dt.val(Select(c.fld('Task', 'start'), c['task'])); en = lambda c: OT.dt.val(Select(c.fld('Task', 'end'), c['task']))
        now = lambda c: c.st.ghost['nows'][0] if c.st.ghost.get('nows') else c.st.ghost['now']
        fc = {'sig': {'task': TASK}, 'clock': True, 'locals': {'now': TIME},
              'requires': [('scheduled-task', lambda c: And(c['task'] != TASK.null, OT.dt.is_some(Select(c.fld('Task', 'start'), c['task'])), OT.dt.is_some(Select(c.fld('Task', 'end'), c['task']))))],
              'ensures': [('C19/task-line-carries-the-milestone-flag-exactly-for-milestones', lambda c: (c.result.e == StringVal('milestone,')) == ms(c)),
                          ('C19/state-token-of-a-non-milestone-follows-its-dates', lambda c: Implies(Not(ms(c)), c.result.e == If(en(c) <= c['now'], StringVal('done,'), If(st_(c) < c['now'], StringVal('active,'), StringVal('')))))]}
        return Engine(FG, 'MermaidGantt.__mermaid_task_state', {}, CLASSES, fc), []
    return Unit('MermaidGantt.__mermaid_task_state', FG, build, ['C19'])


class ProgressBlock:
    """the statements of DhtmlxGantt.__data that compute `progress` for one task (real AST), executed for an arbitrary scheduled task"""

    def __init__(self):
        self.src = Source.get(FD)
        fn, _ = self.src.find('DhtmlxGantt.__data')
        blocks = [b for b in ast.walk(fn) if isinstance(b, ast.For)]
        self.stmts = None
        for b in blocks:
            for k, s in enumerate(b.body):
                if isinstance(s, ast.Assign) and ast.unparse(s.targets[0]) == 'progress' and k + 1 < len(b.body) and isinstance(b.body[k + 1], ast.If):
                    self.stmts = [s, b.body[k + 1]]
        if self.stmts is None: raise Unsupported('DhtmlxGantt.__data: the `progress = ...; if ...` statements were not found')
        self.eng = Engine(FD, 'DhtmlxGantt.__data', CONTRACTS, CLASSES, {'sig': {}, 'expressions_only': True, 'locals': {'progress': REAL}})

    def run(self):
        t = Const('t', TASK.z); st = St(); st.env['t'] = V(t, TASK)
        st.assume(And(t != TASK.null, OT.dt.is_some(Select(self.eng.field(st, 'Task', 'end'), t)),
                      OR_.dt.is_some(t_est(t)), OR_.dt.val(t_est(t)) >= 0, Implies(OR_.dt.is_some(t_spent(t)), OR_.dt.val(t_spent(t)) >= 0)))        # a scheduled task
        st.obs.append(('cover/pre-condition-satisfiable', list(st.conds), None, 'progress block'))
        for s, o in self.eng.block(self.stmts, st):
            if isinstance(o, Raise):
                s.oblige('safe/C19/progress-computation-never-raises', BoolVal(False)); continue
            p = s.env['progress']
            pe = ToReal(p.e) if p.s == INT else p.e
            s.oblige('lemma/C19/progress-within-0-and-1', And(pe >= 0, pe <= 1), 'DhtmlxGantt.__data')
        return st.obs


def progress_unit():
    return Unit('DhtmlxGantt.__data.progress', FD, lambda: (ProgressBlock(), []), ['C19'])


UNITS = [state_unit(), progress_unit()]


# ================================================================================================ MermaidNetwork.__src: one line per edge (C19, line count)
# Length-only text theory of contracts/text.py (nl = number of line breaks): the emitted source has the heading line, then for every member task one
# line per predecessor - or ONE Start line if it has none - and one style line per task that carries a bar style.  Domain: task names are texts without
# line breaks (the property's quantifier: single-line names); the rendered style dictionary is a text without line breaks (assumed).  What the lines SAY
# (ids, names, escaping, the arrow in a name - known finding A-29) stays with the bounded stand-in.
from contracts.graph_theory import *
from contracts.task import H, TASK_CLASSES
from contracts.children import ChildrenPlugin
from contracts.closure import dfs, same_heap, c_id
from contracts.text import TXT, nl, cat, L as lit, TextPlugin, text_axioms
from pyvc.unit import Unit          # (z3 exports a `Unit` of its own, re-exported by graph_theory)

FN = 'pjplan/viz/mermaid/network.py'
NET = REF('MermaidNetwork')
NCL = dict(TASK_CLASSES); NCL['Task'] = dict(TASK_CLASSES['Task'], name=TXT); NCL['MermaidNetwork'] = {'wbs': W}
has_style = Function('has_bar_style', T.z, BoolSort())
edges_upto = Function('edge_lines_upto', ArraySort(LR.z, LT.z), ArraySort(T.z, LR.z), LT.z, IntSort(), IntSort()); styled_upto = Function('style_lines_upto', LT.z, IntSort(), IntSort())
em2, pm2 = Const('em2', ArraySort(LR.z, LT.z)), Const('pm2', ArraySort(T.z, LR.z)); l2 = Const('l2', LT.z); i2 = Int('i2')
COUNT_AX = [ForAll([em2, pm2, l2], edges_upto(em2, pm2, l2, 0) == 0, patterns=[edges_upto(em2, pm2, l2, 0)]),
            ForAll([em2, pm2, l2, i2], Implies(i2 >= 0, edges_upto(em2, pm2, l2, i2 + 1) == edges_upto(em2, pm2, l2, i2) + If(ln(em2[pm2[at(l2, i2)]]) == 0, 1, ln(em2[pm2[at(l2, i2)]]))), patterns=[edges_upto(em2, pm2, l2, i2 + 1)]),
            ForAll([l2], styled_upto(l2, 0) == 0, patterns=[styled_upto(l2, 0)]),
            ForAll([l2, i2], Implies(i2 >= 0, styled_upto(l2, i2 + 1) == styled_upto(l2, i2) + If(has_style(at(l2, i2)), 1, 0)), patterns=[styled_upto(l2, i2 + 1)])]


class _NetAxioms(list):
    """the axioms about string literals depend on which literals the symbolic execution has met: evaluated when the solver asks for them"""
    def __iter__(self): return iter(LIST_AX + COUNT_AX + text_axioms())
    def __len__(self): return len(LIST_AX + COUNT_AX + text_axioms())


class NetSrcPlugin(TextPlugin):
    def ev_JoinedStr(self, eng, e, st):
        """f-string: a text whose number of line breaks is that of its constant parts plus that of the embedded texts (numbers have none)"""
        s = st; n = IntVal(sum(p.value.count('\n') for p in e.values if isinstance(p, ast.Constant)))
        for p in e.values:
            if isinstance(p, ast.FormattedValue):
                s, v = eng.ev1(p.value, s)
                if v.s == TXT: n = n + nl(v.e)
                elif v.s != INT: raise Unsupported(f'f-string part of sort {v.s}')
        r = fresh('fstring', TXT); s.assume(nl(r) == n)
        return [(s, V(r, TXT))]

    def ev_Attribute(self, eng, e, st):
        if isinstance(e.ctx, ast.Load) and e.attr in ('__dict__', 'network_bar_style'):
            s, o = eng.ev1(e.value, st)
            if o.s == T:
                s.oblige('safe/AttributeError-None', o.e != null, f'@{e.lineno}')
                return [(s, V(o.e, S('TaskDictOf', T.z)))]
        return NotImplemented

    def cmp(self, eng, st, k, l_, r, line):
        if k == 'In' and l_.s == TXT and r.s.name == 'TaskDictOf' and l_.e.eq(lit('network_bar_style')): return has_style(r.e)
        return NotImplemented

    def call(self, eng, e, st):
        f = e.func
        if isinstance(f, ast.Attribute) and f.attr == 'replace' and len(e.args) == 2:
            s, v = eng.ev1(f.value, st)
            if v.s == TXT and all(isinstance(a, ast.Constant) and isinstance(a.value, str) and '\n' not in a.value for a in e.args):
                r = fresh('replaced', TXT); s.assume(nl(r) == nl(v.e))          # neither the removed nor the inserted piece contains a line break
                return [(s, V(r, TXT))]
        return TextPlugin.call(self, eng, e, st)


def network_src_unit():
    def build():
        hc = lambda c: H(c.eng, c.st)
        wbs = lambda c: Select(c.fld('MermaidNetwork', 'wbs'), c['self'])
        TS = lambda c: dfs(hc(c).chl, hc(c).elems, hc(c).root[wbs(c)])
        name = lambda c, t: Select(c.fld('Task', 'name'), t)
        edges = lambda c, i: edges_upto(hc(c).elems, hc(c).pre, TS(c), i); npre = lambda c, t: ln(hc(c).P(t))

        def c_tasks(eng, st, recv, args, kws, node):          # WBS.tasks (proved in contracts/closure.py): the depth-first listing of the members
            h = H(eng, st); return [(st, V(dfs(h.chl, h.elems, h.root[recv.e]), LT))]

        def c_style(eng, st, recv, args, kws, node):          # __dict_to_style: 'k:v' pairs joined by commas - assumed free of line breaks
            r = fresh('style', TXT); st.assume(nl(r) == 0); return [(st, V(r, TXT))]
        c_pre = lambda eng, st, recv, a, k, n: [(st, V(H(eng, st).pre[recv.e], LR))]
        fc = {'sig': {'self': NET}, 'locals': {'res': TXT, 't': T, 'p': T, 't_name': TXT, 'p_name': TXT},
              'requires': [('renderer-has-a-wbs', lambda c: And(c['self'] != NET.null, wbs(c) != W.null)),
                           ('members-exist-their-predecessor-lists-exist-and-hold-no-None', lambda c: And(ForAll([i2], Implies(And(0 <= i2, i2 < ln(TS(c))), And(at(TS(c), i2) != null, hc(c).pre[at(TS(c), i2)] != LR.null)), patterns=[at(TS(c), i2)]),
                                                                                                        ForAll([t_r, a_r], Implies(And(t_r != null, mem(hc(c).P(t_r), a_r)), a_r != null), patterns=[mem(hc(c).P(t_r), a_r)]))),
                           ('names-are-single-line-texts', lambda c: ForAll([t_r], nl(name(c, t_r)) == 0, patterns=[name(c, t_r)]))],
              'loops': {0: {'fingerprint': 'for t in self.wbs.tasks', 'invariant': [('edge-lines-so-far', lambda c: And(same_heap(c), c['_i0'] >= 0, c['_i0'] <= ln(TS(c)), nl(c['res']) == 1 + edges(c, c['_i0'])))]},
                        1: {'fingerprint': 'for p in t.predecessors',
                            'invariant': [('edge-lines-of-this-task-so-far', lambda c: And(same_heap(c), c['_i0'] >= 1, c['_i0'] <= ln(TS(c)), c['t'] == at(TS(c), c['_i0'] - 1), c['t'] != null, npre(c, c['t']) > 0,
                                                                                       c['_i1'] >= 0, c['_i1'] <= npre(c, c['t']), nl(c['t_name']) == 0, nl(c['res']) == 1 + edges(c, c['_i0'] - 1) + c['_i1']))]},
                        2: {'fingerprint': 'for t in self.wbs.tasks',
                            'invariant': [('style-lines-so-far', lambda c: And(same_heap(c), c['_i2'] >= 0, c['_i2'] <= ln(TS(c)), nl(c['res']) == 1 + edges(c, ln(TS(c))) + styled_upto(TS(c), c['_i2'])))]}},
              'ensures': [('C19/one-line-per-dependency-one-Start-line-per-task-without-predecessors-one-style-line-per-styled-task',
                           lambda c: nl(c.result.e) == 1 + edges(c, ln(TS(c))) + styled_upto(TS(c), ln(TS(c)))), ('C19/reads-the-task-graph-only', same_heap)]}
        contracts = {'prop:WBS.tasks': c_tasks, 'prop:Task.predecessors': c_pre, 'prop:Task.id': c_id, 'MermaidNetwork._MermaidNetwork__dict_to_style': c_style}
        return Engine(FN, 'MermaidNetwork.__src', contracts, NCL, fc, plugins=[NetSrcPlugin(), ChildrenPlugin()]), _NetAxioms()
    return Unit('MermaidNetwork.__src', FN, build, ['C19'], timeout_ms=15000)


t_r, a_r = Consts('t_r a_r', T.z)
UNITS += [network_src_unit()]
