"""Sidecar contracts for the renderers (C19) - reduced scope (DESIGN.md section 10): only the value-level clauses that live in
pjplan's own code are proved: the state/flag token of a Mermaid Gantt task line and the DHTMLX progress value.  Everything about
the emitted documents (one line / entry per task, separators, JSON well-formedness, escaping, what a browser makes of a task name)
is covered by the bounded native stand-in at the lexical level only.
"""
import ast
from z3 import *
from pyvc.core import *
from pyvc.unit import Unit

TASK = REF('Task'); OT = OPT(TIME); OR_ = OPT(REAL)
t_est = Function('task_estimate', TASK.z, OR_.z); t_spent = Function('task_spent', TASK.z, OR_.z)
CLASSES = {'Task': {'milestone': BOOL, 'start': OT, 'end': OT}}
CONTRACTS = {'prop:Task.estimate': lambda eng, st, recv, a, k, n: [(st, V(t_est(recv.e), OR_))],
             'prop:Task.spent': lambda eng, st, recv, a, k, n: [(st, V(t_spent(recv.e), OR_))]}
FG = 'pjplan/viz/mermaid/gantt.py'; FD = 'pjplan/viz/dhtmlx/gantt.py'


def state_unit():
    def build():
        ms = lambda c: Select(c.fld('Task', 'milestone'), c['task'])
        st_ = lambda c: OT.dt.val(Select(c.fld('Task', 'start'), c['task'])); en = lambda c: OT.dt.val(Select(c.fld('Task', 'end'), c['task']))
        now = lambda c: c.st.ghost['nows'][0] if c.st.ghost.get('nows') else c.st.ghost['now']
        fc = {'sig': {'task': TASK}, 'clock': True, 'locals': {'now': TIME},
              'requires': [('scheduled-task', lambda c: And(c['task'] != TASK.null, OT.dt.is_some(Select(c.fld('Task', 'start'), c['task'])), OT.dt.is_some(Select(c.fld('Task', 'end'), c['task']))))],
              'ensures': [('C19/task-line-carries-the-milestone-flag-exactly-for-milestones', lambda c: (c.result.e == StringVal('milestone,')) == ms(c)),
                          ('C19/state-token-of-a-non-milestone-follows-its-dates', lambda c: Implies(Not(ms(c)), c.result.e == If(en(c) <= c['now'], StringVal('done,'), If(st_(c) < c['now'], StringVal('active,'), StringVal('')))))]}
        return Engine(FG, 'MermaidGantt.__mermaid_task_state', {}, CLASSES, fc), []
    return Unit('MermaidGantt.__mermaid_task_state', FG, build, ['C19'])


class ProgressBlock:
    """the statements of DhtmlxGantt.__data that compute `progress` for one task (real AST), executed for an arbitrary scheduled task"""

    def __init__(self):
        self.src = Source.get(FD)
        fn, _ = self.src.find('DhtmlxGantt.__data')
        blocks = [b for b in ast.walk(fn) if isinstance(b, ast.For)]
        self.stmts = None
        for b in blocks:
            for k, s in enumerate(b.body):
                if isinstance(s, ast.Assign) and ast.unparse(s.targets[0]) == 'progress' and k + 1 < len(b.body) and isinstance(b.body[k + 1], ast.If):
                    self.stmts = [s, b.body[k + 1]]
        if self.stmts is None: raise Unsupported('DhtmlxGantt.__data: the `progress = ...; if ...` statements were not found')
        self.eng = Engine(FD, 'DhtmlxGantt.__data', CONTRACTS, CLASSES, {'sig': {}, 'expressions_only': True, 'locals': {'progress': REAL}})

    def run(self):
        t = Const('t', TASK.z); st = St(); st.env['t'] = V(t, TASK)
        st.assume(And(t != TASK.null, OT.dt.is_some(Select(self.eng.field(st, 'Task', 'end'), t)),
                      OR_.dt.is_some(t_est(t)), OR_.dt.val(t_est(t)) >= 0, Implies(OR_.dt.is_some(t_spent(t)), OR_.dt.val(t_spent(t)) >= 0)))        # a scheduled task
        st.obs.append(('cover/pre-condition-satisfiable', list(st.conds), None, 'progress block'))
        for s, o in self.eng.block(self.stmts, st):
            if isinstance(o, Raise):
                s.oblige('safe/C19/progress-computation-never-raises', BoolVal(False)); continue
            p = s.env['progress']
            pe = ToReal(p.e) if p.s == INT else p.e
            s.oblige('lemma/C19/progress-within-0-and-1', And(pe >= 0, pe <= 1), 'DhtmlxGantt.__data')
        return st.obs


def progress_unit():
    return Unit('DhtmlxGantt.__data.progress', FD, lambda: (ProgressBlock(), []), ['C19'])


UNITS = [state_unit(), progress_unit()]
