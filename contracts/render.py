"""Sidecar contracts for the renderers (C19) - reduced scope (DESIGN.md section 10): only the value-level clauses that live in
pjplan's own code are proved: the state/flag token of a Mermaid Gantt task line and the DHTMLX progress value.  Everything about
the emitted documents (one line / entry per task, separators, JSON well-formedness, escaping, what a browser makes of a task name)
is covered by the bounded native stand-in at the lexical level only.
"""
import ast
from z3 import *
from pyvc.core import *
from pyvc.unit import Unit

TASK = REF('Task'); OT = OPT(TIME); OR_ = OPT(REAL)
t_est = Function('task_estimate', TASK.z, OR_.z); t_spent = Function('task_spent', TASK.z, OR_.z)
CLASSES = {'Task': {'milestone': BOOL, 'start': OT, 'end': OT}}
CONTRACTS = {'prop:Task.estimate': lambda eng, st, recv, a, k, n: [(st, V(t_est(recv.e), OR_))],
             'prop:Task.spent': lambda eng, st, recv, a, k, n: [(st, V(t_spent(recv.e), OR_))]}
FG = 'pjplan/viz/mermaid/gantt.py'; FD = 'pjplan/viz/dhtmlx/gantt.py'


def state_unit():
    def build():
        ms = lambda c: Select(c.fld('Task', 'milestone'), c['task'])
        st_ = lambda c: OT.dt.val(Select(c.fld('Task', 'start'), c['task'])); en = lambda c: OT.dt.val(Select(c.fld('Task', 'end'), c['task']))
        now = lambda c: c.st.ghost['nows'][0] if c.st.ghost.get('nows') else c.st.ghost['now']
        fc = {'sig': {'task': TASK}, 'clock': True, 'locals': {'now': TIME},
              'requires': [('scheduled-task', lambda c: And(c['task'] != TASK.null, OT.dt.is_some(Select(c.fld('Task', 'start'), c['task'])), OT.dt.is_some(Select(c.fld('Task', 'end'), c['task']))))],
              'ensures': [('C19/task-line-carries-the-milestone-flag-exactly-for-milestones', lambda c: (c.result.e == StringVal('milestone,')) == ms(c)),
                          ('C19/state-token-of-a-non-milestone-follows-its-dates', lambda c: Implies(Not(ms(c)), c.result.e == If(en(c) <= c['now'], StringVal('done,'), If(st_(c) < c['now'], StringVal('active,'), StringVal('')))))]}
        return Engine(FG, 'MermaidGantt.__mermaid_task_state', {}, CLASSES, fc), []
    return Unit('MermaidGantt.__mermaid_task_state', FG, build, ['C19'])


class ProgressBlock:
    """the statements of DhtmlxGantt.__data that compute `progress` for one task (real AST), executed for an arbitrary scheduled task"""

    def __init__(self):
        self.src = Source.get(FD)
        fn, _ = self.src.find('DhtmlxGantt.__data')
        blocks = [b for b in ast.walk(fn) if isinstance(b, ast.For)]
        self.stmts = None
        for b in blocks:
            for k, s in enumerate(b.body):
                if isinstance(s, ast.Assign) and ast.unparse(s.targets[0]) == 'progress' and k + 1 < len(b.body) and isinstance(b.body[k + 1], ast.If):
                    self.stmts = [s, b.body[k + 1]]
        if self.stmts is None: raise Unsupported('DhtmlxGantt.__data: the `progress = ...; if ...` statements were not found')
        self.eng = Engine(FD, 'DhtmlxGantt.__data', CONTRACTS, CLASSES, {'sig': {}, 'expressions_only': True, 'locals': {'progress': REAL}})

    def run(self):
        t = Const('t', TASK.z); st = St(); st.env['t'] = V(t, TASK)
        st.assume(And(t != TASK.null, OT.dt.is_some(Select(self.eng.field(st, 'Task', 'end'), t)),
                      OR_.dt.is_some(t_est(t)), OR_.dt.val(t_est(t)) >= 0, Implies(OR_.dt.is_some(t_spent(t)), OR_.dt.val(t_spent(t)) >= 0)))        # a scheduled task
        st.obs.append(('cover/pre-condition-satisfiable', list(st.conds), None, 'progress block'))
        for s, o in self.eng.block(self.stmts, st):
            if isinstance(o, Raise):
                s.oblige('safe/C19/progress-computation-never-raises', BoolVal(False)); continue
            p = s.env['progress']
            pe = ToReal(p.e) if p.s == INT else p.e
            s.oblige('lemma/C19/progress-within-0-and-1', And(pe >= 0, pe <= 1), 'DhtmlxGantt.__data')
        return st.obs


def progress_unit():
    return Unit('DhtmlxGantt.__data.progress', FD, lambda: (ProgressBlock(), []), ['C19'])


UNITS = [state_unit(), progress_unit()]


# ================================================================================================ MermaidNetwork.__src: one line per edge (C19, line count)
# Length-only text theory of contracts/text.py (nl = number of line breaks): the emitted source has the heading line, then for every member task one
# line per predecessor - or ONE Start line if it has none - and one style line per task that carries a bar style.  Domain: task names are texts without
# line breaks (the property's quantifier: single-line names); the rendered style dictionary is a text without line breaks (assumed).  What the lines SAY
# (ids, names, escaping, the arrow in a name - known finding A-29) stays with the bounded stand-in.
from contracts.graph_theory import *
from contracts.task import H, TASK_CLASSES
from contracts.children import ChildrenPlugin
from contracts.closure import dfs, same_heap, c_id
from contracts.text import TXT, nl, cat, L as lit, TextPlugin, text_axioms
from pyvc.unit import Unit          # (z3 exports a `Unit` of its own, re-exported by graph_theory)

FN = 'pjplan/viz/mermaid/network.py'
NET = REF('MermaidNetwork')
NCL = dict(TASK_CLASSES); NCL['Task'] = dict(TASK_CLASSES['Task'], name=TXT); NCL['MermaidNetwork'] = {'wbs': W}
has_style = Function('has_bar_style', T.z, BoolSort())
edges_upto = Function('edge_lines_upto', ArraySort(LR.z, LT.z), ArraySort(T.z, LR.z), LT.z, IntSort(), IntSort()); styled_upto = Function('style_lines_upto', LT.z, IntSort(), IntSort())
em2, pm2 = Const('em2', ArraySort(LR.z, LT.z)), Const('pm2', ArraySort(T.z, LR.z)); l2 = Const('l2', LT.z); i2 = Int('i2')
COUNT_AX = [ForAll([em2, pm2, l2], edges_upto(em2, pm2, l2, 0) == 0, patterns=[edges_upto(em2, pm2, l2, 0)]),
            ForAll([em2, pm2, l2, i2], Implies(i2 >= 0, edges_upto(em2, pm2, l2, i2 + 1) == edges_upto(em2, pm2, l2, i2) + If(ln(em2[pm2[at(l2, i2)]]) == 0, 1, ln(em2[pm2[at(l2, i2)]]))), patterns=[edges_upto(em2, pm2, l2, i2 + 1)]),
            ForAll([l2], styled_upto(l2, 0) == 0, patterns=[styled_upto(l2, 0)]),
            ForAll([l2, i2], Implies(i2 >= 0, styled_upto(l2, i2 + 1) == styled_upto(l2, i2) + If(has_style(at(l2, i2)), 1, 0)), patterns=[styled_upto(l2, i2 + 1)])]


class _NetAxioms(list):
    """the axioms about string literals depend on which literals the symbolic execution has met: evaluated when the solver asks for them"""
    def __iter__(self): return iter(LIST_AX + COUNT_AX + text_axioms())
    def __len__(self): return len(LIST_AX + COUNT_AX + text_axioms())


class NetSrcPlugin(TextPlugin):
    def ev_JoinedStr(self, eng, e, st):
        """f-string: a text whose number of line breaks is that of its constant parts plus that of the embedded texts (numbers have none)"""
        s = st; n = IntVal(sum(p.value.count('\n') for p in e.values if isinstance(p, ast.Constant)))
        for p in e.values:
            if isinstance(p, ast.FormattedValue):
                s, v = eng.ev1(p.value, s)
                if v.s == TXT: n = n + nl(v.e)
                elif v.s != INT: raise Unsupported(f'f-string part of sort {v.s}')
        r = fresh('fstring', TXT); s.assume(nl(r) == n)
        return [(s, V(r, TXT))]

    def ev_Attribute(self, eng, e, st):
        if isinstance(e.ctx, ast.Load) and e.attr in ('__dict__', 'network_bar_style'):
            s, o = eng.ev1(e.value, st)
            if o.s == T:
                s.oblige('safe/AttributeError-None', o.e != null, f'@{e.lineno}')
                return [(s, V(o.e, S('TaskDictOf', T.z)))]
        return NotImplemented

    def cmp(self, eng, st, k, l_, r, line):
        if k == 'In' and l_.s == TXT and r.s.name == 'TaskDictOf' and l_.e.eq(lit('network_bar_style')): return has_style(r.e)
        return NotImplemented

    def call(self, eng, e, st):
        f = e.func
        if isinstance(f, ast.Attribute) and f.attr == 'replace' and len(e.args) == 2:
            s, v = eng.ev1(f.value, st)
            if v.s == TXT and all(isinstance(a, ast.Constant) and isinstance(a.value, str) and '\n' not in a.value for a in e.args):
                r = fresh('replaced', TXT); s.assume(nl(r) == nl(v.e))          # neither the removed nor the inserted piece contains a line break
                return [(s, V(r, TXT))]
        return TextPlugin.call(self, eng, e, st)


def network_src_unit():
    def build():
        hc = lambda c: H(c.eng, c.st)
        wbs = lambda c: Select(c.fld('MermaidNetwork', 'wbs'), c['self'])
        TS = lambda c: dfs(hc(c).chl, hc(c).elems, hc(c).root[wbs(c)])
        name = lambda c, t: Select(c.fld('Task', 'name'), t)
        edges = lambda c, i: edges_upto(hc(c).elems, hc(c).pre, TS(c), i); npre = lambda c, t: ln(hc(c).P(t))

        def c_tasks(eng, st, recv, args, kws, node):          # WBS.tasks (proved in contracts/closure.py): the depth-first listing of the members
            h = H(eng, st); return [(st, V(dfs(h.chl, h.elems, h.root[recv.e]), LT))]

        def c_style(eng, st, recv, args, kws, node):          # __dict_to_style: 'k:v' pairs joined by commas - assumed free of line breaks
            r = fresh('style', TXT); st.assume(nl(r) == 0); return [(st, V(r, TXT))]
        c_pre = lambda eng, st, recv, a, k, n: [(st, V(H(eng, st).pre[recv.e], LR))]
        fc = {'sig': {'self': NET}, 'locals': {'res': TXT, 't': T, 'p': T, 't_name': TXT, 'p_name': TXT},
              'requires': [('renderer-has-a-wbs', lambda c: And(c['self'] != NET.null, wbs(c) != W.null)),
                           ('members-exist-their-predecessor-lists-exist-and-hold-no-None', lambda c: And(ForAll([i2], Implies(And(0 <= i2, i2 < ln(TS(c))), And(at(TS(c), i2) != null, hc(c).pre[at(TS(c), i2)] != LR.null)), patterns=[at(TS(c), i2)]),
                                                                                                        ForAll([t_r, a_r], Implies(And(t_r != null, mem(hc(c).P(t_r), a_r)), a_r != null), patterns=[mem(hc(c).P(t_r), a_r)]))),
                           ('names-are-single-line-texts', lambda c: ForAll([t_r], nl(name(c, t_r)) == 0, patterns=[name(c, t_r)]))],
              'loops': {0: {'fingerprint': 'for t in self.wbs.tasks', 'invariant': [('edge-lines-so-far', lambda c: And(same_heap(c), c['_i0'] >= 0, c['_i0'] <= ln(TS(c)), nl(c['res']) == 1 + edges(c, c['_i0'])))]},
                        1: {'fingerprint': 'for p in t.predecessors',
                            'invariant': [('edge-lines-of-this-task-so-far', lambda c: And(same_heap(c), c['_i0'] >= 1, c['_i0'] <= ln(TS(c)), c['t'] == at(TS(c), c['_i0'] - 1), c['t'] != null, npre(c, c['t']) > 0,
                                                                                       c['_i1'] >= 0, c['_i1'] <= npre(c, c['t']), nl(c['t_name']) == 0, nl(c['res']) == 1 + edges(c, c['_i0'] - 1) + c['_i1']))]},
                        2: {'fingerprint': 'for t in self.wbs.tasks',
                            'invariant': [('style-lines-so-far', lambda c: And(same_heap(c), c['_i2'] >= 0, c['_i2'] <= ln(TS(c)), nl(c['res']) == 1 + edges(c, ln(TS(c))) + styled_upto(TS(c), c['_i2'])))]}},
              'ensures': [('C19/one-line-per-dependency-one-Start-line-per-task-without-predecessors-one-style-line-per-styled-task',
                           lambda c: nl(c.result.e) == 1 + edges(c, ln(TS(c))) + styled_upto(TS(c), ln(TS(c)))), ('C19/reads-the-task-graph-only', same_heap)]}
        contracts = {'prop:WBS.tasks': c_tasks, 'prop:Task.predecessors': c_pre, 'prop:Task.id': c_id, 'MermaidNetwork._MermaidNetwork__dict_to_style': c_style}
        return Engine(FN, 'MermaidNetwork.__src', contracts, NCL, fc, plugins=[NetSrcPlugin(), ChildrenPlugin()]), _NetAxioms()
    return Unit('MermaidNetwork.__src', FN, build, ['C19'], timeout_ms=15000)


t_r, a_r = Consts('t_r a_r', T.z)
UNITS += [network_src_unit()]


# ================================================================================================ MermaidGantt.__mermaid_task: a task line is exactly one line (C19)
GANTT = REF('MermaidGantt')
GCL = dict(NCL); GCL['Task'] = dict(NCL['Task'], start=OT, end=OT)


class TaskLinePlugin(NetSrcPlugin):
    def call(self, eng, e, st):
        f = e.func
        if isinstance(f, ast.Attribute) and f.attr == 'format' and isinstance(f.value, ast.Constant) and isinstance(f.value.value, str):
            # 'literal with {} places'.format(args): the line breaks of the literal plus those of the inserted texts
            s = st; n = IntVal(f.value.value.count('\n'))
            for a in e.args:
                s, v = eng.ev1(a, s)
                if v.s == TXT: n = n + nl(v.e)
                elif v.s != INT: raise Unsupported(f'format argument of sort {v.s}')
            r = fresh('formatted', TXT); s.assume(nl(r) == n)
            return [(s, V(r, TXT))]
        if isinstance(f, ast.Name) and f.id == 'str' and len(e.args) == 1:
            s, v = eng.ev1(e.args[0], st)
            if v.s == INT:
                r = fresh('number_text', TXT); s.assume(nl(r) == 0); return [(s, V(r, TXT))]
        if isinstance(f, ast.Attribute) and f.attr == 'strftime' and len(e.args) == 1 and isinstance(e.args[0], ast.Constant) and '\n' not in str(e.args[0].value):
            s, v = eng.ev1(f.value, st)
            eng.unwrap(s, v, 'safe/AttributeError-None', f'.strftime @{e.lineno}')
            r = fresh('date_text', TXT); s.assume(nl(r) == 0)          # the format '%d.%m.%Y %H:%M' has no line break
            return [(s, V(r, TXT))]
        return NetSrcPlugin.call(self, eng, e, st)


def task_line_unit():
    def build():
        name = lambda c, t: Select(c.fld('Task', 'name'), t)

        def c_state(eng, st, recv, args, kws, node):          # __mermaid_task_state (proved above): one of 'milestone,', 'done,', 'active,', '' - no line break
            r = fresh('state_token', TXT); st.assume(nl(r) == 0); return [(st, V(r, TXT))]
        fc = {'sig': {'self': GANTT, 't': T},
              'requires': [('scheduled-task-with-a-single-line-name', lambda c: And(c['self'] != GANTT.null, c['t'] != null, nl(name(c, c['t'])) == 0,
                                                                                   OT.dt.is_some(Select(c.fld('Task', 'start'), c['t'])), OT.dt.is_some(Select(c.fld('Task', 'end'), c['t']))))],
              'ensures': [('C19/a-task-line-is-exactly-one-line', lambda c: nl(c.result.e) == 1)]}
        contracts = {'MermaidGantt._MermaidGantt__mermaid_task_state': c_state, 'prop:Task.id': c_id}

        class _Ax(list):
            def __iter__(self): return iter(text_axioms())
            def __len__(self): return len(text_axioms())
        return Engine(FG, 'MermaidGantt.__mermaid_task', contracts, GCL, fc, plugins=[TaskLinePlugin()]), _Ax()
    return Unit('MermaidGantt.__mermaid_task', FG, build, ['C19'])


UNITS += [task_line_unit()]


# ================================================================================================ MermaidGantt.__src: one task line per task, one section line per section (C19, line count)
# The section dictionary (section -> list of its tasks, keys in insertion order) is a pair (K, M): key list and map.  total(K, M, n) = sum of len(M[K[j]]) for j < n;
# its three frame facts (TOTAL_AX: a key that is not among the first n keys does not matter, appending a key does not matter, replacing the list of a key that
# occurs once changes the sum by the difference of the lengths) are inductions over n - assumed here, checked on all small instances in selftest/validate_axioms.py.
from contracts.text import OTX, tlen
SECS = LIST(TXT); SMd = Datatype('SectionDict'); SMd.declare('mk', ('keys', SECS.z), ('lists', ArraySort(TXT.z, LT.z))); SMd = SMd.create(); SMAP = S('SectionDict', SMd)
smem = Function('has_section', SECS.z, TXT.z, BoolSort()); sidx = Function('section_index', SECS.z, TXT.z, IntSort()); sapp = Function('app_section', SECS.z, TXT.z, SECS.z); snodup = Function('sections_distinct', SECS.z, BoolSort())
noS = Const('no_sections', SECS.z); total = Function('tasks_in_first_sections', SECS.z, ArraySort(TXT.z, LT.z), IntSort(), IntSort())
has_sec = Function('has_gantt_section', T.z, BoolSort()); gsec = Function('gantt_section_of', T.z, TXT.z)
ks_, mm_ = Const('ks_', SECS.z), Const('mm_', ArraySort(TXT.z, LT.z)); sx_, sy_ = Consts('sx_ sy_', TXT.z); lv_ = Const('lv_', LT.z); n3 = Int('n3')
SEC_AX = [ForAll([ks_], SECS.len(ks_) >= 0), SECS.len(noS) == 0, snodup(noS), ForAll([sx_], Not(smem(noS, sx_)), patterns=[smem(noS, sx_)]),
          ForAll([ks_, sx_], Implies(smem(ks_, sx_), And(0 <= sidx(ks_, sx_), sidx(ks_, sx_) < SECS.len(ks_), SECS.at(ks_, sidx(ks_, sx_)) == sx_)), patterns=[smem(ks_, sx_)]),
          ForAll([ks_, n3], Implies(And(0 <= n3, n3 < SECS.len(ks_)), smem(ks_, SECS.at(ks_, n3))), patterns=[SECS.at(ks_, n3)]),
          ForAll([ks_, n3], Implies(And(snodup(ks_), 0 <= n3, n3 < SECS.len(ks_)), sidx(ks_, SECS.at(ks_, n3)) == n3), patterns=[MultiPattern(snodup(ks_), SECS.at(ks_, n3))]),
          ForAll([ks_, sx_], And(SECS.len(sapp(ks_, sx_)) == SECS.len(ks_) + 1, SECS.at(sapp(ks_, sx_), SECS.len(ks_)) == sx_, Implies(And(snodup(ks_), Not(smem(ks_, sx_))), snodup(sapp(ks_, sx_)))), patterns=[sapp(ks_, sx_)]),
          ForAll([ks_, sx_, n3], Implies(And(0 <= n3, n3 < SECS.len(ks_)), SECS.at(sapp(ks_, sx_), n3) == SECS.at(ks_, n3)), patterns=[SECS.at(sapp(ks_, sx_), n3)]),
          ForAll([ks_, sx_, sy_], smem(sapp(ks_, sx_), sy_) == Or(smem(ks_, sy_), sy_ == sx_), patterns=[smem(sapp(ks_, sx_), sy_)])]
TOTAL_AX = [ForAll([ks_, mm_], total(ks_, mm_, 0) == 0, patterns=[total(ks_, mm_, 0)]),
            ForAll([ks_, mm_, n3], Implies(n3 >= 0, total(ks_, mm_, n3 + 1) == total(ks_, mm_, n3) + ln(mm_[SECS.at(ks_, n3)])), patterns=[total(ks_, mm_, n3 + 1)]),
            # frame facts (inductions over n3)
            ForAll([ks_, mm_, sx_, lv_, n3], Implies(And(0 <= n3, n3 <= SECS.len(ks_), Not(smem(ks_, sx_))), total(ks_, Store(mm_, sx_, lv_), n3) == total(ks_, mm_, n3)), patterns=[total(ks_, Store(mm_, sx_, lv_), n3)]),
            ForAll([ks_, mm_, sx_, n3], Implies(And(0 <= n3, n3 <= SECS.len(ks_)), total(sapp(ks_, sx_), mm_, n3) == total(ks_, mm_, n3)), patterns=[total(sapp(ks_, sx_), mm_, n3)]),
            ForAll([ks_, mm_, sx_, lv_], Implies(And(snodup(ks_), smem(ks_, sx_)), total(ks_, Store(mm_, sx_, lv_), SECS.len(ks_)) == total(ks_, mm_, SECS.len(ks_)) - ln(mm_[sx_]) + ln(lv_)),
                   patterns=[total(ks_, Store(mm_, sx_, lv_), SECS.len(ks_))])]


class GanttSrcPlugin(TaskLinePlugin):
    def truth(self, eng, st, v):
        if v.s == OTX: return And(OTX.dt.is_some(v.e), tlen(OTX.dt.val(v.e)) > 0)
        if v.s.name == 'SectionSet': return v.e > 0
        return TaskLinePlugin.truth(self, eng, st, v)

    def ev_Attribute(self, eng, e, st):
        if isinstance(e.ctx, ast.Load) and e.attr in ('__dict__', 'gantt_section'):
            s, o = eng.ev1(e.value, st)
            if o.s == T:
                s.oblige('safe/AttributeError-None', o.e != null, f'@{e.lineno}')
                if e.attr == 'gantt_section':
                    s.oblige('safe/AttributeError-no-such-attribute', has_sec(o.e), f'.gantt_section @{e.lineno}')
                    return [(s, V(gsec(o.e), TXT))]
                return [(s, V(o.e, S('TaskDictOf', T.z)))]
        return NetSrcPlugin.ev_Attribute(self, eng, e, st)

    def cmp(self, eng, st, k, l_, r, line):
        if k == 'In' and l_.s == TXT and r.s.name == 'TaskDictOf' and l_.e.eq(lit('gantt_section')): return has_sec(r.e)
        return NetSrcPlugin.cmp(self, eng, st, k, l_, r, line)

    def ev_Dict(self, eng, e, st):
        if not e.keys: return [(st, V(SMd.mk(noS, K(TXT.z, empty)), SMAP))]
        return NotImplemented

    def call(self, eng, e, st):
        f = e.func
        if isinstance(f, ast.Name) and f.id == 'set' and len(e.args) == 1 and isinstance(e.args[0], ast.ListComp):          # the set of section names: only its size matters here
            n = fresh('number_of_sections', INT); st.assume(n >= 0); return [(st, V(n, S('SectionSet', IntSort())))]
        if isinstance(f, ast.Name) and f.id == 'len' and len(e.args) == 1:
            s, v = eng.ev1(e.args[0], st)
            if v.s.name == 'SectionSet': return [(s, V(v.e, INT))]
        if isinstance(f, ast.Attribute) and f.attr == 'append' and isinstance(f.value, ast.Call) and isinstance(f.value.func, ast.Attribute) and f.value.func.attr == 'setdefault' \
                and isinstance(f.value.func.value, ast.Name) and st.env.get(f.value.func.value.id) is not None and st.env[f.value.func.value.id].s == SMAP:
            nm = f.value.func.value.id; s, k = eng.ev1(f.value.args[0], st); s, v = eng.ev1(e.args[0], s)
            m = s.env[nm].e; Ks, Ms = SMd.keys(m), SMd.lists(m)
            inn = s.fork(smem(Ks, k.e)); new = s.fork(Not(smem(Ks, k.e)))          # d.setdefault(k, []).append(x): x joins the list of k, a new key goes to the end
            inn.env[nm] = V(SMd.mk(Ks, Store(Ms, k.e, app(Ms[k.e], v.e))), SMAP)
            new.env[nm] = V(SMd.mk(sapp(Ks, k.e), Store(Ms, k.e, app(empty, v.e))), SMAP)
            return [(inn, V(None, NONE)), (new, V(None, NONE))]
        if isinstance(f, ast.Attribute) and f.attr == 'format' and isinstance(f.value, ast.Constant) and len(e.args) == 1:
            s, v = eng.ev1(e.args[0], st)
            if v.s == OTX:
                vv = eng.unwrap(s, v, 'safe/None-formatted', f'@{e.lineno}')
                r = fresh('formatted', TXT); s.assume(nl(r) == f.value.value.count('\n') + nl(vv.e)); return [(s, V(r, TXT))]
        return TaskLinePlugin.call(self, eng, e, st)

    def for_loop(self, eng, stmt, st):
        if ast.unparse(stmt.iter) != 'sections_map.items()': return NotImplemented
        k = eng.loop_contract[eng.loop_ids[id(stmt)]][0]; idxn = f'_i{k}'; eng.locals[idxn] = INT
        st.env[idxn] = V(IntVal(0), INT); kn, vn = [x.id for x in stmt.target.elts]

        def guard(s): return [(s, s.env[idxn].e < SECS.len(SMd.keys(s.env['sections_map'].e)))]

        def pre(b):
            m = b.env['sections_map'].e; key = SECS.at(SMd.keys(m), b.env[idxn].e)
            b.env[kn] = V(key, TXT); b.env[vn] = V(SMd.lists(m)[key], LT); b.env[idxn] = V(b.env[idxn].e + 1, INT); return [b]
        return eng.loop(stmt, st, guard, pre, extra_havoc=[idxn, kn, vn])


def gantt_src_unit():
    def build():
        hc = lambda c: H(c.eng, c.st)
        wbs = lambda c: Select(c.fld('MermaidGantt', 'wbs'), c['self'])
        TS = lambda c: dfs(hc(c).chl, hc(c).elems, hc(c).root[wbs(c)])
        name = lambda c, t: Select(c.fld('Task', 'name'), t)
        okt = lambda c, t: And(t != null, nl(name(c, t)) == 0, OT.dt.is_some(Select(c.fld('Task', 'start'), t)), OT.dt.is_some(Select(c.fld('Task', 'end'), t)), Implies(has_sec(t), nl(gsec(t)) == 0))
        Ks = lambda c: SMd.keys(c['sections_map']); Ms = lambda c: SMd.lists(c['sections_map']); hdr = lambda c: c.st.ghost['hdr']
        secof = lambda t: If(has_sec(t), gsec(t), lit('-'))

        def c_tasks(eng, st, recv, args, kws, node):
            st.ghost['hdr'] = nl(st.env['res'].e)          # the lines of the heading written so far (ghost)
            h = H(eng, st); return [(st, V(dfs(h.chl, h.elems, h.root[recv.e]), LT))]

        def c_task_line(eng, st, recv, args, kws, node):          # __mermaid_task (proved above): exactly one line
            t = args[0].e
            st.oblige('req@__mermaid_task/scheduled-task-with-a-single-line-name', And(t != null, nl(Select(eng.field(st, 'Task', 'name'), t)) == 0,
                                                                                      OT.dt.is_some(Select(eng.field(st, 'Task', 'start'), t)), OT.dt.is_some(Select(eng.field(st, 'Task', 'end'), t))), f'@{node.lineno}')
            r = fresh('task_line', TXT); st.assume(nl(r) == 1); return [(st, V(r, TXT))]
        map_ok = lambda c: And(snodup(Ks(c)), ForAll([sx_, t_r], Implies(mem(Ms(c)[sx_], t_r), And(mem(TS(c), t_r), smem(Ks(c), sx_), nl(sx_) == 0, secof(t_r) == sx_)), patterns=[mem(Ms(c)[sx_], t_r)]),
                               ForAll([n3], Implies(And(0 <= n3, n3 < SECS.len(Ks(c))), And(nl(SECS.at(Ks(c), n3)) == 0, ln(Ms(c)[SECS.at(Ks(c), n3)]) >= 1)), patterns=[SECS.at(Ks(c), n3)]))
        members_ok = lambda c: ForAll([t_r], Implies(mem(TS(c), t_r), okt(c, t_r)), patterns=[mem(TS(c), t_r)])
        fc = {'sig': {'self': GANTT}, 'locals': {'res': TXT, 'tasks': LT, 'sections_map': SMAP, 'task': T, 'task_section': TXT, 'k': TXT, 'v': LT}, 'ghost': {'hdr': INT},
              'requires': [('renderer-has-a-wbs', lambda c: And(c['self'] != GANTT.null, wbs(c) != W.null)),
                           ('members-are-scheduled-tasks-with-single-line-names-and-sections', lambda c: And(members_ok(c), ForAll([n3], Implies(And(0 <= n3, n3 < ln(TS(c))), mem(TS(c), at(TS(c), n3))), patterns=[at(TS(c), n3)])))],
              'loops': {0: {'fingerprint': 'for task in tasks', 'havoc': ['sections_map'],
                            'invariant': [('grouping/frame', lambda c: And(same_heap(c), c['tasks'] == TS(c), c['_i0'] >= 0, c['_i0'] <= ln(TS(c)), nl(c['res']) == hdr(c))),
                                          ('grouping/sections-distinct-non-empty-and-hold-tasks-of-that-section', map_ok),
                                          ('grouping/every-task-passed-is-in-exactly-one-list', lambda c: total(Ks(c), Ms(c), SECS.len(Ks(c))) == c['_i0'])]},
                        1: {'fingerprint': 'for (k, v) in sections_map.items()',
                            'invariant': [('sections-written-so-far', lambda c: And(same_heap(c), map_ok(c), total(Ks(c), Ms(c), SECS.len(Ks(c))) == ln(TS(c)), c['_i1'] >= 0, c['_i1'] <= SECS.len(Ks(c)),
                                                                                nl(c['res']) == hdr(c) + c['_i1'] + total(Ks(c), Ms(c), c['_i1'])))]},
                        2: {'fingerprint': 'for task in v',
                            'invariant': [('task-lines-of-this-section-so-far', lambda c: And(same_heap(c), map_ok(c), total(Ks(c), Ms(c), SECS.len(Ks(c))) == ln(TS(c)), c['_i1'] >= 1, c['_i1'] <= SECS.len(Ks(c)),
                                                                                          c['k'] == SECS.at(Ks(c), c['_i1'] - 1), c['v'] == Ms(c)[c['k']], c['_i2'] >= 0, c['_i2'] <= ln(c['v']),
                                                                                          nl(c['res']) == hdr(c) + c['_i1'] + total(Ks(c), Ms(c), c['_i1'] - 1) + c['_i2']))]},
                        3: {'fingerprint': 'for task in tasks',
                            'invariant': [('task-lines-so-far', lambda c: And(same_heap(c), c['tasks'] == TS(c), c['_i3'] >= 0, c['_i3'] <= ln(TS(c)), nl(c['res']) == hdr(c) + c['_i3']))]}},
              'ensures': [('C19/one-task-line-per-task-plus-one-section-line-per-section-after-the-heading',
                           lambda c: nl(c.result.e) == hdr(c) + ln(TS(c)) + (SECS.len(SMd.keys(c.st.env['sections_map'].e)) if c.st.env.get('sections_map') is not None else 0)),
                          ('C19/sections-are-distinct-none-is-empty-and-each-lists-only-tasks-of-that-section', lambda c: map_ok(c) if c.st.env.get('sections_map') is not None else BoolVal(True)),
                          ('C19/reads-the-task-graph-only', same_heap)]}
        contracts = {'prop:WBS.tasks': c_tasks, 'MermaidGantt._MermaidGantt__mermaid_task': c_task_line}

        class _Ax(list):
            def __iter__(self): return iter(LIST_AX + SEC_AX + TOTAL_AX + text_axioms())
            def __len__(self): return len(LIST_AX + SEC_AX + TOTAL_AX + text_axioms())
        cl = dict(GCL); cl['MermaidGantt'] = {'wbs': W, 'title': OTX, 'weekends': BOOL, 'tick_interval': OTX}
        return Engine(FG, 'MermaidGantt.__src', contracts, cl, fc, plugins=[GanttSrcPlugin(), ChildrenPlugin()]), _Ax()
    return Unit('MermaidGantt.__src', FG, build, ['C19'], shards=4, timeout_ms=15000)          # the three optional heading lines multiply the paths by eight: the paths are spread over four workers


UNITS += [gantt_src_unit()]


# ================================================================================================ DhtmlxGantt.__data: one entry per task, links numbered 1, 2, 3, ... (C19, counts)
# The entry / link dictionaries are opaque here (what they say - and the progress value proved above - is not looked at; the expressions inside the dictionary literals are NOT
# evaluated, so their safety is not claimed).  Proved: the list handed to json.dumps as "data" has exactly one entry per task below the hidden root, root tree by root tree
# (sum over the root tasks of 1 + len(dfs(root)) - the lines_for function of contracts/sheetrows.py); the "links" list carries the ids 1, 2, ..., n in this order.
from contracts.closure import c_desc_list, CheckPlugin, ONE_AX, DFS_AX, MEASURE_AX
from contracts.task import c_children, FAC_CLASSES
from contracts.sheetrows import shown, SHOWN_AX
DX = REF('DhtmlxGantt'); LIDS = LIST(INT); appI = Function('app_id', LIDS.z, IntSort(), LIDS.z); noI = Const('no_ids', LIDS.z); li_ = Const('li_', LIDS.z); v3 = Int('v3')
IDS_AX = [ForAll([li_], LIDS.len(li_) >= 0), LIDS.len(noI) == 0,
          ForAll([li_, v3], And(LIDS.len(appI(li_, v3)) == LIDS.len(li_) + 1, LIDS.at(appI(li_, v3), LIDS.len(li_)) == v3), patterns=[appI(li_, v3)]),
          ForAll([li_, v3, n3], Implies(And(0 <= n3, n3 < LIDS.len(li_)), LIDS.at(appI(li_, v3), n3) == LIDS.at(li_, n3)), patterns=[LIDS.at(appI(li_, v3), n3)])]
ENTRY = S('EntryDict', DeclareSort('EntryDict'))


class DataPlugin(CheckPlugin):
    def ev_Dict(self, eng, e, st):          # an entry / link dictionary: opaque (see the header comment)
        return [(st, V(fresh('entry', ENTRY), ENTRY))]

    def ev_List(self, eng, e, st):
        if not e.elts: return [(st, V(IntVal(0), S('EntryCount', IntSort())))]          # data = [] / links = []: only the number of entries (and, for links, their ids) is kept
        return CheckPlugin.ev_List(self, eng, e, st)

    def ex_Assign(self, eng, stmt, st):
        if ast.unparse(stmt.targets[0]) == 'links' and isinstance(stmt.value, ast.List) and not stmt.value.elts:
            st.env['links'] = V(noI, LIDS); return [(st, FALL)]
        return NotImplemented

    def ex_If(self, eng, stmt, st):
        if ast.unparse(stmt.test) == 't.end < datetime.now()':          # the progress value: proved in its own unit (DhtmlxGantt.__data.progress); it does not touch the lists
            st.env['progress'] = V(fresh('progress', REAL), REAL); return [(st, FALL)]
        return NotImplemented

    def for_loop(self, eng, stmt, st):
        if ast.unparse(stmt.iter) == 't.__dict__.items()': return [(st, FALL)]          # additional attributes go into the (opaque) entry
        return CheckPlugin.for_loop(self, eng, stmt, st)

    def call(self, eng, e, st):
        f = e.func
        if isinstance(f, ast.Attribute) and f.attr == 'append' and isinstance(f.value, ast.Name) and f.value.id == 'data':
            st.env['data'] = V(st.env['data'].e + 1, st.env['data'].s); return [(st, V(None, NONE))]
        if isinstance(f, ast.Attribute) and f.attr == 'append' and isinstance(f.value, ast.Name) and f.value.id == 'links' and isinstance(e.args[0], ast.Dict):
            d = e.args[0]; idx_ = [k for k, key in enumerate(d.keys) if isinstance(key, ast.Constant) and key.value == 'id']
            if len(idx_) != 1: raise Unsupported('link dictionary without an id')
            s, v = eng.ev1(d.values[idx_[0]], st)
            s.env['links'] = V(appI(s.env['links'].e, v.e), LIDS); return [(s, V(None, NONE))]
        if isinstance(f, ast.Attribute) and f.attr == 'dumps' and isinstance(f.value, ast.Name) and f.value.id == 'json':
            st.ghost['final_data'] = st.env['data'].e; st.ghost['final_links'] = st.env['links'].e
            return [(st, V(fresh('json_text', TXT), TXT))]
        return CheckPlugin.call(self, eng, e, st)


def dhtmlx_data_unit():
    def build():
        hc = lambda c: H(c.eng, c.st)
        wbs = lambda c: Select(c.fld('DhtmlxGantt', 'wbs'), c['self']); hroot = lambda c: hc(c).root[wbs(c)]
        RS = lambda c: hc(c).ch(hroot(c))          # the root tasks
        cnt = lambda c, i: shown(hc(c).chl, hc(c).elems, RS(c), BoolVal(True), i)
        numbered = lambda c: And(c['link_id'] == LIDS.len(c['links']), ForAll([n3], Implies(And(0 <= n3, n3 < LIDS.len(c['links'])), LIDS.at(c['links'], n3) == n3 + 1), patterns=[LIDS.at(c['links'], n3)]))

        def c_roots(eng, st, recv, args, kws, node):
            return c_children(eng, st, V(H(eng, st).root[recv.e], T), [], {}, node)
        c_pre = lambda eng, st, recv, a, k, n: [(st, V(H(eng, st).pre[recv.e], LR))]
        from contracts.task import forest_struct
        from contracts.closure import WFH
        fc = {'sig': {'self': DX, 'task_classes': ENTRY}, 'locals': {'data': S('EntryCount', IntSort()), 'links': LIDS, 'link_id': INT, '_root': T, 't': T, 'p': T, 'progress': REAL, 'data_val': ENTRY},
              'ghost': {'final_data': INT, 'final_links': LIDS},
              'requires': [('renderer-has-a-wbs-with-its-hidden-root', lambda c: And(c['self'] != DX.null, wbs(c) != W.null, hroot(c) != null)),
                           ('forest', lambda c: And(forest_struct(hc(c), hroot(c)), WFH(hc(c).par, hc(c).chl, hc(c).elems))),
                           ('predecessor-lists-exist', lambda c: ForAll([t_r], Implies(t_r != null, hc(c).pre[t_r] != LR.null), patterns=[hc(c).pre[t_r]]))],
              'loops': {0: {'fingerprint': 'for _root in self.wbs.roots', 'havoc': ['data', 'links', 'link_id'],
                            'invariant': [('entries-so-far', lambda c: And(same_heap(c), c['_i0'] >= 0, c['_i0'] <= ln(RS(c)), c['data'] == cnt(c, c['_i0']))), ('links-numbered-in-order', numbered)]},
                        1: {'fingerprint': 'for t in _root.all_children + [_root]', 'havoc': ['data', 'links', 'link_id'],
                            'invariant': [('entries-of-this-root-tree-so-far', lambda c: And(same_heap(c), c['_i0'] >= 1, c['_i0'] <= ln(RS(c)), c['_root'] == at(RS(c), c['_i0'] - 1), c['_root'] != null,
                                                                                         ln(c['_seq1']) == ln(dfs(hc(c).chl, hc(c).elems, c['_root'])) + 1, c['_i1'] >= 0, c['_i1'] <= ln(c['_seq1']),
                                                                                         ForAll([n3], Implies(And(0 <= n3, n3 < ln(c['_seq1'])), at(c['_seq1'], n3) != null), patterns=[at(c['_seq1'], n3)]),
                                                                                         c['data'] == cnt(c, c['_i0'] - 1) + c['_i1'])), ('links-numbered-in-order', numbered)]},
                        2: {'fingerprint': 'for (k, v) in t.__dict__.items()', 'invariant': [('opaque-entry', lambda c: BoolVal(True))]},          # not executed: the additional attributes go into the opaque entry (DataPlugin.for_loop)
                        3: {'fingerprint': 'for p in t.predecessors', 'havoc': ['links', 'link_id'],
                            'invariant': [('links-numbered-in-order', numbered), ('frame', lambda c: And(same_heap(c), c['_i3'] >= 0))]}},
              'ensures': [('C19/one-entry-per-task-root-tree-by-root-tree', lambda c: c.st.ghost['final_data'] == cnt(c, ln(RS(c)))),
                          ('C19/links-are-numbered-1-2-3-in-order', lambda c: ForAll([n3], Implies(And(0 <= n3, n3 < LIDS.len(c.st.ghost['final_links'])), LIDS.at(c.st.ghost['final_links'], n3) == n3 + 1))),
                          ('C19/reads-the-task-graph-only', same_heap)]}
        contracts = {'prop:WBS.roots': c_roots, 'prop:Task.all_children': c_desc_list('all_children'), 'prop:Task.predecessors': c_pre}
        cl = dict(FAC_CLASSES); cl['DhtmlxGantt'] = {'wbs': W}
        return Engine(FD, 'DhtmlxGantt.__data', contracts, cl, fc, plugins=[DataPlugin(), ChildrenPlugin()]), LIST_AX + LIST_CAT_AX + GRAPH_AX + ONE_AX + DFS_AX + SHOWN_AX + IDS_AX
    return Unit('DhtmlxGantt.__data', FD, build, ['C19'], timeout_ms=15000)


UNITS += [dhtmlx_data_unit()]
