"""Sidecar contracts for pjplan/schedule.py :: _check_loops / _check_loops_from_task (C14): the cycle pre-check of both schedulers only READS the task
graph and ends either normally or with RuntimeError - never with KeyError out of `visited_tasks.remove(task.id)`, AttributeError on a None link, ...

The two id sets are shared by reference through the recursion: they are heap objects (class IntSet, field `elems`: id -> bool).  Contract of the recursive
function (checked for the body, used at its own calls): on normal return the visited set is what it was, the validated set has only grown, no other set
and nothing of the task graph has changed.  What is NOT proved here: that a normal return means "no cycle" (the scheduler units take the acyclicity of the
waits-for graph as an assumed fact, see contracts/passes.py Struct) and termination of the recursion (every non-trivial call adds a new id to the visited
set, so the depth is bounded by the number of ids; cardinalities of sets are outside the encoding) - both are the bounded stand-in's.
"""
import ast
from z3 import *
from pyvc.core import *
from contracts.graph_theory import *
from contracts.task import F, EMPTY, H, Inv, TASK_CLASSES, t_, a_
from contracts.closure import GenPlugin, c_anc_list, c_id, up_pre, same_heap
from pyvc.unit import Unit

FS = 'pjplan/schedule.py'
SETR = REF('IntSet'); IDSET = S('IDSET', ArraySort(IntSort(), BoolSort()))
LOOP_CLASSES = dict(TASK_CLASSES); LOOP_CLASSES['IntSet'] = {'elems': IDSET}
s_ = Const('s_', SETR.z); k_ = Int('k_')


def sets(eng, st): return eng.field(st, 'IntSet', 'elems')


class IdSetPlugin(GenPlugin):
    """`set()` (a new set object, different from every set a local names), `x in s`, `s.add(x)`, `s.remove(x)` (KeyError if absent) for sets of ints held by reference"""

    def call(self, eng, e, st):
        f = e.func
        if isinstance(f, ast.Name) and f.id == 'set' and not e.args:
            r = fresh('newset', SETR); st.assume(r != SETR.null)
            for v in st.env.values():
                if v is not None and getattr(v, 's', None) == SETR: st.assume(r != v.e)
            eng.write(st, 'IntSet.elems', Store(sets(eng, st), r, K(IntSort(), False)))
            return [(st, V(r, SETR))]
        if isinstance(f, ast.Attribute) and f.attr in ('add', 'remove') and len(e.args) == 1:
            s, o = eng.ev1(f.value, st)
            if o.s == SETR:
                s, v = eng.ev1(e.args[0], s)
                s.oblige('safe/AttributeError-None', o.e != SETR.null, f'@{e.lineno}')
                cur = Select(sets(eng, s), o.e)
                if f.attr == 'remove': s.oblige('safe/KeyError', Select(cur, v.e), f'@{e.lineno}')
                eng.write(s, 'IntSet.elems', Store(sets(eng, s), o.e, Store(cur, v.e, f.attr == 'add')))
                return [(s, V(None, NONE))]
        return GenPlugin.call(self, eng, e, st)

    def cmp(self, eng, st, k, l_, r, line):
        if k in ('In', 'NotIn') and r.s == SETR and l_.s == INT:
            st.oblige('safe/TypeError-None-set', r.e != SETR.null, f'@{line}')
            m = Select(Select(sets(eng, st), r.e), l_.e)
            return m if k == 'In' else Not(m)
        return GenPlugin.cmp(self, eng, st, k, l_, r, line)


def graph_pre(h):
    """what the walk needs of the task graph: link and children lists exist and hold no None (NN, F1), the hierarchy is a forest whose reserved id marks hidden roots only"""
    I = Inv(h)
    return {'hierarchy': up_pre(h), 'NN-no-None-in-links': I['NN-no-None-in-links'], 'C01/F1-listed-child-reports-that-parent': I['C01/F1-listed-child-reports-that-parent'],
            'list-objects-exist': ForAll([t_], Implies(t_ != null, And(h.pre[t_] != LR.null, h.chl[t_] != LR.null)), patterns=[h.pre[t_], h.chl[t_]])}
GP = ['hierarchy', 'NN-no-None-in-links', 'C01/F1-listed-child-reports-that-parent', 'list-objects-exist']


def walk_effect(E0, E1, vis, val):
    """normal return of _check_loops_from_task: visited as before, validated only grows, every other set untouched"""
    return {'C14/visited-set-is-restored': Select(E1, vis) == Select(E0, vis),
            'C14/validated-set-only-grows': ForAll([k_], Implies(Select(Select(E0, val), k_), Select(Select(E1, val), k_)), patterns=[Select(Select(E1, val), k_)]),
            'C14/no-other-set-is-touched': ForAll([s_], Implies(And(s_ != vis, s_ != val), Select(E1, s_) == Select(E0, s_)), patterns=[Select(E1, s_)])}
WE = ['C14/visited-set-is-restored', 'C14/validated-set-only-grows', 'C14/no-other-set-is-touched']


def c_walk(eng, st, recv, args, kws, node):
    """_check_loops_from_task(task, visited, validated) at a call site (its own recursive calls and _check_loops)"""
    h = H(eng, st); t = eng.coerce(args[0], T); vis, val = args[1].e, args[2].e
    st.oblige('req@_check_loops_from_task/task-and-sets-non-null-sets-different', And(t != null, vis != SETR.null, val != SETR.null, vis != val), f'@{node.lineno}')
    for lab, g in graph_pre(h).items(): st.oblige(f'req@_check_loops_from_task/{lab}', g, f'@{node.lineno}')
    E0 = sets(eng, st); ok = st.fork(); exc = st.fork()
    eng.havoc(ok, 'IntSet.elems'); eng.havoc(exc, 'IntSet.elems')
    for g in walk_effect(E0, sets(eng, ok), vis, val).values(): ok.assume(g)
    return [(ok, V(None, NONE)), (exc, Raise('RuntimeError'))]


c_list = lambda fld: (lambda eng, st, recv, a, k, n: [(st, V(getattr(H(eng, st), fld)[recv.e], LR))])


def walk_unit():
    def build():
        hc = lambda c: H(c.eng, c.st)
        E = lambda c: sets(c.eng, c.st); E0 = lambda c: sets(c.eng, c.pre)
        vis = lambda c: c['visited_tasks']; val = lambda c: c['validated']
        myid = lambda c: hc(c).tid[c['task']]

        def inv(c):          # between the add and the remove: visited = the entry set plus this task's id; the rest as in the effect
            return {'frame': same_heap(c), 'visited-is-the-entry-set-plus-this-id': Select(E(c), vis(c)) == Store(Select(E0(c), vis(c)), myid(c), True),
                    'this-id-was-not-visited-before': Not(Select(Select(E0(c), vis(c)), myid(c))),
                    'validated-set-only-grows': walk_effect(E0(c), E(c), vis(c), val(c))['C14/validated-set-only-grows'],
                    'no-other-set-is-touched': walk_effect(E0(c), E(c), vis(c), val(c))['C14/no-other-set-is-touched']}
        IL = ['frame', 'visited-is-the-entry-set-plus-this-id', 'this-id-was-not-visited-before', 'validated-set-only-grows', 'no-other-set-is-touched']
        invs = lambda k, extra=(): [(l_, (lambda l_: lambda c: inv(c)[l_])(l_)) for l_ in IL] + [('index', lambda c: c[f'_i{k}'] >= 0)] + list(extra)
        fc = {'sig': {'task': T, 'visited_tasks': SETR, 'validated': SETR}, 'locals': {'s': T, 'a': T, 'c': T},
              'requires': [('task-and-sets-non-null-sets-different', lambda c: And(c['task'] != null, vis(c) != SETR.null, val(c) != SETR.null, vis(c) != val(c)))] +
                          [(l_, (lambda l_: lambda c: graph_pre(hc(c))[l_])(l_)) for l_ in GP],
              'loops': {0: {'fingerprint': 'for s in task.predecessors', 'havoc_heap': ['IntSet.elems'], 'invariant': invs(0)},
                        1: {'fingerprint': 'for a in task.all_parents', 'havoc_heap': ['IntSet.elems'], 'invariant': invs(1)},
                        2: {'fingerprint': 'for s in a.predecessors', 'havoc_heap': ['IntSet.elems'],
                            'invariant': invs(2, [('current-ancestor', lambda c: And(c['a'] != null, c['_i1'] >= 1, c['_i1'] <= ln(c['_seq1']), c['a'] == at(c['_seq1'], c['_i1'] - 1)))])},
                        3: {'fingerprint': 'for c in task.children', 'havoc_heap': ['IntSet.elems'], 'invariant': invs(3)}},
              'raises': {'RuntimeError': [('C14,C15/reads-only', same_heap)]},
              'ensures': [(l_, (lambda l_: lambda c: walk_effect(E0(c), E(c), vis(c), val(c))[l_])(l_)) for l_ in WE] + [('C14,C16/reads-only', same_heap)]}
        contracts = {'fn:_check_loops_from_task': c_walk, 'prop:Task.id': c_id, 'prop:Task.all_parents': c_anc_list('all_parents', strict=True),
                     'prop:Task.predecessors': c_list('pre'), 'prop:Task.children': c_list('chl')}
        return Engine(FS, '_check_loops_from_task', contracts, LOOP_CLASSES, fc, plugins=[IdSetPlugin()]), LIST_AX + GRAPH_AX
    return Unit('_check_loops_from_task', FS, build, ['C14'], timeout_ms=15000)


def check_loops_unit():
    def build():
        hc = lambda c: H(c.eng, c.st)
        E = lambda c: sets(c.eng, c.st)

        def c_tasks(eng, st, recv, args, kws, node):
            """WBS.tasks (proved in contracts/closure.py): the members, none of them None"""
            R = fresh('members', LT); st.assume(ForAll([k_], Implies(And(0 <= k_, k_ < ln(R)), at(R, k_) != null), patterns=[at(R, k_)]))
            return [(st, V(R, LT))]
        fc = {'sig': {'project': W}, 'locals': {'validated': SETR, 't': T},
              'requires': [('wbs-non-null', lambda c: c['project'] != W.null)] + [(l_, (lambda l_: lambda c: graph_pre(hc(c))[l_])(l_)) for l_ in GP],
              'loops': {0: {'fingerprint': 'for t in project.tasks', 'havoc_heap': ['IntSet.elems'],
                            'invariant': [('frame', same_heap), ('the-validated-set-exists', lambda c: And(c['validated'] != SETR.null, c['_i0'] >= 0))]}},
              'raises': {'RuntimeError': [('C14,C15/reads-only', same_heap)]},
              'ensures': [('C14,C16/reads-only', same_heap)]}
        contracts = {'fn:_check_loops_from_task': c_walk, 'prop:WBS.tasks': c_tasks}
        return Engine(FS, '_check_loops', contracts, LOOP_CLASSES, fc, plugins=[IdSetPlugin()]), LIST_AX + GRAPH_AX
    return Unit('_check_loops', FS, build, ['C14'], timeout_ms=15000)


UNITS = [walk_unit(), check_loops_unit()]
