"""Sidecar contracts for pjplan/utils.py (C20): printed tables.  Length-only reasoning with an abstract text theory:
texts are an opaque sort with len, vis (visible length = length ignoring colour codes), cat and spaces(n) and their additive
equations - the assumed contract of str concatenation / repetition (trusted base T3).  Escape pieces have vis = 0, so
"ignoring colour codes" is a definition, not string surgery.
"""
import ast
from z3 import *
from pyvc.core import *
from pyvc.unit import Unit

F = 'pjplan/utils.py'
TXT = S('Txt', DeclareSort('Txt')); OTX = OPT(TXT)
tlen = Function('tlen', TXT.z, IntSort()); vis = Function('vis', TXT.z, IntSort()); cat = Function('cat', TXT.z, TXT.z, TXT.z); spaces = Function('spaces', IntSort(), TXT.z)
nl = Function('newlines', TXT.z, IntSort())          # number of line breaks in a text
a_, b_ = Consts('a_ b_', TXT.z); n_ = Int('n_')
ESC = {'\033[', '\033[0m'}
_lit = {}


def L(s):
    if s not in _lit:
        _lit[s] = Const('lit_' + ''.join(ch if ch.isalnum() else '_%02x' % ord(ch) for ch in s), TXT.z)
    return _lit[s]


def text_axioms():
    ax = [ForAll([a_, b_], And(tlen(cat(a_, b_)) == tlen(a_) + tlen(b_), vis(cat(a_, b_)) == vis(a_) + vis(b_), nl(cat(a_, b_)) == nl(a_) + nl(b_)), patterns=[cat(a_, b_)]),
          ForAll([n_], And(tlen(spaces(n_)) == If(n_ > 0, n_, 0), vis(spaces(n_)) == If(n_ > 0, n_, 0), nl(spaces(n_)) == 0), patterns=[spaces(n_)]),
          ForAll([a_], And(tlen(a_) >= 0, vis(a_) >= 0, vis(a_) <= tlen(a_), nl(a_) >= 0, nl(a_) <= tlen(a_)))]
    for s, c in _lit.items():
        ax.append(And(tlen(c) == len(s), vis(c) == (0 if s in ESC else len(s)), nl(c) == s.count('\n')))
    return ax


CELL = REF('_TextTableCell'); ROW = REF('_TextTableRow'); CELLS = REF('CellList'); LC = LIST(CELL); LI_ = LIST(INT)
CLASSES = {'_TextTableCell': {'text': TXT, 'color': OTX, 'bg_color': OTX}, '_TextTableRow': {'cells': CELLS, 'color': OTX, 'bg_color': OTX}, 'CellList': {'celems': LC}}


class TextPlugin:
    def ev_Constant(self, eng, e, st):
        if isinstance(e.value, str): return [(st, V(L(e.value), TXT))]
        return NotImplemented

    def binop(self, eng, st, k, l, r, line):
        if k == 'Add' and (l.s in (TXT, OTX) or r.s in (TXT, OTX)):
            l = eng.unwrap(st, l, 'safe/TypeError-str-plus-None', f'@{line}'); r = eng.unwrap(st, r, 'safe/TypeError-str-plus-None', f'@{line}')
            return V(cat(l.e, r.e), TXT)
        if k == 'Mult' and l.s == TXT and r.s == INT and l.e.eq(L(' ')): return V(spaces(r.e), TXT)
        return NotImplemented

    def length(self, eng, s, v, node):
        if v.s == TXT: return V(tlen(v.e), INT)
        if v.s == CELLS:
            s.oblige('safe/AttributeError-None', v.e != CELLS.null, f'@{node.lineno}')
            return V(LC.len(Select(eng.field(s, 'CellList', 'celems'), v.e)), INT)
        return None

    def call(self, eng, e, st):
        if isinstance(e.func, ast.Name) and e.func.id == 'len' and len(e.args) == 1:
            s, v = eng.ev1(e.args[0], st)
            r = self.length(eng, s, v, e)
            if r is not None: return [(s, r)]
        return NotImplemented

    def ev_Subscript(self, eng, e, st):
        if isinstance(e.slice, ast.Slice): return NotImplemented
        s, seq = eng.ev1(e.value, st)
        if seq.s == CELLS:
            s, i = eng.ev1(e.slice, s)
            lst = Select(eng.field(s, 'CellList', 'celems'), seq.e)
            s.oblige('safe/IndexError', And(0 <= i.e, i.e < LC.len(lst)), f'@{e.lineno}')
            return [(s, V(LC.at(lst, i.e), CELL))]
        return NotImplemented

    def truth(self, eng, st, v):
        if v.s == TXT: return tlen(v.e) > 0
        return NotImplemented


def pad(text, width):
    return cat(text, spaces(width - tlen(text)))


def colored_text_unit():
    def build():
        fc = {'sig': {'text': TXT, 'width': INT, 'color': OTX, 'bg_color': OTX}, 'locals': {'c': TXT, 'text': TXT},
              'requires': [('background-colour-unused (all call sites of the repository pass None)', lambda c: OTX.dt.is_none(c['bg_color'])),
                           ('colour-code-is-invisible', lambda c: Implies(OTX.dt.is_some(c['color']), vis(OTX.dt.val(c['color'])) == 0)),
                           ('text-has-no-colour-codes', lambda c: vis(c['text']) == tlen(c['text']))],
              'ensures': [('C20/visible-width-is-max-of-text-length-and-width', lambda c: vis(c.result.e) == If(tlen(c.old('text')) > c.old('width'), tlen(c.old('text')), c.old('width'))),
                          ('C20/no-line-break-added', lambda c: nl(c.result.e) == nl(c.old('text')) + If(OTX.dt.is_some(c['color']), nl(OTX.dt.val(c['color'])), 0)),
                          ('C20/result-is-not-shorter-than-the-text', lambda c: tlen(c.result.e) >= tlen(c.old('text')))]}
        return Engine(F, 'colored_text', {}, {}, fc, plugins=[TextPlugin()]), text_axioms_lazy()
    return Unit('colored_text', F, build, ['C20'])


class _LazyAxioms(list):
    """the literal axioms depend on which string constants the symbolic execution met: evaluated when the solver asks for them"""
    def __iter__(self):
        return iter(text_axioms())

    def __len__(self):
        return len(text_axioms())

    def __add__(self, other):
        return list(self) + list(other)

    def __radd__(self, other):
        return list(other) + list(self)


def text_axioms_lazy():
    return _LazyAxioms()


vsum = Function('vsum', LI_.z, IntSort(), IntSort())      # sum over k < n of (width[k] + 2)
wl = Const('wl', LI_.z)
SUMAX = [ForAll([wl], vsum(wl, 0) == 0), ForAll([wl, n_], Implies(n_ >= 0, vsum(wl, n_ + 1) == vsum(wl, n_) + LI_.at(wl, n_) + 2), patterns=[vsum(wl, n_ + 1)])]


def c_colored_text(eng, st, recv, args, kws, node):
    """contract of colored_text as proved by its own unit"""
    text, width, color, bg = args
    st.oblige('req@colored_text/background-colour-unused', OTX.dt.is_none(eng.coerce(bg, OTX)), f'@{node.lineno}')
    st.oblige('req@colored_text/text-has-no-colour-codes', vis(text.e) == tlen(text.e), f'@{node.lineno}')
    col = eng.coerce(color, OTX)
    st.oblige('req@colored_text/colour-code-is-invisible', Implies(OTX.dt.is_some(col), vis(OTX.dt.val(col)) == 0), f'@{node.lineno}')
    r = fresh('ct', TXT)
    st.assume(And(vis(r) == If(tlen(text.e) > width.e, tlen(text.e), width.e), nl(r) == nl(text.e) + If(OTX.dt.is_some(col), nl(OTX.dt.val(col)), 0), tlen(r) >= tlen(text.e)))
    return [(st, V(r, TXT))]


def row_repr_unit():
    def build():
        j = Int('j')
        cells = lambda c, which='cur': Select(c.fld('CellList', 'celems', which), Select(c.fld('_TextTableRow', 'cells', which), c['self']))

        def req(c):
            w = c['width']; cl = cells(c); txt = c.fld('_TextTableCell', 'text'); bg = c.fld('_TextTableCell', 'bg_color'); col = c.fld('_TextTableCell', 'color')
            rowcol = Select(c.fld('_TextTableRow', 'color'), c['self'])
            return And(c['self'] != ROW.null, Select(c.fld('_TextTableRow', 'cells'), c['self']) != CELLS.null, LI_.len(w) >= 0,
                       ForAll([j], Implies(And(0 <= j, j < LI_.len(w)), LI_.at(w, j) >= 0), patterns=[LI_.at(w, j)]),
                       OTX.dt.is_none(Select(c.fld('_TextTableRow', 'bg_color'), c['self'])),
                       Implies(OTX.dt.is_some(rowcol), And(vis(OTX.dt.val(rowcol)) == 0, nl(OTX.dt.val(rowcol)) == 0)),
                       Implies(OTX.dt.is_some(c['border_color']), And(vis(OTX.dt.val(c['border_color'])) == 0, nl(OTX.dt.val(c['border_color'])) == 0)),
                       ForAll([j], Implies(And(0 <= j, j < LC.len(cl)), And(LC.at(cl, j) != CELL.null, vis(txt[LC.at(cl, j)]) == tlen(txt[LC.at(cl, j)]), OTX.dt.is_none(bg[LC.at(cl, j)]),
                                                                             Implies(OTX.dt.is_some(col[LC.at(cl, j)]), And(vis(OTX.dt.val(col[LC.at(cl, j)])) == 0, nl(OTX.dt.val(col[LC.at(cl, j)])) == 0)),
                                                                             nl(txt[LC.at(cl, j)]) == 0,
                                                                             Implies(j < LI_.len(w), tlen(txt[LC.at(cl, j)]) <= LI_.at(w, j)))), patterns=[LC.at(cl, j)]))
        bord = lambda c: If(c['border'], 1, 0)
        fc = {'sig': {'self': ROW, 'width': LI_, 'border': BOOL, 'border_color': OTX}, 'locals': {'res': TXT, 'text': TXT},
              'requires': [('cells-fit-their-columns-and-carry-no-colour-codes', req)],
              'loops': {0: {'fingerprint': 'for i in range(0, len(width))',
                            'invariant': [('width-so-far', lambda c: And(c['_i0'] >= 0, c['_i0'] <= LI_.len(c['width']),
                                                                         vis(c['res']) == vsum(c['width'], c['_i0']) + bord(c) * (c['_i0'] + 1))),
                                          ('one-line-so-far-non-empty-after-the-first-column', lambda c: And(nl(c['res']) == 0, Implies(Or(c['_i0'] > 0, c['border']), tlen(c['res']) > 0)))]}},
              'ensures': [('C20/visible-width-of-a-row-is-the-sum-of-column-widths-plus-padding-and-borders',
                           lambda c: vis(c.result.e) == vsum(c['width'], LI_.len(c['width'])) + bord(c) * (LI_.len(c['width']) + 1)),
                          ('C20/a-row-is-one-line', lambda c: nl(c.result.e) == 0),
                          ('C20/a-row-with-a-column-or-a-border-is-not-empty', lambda c: Implies(Or(LI_.len(c['width']) > 0, c['border']), tlen(c.result.e) > 0))]}
        return Engine(F, '_TextTableRow.repr', {'fn:colored_text': c_colored_text}, CLASSES, fc, plugins=[TextPlugin()]), _Both()
    return Unit('_TextTableRow.repr', F, build, ['C20'])


class _Both(_LazyAxioms):
    def __iter__(self):
        return iter(text_axioms() + SUMAX)

    def __len__(self):
        return len(text_axioms() + SUMAX)


UNITS = [colored_text_unit(), row_repr_unit()]


# ------------------------------------------------------------------------------------------------ TextTable.text_repr
TT = REF('TextTable'); ROWS = REF('RowList'); LRW = LIST(ROW)
WMd = Datatype('WidthMap'); WMd.declare('mk', ('n', IntSort()), ('vals', ArraySort(IntSort(), IntSort()))); WMd = WMd.create()
WM = S('WidthMap', WMd)
TCLASSES = dict(CLASSES); TCLASSES.update({'TextTable': {'_TextTable__rows': ROWS}, 'RowList': {'relems': LRW}})
lines_ok = Function('every_line_has_visible_width', TXT.z, IntSort(), BoolSort())
_w = Int('_w')


def lines_axioms():
    NL = L('\n')
    return [ForAll([a_, _w], Implies(And(nl(a_) == 0, vis(a_) == _w), lines_ok(a_, _w)), patterns=[lines_ok(a_, _w)]),                                      # a text without line break is one line
            ForAll([a_, b_, _w], Implies(And(lines_ok(a_, _w), nl(b_) == 0, vis(b_) == _w), lines_ok(cat(cat(a_, NL), b_), _w)), patterns=[lines_ok(cat(cat(a_, NL), b_), _w)])]   # lines + '\n' + one more line


class TablePlugin(TextPlugin):
    """the dict of column widths of text_repr: keys 0 .. n-1 inserted in increasing order (obliged), so values() lists the widths by column"""

    def ev_Dict(self, eng, e, st):
        if e.keys: return NotImplemented
        return [(st, V(WMd.mk(0, K(IntSort(), IntVal(0))), WM))]

    def call(self, eng, e, st):
        f = e.func
        if isinstance(f, ast.Attribute) and f.attr == 'setdefault' and isinstance(f.value, ast.Name) and st.env[f.value.id].s == WM:
            s, k = eng.ev1(e.args[0], st); s, dv = eng.ev1(e.args[1], s); m = s.env[f.value.id].e
            s.oblige('dict/keys-stay-0..n-1-in-insertion-order', And(k.e >= 0, k.e <= WMd.n(m)), f'@{e.lineno}')
            has = s.fork(k.e < WMd.n(m)); new = s.fork(k.e == WMd.n(m))
            new.env = dict(new.env); new.env[f.value.id] = V(WMd.mk(WMd.n(m) + 1, Store(WMd.vals(m), k.e, dv.e)), WM)
            return [(has, V(Select(WMd.vals(m), k.e), INT)), (new, V(dv.e, INT))]
        if isinstance(f, ast.Name) and f.id == 'len' and len(e.args) == 1:
            s, v = eng.ev1(e.args[0], st)
            if v.s == ROW:
                s.oblige('safe/AttributeError-None', v.e != ROW.null, f'@{e.lineno}')
                return [(s, V(LC.len(Select(eng.field(s, 'CellList', 'celems'), Select(eng.field(s, '_TextTableRow', 'cells'), v.e))), INT))]
        return TextPlugin.call(self, eng, e, st)

    def assign(self, eng, s, target, v):
        if isinstance(target, ast.Subscript) and isinstance(target.value, ast.Name) and s.env.get(target.value.id) is not None and s.env[target.value.id].s == WM:
            s2, k = eng.ev1(target.slice, s); m = s2.env[target.value.id].e
            s2.oblige('dict/assignment-to-an-existing-key', And(k.e >= 0, k.e < WMd.n(m)), f'@{target.lineno}')
            s2.env[target.value.id] = V(WMd.mk(WMd.n(m), Store(WMd.vals(m), k.e, v.e)), WM)
            return [(s2, FALL)]
        return NotImplemented

    def ev_ListComp(self, eng, e, st):
        g = e.generators[0]
        if ast.unparse(g.iter).endswith('.values()') and isinstance(g.iter.func.value, ast.Name) and st.env[g.iter.func.value.id].s == WM and not g.ifs:
            m = st.env[g.iter.func.value.id].e; W = fresh('widths', LI_); j = Int('j')
            st.assume(And(LI_.len(W) == WMd.n(m), ForAll([j], Implies(And(0 <= j, j < WMd.n(m)), LI_.at(W, j) == Select(WMd.vals(m), j)), patterns=[LI_.at(W, j)])))
            return [(st, V(W, LI_))]
        return NotImplemented

    def for_loop(self, eng, stmt, st):
        if isinstance(stmt.iter, ast.Call) and isinstance(stmt.iter.func, ast.Name) and stmt.iter.func.id == 'range': return NotImplemented
        s0, seq = eng.ev1(stmt.iter, st)
        if seq.s != ROWS: return NotImplemented
        k = eng.loop_contract.get(eng.loop_ids[id(stmt)], (eng.loop_ids[id(stmt)], None))[0]; idxn = f'_i{k}'; eng.locals[idxn] = INT
        s0.env[idxn] = V(IntVal(0), INT)
        s0.oblige('safe/AttributeError-None', seq.e != ROWS.null, f'for @{stmt.lineno}')
        cur = lambda s: Select(eng.field(s, 'RowList', 'relems'), seq.e)

        def guard(s): return [(s, s.env[idxn].e < LRW.len(cur(s)))]

        def pre(b):
            b.env[stmt.target.id] = V(LRW.at(cur(b), b.env[idxn].e), ROW); b.env[idxn] = V(b.env[idxn].e + 1, INT); return [b]
        return eng.loop(stmt, s0, guard, pre, extra_havoc=[idxn])


def text_repr_unit():
    def build():
        j = Int('j'); q = Int('q')
        rows = lambda c: Select(c.fld('RowList', 'relems'), Select(c.fld('TextTable', '_TextTable__rows'), c['self']))
        cells = lambda c, r: Select(c.fld('CellList', 'celems'), Select(c.fld('_TextTableRow', 'cells'), r))
        txt = lambda c: c.fld('_TextTableCell', 'text'); colr = lambda c: c.fld('_TextTableCell', 'color'); bgc = lambda c: c.fld('_TextTableCell', 'bg_color')
        bord = lambda c: If(c['border'], 1, 0)
        invisible = lambda o: Implies(OTX.dt.is_some(o), And(vis(OTX.dt.val(o)) == 0, nl(OTX.dt.val(o)) == 0))

        def req(c):
            R = rows(c)
            return And(c['self'] != TT.null, Select(c.fld('TextTable', '_TextTable__rows'), c['self']) != ROWS.null, LRW.len(R) >= 0, invisible(c['border_color']),
                       ForAll([j], Implies(And(0 <= j, j < LRW.len(R)), And(
                           LRW.at(R, j) != ROW.null, Select(c.fld('_TextTableRow', 'cells'), LRW.at(R, j)) != CELLS.null, LC.len(cells(c, LRW.at(R, j))) >= 1,
                           OTX.dt.is_none(Select(c.fld('_TextTableRow', 'bg_color'), LRW.at(R, j))), invisible(Select(c.fld('_TextTableRow', 'color'), LRW.at(R, j))),
                           ForAll([q], Implies(And(0 <= q, q < LC.len(cells(c, LRW.at(R, j)))), And(
                               LC.at(cells(c, LRW.at(R, j)), q) != CELL.null, vis(txt(c)[LC.at(cells(c, LRW.at(R, j)), q)]) == tlen(txt(c)[LC.at(cells(c, LRW.at(R, j)), q)]),
                               nl(txt(c)[LC.at(cells(c, LRW.at(R, j)), q)]) == 0, OTX.dt.is_none(bgc(c)[LC.at(cells(c, LRW.at(R, j)), q)]), invisible(colr(c)[LC.at(cells(c, LRW.at(R, j)), q)]))),
                                  patterns=[LC.at(cells(c, LRW.at(R, j)), q)]))), patterns=[LRW.at(R, j)]))
        fits = lambda c, r, vals, n, upto: ForAll([q], Implies(And(0 <= q, q < upto), And(q < n, tlen(txt(c)[LC.at(cells(c, r), q)]) <= Select(vals, q))), patterns=[LC.at(cells(c, r), q)])

        def inv1(c):          # outer loop of the width computation
            R = rows(c); k = c['_i0']; m = c['widths_map']; n, vals = WMd.n(m), WMd.vals(m)
            return And(k >= 0, k <= LRW.len(R), n >= 0, Implies(k > 0, n >= 1), ForAll([q], Implies(And(0 <= q, q < n), Select(vals, q) >= 0)),
                       ForAll([j], Implies(And(0 <= j, j < k), fits(c, LRW.at(R, j), vals, n, LC.len(cells(c, LRW.at(R, j))))), patterns=[LRW.at(R, j)]))

        def inv2(c):          # inner loop: the columns of the current row
            R = rows(c); k = c['_i0']; i = c['_i1']; m = c['widths_map']; n, vals = WMd.n(m), WMd.vals(m); r = c['r']
            return And(k >= 1, k <= LRW.len(R), r == LRW.at(R, k - 1), i >= 0, i <= LC.len(cells(c, r)), n >= i, Implies(k > 1, n >= 1),
                       ForAll([q], Implies(And(0 <= q, q < n), Select(vals, q) >= 0)),
                       ForAll([j], Implies(And(0 <= j, j < k - 1), fits(c, LRW.at(R, j), vals, n, LC.len(cells(c, LRW.at(R, j))))), patterns=[LRW.at(R, j)]),
                       fits(c, r, vals, n, i))
        W = lambda c: vsum(c['widths'], LI_.len(c['widths'])) + bord(c) * (LI_.len(c['widths']) + 1)

        def inv3(c):          # assembling the lines
            R = rows(c); k = c['_i2']; wd = c['widths']; res = c['res']
            return And(k >= 0, k <= LRW.len(R), LI_.len(wd) >= 0, Implies(LRW.len(R) > 0, LI_.len(wd) >= 1),
                       ForAll([q], Implies(And(0 <= q, q < LI_.len(wd)), LI_.at(wd, q) >= 0), patterns=[LI_.at(wd, q)]),
                       ForAll([j], Implies(And(0 <= j, j < LRW.len(R)), ForAll([q], Implies(And(0 <= q, q < LC.len(cells(c, LRW.at(R, j)))),
                                                                                           And(q < LI_.len(wd), tlen(txt(c)[LC.at(cells(c, LRW.at(R, j)), q)]) <= LI_.at(wd, q))), patterns=[LC.at(cells(c, LRW.at(R, j)), q)])),
                              patterns=[LRW.at(R, j)]),
                       If(k == 0, And(tlen(res) == 0, nl(res) == 0), And(tlen(res) > 0, nl(res) == k - 1, lines_ok(res, W(c)))))

        def c_row_repr(eng, st, recv, args, kws, node):
            """contract of _TextTableRow.repr (proved by row_repr_unit)"""
            wd, b, bc = args[0].e, args[1].e, eng.coerce(args[2], OTX); r = recv.e; c = Ctx(eng, st)
            cl = cells(c, r)
            st.oblige('req@row.repr/cells-fit-their-columns-and-carry-no-colour-codes-or-line-breaks', And(
                r != ROW.null, Select(c.fld('_TextTableRow', 'cells'), r) != CELLS.null, LI_.len(wd) >= 0, ForAll([q], Implies(And(0 <= q, q < LI_.len(wd)), LI_.at(wd, q) >= 0)),
                OTX.dt.is_none(Select(c.fld('_TextTableRow', 'bg_color'), r)), invisible(Select(c.fld('_TextTableRow', 'color'), r)), invisible(bc),
                ForAll([q], Implies(And(0 <= q, q < LC.len(cl)), And(LC.at(cl, q) != CELL.null, vis(txt(c)[LC.at(cl, q)]) == tlen(txt(c)[LC.at(cl, q)]), OTX.dt.is_none(bgc(c)[LC.at(cl, q)]),
                                                                  invisible(colr(c)[LC.at(cl, q)]), nl(txt(c)[LC.at(cl, q)]) == 0, Implies(q < LI_.len(wd), tlen(txt(c)[LC.at(cl, q)]) <= LI_.at(wd, q)))))), f'@{node.lineno}')
            out = fresh('rowtext', TXT)
            st.assume(And(vis(out) == vsum(wd, LI_.len(wd)) + If(b, 1, 0) * (LI_.len(wd) + 1), nl(out) == 0, Implies(Or(LI_.len(wd) > 0, b), tlen(out) > 0)))
            return [(st, V(out, TXT))]

        def c_get_cell(eng, st, recv, args, kws, node):
            c = Ctx(eng, st); cl = cells(c, recv.e)
            st.oblige('safe/IndexError', And(0 <= args[0].e, args[0].e < LC.len(cl)), f'@{node.lineno}')
            return [(st, V(LC.at(cl, args[0].e), CELL))]
        fc = {'sig': {'self': TT, 'border': BOOL, 'border_color': OTX}, 'locals': {'widths_map': WM, 'widths': LI_, 'res': TXT, 'r': ROW, 'i': INT},
              'requires': [('rows-of-one-line-cells-without-colour-codes-each-row-with-a-cell', req)],
              'loops': {0: {'fingerprint': 'for r in self.__rows', 'havoc': ['widths_map'], 'invariant': [('column-widths-cover-the-rows-visited', inv1)]},
                        1: {'fingerprint': 'for i in range(0, len(r))', 'havoc': ['widths_map'], 'invariant': [('column-widths-cover-the-cells-visited', inv2)]},
                        2: {'fingerprint': 'for r in self.__rows', 'invariant': [('lines-so-far', inv3)]}},
              'ensures': [('C20/one-line-per-row', lambda c: nl(c.result.e) == If(LRW.len(rows(c)) > 0, LRW.len(rows(c)) - 1, 0)),
                          ('C20/every-line-has-the-same-visible-width', lambda c: Implies(LRW.len(rows(c)) > 0, Exists([_w], lines_ok(c.result.e, _w)))),
                          ('C20/an-empty-table-prints-nothing', lambda c: Implies(LRW.len(rows(c)) == 0, tlen(c.result.e) == 0))]}
        eng = Engine(F, 'TextTable.text_repr', {'_TextTableRow.repr': c_row_repr, '_TextTableRow.get_cell': c_get_cell}, TCLASSES, fc, plugins=[TablePlugin()])
        return eng, _Table()
    return Unit('TextTable.text_repr', F, build, ['C20'], timeout_ms=15000)


class _Table(_LazyAxioms):
    def __iter__(self):
        return iter(text_axioms() + SUMAX + lines_axioms())

    def __len__(self):
        return len(text_axioms() + SUMAX + lines_axioms())


UNITS.append(text_repr_unit())


# ------------------------------------------------------------------------------------------------ small row helpers used by text_repr by contract
def row_helper_units():
    cl = lambda c: Select(c.fld('CellList', 'celems'), Select(c.fld('_TextTableRow', 'cells'), c['self']))
    nn = ('row-with-a-cell-list', lambda c: And(c['self'] != ROW.null, Select(c.fld('_TextTableRow', 'cells'), c['self']) != CELLS.null))

    def build_get():
        fc = {'sig': {'self': ROW, 'idx': INT}, 'requires': [nn, ('index-in-range', lambda c: And(0 <= c['idx'], c['idx'] < LC.len(cl(c))))],
              'ensures': [('C20/returns-the-cell-at-the-index', lambda c: c.result.e == LC.at(cl(c), c['idx']))]}
        return Engine(F, '_TextTableRow.get_cell', {}, CLASSES, fc, plugins=[TextPlugin()]), []

    def build_len():
        fc = {'sig': {'self': ROW}, 'requires': [nn], 'ensures': [('C20/number-of-cells', lambda c: c.result.e == LC.len(cl(c)))]}
        return Engine(F, '_TextTableRow.__len__', {}, CLASSES, fc, plugins=[TextPlugin()]), []
    return [Unit('_TextTableRow.get_cell', F, build_get, ['C20']), Unit('_TextTableRow.__len__', F, build_len, ['C20'])]


UNITS += row_helper_units()
