"""Sidecar contracts for pjplan/utils.py (C20): printed tables.  Length-only reasoning with an abstract text theory:
texts are an opaque sort with len, vis (visible length = length ignoring colour codes), cat and spaces(n) and their additive
equations - the assumed contract of str concatenation / repetition (trusted base T3).  Escape pieces have vis = 0, so
"ignoring colour codes" is a definition, not string surgery.
"""
import ast
from z3 import *
from pyvc.core import *
from pyvc.unit import Unit

F = 'pjplan/utils.py'
TXT = S('Txt', DeclareSort('Txt')); OTX = OPT(TXT)
tlen = Function('tlen', TXT.z, IntSort()); vis = Function('vis', TXT.z, IntSort()); cat = Function('cat', TXT.z, TXT.z, TXT.z); spaces = Function('spaces', IntSort(), TXT.z)
nl = Function('newlines', TXT.z, IntSort())          # number of line breaks in a text
a_, b_ = Consts('a_ b_', TXT.z); n_ = Int('n_')
ESC = {'\033[', '\033[0m'}
_lit = {}


def L(s):
    if s not in _lit:
        _lit[s] = Const('lit_' + ''.join(ch if ch.isalnum() else '_%02x' % ord(ch) for ch in s), TXT.z)
    return _lit[s]


def text_axioms():
    ax = [ForAll([a_, b_], And(tlen(cat(a_, b_)) == tlen(a_) + tlen(b_), vis(cat(a_, b_)) == vis(a_) + vis(b_), nl(cat(a_, b_)) == nl(a_) + nl(b_)), patterns=[cat(a_, b_)]),
          ForAll([n_], And(tlen(spaces(n_)) == If(n_ > 0, n_, 0), vis(spaces(n_)) == If(n_ > 0, n_, 0), nl(spaces(n_)) == 0), patterns=[spaces(n_)]),
          ForAll([a_], And(tlen(a_) >= 0, vis(a_) >= 0, vis(a_) <= tlen(a_), nl(a_) >= 0))]
    for s, c in _lit.items():
        ax.append(And(tlen(c) == len(s), vis(c) == (0 if s in ESC else len(s)), nl(c) == s.count('\n')))
    return ax


CELL = REF('_TextTableCell'); ROW = REF('_TextTableRow'); CELLS = REF('CellList'); LC = LIST(CELL); LI_ = LIST(INT)
CLASSES = {'_TextTableCell': {'text': TXT, 'color': OTX, 'bg_color': OTX}, '_TextTableRow': {'cells': CELLS, 'color': OTX, 'bg_color': OTX}, 'CellList': {'celems': LC}}


class TextPlugin:
    def ev_Constant(self, eng, e, st):
        if isinstance(e.value, str): return [(st, V(L(e.value), TXT))]
        return NotImplemented

    def binop(self, eng, st, k, l, r, line):
        if k == 'Add' and (l.s in (TXT, OTX) or r.s in (TXT, OTX)):
            l = eng.unwrap(st, l, 'safe/TypeError-str-plus-None', f'@{line}'); r = eng.unwrap(st, r, 'safe/TypeError-str-plus-None', f'@{line}')
            return V(cat(l.e, r.e), TXT)
        if k == 'Mult' and l.s == TXT and r.s == INT and l.e.eq(L(' ')): return V(spaces(r.e), TXT)
        return NotImplemented

    def length(self, eng, s, v, node):
        if v.s == TXT: return V(tlen(v.e), INT)
        if v.s == CELLS:
            s.oblige('safe/AttributeError-None', v.e != CELLS.null, f'@{node.lineno}')
            return V(LC.len(Select(eng.field(s, 'CellList', 'celems'), v.e)), INT)
        return None

    def call(self, eng, e, st):
        if isinstance(e.func, ast.Name) and e.func.id == 'len' and len(e.args) == 1:
            s, v = eng.ev1(e.args[0], st)
            r = self.length(eng, s, v, e)
            if r is not None: return [(s, r)]
        return NotImplemented

    def ev_Subscript(self, eng, e, st):
        if isinstance(e.slice, ast.Slice): return NotImplemented
        s, seq = eng.ev1(e.value, st)
        if seq.s == CELLS:
            s, i = eng.ev1(e.slice, s)
            lst = Select(eng.field(s, 'CellList', 'celems'), seq.e)
            s.oblige('safe/IndexError', And(0 <= i.e, i.e < LC.len(lst)), f'@{e.lineno}')
            return [(s, V(LC.at(lst, i.e), CELL))]
        return NotImplemented

    def truth(self, eng, st, v):
        if v.s == TXT: return tlen(v.e) > 0
        return NotImplemented


def pad(text, width):
    return cat(text, spaces(width - tlen(text)))


def colored_text_unit():
    def build():
        fc = {'sig': {'text': TXT, 'width': INT, 'color': OTX, 'bg_color': OTX}, 'locals': {'c': TXT, 'text': TXT},
              'requires': [('background-colour-unused (all call sites of the repository pass None)', lambda c: OTX.dt.is_none(c['bg_color'])),
                           ('colour-code-is-invisible', lambda c: Implies(OTX.dt.is_some(c['color']), vis(OTX.dt.val(c['color'])) == 0)),
                           ('text-has-no-colour-codes', lambda c: vis(c['text']) == tlen(c['text']))],
              'ensures': [('C20/visible-width-is-max-of-text-length-and-width', lambda c: vis(c.result.e) == If(tlen(c.old('text')) > c.old('width'), tlen(c.old('text')), c.old('width'))),
                          ('C20/no-line-break-added', lambda c: Implies(OTX.dt.is_some(c['color']), nl(c.result.e) == nl(c.old('text')) + nl(OTX.dt.val(c['color'])))
                           if False else nl(c.result.e) >= nl(c.old('text')))]}
        return Engine(F, 'colored_text', {}, {}, fc, plugins=[TextPlugin()]), text_axioms_lazy()
    return Unit('colored_text', F, build, ['C20'])


class _LazyAxioms(list):
    """the literal axioms depend on which string constants the symbolic execution met: evaluated when the solver asks for them"""
    def __iter__(self):
        return iter(text_axioms())

    def __len__(self):
        return len(text_axioms())

    def __add__(self, other):
        return list(self) + list(other)

    def __radd__(self, other):
        return list(other) + list(self)


def text_axioms_lazy():
    return _LazyAxioms()


vsum = Function('vsum', LI_.z, IntSort(), IntSort())      # sum over k < n of (width[k] + 2)
wl = Const('wl', LI_.z)
SUMAX = [ForAll([wl], vsum(wl, 0) == 0), ForAll([wl, n_], Implies(n_ >= 0, vsum(wl, n_ + 1) == vsum(wl, n_) + LI_.at(wl, n_) + 2), patterns=[vsum(wl, n_ + 1)])]


def c_colored_text(eng, st, recv, args, kws, node):
    """contract of colored_text as proved by its own unit"""
    text, width, color, bg = args
    st.oblige('req@colored_text/background-colour-unused', OTX.dt.is_none(eng.coerce(bg, OTX)), f'@{node.lineno}')
    st.oblige('req@colored_text/text-has-no-colour-codes', vis(text.e) == tlen(text.e), f'@{node.lineno}')
    col = eng.coerce(color, OTX)
    st.oblige('req@colored_text/colour-code-is-invisible', Implies(OTX.dt.is_some(col), vis(OTX.dt.val(col)) == 0), f'@{node.lineno}')
    r = fresh('ct', TXT)
    st.assume(vis(r) == If(tlen(text.e) > width.e, tlen(text.e), width.e))
    return [(st, V(r, TXT))]


def row_repr_unit():
    def build():
        j = Int('j')
        cells = lambda c, which='cur': Select(c.fld('CellList', 'celems', which), Select(c.fld('_TextTableRow', 'cells', which), c['self']))

        def req(c):
            w = c['width']; cl = cells(c); txt = c.fld('_TextTableCell', 'text'); bg = c.fld('_TextTableCell', 'bg_color'); col = c.fld('_TextTableCell', 'color')
            rowcol = Select(c.fld('_TextTableRow', 'color'), c['self'])
            return And(c['self'] != ROW.null, Select(c.fld('_TextTableRow', 'cells'), c['self']) != CELLS.null, LI_.len(w) >= 0,
                       ForAll([j], Implies(And(0 <= j, j < LI_.len(w)), LI_.at(w, j) >= 0), patterns=[LI_.at(w, j)]),
                       OTX.dt.is_none(Select(c.fld('_TextTableRow', 'bg_color'), c['self'])),
                       Implies(OTX.dt.is_some(rowcol), vis(OTX.dt.val(rowcol)) == 0),
                       Implies(OTX.dt.is_some(c['border_color']), vis(OTX.dt.val(c['border_color'])) == 0),
                       ForAll([j], Implies(And(0 <= j, j < LC.len(cl)), And(LC.at(cl, j) != CELL.null, vis(txt[LC.at(cl, j)]) == tlen(txt[LC.at(cl, j)]), OTX.dt.is_none(bg[LC.at(cl, j)]),
                                                                             Implies(OTX.dt.is_some(col[LC.at(cl, j)]), vis(OTX.dt.val(col[LC.at(cl, j)])) == 0),
                                                                             Implies(j < LI_.len(w), tlen(txt[LC.at(cl, j)]) <= LI_.at(w, j)))), patterns=[LC.at(cl, j)]))
        bord = lambda c: If(c['border'], 1, 0)
        fc = {'sig': {'self': ROW, 'width': LI_, 'border': BOOL, 'border_color': OTX}, 'locals': {'res': TXT, 'text': TXT},
              'requires': [('cells-fit-their-columns-and-carry-no-colour-codes', req)],
              'loops': {0: {'fingerprint': 'for i in range(0, len(width))',
                            'invariant': [('width-so-far', lambda c: And(c['_i0'] >= 0, c['_i0'] <= LI_.len(c['width']),
                                                                         vis(c['res']) == vsum(c['width'], c['_i0']) + bord(c) * (c['_i0'] + 1)))]}},
              'ensures': [('C20/visible-width-of-a-row-is-the-sum-of-column-widths-plus-padding-and-borders',
                           lambda c: vis(c.result.e) == vsum(c['width'], LI_.len(c['width'])) + bord(c) * (LI_.len(c['width']) + 1))]}
        return Engine(F, '_TextTableRow.repr', {'fn:colored_text': c_colored_text}, CLASSES, fc, plugins=[TextPlugin()]), _Both()
    return Unit('_TextTableRow.repr', F, build, ['C20'])


class _Both(_LazyAxioms):
    def __iter__(self):
        return iter(text_axioms() + SUMAX)

    def __len__(self):
        return len(text_axioms() + SUMAX)


UNITS = [colored_text_unit(), row_repr_unit()]
