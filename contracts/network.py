"""Sidecar contracts for the three constructors of the activity network in pjplan/alg/critical_path.py (C12):
CriticalPathCalculator.__new_node, __connect and __add_work.  The network is a heap of _PNode / _PLink objects; the link lists of a node and the
node list / id -> arc dictionary of the calculator are list / map VALUES held in fields (they are never aliased: only these functions touch them).
A ghost field `alive` marks allocated objects; `_PNode()` / `_PLink(...)` return an object that was not alive.

Proved: __add_work(id, units, predecessors) adds exactly two new nodes s, e (appended to the node list in this order), one work arc s -> e with the
given units registered under `id`, and one zero-length arc end(arc of p) -> s for every listed predecessor id p, in list order; arcs, nodes and
memo fields that existed before are unchanged (forward lists of old nodes only grow by such zero arcs).  KeyError cannot occur when every listed id
is registered.  What decides WHICH tasks and ids reach __add_work (__insert_task) and the float test of calc are the bounded stand-in's.
"""
import ast
from z3 import *
from pyvc.core import *
from pyvc.unit import Unit

F = 'pjplan/alg/critical_path.py'
NODE = REF('_PNode'); LINK = REF('_PLink'); CALC = REF('CriticalPathCalculator'); LL = LIST(LINK); LN = LIST(NODE); LI = LIST(INT); OR_ = OPT(REAL)
LMd = Datatype('ArcDict'); LMd.declare('mk', ('dom', ArraySort(IntSort(), BoolSort())), ('val', ArraySort(IntSort(), LINK.z))); LMd = LMd.create(); LM = S('ArcDict', LMd)
CLASSES = {'_PNode': {'forward_links': LL, 'backward_links': LL, 'start_units': OR_, 'end_units': OR_, 'alive': BOOL},
           '_PLink': {'start': NODE, 'end': NODE, 'units': REAL, 'alive': BOOL},
           'CriticalPathCalculator': {'_CriticalPathCalculator__nodes': LN, '_CriticalPathCalculator__links': LM}}
appL = Function('app_arcs', LL.z, LINK.z, LL.z); emptyL = Const('no_arcs', LL.z); appN = Function('app_nodes', LN.z, NODE.z, LN.z)
ll_ = Const('ll_', LL.z); ln_ = Const('ln_', LN.z); l_ = Const('l_', LINK.z); n_ = Const('n_', NODE.z); c_ = Const('c_', CALC.z); i_, j_, k_ = Ints('i_ j_ k_')
NET_AX = [   # list values with append (the assumed contract of the built-in list, as in graph_theory.LIST_AX)
    ForAll([ll_], LL.len(ll_) >= 0), LL.len(emptyL) == 0, ForAll([ln_], LN.len(ln_) >= 0),
    ForAll([ll_, l_], And(LL.len(appL(ll_, l_)) == LL.len(ll_) + 1, LL.at(appL(ll_, l_), LL.len(ll_)) == l_), patterns=[appL(ll_, l_)]),
    ForAll([ll_, l_, i_], Implies(And(0 <= i_, i_ < LL.len(ll_)), LL.at(appL(ll_, l_), i_) == LL.at(ll_, i_)), patterns=[LL.at(appL(ll_, l_), i_)]),
    ForAll([ln_, n_], And(LN.len(appN(ln_, n_)) == LN.len(ln_) + 1, LN.at(appN(ln_, n_), LN.len(ln_)) == n_), patterns=[appN(ln_, n_)]),
    ForAll([ln_, n_, i_], Implies(And(0 <= i_, i_ < LN.len(ln_)), LN.at(appN(ln_, n_), i_) == LN.at(ln_, i_)), patterns=[LN.at(appN(ln_, n_), i_)]),
]


class Hp:
    def __init__(self, eng, st):
        f = lambda c, n: eng.field(st, c, n)
        self.fw, self.bw, self.su, self.eu, self.nalive = f('_PNode', 'forward_links'), f('_PNode', 'backward_links'), f('_PNode', 'start_units'), f('_PNode', 'end_units'), f('_PNode', 'alive')
        self.start, self.end, self.units, self.lalive = f('_PLink', 'start'), f('_PLink', 'end'), f('_PLink', 'units'), f('_PLink', 'alive')
        self.nodes, self.links = f('CriticalPathCalculator', '_CriticalPathCalculator__nodes'), f('CriticalPathCalculator', '_CriticalPathCalculator__links')


def new_node(eng, st):
    h = Hp(eng, st); r = fresh('node', NODE); st.assume(And(r != NODE.null, Not(h.nalive[r])))
    eng.write(st, '_PNode.alive', Store(h.nalive, r, True)); eng.write(st, '_PNode.forward_links', Store(h.fw, r, emptyL)); eng.write(st, '_PNode.backward_links', Store(h.bw, r, emptyL))
    eng.write(st, '_PNode.start_units', Store(h.su, r, OR_.dt.none)); eng.write(st, '_PNode.end_units', Store(h.eu, r, OR_.dt.none))
    return r


class NetPlugin:
    """_PNode() / _PLink(units, start, end); node.forward_links.append(arc); self.__nodes.append(node); self.__links[id] = arc; self.__links[p]"""

    def call(self, eng, e, st):
        f = e.func
        if isinstance(f, ast.Name) and f.id == '_PNode' and not e.args:
            return [(st, V(new_node(eng, st), NODE))]
        if isinstance(f, ast.Name) and f.id == '_PLink' and len(e.args) == 3:
            out = []
            for s, vs in eng.ev_seq(e.args, st):
                if isinstance(vs, Raise): out.append((s, vs)); continue
                h = Hp(eng, s); r = fresh('arc', LINK); s.assume(And(r != LINK.null, Not(h.lalive[r])))
                eng.write(s, '_PLink.alive', Store(h.lalive, r, True)); eng.write(s, '_PLink.units', Store(h.units, r, eng.coerce(vs[0], REAL)))
                eng.write(s, '_PLink.start', Store(h.start, r, vs[1].e)); eng.write(s, '_PLink.end', Store(h.end, r, vs[2].e))
                out.append((s, V(r, LINK)))
            return out
        if isinstance(f, ast.Attribute) and f.attr == 'append' and isinstance(f.value, ast.Attribute) and len(e.args) == 1:
            fld = eng.mangle(f.value.attr)
            if fld in ('forward_links', 'backward_links', '_CriticalPathCalculator__nodes'):
                s, o = eng.ev1(f.value.value, st); s, v = eng.ev1(e.args[0], s)
                cls = '_PNode' if o.s == NODE else 'CriticalPathCalculator'
                if (o.s == NODE) != (fld != '_CriticalPathCalculator__nodes'): return NotImplemented
                s.oblige('safe/AttributeError-None', o.e != o.s.null, f'@{e.lineno}')
                arr = eng.field(s, cls, fld)
                eng.write(s, f'{cls}.{fld}', Store(arr, o.e, (appL if o.s == NODE else appN)(arr[o.e], v.e)))
                return [(s, V(None, NONE))]
        return NotImplemented

    def assign(self, eng, s, target, v):
        if isinstance(target, ast.Subscript) and isinstance(target.value, ast.Attribute) and eng.mangle(target.value.attr) == '_CriticalPathCalculator__links':
            s2, o = eng.ev1(target.value.value, s); s2, k = eng.ev1(target.slice, s2)
            s2.oblige('safe/AttributeError-None', o.e != CALC.null, f'@{target.lineno}')
            arr = eng.field(s2, 'CriticalPathCalculator', '_CriticalPathCalculator__links'); m = arr[o.e]
            eng.write(s2, 'CriticalPathCalculator._CriticalPathCalculator__links', Store(arr, o.e, LMd.mk(Store(LMd.dom(m), k.e, True), Store(LMd.val(m), k.e, v.e))))
            return [(s2, FALL)]
        return NotImplemented

    def ev_Subscript(self, eng, e, st):
        if isinstance(e.value, ast.Attribute) and eng.mangle(e.value.attr) == '_CriticalPathCalculator__links':
            s, o = eng.ev1(e.value, st); s, k = eng.ev1(e.slice, s)
            s.oblige('safe/KeyError', Select(LMd.dom(o.e), k.e), f'@{e.lineno}')
            return [(s, V(Select(LMd.val(o.e), k.e), LINK))]
        return NotImplemented


def new_node_post(h0, h1, me, r):
    return {'C12/a-new-node-without-arcs-and-without-memo-values': And(r != NODE.null, Not(h0.nalive[r]), h1.nalive == Store(h0.nalive, r, True), h1.fw[r] == emptyL, h1.bw[r] == emptyL,
                                                                       h1.su[r] == OR_.dt.none, h1.eu[r] == OR_.dt.none),
            'C12/appended-to-the-node-list': And(h1.nodes[me] == appN(h0.nodes[me], r), ForAll([c_], Implies(c_ != me, h1.nodes[c_] == h0.nodes[c_]), patterns=[h1.nodes[c_]])),
            'C12/nothing-else-changes': And(ForAll([n_], Implies(n_ != r, And(h1.fw[n_] == h0.fw[n_], h1.bw[n_] == h0.bw[n_], h1.su[n_] == h0.su[n_], h1.eu[n_] == h0.eu[n_])), patterns=[h1.fw[n_]]),
                                            h1.start == h0.start, h1.end == h0.end, h1.units == h0.units, h1.lalive == h0.lalive, h1.links == h0.links)}


def connect_post(h0, h1, a, b, u, r):
    return {'C12/a-new-arc-with-the-given-ends-and-units': And(r != LINK.null, Not(h0.lalive[r]), h1.lalive == Store(h0.lalive, r, True), h1.start[r] == a, h1.end[r] == b, h1.units[r] == u),
            'C12/appended-to-the-forward-list-of-its-start-and-the-backward-list-of-its-end': And(h1.fw[a] == appL(h0.fw[a], r), h1.bw[b] == appL(h0.bw[b], r)),
            'C12/nothing-else-changes': And(ForAll([n_], Implies(n_ != a, h1.fw[n_] == h0.fw[n_]), patterns=[h1.fw[n_]]), ForAll([n_], Implies(n_ != b, h1.bw[n_] == h0.bw[n_]), patterns=[h1.bw[n_]]),
                                            ForAll([l_], Implies(l_ != r, And(h1.start[l_] == h0.start[l_], h1.end[l_] == h0.end[l_], h1.units[l_] == h0.units[l_])), patterns=[h1.start[l_]]),
                                            h1.su == h0.su, h1.eu == h0.eu, h1.nalive == h0.nalive, h1.nodes == h0.nodes, h1.links == h0.links)}
NN_LABS = list(new_node_post(None, None, None, None).keys()) if False else ['C12/a-new-node-without-arcs-and-without-memo-values', 'C12/appended-to-the-node-list', 'C12/nothing-else-changes']
CN_LABS = ['C12/a-new-arc-with-the-given-ends-and-units', 'C12/appended-to-the-forward-list-of-its-start-and-the-backward-list-of-its-end', 'C12/nothing-else-changes']
NET_KEYS = ['_PNode.forward_links', '_PNode.backward_links', '_PNode.start_units', '_PNode.end_units', '_PNode.alive', '_PLink.start', '_PLink.end', '_PLink.units', '_PLink.alive',
            'CriticalPathCalculator._CriticalPathCalculator__nodes', 'CriticalPathCalculator._CriticalPathCalculator__links']


def c_new_node(eng, st, recv, args, kws, node):
    h0 = Hp(eng, st)
    for k in NET_KEYS: eng.havoc(st, k)
    h1 = Hp(eng, st); r = fresh('node', NODE)
    for g in new_node_post(h0, h1, recv.e, r).values(): st.assume(g)
    return [(st, V(r, NODE))]


def c_connect(eng, st, recv, args, kws, node):
    a, b, u = args[0].e, args[1].e, eng.coerce(args[2], REAL)
    st.oblige('req@__connect/both-ends-exist', And(a != NODE.null, b != NODE.null), f'@{node.lineno}')
    h0 = Hp(eng, st)
    for k in NET_KEYS: eng.havoc(st, k)
    h1 = Hp(eng, st); r = fresh('arc', LINK)
    for g in connect_post(h0, h1, a, b, u, r).values(): st.assume(g)
    return [(st, V(r, LINK))]


def new_node_unit():
    def build():
        fc = {'sig': {'self': CALC}, 'locals': {'res': NODE}, 'requires': [('calculator-exists', lambda c: c['self'] != CALC.null)],
              'ensures': [(l, (lambda l: lambda c: new_node_post(Hp(c.eng, c.pre), Hp(c.eng, c.st), c['self'], c.result.e)[l])(l)) for l in NN_LABS]}
        return Engine(F, 'CriticalPathCalculator.__new_node', {}, CLASSES, fc, plugins=[NetPlugin()]), NET_AX
    return Unit('CriticalPathCalculator.__new_node', F, build, ['C12'])


def connect_unit():
    def build():
        fc = {'sig': {'start': NODE, 'end': NODE, 'units': REAL}, 'locals': {'link': LINK}, 'requires': [('both-ends-exist', lambda c: And(c['start'] != NODE.null, c['end'] != NODE.null))],
              'ensures': [(l, (lambda l: lambda c: connect_post(Hp(c.eng, c.pre), Hp(c.eng, c.st), c['start'], c['end'], c['units'], c.result.e)[l])(l)) for l in CN_LABS]}
        return Engine(F, 'CriticalPathCalculator.__connect', {}, CLASSES, fc, plugins=[NetPlugin()]), NET_AX
    return Unit('CriticalPathCalculator.__connect', F, build, ['C12'])


def add_work_unit():
    def build():
        hc = lambda c: Hp(c.eng, c.st); h0 = lambda c: Hp(c.eng, c.pre); me = lambda c: c['self']
        P = lambda c: c['predecessors']; npred = lambda c: LI.len(P(c))
        arcs = lambda h, c: h.links[me(c)]
        S_ = lambda c: c['start']; E_ = lambda c: c['end']                      # the two new nodes (locals of the function)
        wl = lambda c: Select(LMd.val(arcs(hc(c), c)), c['id'])                # the work arc

        def reg_ok(h, c):          # every registered arc is an allocated arc whose end is an allocated node
            m = arcs(h, c)
            return ForAll([k_], Implies(Select(LMd.dom(m), k_), And(Select(LMd.val(m), k_) != LINK.null, h.lalive[Select(LMd.val(m), k_)], h.end[Select(LMd.val(m), k_)] != NODE.null,
                                                                   h.nalive[h.end[Select(LMd.val(m), k_)]])), patterns=[Select(LMd.val(m), k_)])

        def spec(c, i):          # the state after the first i predecessor ids (i = len(predecessors): the post-condition)
            h, g = hc(c), h0(c); s, e, w = S_(c), E_(c), wl(c); Z = h.bw[s]
            zero = lambda j: LL.at(Z, j)
            return {
                'C12/two-new-nodes-appended-in-this-order': And(s != NODE.null, e != NODE.null, s != e, Not(g.nalive[s]), Not(g.nalive[e]), h.nodes[me(c)] == appN(appN(g.nodes[me(c)], s), e),
                                                                 ForAll([n_], h.nalive[n_] == Or(g.nalive[n_], n_ == s, n_ == e), patterns=[h.nalive[n_]])),
                'C12/work-arc-with-the-given-units-registered-under-the-id': And(LMd.dom(arcs(h, c)) == Store(LMd.dom(arcs(g, c)), c['id'], True), LMd.val(arcs(h, c)) == Store(LMd.val(arcs(g, c)), c['id'], w),
                                                                                  w != LINK.null, Not(g.lalive[w]), h.lalive[w], h.start[w] == s, h.end[w] == e, h.units[w] == c['units'],
                                                                                  h.fw[s] == appL(emptyL, w), h.bw[e] == appL(emptyL, w)),
                'C12/one-zero-arc-per-listed-predecessor-from-the-end-of-its-arc-in-list-order': And(LL.len(Z) == i, ForAll([j_], Implies(And(0 <= j_, j_ < i), And(
                    zero(j_) != LINK.null, Not(g.lalive[zero(j_)]), h.lalive[zero(j_)], zero(j_) != w, h.units[zero(j_)] == 0, h.end[zero(j_)] == s,
                    h.start[zero(j_)] == h.end[Select(LMd.val(arcs(h, c)), LI.at(P(c), j_))])), patterns=[LL.at(Z, j_)])),
                'C12/arcs-and-memo-values-that-existed-are-unchanged': And(ForAll([l_], Implies(g.lalive[l_], And(h.start[l_] == g.start[l_], h.end[l_] == g.end[l_], h.units[l_] == g.units[l_], h.lalive[l_])), patterns=[h.start[l_]]),
                                                                           ForAll([n_], Implies(g.nalive[n_], And(h.su[n_] == g.su[n_], h.eu[n_] == g.eu[n_], h.bw[n_] == g.bw[n_])), patterns=[h.su[n_]]),
                                                                           h.su[s] == OR_.dt.none, h.eu[s] == OR_.dt.none, h.su[e] == OR_.dt.none, h.eu[e] == OR_.dt.none,
                                                                           ForAll([c_], Implies(c_ != me(c), And(h.nodes[c_] == g.nodes[c_], h.links[c_] == g.links[c_])), patterns=[h.nodes[c_]])),
                'C12/forward-lists-of-old-nodes-only-grow-by-new-arcs': ForAll([n_], Implies(g.nalive[n_], And(LL.len(h.fw[n_]) >= LL.len(g.fw[n_]),
                    ForAll([k_], Implies(And(0 <= k_, k_ < LL.len(h.fw[n_])), If(k_ < LL.len(g.fw[n_]), LL.at(h.fw[n_], k_) == LL.at(g.fw[n_], k_), Not(g.lalive[LL.at(h.fw[n_], k_)]))), patterns=[LL.at(h.fw[n_], k_)]))),
                    patterns=[h.fw[n_]]),
            }
        SL = ['C12/two-new-nodes-appended-in-this-order', 'C12/work-arc-with-the-given-units-registered-under-the-id', 'C12/one-zero-arc-per-listed-predecessor-from-the-end-of-its-arc-in-list-order',
              'C12/arcs-and-memo-values-that-existed-are-unchanged', 'C12/forward-lists-of-old-nodes-only-grow-by-new-arcs']
        fc = {'sig': {'self': CALC, 'id': INT, 'units': REAL, 'predecessors': LI}, 'locals': {'start': NODE, 'end': NODE, 'link': LINK, 'p': INT},
              'requires': [('calculator-exists', lambda c: me(c) != CALC.null), ('registered-arcs-are-allocated-arcs-with-allocated-ends', lambda c: reg_ok(hc(c), c)),
                           ('every-listed-predecessor-id-is-registered-(or-is-the-id-itself)', lambda c: ForAll([j_], Implies(And(0 <= j_, j_ < npred(c)), Or(Select(LMd.dom(arcs(hc(c), c)), LI.at(P(c), j_)), LI.at(P(c), j_) == c['id'])), patterns=[LI.at(P(c), j_)])),
                           ('list-length', lambda c: npred(c) >= 0)],
              'loops': {0: {'fingerprint': 'for p in predecessors', 'havoc_heap': NET_KEYS,
                            'invariant': [(l, (lambda l: lambda c: spec(c, c['_i0'])[l])(l)) for l in SL] + [('index', lambda c: And(c['_i0'] >= 0, c['_i0'] <= npred(c)))]}},
              'ensures': [(l, (lambda l: lambda c: spec(c, npred(c))[l])(l)) for l in SL]}
        contracts = {'CriticalPathCalculator._CriticalPathCalculator__new_node': c_new_node, 'CriticalPathCalculator._CriticalPathCalculator__connect': c_connect}
        return Engine(F, 'CriticalPathCalculator.__add_work', contracts, CLASSES, fc, plugins=[NetPlugin()]), NET_AX
    return Unit('CriticalPathCalculator.__add_work', F, build, ['C12'], timeout_ms=15000)


UNITS = [new_node_unit(), connect_unit(), add_work_unit()]
