"""Sidecar contracts for the task-list query code of pjplan/task.py (C18): the nested function
_ImmutableTaskList.__call__.search and __get_task_attribute.

Dynamic values (attribute values, filter operands) are an abstract sort Val; Python's rich comparisons, `in` and re.search on
them are uninterpreted predicates (library contracts, L) - the proof is about *which* comparison is applied to *which* attribute
for every keyword, i.e. the suffix dispatch, for all keyword strings (SMT string theory).
"""
import ast
from z3 import *
from pyvc.core import *
from pyvc.unit import Unit

F = 'pjplan/task.py'
T = REF('Task'); TL = REF('_ImmutableTaskList')
VAL = S('Val', DeclareSort('Val')); vnone = Const('vnone', VAL.z); LS = LIST(STR); LV = LIST(VAL)
attr = Function('attr', T.z, StringSort(), VAL.z)                       # contract of __get_task_attribute (its own unit below)
py = {n: Function('py_' + n, VAL.z, VAL.z, BoolSort()) for n in ['in', 'ne', 'le', 'lt', 'ge', 'gt', 'search']}
SUF = [("_not_like_", 'not_like'), ("_like_", 'like'), ("_not_in_", 'not_in'), ("_is_none_", 'is_none'), ("_is_not_none_", 'is_not_none'), ("_in_", 'in'),
       ("_ne_", 'ne'), ("_le_", 'le'), ("_lt_", 'lt'), ("_ge_", 'ge'), ("_gt_", 'gt')]


def holds(t, k, v):
    """the property's meaning of one filter (taken from the sentence of C18, not from the code): the LONGEST of the eleven suffixes
    that k ends with decides; none -> equality; a task lacking the attribute never satisfies a comparison or pattern filter"""
    def meaning(op, name):
        a = attr(t, name); some = a != vnone
        return {'not_like': And(some, Not(py['search'](v, a))), 'like': And(some, py['search'](v, a)), 'not_in': Not(py['in'](a, v)), 'in': py['in'](a, v),
                'is_none': a == vnone, 'is_not_none': some, 'ne': And(some, py['ne'](a, v)), 'le': And(some, py['le'](a, v)), 'lt': And(some, py['lt'](a, v)),
                'ge': And(some, py['ge'](a, v)), 'gt': And(some, py['gt'](a, v))}[op]
    res = Not(py['ne'](attr(t, k), v))                                   # plain keyword: equality
    for sfx, op in sorted(SUF, key=lambda p: len(p[0])):                # shortest first, so that the longest ends up outermost
        res = If(SuffixOf(StringVal(sfx), k), meaning(op, SubString(k, 0, Length(k) - len(sfx))), res)
    return res


Hf = Function('holds', T.z, StringSort(), VAL.z, BoolSort())      # opaque in quantified positions; revealed for the current item only


class QueryPlugin:
    def __init__(self):
        self.t = None

    def for_loop(self, eng, stmt, st):
        it = stmt.iter
        if not (isinstance(it, ast.Call) and isinstance(it.func, ast.Attribute) and it.func.attr == 'items'): return NotImplemented
        keys, vals = st.env['_kw_keys'], st.env['_kw_vals']
        k = eng.loop_contract[eng.loop_ids[id(stmt)]][0]; idxn = f'_i{k}'; eng.locals[idxn] = INT
        st.env[idxn] = V(IntVal(0), INT)
        kn, vn = [e.id for e in stmt.target.elts]

        def guard(s): return [(s, s.env[idxn].e < LS.len(keys.e))]

        def pre(b):
            b.env[kn] = V(LS.at(keys.e, b.env[idxn].e), STR); b.env[vn] = V(LV.at(vals.e, b.env[idxn].e), VAL); b.env[idxn] = V(b.env[idxn].e + 1, INT)
            t = b.env['t'].e
            b.assume(Hf(t, b.env[kn].e, b.env[vn].e) == holds(t, b.env[kn].e, b.env[vn].e))       # reveal for the current item
            return [b]
        return eng.loop(stmt, st, guard, pre, extra_havoc=[idxn, kn, vn])

    def call(self, eng, e, st):
        f = e.func
        if isinstance(f, ast.Attribute) and f.attr == 'search' and isinstance(f.value, ast.Name) and f.value.id == 're':
            s, a = eng.ev1(e.args[0], st); s, b = eng.ev1(e.args[1], s)
            s.oblige('safe/TypeError-re.search-on-None', b.e != vnone, f'@{e.lineno}')
            return [(s, V(py['search'](a.e, b.e), BOOL))]
        if isinstance(f, ast.Attribute) and f.attr.endswith('__get_task_attribute'):
            s, t = eng.ev1(e.args[0], st); s, k = eng.ev1(e.args[1], s)
            return [(s, V(attr(t.e, k.e), VAL))]
        return NotImplemented

    def cmp(self, eng, st, k, l, r, line):
        if l.s == VAL and r.s == NONE and k in ('Is', 'IsNot'): return (l.e == vnone) if k == 'Is' else (l.e != vnone)
        if l.s == VAL and r.s == VAL:
            if k == 'In': return py['in'](l.e, r.e)
            if k == 'NotIn': return Not(py['in'](l.e, r.e))
            m = {'NotEq': 'ne', 'LtE': 'le', 'Lt': 'lt', 'GtE': 'ge', 'Gt': 'gt'}
            if k in m:
                if k != 'NotEq': st.oblige('safe/TypeError-comparison-with-None', l.e != vnone, f'@{line}')
                return py[m[k]](l.e, r.e)
            if k == 'Eq': return Not(py['ne'](l.e, r.e))
        return NotImplemented

    def truth(self, eng, st, v):
        if v.s == VAL: raise Unsupported('truthiness of a dynamic value')
        return NotImplemented


def search_unit():
    def build():
        keys = Const('kw_keys', LS.z); vals = Const('kw_vals', LV.z); j = Int('j')
        allhold = lambda c, n: ForAll([j], Implies(And(0 <= j, j < n), Hf(c['t'], LS.at(keys, j), LV.at(vals, j))), patterns=[LS.at(keys, j)])
        fc = {'sig': {'t': T, 'self': TL, '_kw_keys': LS, '_kw_vals': LV}, 'locals': {'k': STR, 'v': VAL, 'val': VAL},
              'requires': [('kw', lambda c: And(c['_kw_keys'] == keys, c['_kw_vals'] == vals, LS.len(keys) == LV.len(vals), LS.len(keys) >= 0))],
              'loops': {0: {'fingerprint': 'for (k, v) in kw.items()',
                            'invariant': [('all-so-far-hold', lambda c: And(c['_i0'] >= 0, c['_i0'] <= LS.len(keys), allhold(c, c['_i0'])))]}},
              'ensures': [('C18/search-is-true-exactly-if-every-filter-holds-under-the-longest-suffix-reading', lambda c: c.result.e == allhold(c, LS.len(keys)))]}
        return Engine(F, '_ImmutableTaskList.__call__.search', {}, {}, fc, plugins=[QueryPlugin()]), []
    return Unit('_ImmutableTaskList.__call__.search', F, build, ['C18'], timeout_ms=20000)


UNITS = [search_unit()]


# ------------------------------------------------------------------------------------------------ __get_task_attribute
DICTV = S('InstanceDict', DeclareSort('InstanceDict'))
indict = Function('in_instance_dict', T.z, StringSort(), BoolSort())        # name in t.__dict__
getattribute = Function('getattribute', T.z, StringSort(), VAL.z)           # t.__getattribute__(name)
idval = Function('idval', T.z, VAL.z)
pubparent = Function('pubparent', T.z, T.z)                                  # Task.parent (public view: None for root tasks)


class AttrPlugin:
    def ev_Attribute(self, eng, e, st):
        if e.attr == '__dict__':
            s, o = eng.ev1(e.value, st)
            return [(s, V(o.e, DICTV))]
        return NotImplemented

    def cmp(self, eng, st, k, l, r, line):
        if k in ('In', 'NotIn') and r.s == DICTV and l.s == STR:
            c = indict(r.e, l.e); return c if k == 'In' else Not(c)
        if k in ('In', 'NotIn') and r.s.name == 'Tuple' and l.s == STR and all(x.s == STR for x in r.e):
            c = Or(*[l.e == x.e for x in r.e]); return c if k == 'In' else Not(c)
        return NotImplemented

    def call(self, eng, e, st):
        f = e.func
        if isinstance(f, ast.Attribute) and f.attr == '__getattribute__' and len(e.args) == 1:
            s, o = eng.ev1(f.value, st); s, n = eng.ev1(e.args[0], s)
            s.oblige('safe/AttributeError-None', o.e != T.null, f'@{e.lineno}')
            return [(s, V(getattribute(o.e, n.e), VAL))]
        return NotImplemented


def attr_unit():
    def build():
        def c_parent(eng, st, recv, args, kws, node): return [(st, V(pubparent(recv.e), T))]
        def c_idv(eng, st, recv, args, kws, node): return [(st, V(idval(recv.e), VAL))]

        def as_val(c):
            r = c.result
            return vnone if r.s == NONE else r.e

        def spec(c):
            t, n = c['t'], c['attribute_name']
            return as_val(c) == If(n == StringVal('parent_id'), If(pubparent(t) != T.null, idval(pubparent(t)), vnone),
                                   If(n == StringVal('id'), idval(t),
                                      If(Or(indict(t, n), n == StringVal('estimate'), n == StringVal('spent')), getattribute(t, n), vnone)))
        fc = {'sig': {'t': T, 'attribute_name': STR}, 'requires': [('nn', lambda c: c['t'] != T.null)],
              'ensures': [('C18/value-of-every-public-attribute-incl-property-backed-ones-None-when-lacking', spec)]}
        return Engine(F, '_ImmutableTaskList.__get_task_attribute', {'prop:Task.parent': c_parent, 'prop:Task.id': c_idv}, {'Task': {}}, fc, plugins=[AttrPlugin()]), []
    return Unit('_ImmutableTaskList.__get_task_attribute', F, build, ['C18'])


UNITS.append(attr_unit())


# ------------------------------------------------------------------------------------------------ bulk assignment
from contracts.clone import ClonePlugin, SMAP_B, SMAP_V, CLASSES as ATTR_CLASSES, VAL as CVAL
LTQ = LIST(T)
memq = Function('memq', LTQ.z, T.z, BoolSort()); idxq = Function('idxq', LTQ.z, T.z, IntSort())
_lq = Const('_lq', LTQ.z); _jq = Int('_jq'); _xq = Const('_xq', T.z)
LQ_AX = [ForAll([_lq], LTQ.len(_lq) >= 0),
         ForAll([_lq, _jq], Implies(And(0 <= _jq, _jq < LTQ.len(_lq)), memq(_lq, LTQ.at(_lq, _jq))), patterns=[LTQ.at(_lq, _jq)]),
         ForAll([_lq, _xq], Implies(memq(_lq, _xq), And(0 <= idxq(_lq, _xq), idxq(_lq, _xq) < LTQ.len(_lq), LTQ.at(_lq, idxq(_lq, _xq)) == _xq)), patterns=[memq(_lq, _xq)])]


class BulkPlugin(ClonePlugin):
    def ev_ListComp(self, eng, e, st):
        g = e.generators[0]
        if len(e.generators) == 1 and isinstance(e.elt, ast.Name) and e.elt.id == g.target.id and not g.ifs:
            s, xs = eng.ev1(g.iter, st)
            if xs.s == LTQ: return [(s, V(xs.e, LTQ))]          # a copy of the list: same sequence of tasks
        return NotImplemented

    def call(self, eng, e, st):
        f = e.func
        if isinstance(f, ast.Attribute) and f.attr == '__setattr__' and isinstance(f.value, ast.Call) and ast.unparse(f.value) == 'super()':
            s = st
            for a in e.args: s, _ = eng.ev1(a, s)
            return [(s, V(None, NONE))]            # attribute of the list facade itself (names starting with '_'): no task is touched
        return ClonePlugin.call(self, eng, e, st)


def bulk_unit():
    def build():
        classes = {'Task': dict(ATTR_CLASSES['Task']), '_ImmutableTaskList': {'_list': LTQ}}
        L = lambda c: Select(c.fld('_ImmutableTaskList', '_list'), c['self'])
        has = lambda c, w='cur': c.fld('Task', '$has', w); at_ = lambda c, w='cur': c.fld('Task', '$attrs', w)
        t_ = Const('t_', T.z); k_ = Const('k_', StringSort())
        reserved = lambda key: Or(*[key == StringVal(n) for n in ('estimate', 'spent', 'id', 'parent', 'children', 'predecessors', 'successors', 'wbs')])

        def inv(c):
            i = c['_i0']; key = c['key']
            return And(i >= 0, i <= LTQ.len(L(c)),
                       ForAll([t_], Implies(And(memq(L(c), t_), idxq(L(c), t_) < i), And(has(c)[t_][key], at_(c)[t_][key] == c['value'])), patterns=[memq(L(c), t_)]),
                       ForAll([t_, k_], Implies(Or(Not(memq(L(c), t_)), k_ != key), And(has(c)[t_][k_] == has(c, 'pre')[t_][k_], at_(c)[t_][k_] == at_(c, 'pre')[t_][k_])), patterns=[has(c)[t_][k_]]),
                       ForAll([t_], Implies(And(memq(L(c), t_), idxq(L(c), t_) >= i, Not(Exists([_jq], And(0 <= _jq, _jq < i, LTQ.at(L(c), _jq) == t_)))),
                                            And(has(c)[t_][key] == has(c, 'pre')[t_][key], at_(c)[t_][key] == at_(c, 'pre')[t_][key])), patterns=[memq(L(c), t_)]))
        fc = {'sig': {'self': TL, 'key': STR, 'value': CVAL}, 'locals': {},
              'requires': [('pre', lambda c: And(c['self'] != TL.null, ForAll([_jq], Implies(And(0 <= _jq, _jq < LTQ.len(L(c))), LTQ.at(L(c), _jq) != T.null), patterns=[LTQ.at(L(c), _jq)]))),
                           ('plain-attribute-name (not a property of Task)', lambda c: Not(reserved(c['key'])))],
              'loops': {0: {'fingerprint': 'for t in tasks', 'invariant': [('set-on-the-tasks-visited-so-far', inv)], 'havoc_heap': ['Task.$has', 'Task.$attrs']}},
              'ensures': [('C18/attribute-set-on-exactly-the-listed-tasks', lambda c: Implies(Not(PrefixOf(StringVal('_'), c['key'])),
                              And(ForAll([t_], Implies(memq(L(c), t_), And(has(c)[t_][c['key']], at_(c)[t_][c['key']] == c['value'])), patterns=[memq(L(c), t_)]),
                                  ForAll([t_, k_], Implies(Or(Not(memq(L(c), t_)), k_ != c['key']), And(has(c)[t_][k_] == has(c, 'pre')[t_][k_], at_(c)[t_][k_] == at_(c, 'pre')[t_][k_])))))),
                          ('C18/private-names-touch-no-task', lambda c: Implies(PrefixOf(StringVal('_'), c['key']), And(has(c) == has(c, 'pre'), at_(c) == at_(c, 'pre'))))]}
        return Engine(F, '_ImmutableTaskList.__setattr__', {}, classes, fc, plugins=[BulkPlugin()]), LQ_AX
    return Unit('_ImmutableTaskList.__setattr__', F, build, ['C18'])


UNITS.append(bulk_unit())


# ------------------------------------------------------------------------------------------------ _ImmutableTaskList.__call__ (the query itself)
LTq = LIST(T)
memq = Function('memq', LTq.z, T.z, BoolSort()); idxq = Function('idxq', LTq.z, T.z, IntSort())
every_filter_holds = Function('every_filter_holds', LS.z, LV.z, T.z, BoolSort())
keypred = Function('key_predicate', T.z, BoolSort())          # the callable passed as `key`, applied to a task (assumed pure)
KW = REF('KwDict'); KEYF = S('KeyArg', DeclareSort('KeyArg')); key_none = Const('key_is_None', KEYF.z); is_callable = Function('is_callable', KEYF.z, BoolSort())
_x = Const('_x', T.z); _y = Const('_y', T.z)


def filtered(R, L, P):
    """assumed semantics of `[t for t in L if P(t)]` (T1): the elements of L that satisfy P, in the order of L (duplicates of L kept - stated through positions)"""
    j = Int('j'); k = Int('k'); pos = Function(f'pos!{fresh_id()}', IntSort(), IntSort())        # pos(j): position in L of the j-th element of R (strictly increasing)
    return And(LTq.len(R) >= 0,
               ForAll([j], Implies(And(0 <= j, j < LTq.len(R)), And(0 <= pos(j), pos(j) < LTq.len(L), LTq.at(R, j) == LTq.at(L, pos(j)), P(LTq.at(L, pos(j))))), patterns=[LTq.at(R, j)]),
               ForAll([j, k], Implies(And(0 <= j, j < k, k < LTq.len(R)), pos(j) < pos(k)), patterns=[MultiPattern(pos(j), pos(k))]),
               ForAll([k], Implies(And(0 <= k, k < LTq.len(L), P(LTq.at(L, k))), Exists([j], And(0 <= j, j < LTq.len(R), pos(j) == k))), patterns=[LTq.at(L, k)]))


class CallPlugin(QueryPlugin):
    def __init__(self, keys, vals):
        QueryPlugin.__init__(self); self.keys, self.vals = keys, vals; self.filters = []

    def matches(self, t):
        return every_filter_holds(self.keys, self.vals, t)

    def definition(self):
        """every_filter_holds(keys, vals, t) is DEFINED as: for every keyword j, holds(t, key_j, value_j) - what the unit of `search` proves its result to be"""
        j = Int('j')
        return ForAll([_x], every_filter_holds(self.keys, self.vals, _x) == ForAll([j], Implies(And(0 <= j, j < LS.len(self.keys)), Hf(_x, LS.at(self.keys, j), LV.at(self.vals, j)))),
                      patterns=[every_filter_holds(self.keys, self.vals, _x)])

    def ev_ListComp(self, eng, e, st):
        g = e.generators[0]
        src = ast.unparse(g.iter)
        if src not in ('self', 'self._list') or not (isinstance(e.elt, ast.Name) and e.elt.id == g.target.id) or len(g.ifs) > 1: raise Unsupported('comprehension form')
        L = Select(eng.field(st, '_ImmutableTaskList', '_list'), st.env['self'].e)
        R = fresh('selected', LTq)
        if not g.ifs:
            st.assume(R == L); kind = 'all'
        else:
            c = ast.unparse(g.ifs[0]).replace(' ', '')
            if c == f'key({g.target.id})': P = lambda t: keypred(t); kind = 'key'
            elif c == f'search({g.target.id},**kwargs)': P = self.matches; kind = 'kwargs'
            else: raise Unsupported('comprehension condition ' + c)
            st.assume(filtered(R, L, P))
        st.ghost['selection'] = (kind, R)
        return [(st, V(R, LTq))]

    def call(self, eng, e, st):
        f = e.func
        if isinstance(f, ast.Name) and f.id == 'callable' and len(e.args) == 1:
            s, v = eng.ev1(e.args[0], st); return [(s, V(is_callable(v.e), BOOL))]
        if isinstance(f, ast.Name) and f.id == 'type': return [(st, V(fresh('typename', STR), STR))]
        if isinstance(f, ast.Name) and f.id == '_ImmutableTaskList' and len(e.args) == 1:
            s, v = eng.ev1(e.args[0], st)
            r = fresh('result', TL); s.assume(And(r != TL.null, r != s.env['self'].e))
            eng.write(s, '_ImmutableTaskList._list', Store(eng.field(s, '_ImmutableTaskList', '_list'), r, v.e))
            return [(s, V(r, TL))]
        return QueryPlugin.call(self, eng, e, st)

    def cmp(self, eng, st, k, l, r, line):
        if l.s == KEYF and r.s == NONE and k in ('Is', 'IsNot'): return (l.e == key_none) if k == 'Is' else (l.e != key_none)
        if l.s == KW and r.s == NONE and k in ('Is', 'IsNot'): return (l.e == KW.null) if k == 'Is' else (l.e != KW.null)
        return QueryPlugin.cmp(self, eng, st, k, l, r, line)


def call_unit():
    def build():
        keys = Const('kw_keys', LS.z); vals = Const('kw_vals', LV.z)
        plug = CallPlugin(keys, vals)
        lst = lambda c, which='cur': Select(c.fld('_ImmutableTaskList', '_list', which), c['self'])
        res = lambda c: Select(c.fld('_ImmutableTaskList', '_list'), c.result.e)

        def sel(c, kind):
            R = res(c); L = lst(c, 'pre'); j = Int('j')
            P = {'key': lambda t: keypred(t), 'kwargs': plug.matches}[kind]
            # the result, read in the property's words: exactly the listed tasks that satisfy the filter, in list order
            return And(c.result.e != TL.null,
                       ForAll([j], Implies(And(0 <= j, j < LTq.len(R)), Exists([Int('k')], And(0 <= Int('k'), Int('k') < LTq.len(L), LTq.at(L, Int('k')) == LTq.at(R, j), P(LTq.at(R, j))))), patterns=[LTq.at(R, j)]),
                       ForAll([j], Implies(And(0 <= j, j < LTq.len(L), P(LTq.at(L, j))), Exists([Int('k')], And(0 <= Int('k'), Int('k') < LTq.len(R), LTq.at(R, Int('k')) == LTq.at(L, j)))), patterns=[LTq.at(L, j)]))
        fc = {'sig': {'self': TL, 'key': KEYF, 'kwargs': KW, '_kw_keys': LS, '_kw_vals': LV},
              'requires': [('list-and-keywords', lambda c: And(c['self'] != TL.null, c['kwargs'] != KW.null, c['_kw_keys'] == keys, c['_kw_vals'] == vals, LS.len(keys) == LV.len(vals), LS.len(keys) >= 0, LTq.len(lst(c)) >= 0))],
              'raises': {'RuntimeError': [('C18/only-a-key-that-is-neither-None-nor-callable-is-refused', lambda c: And(c['key'] != key_none, Not(is_callable(c['key'])))),
                                          ('C18/nothing-changed', lambda c: lst(c) == lst(c, 'pre'))]},
              'ensures': [('C18/a-callable-key-is-applied-as-a-predicate', lambda c: Implies(c['key'] != key_none, And(is_callable(c['key']), sel(c, 'key')))),
                          ('C18/keyword-filters-select-exactly-the-tasks-for-which-every-filter-holds', lambda c: Implies(c['key'] == key_none, sel(c, 'kwargs'))),
                          ('C18/the-queried-list-is-not-changed', lambda c: lst(c) == lst(c, 'pre'))]}

        def c_search(eng, st, recv, args, kws, node): return [(st, V(plug.matches(args[0].e), BOOL))]
        return Engine(F, '_ImmutableTaskList.__call__', {'fn:search': c_search}, {'_ImmutableTaskList': {'_list': LTq}}, fc, plugins=[plug]), [plug.definition()]
    return Unit('_ImmutableTaskList.__call__', F, build, ['C18'], timeout_ms=15000)


UNITS.append(call_unit())
