"""Shared theory for the scheduler contracts (schedule.py): the usage ledger as an abstract snoc-list of rows with the
specification functions tot / totT / work defined by recursion on its construction, capacity as an uninterpreted
function of (resource, day) - so every proof holds for every calendar - and the ledger invariant of C03.
"""
import ast
from z3 import *
from pyvc.core import *

IR = REF('IResource'); TK = REF('Task'); RU = REF('_ResourceUsage'); FS = REF('ForwardScheduler'); BS = REF('BackwardScheduler')
RUR = REF('ResourceUsageReport')
ROW = S('Row', DeclareSort('Row'))
Led = S('Led', DeclareSort('Led'))
# rows: constructor + observers (frozen dataclass ResourceUsageRow)
mkrow = Function('mkrow', IR.z, RealSort(), TK.z, RealSort(), ROW.z)
r_res = Function('r_res', ROW.z, IR.z); r_date = Function('r_date', ROW.z, RealSort()); r_task = Function('r_task', ROW.z, TK.z); r_units = Function('r_units', ROW.z, RealSort())
# ledger: nil / app; spec functions by recursion on the construction
nil = Const('led_nil', Led.z); app = Function('led_app', Led.z, ROW.z, Led.z)
tot = Function('tot', Led.z, IR.z, IntSort(), RealSort())                 # units booked on (resource, day)
totT = Function('totT', Led.z, IR.z, IntSort(), TK.z, RealSort())         # ... by one task
work = Function('work', Led.z, TK.z, RealSort())                         # units booked for a task
wf = Function('led_wf', Led.z, BoolSort())                               # every row: date is a midnight
cap = Function('cap', IR.z, IntSort(), RealSort())                       # interface contract: capacity of a resource on a day

L_ = Const('L_', Led.z); x_ = Const('x_', ROW.z); r_, r2_ = Consts('r_ r2_', IR.z); d_, d2_ = Ints('d_ d2_'); k_, k2_ = Consts('k_ k2_', TK.z); u_ = Real('u_'); t_ = Real('t_')


def rday(x):
    return dayidx(r_date(x))


LEDGER_AX = [
    ForAll([r_, t_, k_, u_], And(r_res(mkrow(r_, t_, k_, u_)) == r_, r_date(mkrow(r_, t_, k_, u_)) == t_, r_task(mkrow(r_, t_, k_, u_)) == k_, r_units(mkrow(r_, t_, k_, u_)) == u_),
           patterns=[mkrow(r_, t_, k_, u_)]),
    ForAll([r_, d_], tot(nil, r_, d_) == 0), ForAll([r_, d_, k_], totT(nil, r_, d_, k_) == 0), ForAll([k_], work(nil, k_) == 0), wf(nil),
    ForAll([L_, x_, r_, d_], tot(app(L_, x_), r_, d_) == tot(L_, r_, d_) + If(And(r_res(x_) == r_, rday(x_) == d_), r_units(x_), 0), patterns=[tot(app(L_, x_), r_, d_)]),
    ForAll([L_, x_, r_, d_, k_], totT(app(L_, x_), r_, d_, k_) == totT(L_, r_, d_, k_) + If(And(r_res(x_) == r_, rday(x_) == d_, r_task(x_) == k_), r_units(x_), 0),
           patterns=[totT(app(L_, x_), r_, d_, k_)]),
    ForAll([L_, x_, k_], work(app(L_, x_), k_) == work(L_, k_) + If(r_task(x_) == k_, r_units(x_), 0), patterns=[work(app(L_, x_), k_)]),
    ForAll([L_, x_], wf(app(L_, x_)) == And(wf(L_), r_date(x_) == midnight(r_date(x_))), patterns=[wf(app(L_, x_))]),
]


def LedInv(L, bal):
    """C03 as an invariant of the ledger: non-negative totals, per-task part below the total, capacity respected for
    the day (balancing on) / for each task (balancing off)"""
    return And(ForAll([r_, d_], tot(L, r_, d_) >= 0, patterns=[tot(L, r_, d_)]),
               ForAll([r_, d_, k_], And(totT(L, r_, d_, k_) >= 0, totT(L, r_, d_, k_) <= tot(L, r_, d_)), patterns=[totT(L, r_, d_, k_)]),
               Implies(bal, ForAll([r_, d_], tot(L, r_, d_) <= cap(r_, d_), patterns=[tot(L, r_, d_)])),
               Implies(Not(bal), ForAll([r_, d_, k_], totT(L, r_, d_, k_) <= cap(r_, d_), patterns=[totT(L, r_, d_, k_)])),
               ForAll([r_, d_], Implies(tot(L, r_, d_) > 0, cap(r_, d_) > 0), patterns=[tot(L, r_, d_)]))


def LedInvParts(L, bal):
    return {'totals-non-negative': ForAll([r_, d_], tot(L, r_, d_) >= 0, patterns=[tot(L, r_, d_)]),
            'task-part-within-total': ForAll([r_, d_, k_], And(totT(L, r_, d_, k_) >= 0, totT(L, r_, d_, k_) <= tot(L, r_, d_)), patterns=[totT(L, r_, d_, k_)]),
            'day-total-within-capacity (balancing on)': Implies(bal, ForAll([r_, d_], tot(L, r_, d_) <= cap(r_, d_), patterns=[tot(L, r_, d_)])),
            'task-total-within-capacity (balancing off)': Implies(Not(bal), ForAll([r_, d_, k_], totT(L, r_, d_, k_) <= cap(r_, d_), patterns=[totT(L, r_, d_, k_)])),
            'rows-only-on-days-with-capacity': ForAll([r_, d_], Implies(tot(L, r_, d_) > 0, cap(r_, d_) > 0), patterns=[tot(L, r_, d_)]),
            'rows-are-day-normalised': wf(L)}


def booked(bal, L, res, task, day):
    """what the scheduler compares with capacity"""
    return If(bal, tot(L, res, day), totT(L, res, day, task))


SCHED_CLASSES = {
    '_ResourceUsage': {'rows': Led},
    'ResourceUsageReport': {'_ResourceUsageReport__rows': Led},
    'ForwardScheduler': {'_ForwardScheduler__balance_resources': BOOL, '_ForwardScheduler__default_estimate': REAL, '_ForwardScheduler__start': TIME},
    'BackwardScheduler': {'_BackwardScheduler__balance_resources': BOOL, '_BackwardScheduler__default_estimate': REAL, '_BackwardScheduler__end': TIME},
    'IResource': {'name': STR},
}


# ------------------------------------------------------------------------------------------------ callee contracts
def c_reserved(eng, st, recv, args, kws, node):
    """_ResourceUsage.reserved(resource, date[, task]) = tot / totT of the current ledger (proved for the body in its own unit)"""
    Lr = Select(eng.field(st, '_ResourceUsage', 'rows'), recv.e)
    d = dayidx(eng.as_sort(st, args[1], TIME, 'safe/TypeError-None-date'))
    task = args[2] if len(args) > 2 else kws.get('task')
    if task is None: return [(st, V(tot(Lr, args[0].e, d), REAL))]
    return [(st, V(If(task.e == TK.null, tot(Lr, args[0].e, d), totT(Lr, args[0].e, d, task.e)), REAL))]


def c_reserve(eng, st, recv, args, kws, node):
    """_ResourceUsage.reserve(resource, date, task, units): requires units > 0 and capacity on that day (taken from C03: rows are
    positive amounts on days with capacity); appends exactly one day-normalised row; returns units"""
    f = eng.field(st, '_ResourceUsage', 'rows'); Lr = Select(f, recv.e)
    units = eng.coerce(args[3], REAL); date = eng.as_sort(st, args[1], TIME, 'safe/TypeError-None-date')
    st.oblige('req@reserve/C03/positive-amount', units > 0, f'@{node.lineno}')
    st.oblige('req@reserve/C03/day-has-capacity', cap(args[0].e, dayidx(date)) > 0, f'@{node.lineno}')
    newL = fresh('rows', Led)
    st.assume(newL == app(Lr, mkrow(args[0].e, midnight(date), args[2].e, units)))
    eng.write(st, '_ResourceUsage.rows', Store(f, recv.e, newL))
    return [(st, V(units, REAL))]


def c_avail(eng, st, recv, args, kws, node):
    """IResource.get_available_units(date, task): day-granular capacity cap(resource, day(date)) (interface assumption: pure,
    deterministic, depends on the day only; proved non-None / zero-filled for Resource in contracts/calendar.py)"""
    return [(st, V(cap(recv.e, dayidx(eng.as_sort(st, args[0], TIME, 'safe/TypeError-None-date'))), REAL))]


_kk = Int('_kk')


def c_nearest_avail(eng, st, recv, args, kws, node):
    """IResource.get_nearest_availability_date(start, direction) - its own unit proves the date-level contract (contracts/calendar.py);
    here it is stated over day indexes (capacity is day-granular; dayidx(start + 86400*j) = dayidx(start) + j is a theorem of floor)"""
    start = eng.as_sort(st, args[0], TIME, 'safe/TypeError-None-date'); direction = simplify(args[1].e)
    if not is_int_value(direction) or direction.as_long() not in (1, -1): raise Unsupported('availability search with a symbolic direction')
    fwd = direction.as_long() == 1
    k = fresh('k', INT); ok = st.fork(); exc = st.fork(); d0 = dayidx(start); dd = Int('_dd')
    res = fresh('nearest', TIME)
    if fwd:
        ok.assume(And(k >= 0, res == start + 86400 * ToReal(k), dayidx(res) == d0 + k, cap(recv.e, d0 + k) > 0,
                      ForAll([dd], Implies(And(d0 <= dd, dd < d0 + k), cap(recv.e, dd) <= 0), patterns=[cap(recv.e, dd)])))
    else:
        ok.assume(And(k >= 0, res == start - 86400 * ToReal(k), dayidx(res) == d0 - k, dayidx(res - 86400) == d0 - k - 1, cap(recv.e, d0 - k - 1) > 0,
                      ForAll([dd], Implies(And(d0 - 1 - k < dd, dd <= d0 - 1), cap(recv.e, dd) <= 0), patterns=[cap(recv.e, dd)])))
    return [(ok, V(res, TIME)), (exc, Raise('RuntimeError'))]
