"""Sidecar contracts for the closure helpers of pjplan/task.py (C01 C05 C15 C16): the recursive generators behind Task.all_children,
Task.all_parents, Task.all_predecessors / all_successors, and the link check _check_no_links_to_ancestors.  The mutator units of
contracts/task.py use these helpers by contract only; here their bodies are checked against those contracts, so the contracts stop being
assumptions.

Generators: a nested generator function is executed as a function that appends to a ghost output list `_out` (`yield x` appends x,
`yield from g(a)` appends the list g's contract describes); consuming it with a list comprehension or another `yield from` takes the whole
list.  Laziness is not modelled (nothing in these helpers depends on it: every consumer exhausts the generator at once and the heap is
not written in between).

Depth-first listing (C05, WBS.tasks): dfs(t) is the spec function  dfs(t) = concat over the children c of t, in list order, of [c] + dfs(c)
- the sentence "each task directly followed by its descendants, siblings in list order" as a recursive definition.  It is introduced by its
unfolding axioms, guarded by the flag WFH(heap) that the unit's pre-condition ties to the forest invariant (on a cyclic heap the definition
would not be well founded, so it is not unfolded there).  The code is proved to return exactly dfs(t), to list exactly the strict
descendants, and each once.

Termination (C14): recursion by contract with a measure that decreases at every recursive call: `height` down the hierarchy, `depth` up the
hierarchy, `prank` along dependency links.  Such measures exist in a finite acyclic graph (Lean: K1); the pre-conditions ask for one.
"""
import ast
from z3 import *
from pyvc.core import *
from contracts.graph_theory import *
from contracts.task import (F, EMPTY, H, Inv, F2below, LInv_side, LINK_LABS, LinkPlugin, KID_AX, kid, c_id, c_pubparent, t_, c_, a_, b_, u_, w_,
                            links_cross_def, _LX, links_cross)
from pyvc.unit import Unit

CHL = ArraySort(T.z, LR.z); ELS = ArraySort(LR.z, LT.z)
dfs = Function('dfs', CHL, ELS, T.z, LT.z)                      # depth-first listing of the strict descendants of a task
flat = Function('dfs_upto', CHL, ELS, LT.z, IntSort(), LT.z)    # ... of the first i children in a children list
WFH = Function('forest_ok', PAR, CHL, ELS, BoolSort())         # flag: the heap is a finite forest (tied to the invariant in the pre-conditions)
cm, em = Const('cm', CHL), Const('em', ELS); l0 = Const('l0', LT.z); i0 = Int('i0')
DFS_AX = [
    ForAll([cm, em, l0], flat(cm, em, l0, 0) == empty, patterns=[flat(cm, em, l0, 0)]),
    ForAll([cm, em, l0, i0], Implies(i0 >= 0, flat(cm, em, l0, i0 + 1) == cat(app(flat(cm, em, l0, i0), at(l0, i0)), dfs(cm, em, at(l0, i0)))), patterns=[flat(cm, em, l0, i0 + 1)]),
    ForAll([pm, cm, em, x], Implies(WFH(pm, cm, em), dfs(cm, em, x) == flat(cm, em, em[cm[x]], ln(em[cm[x]]))), patterns=[MultiPattern(WFH(pm, cm, em), dfs(cm, em, x))]),
]
class GenPlugin(LinkPlugin):
    """generator functions: see the module docstring"""

    def __init__(self):
        LinkPlugin.__init__(self, 'pre')

    def ex_Expr(self, eng, stmt, st):
        v = stmt.value
        if isinstance(v, ast.Yield):
            s, xv = eng.ev1(v.value, st)
            s.env['_out'] = V(app(s.env['_out'].e, eng.coerce(xv, T)), LT)
            return [(s, FALL)]
        if isinstance(v, ast.YieldFrom):
            out = []
            for s, r in eng.ev(v.value, st):
                if isinstance(r, Raise): out.append((s, r)); continue
                s.env['_out'] = V(cat(s.env['_out'].e, self.listval(eng, s, r, stmt.lineno)), LT)
                out.append((s, FALL))
            return out
        return NotImplemented

    def ev_ListComp(self, eng, e, st):
        g = e.generators[0]
        if len(e.generators) == 1 and isinstance(e.elt, ast.Name) and e.elt.id == g.target.id and not g.ifs:
            s, xs = eng.ev1(g.iter, st)
            if xs.s == LT: return [(s, xs)]                 # [t for t in <generator>]: the list of everything it yields
        return LinkPlugin.ev_ListComp(self, eng, e, st)


def forest_struct(h, t):
    """F1, F3, acyclic, and F2 for the tasks below t (the parent setter reads the descendants of a task whose own entry in its parent's list may be missing)"""
    I = Inv(h)
    return And(Acyc(h.par), h.par[null] == null, I['C01/F1-listed-child-reports-that-parent'], F2below(h, t), I['C01/F3-no-child-listed-twice'],
               ForAll([t_], Implies(t_ != null, h.chl[t_] != LR.null), patterns=[h.chl[t_]]))


def forest_pre(h, t):
    """WFH is the flag that guards the unfolding of dfs; it is DEFINED as: children lists only list tasks that report that parent (F1), no task is its own
    ancestor (F4), finitely many tasks - so a caller that has shown F1 and F4 has it"""
    return And(forest_struct(h, t), WFH(h.par, h.chl, h.elems))


def desc_post(h, t, R):
    return {'C05/listing-is-depth-first-each-task-directly-followed-by-its-descendants-siblings-in-list-order': R == dfs(h.chl, h.elems, t),
            'C05/lists-exactly-the-strict-descendants': ForAll([x], mem(R, x) == Desc(h.par, t, x), patterns=[mem(R, x)]),
            'C05/lists-every-task-once': nodup(R)}


DESC_LABS = list(desc_post(type('X', (), {'par': Const('p0', PAR), 'chl': Const('c0', CHL), 'elems': Const('e0', ELS)})(), null, empty).keys())


def c_desc_list(name, rec=False):
    """call contract of get_children / __get_all_children / all_children (proved by the units below)"""
    def c(eng, st, recv, args, kws, node):
        h = H(eng, st); t = (args[0].e if args else recv.e)
        st.oblige(f'req@{name}/task-non-null', t != null, f'@{node.lineno}')
        st.oblige(f'req@{name}/forest', forest_struct(h, t), f'@{node.lineno}'); st.assume(WFH(h.par, h.chl, h.elems))
        if rec:
            me = st.env['t'].e
            st.oblige('dec/C14/height-decreases-at-the-recursive-call', And(hgt(h.par, t) < hgt(h.par, me), hgt(h.par, t) >= 0), f'@{node.lineno}')
        R = fresh('desc', LT)
        for g in desc_post(h, t, R).values(): st.assume(g)
        return [(st, V(R, LT))]
    return c


def same_heap(c):
    h, h0 = H(c.eng, c.st), H(c.eng, c.pre)
    return And(h.par == h0.par, h.chl == h0.chl, h.elems == h0.elems, h.pre == h0.pre, h.suc == h0.suc, h.own == h0.own)


def get_children_unit():
    def build():
        hc = lambda c: H(c.eng, c.st)

        def inv(c):
            h = hc(c); t = c['t']; C = h.ch(t); i = c['_i0']; out = c['_out']
            return {'frame': And(same_heap(c), i >= 0, i <= ln(C)),
                    'listing-so-far-is-the-depth-first-listing-of-the-children-visited': out == flat(h.chl, h.elems, C, i),
                    'lists-exactly-the-descendants-below-the-children-visited': ForAll([x], mem(out, x) == And(Desc(h.par, t, x), idx(C, kid(h.par, t, x)) < i), patterns=[mem(out, x)]),
                    'no-task-listed-twice': nodup(out)}
        IL = ['frame', 'listing-so-far-is-the-depth-first-listing-of-the-children-visited', 'lists-exactly-the-descendants-below-the-children-visited', 'no-task-listed-twice']
        fc = {'sig': {'t': T, '_out': LT},
              'requires': [('task-non-null', lambda c: c['t'] != null), ('generator-starts-empty', lambda c: c['_out'] == empty), ('forest', lambda c: forest_pre(hc(c), c['t']))],
              'loops': {0: {'fingerprint': 'for ch in t.__children', 'havoc': ['_out'], 'invariant': [(l_, (lambda l_: lambda c: inv(c)[l_])(l_)) for l_ in IL]}},
              'ensures': [(l_, (lambda l_: lambda c: desc_post(hc(c), c['t'], c['_out'])[l_])(l_)) for l_ in DESC_LABS] + [('C16/reads-only', same_heap)]}
        return Engine(F, 'Task.__get_all_children.get_children', {'fn:get_children': c_desc_list('get_children', rec=True)}, TASK_CLASSES, fc, plugins=[GenPlugin()]), \
            LIST_AX + LIST_CAT_AX + GRAPH_AX + KID_AX + DFS_AX + MEASURE_AX
    return Unit('Task.__get_all_children.get_children', F, build, ['C05', 'C14'], timeout_ms=15000)


def all_children_units():
    def wrap(qual, contracts, recv_name='self'):
        def build():
            hc = lambda c: H(c.eng, c.st)
            fc = {'sig': {'self': T}, 'requires': [('task-non-null', lambda c: c['self'] != null), ('forest', lambda c: forest_pre(hc(c), c['self']))],
                  'ensures': [(l_, (lambda l_: lambda c: desc_post(hc(c), c['self'], GenPlugin().listval(c.eng, c.st, c.result, 0))[l_])(l_)) for l_ in DESC_LABS] + [('C16/reads-only', same_heap)]}
            return Engine(F, qual, contracts, TASK_CLASSES, fc, plugins=[GenPlugin()]), LIST_AX + GRAPH_AX
        return Unit(qual, F, build, ['C05'])
    return [wrap('Task.__get_all_children', {'fn:get_children': c_desc_list('get_children')}),
            wrap('Task.all_children', {'Task._Task__get_all_children': c_desc_list('__get_all_children'), 'fn:_ImmutableTaskList': c_readonly_view})]


def c_readonly_view(eng, st, recv, args, kws, node):
    """_ImmutableTaskList(lst): a read-only view that delegates `in`, iteration, len and indexing to the list it wraps (trusted wrapper, T2): the list value"""
    return [(st, args[0])]


UNITS = [get_children_unit()] + all_children_units()


# ================================================================================================ getters used by the closures
def getter_units():
    def mk(qual, lab, post):
        def build():
            fc = {'sig': {'self': T}, 'globals': {'EMPTY_TASK_ID': V(EMPTY, INT)}, 'requires': [('task-non-null', lambda c: c['self'] != null)],
                  'ensures': [(lab, lambda c: post(H(c.eng, c.st), c['self'], c.eng.coerce(c.result, T) if c.result.s in (T, NONE) else c.result.e)), ('C16/reads-only', same_heap)]}
            return Engine(F, qual, {'prop:Task.id': c_id}, TASK_CLASSES, fc, plugins=[GenPlugin()]), []
        return Unit(qual, F, build, ['C01', 'C11'])
    return [mk('Task.parent.getter', 'C01,C11/reported-parent-is-the-parent-unless-that-is-a-hidden-WBS-root', lambda h, me, r: r == If(Or(h.par[me] == null, h.tid[h.par[me]] == EMPTY), null, h.par[me])),
            mk('Task.id', 'C05/reported-id-is-the-stored-id', lambda h, me, r: r == h.tid[me]),
            mk('Task.wbs', 'C11/reported-owner-is-the-stored-owner', lambda h, me, r: r == h.own[me])]


UNITS += getter_units()


# ================================================================================================ ancestors
def up_pre(h):
    return And(Acyc(h.par), h.par[null] == null,
               ForAll([c_], Implies(And(c_ != null, h.tid[c_] == EMPTY), h.par[c_] == null), patterns=[h.tid[c_]]))         # the reserved id marks hidden WBS roots only, and those have no parent (WR; domain restriction of DESIGN 8)


def anc_post(h, t, R):
    """R: t and its ancestors, nearest first, up to but without a hidden root (t may be None: the empty list)"""
    return {'C01/lists-exactly-the-task-and-its-ancestors-below-the-hidden-root': ForAll([x], mem(R, x) == And(t != null, Or(x == t, Desc(h.par, x, t)), h.tid[x] != EMPTY, x != null), patterns=[mem(R, x)]),
            'C01/lists-every-task-once': nodup(R),
            'C16/nearest-ancestor-first': ForAll([a_, b_], Implies(And(mem(R, a_), mem(R, b_), Desc(h.par, a_, b_)), idx(R, b_) < idx(R, a_)), patterns=[MultiPattern(idx(R, a_), idx(R, b_))])}


ANC_LABS = list(anc_post(type('X', (), {'par': Const('p0', PAR), 'tid': Const('i0', ArraySort(T.z, IntSort()))})(), null, empty).keys())


def c_anc_list(name, rec=False, strict=False):
    def c(eng, st, recv, args, kws, node):
        h = H(eng, st); t = eng.coerce(args[0], T) if args else recv.e
        st.oblige(f'req@{name}/hierarchy', up_pre(h), f'@{node.lineno}')
        if rec:
            me = st.env['t'].e
            st.oblige('dec/C14/depth-decreases-at-the-recursive-call', Implies(t != null, And(dep(h.par, t) < dep(h.par, me), dep(h.par, t) >= 0)), f'@{node.lineno}')
        R = fresh('anc', LT)
        if strict:          # __get_all_parents / all_parents of a task: the listing for its raw parent
            st.oblige(f'req@{name}/task-non-null', t != null, f'@{node.lineno}')
            for g in anc_post(h, h.par[t], R).values(): st.assume(g)
        else:
            for g in anc_post(h, t, R).values(): st.assume(g)
        return [(st, V(R, LT))]
    return c


def get_parent_unit():
    def build():
        hc = lambda c: H(c.eng, c.st)
        fc = {'sig': {'t': T, '_out': LT}, 'globals': {'EMPTY_TASK_ID': V(EMPTY, INT)},
              'requires': [('generator-starts-empty', lambda c: c['_out'] == empty), ('hierarchy', lambda c: up_pre(hc(c)))],
              'ensures': [(l_, (lambda l_: lambda c: anc_post(hc(c), c['t'], c['_out'])[l_])(l_)) for l_ in ANC_LABS] + [('C16/reads-only', same_heap)]}
        return Engine(F, 'Task.__get_all_parents.get_parent', {'fn:get_parent': c_anc_list('get_parent', rec=True), 'prop:Task.id': c_id, 'prop:Task.parent': c_pubparent}, TASK_CLASSES, fc, plugins=[GenPlugin()]), \
            LIST_AX + LIST_CAT_AX + GRAPH_AX + MEASURE_AX
    return Unit('Task.__get_all_parents.get_parent', F, build, ['C01', 'C14', 'C16'], timeout_ms=15000)


def all_parents_units():
    def wrap(qual, contracts):
        def build():
            hc = lambda c: H(c.eng, c.st)
            fc = {'sig': {'self': T}, 'requires': [('task-non-null', lambda c: c['self'] != null), ('hierarchy', lambda c: up_pre(hc(c)))],
                  'ensures': [(l_, (lambda l_: lambda c: anc_post(hc(c), hc(c).par[c['self']], GenPlugin().listval(c.eng, c.st, c.result, 0))[l_])(l_)) for l_ in ANC_LABS] + [('C16/reads-only', same_heap)]}
            return Engine(F, qual, contracts, TASK_CLASSES, fc, plugins=[GenPlugin()]), LIST_AX + GRAPH_AX
        return Unit(qual, F, build, ['C01', 'C16'])
    return [wrap('Task.__get_all_parents', {'fn:get_parent': c_anc_list('get_parent')}),
            wrap('Task.all_parents', {'Task._Task__get_all_parents': c_anc_list('__get_all_parents', strict=True), 'fn:_ImmutableTaskList': c_readonly_view})]


UNITS += [get_parent_unit()] + all_parents_units()


# ================================================================================================ dependency closure


class SetPlugin(GenPlugin):
    """a local set of object identities (`m = set()`, `id(t) in m`, `m.add(id(t))`) as a map Task -> Bool; the set is local and never aliased"""
    SETS = S('SET', SET)

    def call(self, eng, e, st):
        f = e.func
        if isinstance(f, ast.Name) and f.id == 'set' and not e.args:
            return [(st, V(K(T.z, False), self.SETS))]
        if isinstance(f, ast.Name) and f.id == 'id' and len(e.args) == 1:
            s, v = eng.ev1(e.args[0], st)
            if v.s == T: return [(s, v)]                      # the identity of an object is the object (reference) itself
        if isinstance(f, ast.Attribute) and f.attr == 'append' and isinstance(f.value, ast.Name) and st.env.get(f.value.id) is not None and st.env[f.value.id].s == LT:
            s, v = eng.ev1(e.args[0], st)                    # a local list that is never aliased: a list value
            s.env[f.value.id] = V(app(s.env[f.value.id].e, eng.coerce(v, T)), LT)
            return [(s, V(None, NONE))]
        if isinstance(f, ast.Attribute) and f.attr == 'add' and isinstance(f.value, ast.Name) and st.env.get(f.value.id) is not None and st.env[f.value.id].s == self.SETS:
            s, v = eng.ev1(e.args[0], st)
            s.env[f.value.id] = V(Store(s.env[f.value.id].e, v.e, True), self.SETS)
            return [(s, V(None, NONE))]
        return GenPlugin.call(self, eng, e, st)

    def ev_List(self, eng, e, st):
        if not e.elts: return [(st, V(empty, LT))]
        return NotImplemented

    def cmp(self, eng, st, k, l_, r, line):
        if k in ('In', 'NotIn') and r.s == self.SETS and l_.s == T:
            return r.e[l_.e] if k == 'In' else Not(r.e[l_.e])
        return GenPlugin.cmp(self, eng, st, k, l_, r, line)


def unique_post(L, R):
    return {'lists-exactly-the-same-tasks': ForAll([x], mem(R, x) == mem(L, x), patterns=[mem(R, x)]), 'lists-every-task-once': nodup(R),
            'first-occurrences-keep-their-order': ForAll([a_, b_], Implies(And(mem(R, a_), mem(R, b_)), (idx(R, a_) < idx(R, b_)) == (idx(L, a_) < idx(L, b_))), patterns=[MultiPattern(idx(R, a_), idx(R, b_))])}


def c_unique(eng, st, recv, args, kws, node):
    R = fresh('uniq', LT)
    for g in unique_post(args[0].e, R).values(): st.assume(g)
    return [(st, V(R, LT))]


def unique_tasks_unit():
    def build():
        def inv(c):
            L = c['tasks']; i = c['_i0']; res = c['res']; m = c['m']
            return {'frame': And(i >= 0, i <= ln(L)), 'seen-set-mirrors-the-result': ForAll([x], m[x] == mem(res, x), patterns=[m[x]]), 'no-task-twice': nodup(res),
                    'result-holds-the-tasks-met-so-far': ForAll([x], mem(res, x) == And(mem(L, x), idx(L, x) < i), patterns=[mem(res, x)]),
                    'first-occurrences-keep-their-order': ForAll([a_, b_], Implies(And(mem(res, a_), mem(res, b_)), (idx(res, a_) < idx(res, b_)) == (idx(L, a_) < idx(L, b_))), patterns=[MultiPattern(idx(res, a_), idx(res, b_))])}
        IL = ['frame', 'seen-set-mirrors-the-result', 'no-task-twice', 'result-holds-the-tasks-met-so-far', 'first-occurrences-keep-their-order']
        fc = {'sig': {'tasks': LT}, 'locals': {'m': SetPlugin.SETS, 'res': LT},
              'loops': {0: {'fingerprint': 'for t in tasks', 'havoc': ['m', 'res'], 'invariant': [(l_, (lambda l_: lambda c: inv(c)[l_])(l_)) for l_ in IL]}},
              'ensures': [(l_, (lambda l_: lambda c: unique_post(c['tasks'], GenPlugin().listval(c.eng, c.st, c.result, 0))[l_])(l_)) for l_ in unique_post(empty, empty)]}
        return Engine(F, '_unique_tasks', {}, TASK_CLASSES, fc, plugins=[SetPlugin()]), LIST_AX
    return Unit('_unique_tasks', F, build, ['C01'])


def dep_pre(side, h, E):
    L = LInv_side(side, h, E)
    M = (lambda t: h.P(t)) if side == 'pre' else (lambda t: h.S(t))
    return And(L['SYNC-ghost-relation-mirrors-the-lists'], ForAll([t_, a_], Implies(And(t_ != null, mem(M(t_), a_)), E[t_][a_]), patterns=[mem(M(t_), a_)]),      # SYNC again, triggered from the list side
               L['NN-no-None-in-links'], L['O1-list-objects-distinct'],
               L['C01/M2-dependency-relation-acyclic'])


def dep_post(E, t, R):
    return {'C01/lists-only-transitive-links': ForAll([x], Implies(mem(R, x), And(x != null, TCp(E, x, t))), patterns=[mem(R, x)]),
            'C01/lists-every-transitive-link': ForAll([x], Implies(And(x != null, TCp(E, x, t), hint_(lastp(E, x, t))), mem(R, x)), patterns=[TCp(E, x, t)])}


DEP_LABS = list(dep_post(Const('E_lab', REL), null, empty).keys())


def c_dep_list(side, name, rec=False, unique=False):
    def c(eng, st, recv, args, kws, node):
        h = H(eng, st); E = st.ghost['E']; t = args[0].e if args else recv.e
        st.oblige(f'req@{name}/task-non-null', t != null, f'@{node.lineno}')
        st.oblige(f'req@{name}/dependency-lists', dep_pre(side, h, E), f'@{node.lineno}')
        if rec:
            st.oblige('dec/C14/rank-decreases-at-the-recursive-call', And(prk(E, t) < prk(E, st.env['t'].e), prk(E, t) >= 0), f'@{node.lineno}')
        R = fresh('deps', LT)
        for g in dep_post(E, t, R).values(): st.assume(g)
        if unique: st.assume(nodup(R))
        return [(st, V(R, LT))]
    return c


def dep_units(side):
    pname = 'predecessors' if side == 'pre' else 'successors'
    gname = 'get_predecessor' if side == 'pre' else 'get_successor'
    outer = f'Task.__get_all_{pname}'
    M = (lambda h, t: h.P(t)) if side == 'pre' else (lambda h, t: h.S(t))
    mref = (lambda h, t: h.pre[t]) if side == 'pre' else (lambda h, t: h.suc[t])
    c_facade = lambda eng, st, recv, a, k, n: [(st, V(mref(H(eng, st), recv.e), LR))]        # t.predecessors: a facade iterating the task's own list object
    hc = lambda c: H(c.eng, c.st); Ec = lambda c: c.st.ghost['E']
    ghost = {'E': S('REL', REL)}

    def gen_build():
        p_ = Const('p_', T.z)

        def inv(c):
            h = hc(c); t = c['t']; C = M(h, t); i = c['_i0']; out = c['_out']
            return And(same_heap(c), Ec(c) == c.pre.ghost['E'], i >= 0, i <= ln(C), Not(mem(out, null)),
                       ForAll([x], mem(out, x) == Exists([p_], And(mem(C, p_), idx(C, p_) < i, Or(x == p_, And(x != null, TCp(Ec(c), x, p_))))), patterns=[mem(out, x)]))
        fc = {'sig': {'t': T, '_out': LT}, 'ghost': ghost,
              'requires': [('task-non-null', lambda c: c['t'] != null), ('generator-starts-empty', lambda c: c['_out'] == empty), ('dependency-lists', lambda c: dep_pre(side, hc(c), Ec(c)))],
              'loops': {0: {'fingerprint': f'for pr in t.{pname}', 'havoc': ['_out'], 'invariant': [('lists-exactly-what-reaches-the-task-through-the-links-visited-so-far', inv)]}},
              'ensures': [(l_, (lambda l_: lambda c: dep_post(Ec(c), c['t'], c['_out'])[l_])(l_)) for l_ in DEP_LABS] + [('C16/reads-only', same_heap)]}
        return Engine(F, f'{outer}.{gname}', {f'fn:{gname}': c_dep_list(side, gname, rec=True), f'prop:Task.{pname}': c_facade}, TASK_CLASSES, fc, plugins=[GenPlugin()]), \
            LIST_AX + LIST_CAT_AX + DEP_AX + MEASURE_AX

    def wrap(qual, contracts):
        def build():
            fc = {'sig': {'self': T}, 'ghost': ghost,
                  'requires': [('task-non-null', lambda c: c['self'] != null), ('dependency-lists', lambda c: dep_pre(side, hc(c), Ec(c)))],
                  'ensures': [(l_, (lambda l_: lambda c: dep_post(Ec(c), c['self'], GenPlugin().listval(c.eng, c.st, c.result, 0))[l_])(l_)) for l_ in DEP_LABS] +
                             [('C01/lists-every-task-once', lambda c: nodup(GenPlugin().listval(c.eng, c.st, c.result, 0))), ('C16/reads-only', same_heap)]}
            return Engine(F, qual, contracts, TASK_CLASSES, fc, plugins=[GenPlugin()]), LIST_AX + DEP_AX
        return Unit(qual, F, build, ['C01'])
    return [Unit(f'{outer}.{gname}', F, gen_build, ['C01', 'C14'], timeout_ms=15000),
            wrap(outer, {f'fn:{gname}': c_dep_list(side, gname), 'fn:_unique_tasks': c_unique}),
            wrap(f'Task.all_{pname}', {f'Task._Task__get_all_{pname}': c_dep_list(side, f'__get_all_{pname}', unique=True), 'fn:_ImmutableTaskList': c_readonly_view})]


UNITS += [unique_tasks_unit()] + dep_units('pre') + dep_units('suc')


# ================================================================================================ _check_no_links_to_ancestors
class CheckPlugin(GenPlugin):
    def ev_List(self, eng, e, st):
        if len(e.elts) != 1: return NotImplemented
        s, v = eng.ev1(e.elts[0], st)
        Lv = fresh('one', LT); s.assume(And(Lv == one_of(v.e), ln(Lv) == 1, at(Lv, 0) == v.e, nodup(Lv), ForAll([x], mem(Lv, x) == (x == v.e), patterns=[mem(Lv, x)])))
        return [(s, V(Lv, LT))]

    def binop(self, eng, st, k, l_, r, line):
        if k == 'Add' and l_.s == LT and r.s == LT: return V(cat(l_.e, r.e), LT)
        return NotImplemented


def no_links_with_reserved_ids(h):
    """hidden WBS roots (the only tasks with the reserved id) are never linked: Inv `hidden-roots-have-no-links` + M1"""
    return ForAll([t_, a_], Implies(And(t_ != null, h.tid[a_] == EMPTY), And(Not(mem(h.P(t_), a_)), Not(mem(h.S(t_), a_)))), patterns=[mem(h.P(t_), a_), mem(h.S(t_), a_)])


def check_links_unit():
    def build():
        hc = lambda c: H(c.eng, c.st)
        nolink = lambda h, ta, an: And(Not(mem(h.P(ta), an)), Not(mem(h.S(ta), an)))

        def parts(c, k, with_t):
            h = hc(c); TS = c['_seq0']; i = c['_i0']; A = c['ancestors']; s_ = c['subtree_root']; p = c['new_parent']
            d = {'frame': And(same_heap(c), i >= (1 if with_t else 0), i <= ln(TS), *([c['t'] == at(TS, i - 1), c['t'] != null] if with_t else [])),
                 'visited-list-is-the-subtree': ForAll([x], mem(TS, x) == insub(h.par, s_, x), patterns=[mem(TS, x)]),
                 'ancestor-list-is-the-new-parent-and-its-ancestors': ForAll([x], mem(A, x) == Or(x == p, And(x != null, Desc(h.par, x, p), h.tid[x] != EMPTY)), patterns=[mem(A, x)]),
                 'no-crossing-link-from-the-tasks-visited-so-far': ForAll([t_, a_], Implies(And(mem(TS, t_), idx(TS, t_) < i - (1 if with_t else 0), mem(A, a_)), nolink(h, t_, a_)),
                                                                          patterns=[MultiPattern(mem(TS, t_), mem(A, a_)), mem(h.P(t_), a_), mem(h.S(t_), a_)])}
            if with_t:
                j = c['_i1']
                d['no-link-from-this-task-to-the-ancestors-visited-so-far'] = And(j >= 0, j <= ln(A), ForAll([a_], Implies(And(mem(A, a_), idx(A, a_) < j), nolink(h, c['t'], a_)), patterns=[mem(A, a_)]))
            return d[k]
        OL = ['frame', 'visited-list-is-the-subtree', 'ancestor-list-is-the-new-parent-and-its-ancestors', 'no-crossing-link-from-the-tasks-visited-so-far']
        IL = OL + ['no-link-from-this-task-to-the-ancestors-visited-so-far']
        c_links = lambda side: (lambda eng, st, recv, a, k, n: [(st, V((H(eng, st).pre if side == 'pre' else H(eng, st).suc)[recv.e], LR))])
        fc = {'sig': {'subtree_root': T, 'new_parent': T}, 'locals': {'ancestors': LT, 't': T, 'a': T},
              'requires': [('tasks-non-null', lambda c: And(c['subtree_root'] != null, c['new_parent'] != null)), ('forest', lambda c: forest_pre(hc(c), c['subtree_root'])), ('hierarchy', lambda c: up_pre(hc(c))),
                           ('link-list-objects-exist', lambda c: ForAll([t_], Implies(t_ != null, And(hc(c).pre[t_] != LR.null, hc(c).suc[t_] != LR.null)), patterns=[hc(c).pre[t_]])),
                           ('reserved-id-tasks-are-not-linked', lambda c: no_links_with_reserved_ids(hc(c))),
                           ('NN-no-None-in-links', lambda c: Inv(hc(c))['NN-no-None-in-links'])],
              'loops': {0: {'fingerprint': 'for t in [subtree_root] + [t for t in subtree_root.all_children]', 'invariant': [(l_, (lambda l_: lambda c: parts(c, l_, False))(l_)) for l_ in OL]},
                        1: {'fingerprint': 'for a in ancestors', 'invariant': [(l_, (lambda l_: lambda c: parts(c, l_, True))(l_)) for l_ in IL]}},
              'raises': {'RuntimeError': [('C01/raised-only-if-a-task-of-the-subtree-is-linked-with-the-new-parent-or-one-of-its-ancestors',
                                           lambda c: links_cross_def(hc(c), c['subtree_root'], c['new_parent'])), ('C15/reads-only', same_heap)]},
              'ensures': [('C01/no-task-of-the-subtree-is-linked-with-the-new-parent-or-any-of-its-ancestors',
                           lambda c: ForAll([t_, a_], Implies(And(insub(hc(c).par, c['subtree_root'], t_), Or(a_ == c['new_parent'], Desc(hc(c).par, a_, c['new_parent']))), nolink(hc(c), t_, a_)))),
                          ('C16/reads-only', same_heap)]}
        contracts = {'prop:Task.all_parents': c_anc_list('all_parents', strict=True), 'prop:Task.all_children': c_desc_list('all_children'),
                     'prop:Task.predecessors': c_links('pre'), 'prop:Task.successors': c_links('suc')}
        return Engine(F, '_check_no_links_to_ancestors', contracts, TASK_CLASSES, fc, plugins=[CheckPlugin()]), LIST_AX + LIST_CAT_AX + GRAPH_AX
    return Unit('_check_no_links_to_ancestors', F, build, ['C01', 'C15'], timeout_ms=15000)


UNITS += [check_links_unit()]


# ================================================================================================ WBS.tasks (C05: every member once, depth first)
def wbs_tasks_unit():
    def build():
        hc = lambda c: H(c.eng, c.st); root = lambda c: hc(c).root[c['self']]
        fc = {'sig': {'self': W}, 'requires': [('wbs-non-null-with-its-hidden-root', lambda c: And(c['self'] != W.null, root(c) != null)), ('forest', lambda c: forest_pre(hc(c), root(c)))],
              'ensures': [('C05/' + l_.split('/', 1)[1].replace('strict-descendants', 'members-(the-tasks-below-the-hidden-root)'),
                           (lambda l_: lambda c: desc_post(hc(c), root(c), GenPlugin().listval(c.eng, c.st, c.result, 0))[l_])(l_)) for l_ in DESC_LABS] + [('C16/reads-only', same_heap)]}
        return Engine('pjplan/wbs.py', 'WBS.tasks', {'prop:Task.all_children': c_desc_list('all_children')}, TASK_CLASSES, fc, plugins=[GenPlugin()]), LIST_AX + GRAPH_AX
    return Unit('WBS.tasks', 'pjplan/wbs.py', build, ['C05'])


UNITS += [wbs_tasks_unit()]


# ================================================================================================ helpers of the id test: _find_root, _collect_subtree
def find_root_unit():
    """_find_root(task): climbs the PUBLIC parents; for a task outside every WBS (no hidden root above it) that is the root of its tree"""
    def build():
        hc = lambda c: H(c.eng, c.st)

        def detached_pre(h, t):          # a task outside every WBS: by W1 / DR / WR no hidden root is above it, so the public parent is the parent
            I = Inv(h)
            return And(t != null, h.own[t] == W.null, I['C11/W1-owner-follows-the-hierarchy'], I['DR-reserved-id-marks-hidden-roots-only'])

        def c_rec(eng, st, recv, args, kws, node):
            h = H(eng, st); t = args[0].e; me = st.env['task'].e
            st.oblige('req@_find_root/task-non-null-outside-every-WBS', detached_pre(h, t), f'@{node.lineno}')
            st.oblige('dec/C14/depth-decreases-at-the-recursive-call', And(dep(h.par, t) < dep(h.par, me), dep(h.par, t) >= 0), f'@{node.lineno}')
            r = fresh('root', T); st.assume(r == rootof(h.par, t))
            return [(st, V(r, T))]
        fc = {'sig': {'task': T}, 'requires': [('acyclic', lambda c: And(Acyc(hc(c).par), hc(c).par[null] == null)), ('task-non-null-outside-every-WBS', lambda c: detached_pre(hc(c), c['task']))],
              'ensures': [('C05/result-is-the-root-of-the-tree-of-the-task', lambda c: c.result.e == rootof(hc(c).par, c['task'])), ('C16/reads-only', same_heap)]}
        return Engine(F, '_find_root', {'fn:_find_root': c_rec, 'prop:Task.parent': c_pubparent}, TASK_CLASSES, fc, plugins=[GenPlugin()]), LIST_AX + GRAPH_AX + ROOT_AX + MEASURE_AX
    return Unit('_find_root', F, build, ['C05', 'C14'], timeout_ms=15000)


def collect_subtree_unit():
    """_collect_subtree(task): the task and its descendants, each once (the order - depth first - is not needed by its only caller, the id test)"""
    def build():
        hc = lambda c: H(c.eng, c.st)

        def post(h, t, R):
            return {'C05/lists-exactly-the-task-and-its-descendants': ForAll([x], mem(R, x) == insub(h.par, t, x), patterns=[mem(R, x)]),
                    'C05/lists-every-task-once': nodup(R)}

        def c_rec(eng, st, recv, args, kws, node):
            h = H(eng, st); t = args[0].e; me = st.env['task'].e
            st.oblige('req@_collect_subtree/task-non-null', t != null, f'@{node.lineno}')
            st.oblige('req@_collect_subtree/forest', forest_struct(h, t), f'@{node.lineno}'); st.assume(WFH(h.par, h.chl, h.elems))
            st.oblige('dec/C14/height-decreases-at-the-recursive-call', And(hgt(h.par, t) < hgt(h.par, me), hgt(h.par, t) >= 0), f'@{node.lineno}')
            R = fresh('sub', LT)
            for g in post(h, t, R).values(): st.assume(g)
            return [(st, V(R, LT))]

        def inv(c):
            h = hc(c); t = c['task']; C = h.ch(t); i = c['_i0']; res = c['res']
            return {'frame': And(same_heap(c), i >= 0, i <= ln(C)),
                    'members-so-far': ForAll([x], mem(res, x) == Or(x == t, And(Desc(h.par, t, x), idx(C, kid(h.par, t, x)) < i)), patterns=[mem(res, x)]),
                    'no-task-twice': nodup(res)}
        IL = ['frame', 'members-so-far', 'no-task-twice']
        LAB = ['C05/lists-exactly-the-task-and-its-descendants', 'C05/lists-every-task-once']
        fc = {'sig': {'task': T}, 'locals': {'res': LT},
              'requires': [('task-non-null', lambda c: c['task'] != null), ('forest', lambda c: forest_pre(hc(c), c['task']))],
              'loops': {0: {'fingerprint': 'for ch in task.children', 'invariant': [(l_, (lambda l_: lambda c: inv(c)[l_])(l_)) for l_ in IL]}},
              'ensures': [(l_, (lambda l_: lambda c: post(hc(c), c['task'], c.result.e)[l_])(l_)) for l_ in LAB] + [('C16/reads-only', same_heap)]}
        c_kids = lambda eng, st, recv, a, k, n: [(st, V(H(eng, st).chl[recv.e], LR))]
        return Engine(F, '_collect_subtree', {'fn:_collect_subtree': c_rec, 'prop:Task.children': c_kids}, TASK_CLASSES, fc, plugins=[CheckPlugin()]), \
            LIST_AX + LIST_CAT_AX + GRAPH_AX + KID_AX + DFS_AX + MEASURE_AX + ONE_AX
    return Unit('_collect_subtree', F, build, ['C05', 'C14'], timeout_ms=15000)


one_of = Function('one_of', T.z, LT.z)          # the one-element list [t]
ONE_AX = [ForAll([x], And(ln(one_of(x)) == 1, at(one_of(x), 0) == x, nodup(one_of(x))), patterns=[one_of(x)]), ForAll([x, y], mem(one_of(x), y) == (y == x), patterns=[mem(one_of(x), y)])]
UNITS += [find_root_unit(), collect_subtree_unit()]
