"""Sidecar contracts for pjplan/alg/critical_path.py (C12): the two memoised recursions of CriticalPathCalculator are proved to compute
the Bellman solution of the activity network: ES(n) = max(0, max over arcs l -> n of ES(l.start) + l.units) and
LF(n) = min over arcs n -> l of LF(l.end) - l.units (ES(n) at sinks); memo fields once set never change; recursion by contract,
termination by a rank that decreases along the arcs (the network of an acyclic WBS is a DAG).

Outside the contracts (stated in the evidence): that the Bellman solution IS the longest-path length and that zero total float means
"on a longest chain" is a mathematical lemma about DAGs, not code; the construction of the network from the WBS and the float
tolerance test of calc are covered by the bounded stand-in (exact rational longest-path computation).
"""
import ast
from z3 import *
from pyvc.core import *
from pyvc.unit import Unit

F = 'pjplan/alg/critical_path.py'
NODE = REF('_PNode'); LINK = REF('_PLink'); CALC = REF('CriticalPathCalculator'); LL = LIST(LINK); OR_ = OPT(REAL)
blL = Function('backward_links', NODE.z, LL.z); fwL = Function('forward_links', NODE.z, LL.z); rank = Function('nrank', NODE.z, IntSort())
CLASSES = {'_PNode': {'start_units': OR_, 'end_units': OR_}, '_PLink': {'start': NODE, 'end': NODE, 'units': REAL}}
n_ = Const('n_', NODE.z); j_ = Int('j_'); l_ = Const('l_', LINK.z)
some = lambda o: OR_.dt.is_some(o); val = lambda o: OR_.dt.val(o)


def c_links(fn):
    return lambda eng, st, recv, a, k, n: [(st, V(fn(recv.e), LL))]


def bellman_unit(fwd):
    fname = '__forward' if fwd else '__backward'
    mine = 'start_units' if fwd else 'end_units'
    inL = blL if fwd else fwL                    # arcs examined at a node
    far = 'start' if fwd else 'end'              # the node at the other end of such an arc

    def build():
        def H(c, which='cur'):
            return c.fld('_PNode', mine, which), c.fld('_PLink', far, which), c.fld('_PLink', 'units', which), c.fld('_PNode', 'start_units', which)

        def struct(c):
            m, fr, un, su = H(c)
            return And(ForAll([n_], LL.len(inL(n_)) >= 0),
                       ForAll([n_, j_], Implies(And(n_ != NODE.null, 0 <= j_, j_ < LL.len(inL(n_))),
                                                And(LL.at(inL(n_), j_) != LINK.null, fr[LL.at(inL(n_), j_)] != NODE.null, rank(fr[LL.at(inL(n_), j_)]) < rank(n_))), patterns=[LL.at(inL(n_), j_)]),
                       ForAll([n_], rank(n_) >= 0))

        def cand(c, m, n, j):        # value offered by the j-th arc at n
            _, fr, un, _ = H(c); lk = LL.at(inL(n), j)
            return (val(m[fr[lk]]) + un[lk]) if fwd else (val(m[fr[lk]]) - un[lk])

        def bell(c, m, n, v):
            """v is the Bellman value at n w.r.t. memo map m"""
            _, fr, un, su = H(c); k = Int('k')
            arcs_done = ForAll([j_], Implies(And(0 <= j_, j_ < LL.len(inL(n))), some(m[fr[LL.at(inL(n), j_)]])), patterns=[LL.at(inL(n), j_)])
            if fwd:
                return And(arcs_done, v >= 0, ForAll([j_], Implies(And(0 <= j_, j_ < LL.len(inL(n))), v >= cand(c, m, n, j_)), patterns=[LL.at(inL(n), j_)]),
                           Or(v == 0, Exists([k], And(0 <= k, k < LL.len(inL(n)), v == cand(c, m, n, k)))))
            return And(arcs_done, ForAll([j_], Implies(And(0 <= j_, j_ < LL.len(inL(n))), v <= cand(c, m, n, j_)), patterns=[LL.at(inL(n), j_)]),
                       If(LL.len(inL(n)) == 0, And(some(su[n]), v == val(su[n])), Exists([k], And(0 <= k, k < LL.len(inL(n)), v == cand(c, m, n, k)))))

        def NInv(c, m):
            return ForAll([n_], Implies(And(n_ != NODE.null, some(m[n_])), bell(c, m, n_, val(m[n_]))), patterns=[m[n_]])

        def pre(c):
            m, fr, un, su = H(c)
            extra = BoolVal(True) if fwd else ForAll([n_], Implies(n_ != NODE.null, some(su[n_])), patterns=[su[n_]])      # calc runs every __forward before the first __backward
            return And(c['self'] != CALC.null, c['node'] != NODE.null, struct(c), NInv(c, m), extra)

        def post(c, m0, m1, node):
            return {'C12/memo-value-is-set': some(m1[node]),
                    'C12/every-set-value-satisfies-the-Bellman-equation': NInv(c, m1),
                    'C12/memo-values-once-set-never-change': ForAll([n_], Implies(some(m0[n_]), m1[n_] == m0[n_]), patterns=[m1[n_]]),
                    'frame-nodes-of-higher-rank-untouched': ForAll([n_], Implies(rank(n_) > rank(node), m1[n_] == m0[n_]), patterns=[m1[n_]])}
        LAB = ['C12/memo-value-is-set', 'C12/every-set-value-satisfies-the-Bellman-equation', 'C12/memo-values-once-set-never-change', 'frame-nodes-of-higher-rank-untouched']

        def c_rec(eng, st, recv, args, kws, node):
            nd = args[0].e
            cc = Ctx(eng, st, pre=eng.pre_state)
            m = eng.field(st, '_PNode', mine)
            st.oblige('req@recursive-call/node-non-null', nd != NODE.null, f'@{node.lineno}')
            st.oblige('req@recursive-call/every-set-value-satisfies-the-Bellman-equation', NInv(cc, m), f'@{node.lineno}')
            st.oblige('dec/C12,C14/rank-decreases-at-every-recursive-call', And(rank(nd) < rank(st.env['node'].e), rank(nd) >= 0), f'@{node.lineno}')
            eng.havoc(st, '_PNode.' + mine)
            m1 = eng.field(st, '_PNode', mine)
            c2 = Ctx(eng, st, pre=eng.pre_state)
            for v in post(c2, m, m1, nd).values(): st.assume(v)
            return [(st, V(None, NONE))]

        def inv(c):
            m, fr, un, su = H(c); m0 = c.fld('_PNode', mine, 'pre'); node = c['node']; i = c['_i0']; k = Int('k')
            acc = c['max_start'] if fwd else c.val('min_end')
            common = And(i >= 0, i <= LL.len(inL(node)), NInv(c, m), Not(some(m[node])),
                         ForAll([n_], Implies(some(m0[n_]), m[n_] == m0[n_]), patterns=[m[n_]]), ForAll([n_], Implies(rank(n_) >= rank(node), m[n_] == m0[n_]), patterns=[m[n_]]),
                         ForAll([j_], Implies(And(0 <= j_, j_ < i), some(m[fr[LL.at(inL(node), j_)]])), patterns=[LL.at(inL(node), j_)]))
            if fwd:
                return And(common, acc >= 0, ForAll([j_], Implies(And(0 <= j_, j_ < i), acc >= cand(c, m, node, j_)), patterns=[LL.at(inL(node), j_)]),
                           Or(acc == 0, Exists([k], And(0 <= k, k < i, acc == cand(c, m, node, k)))))
            a = acc.e
            return And(common, (i == 0) == OR_.dt.is_none(a), ForAll([j_], Implies(And(0 <= j_, j_ < i), val(a) <= cand(c, m, node, j_)), patterns=[LL.at(inL(node), j_)]),
                       Implies(i > 0, Exists([k], And(0 <= k, k < i, val(a) == cand(c, m, node, k)))))
        fp = 'for link in node.backward_links' if fwd else 'for link in node.forward_links'
        fc = {'sig': {'self': CALC, 'node': NODE}, 'locals': {'max_start': REAL, 'min_end': OR_},
              'requires': [('pre', pre)],
              'loops': {0: {'fingerprint': fp, 'invariant': [('bellman-so-far', inv)], 'havoc_heap': ['_PNode.' + mine]}},
              'ensures': [(l, (lambda l: lambda c: post(c, c.fld('_PNode', mine, 'pre'), c.fld('_PNode', mine), c['node'])[l])(l)) for l in LAB]}
        contracts = {'prop:_PNode.backward_links': c_links(blL), 'prop:_PNode.forward_links': c_links(fwL),
                     f'CriticalPathCalculator._CriticalPathCalculator{fname}': c_rec}
        return Engine(F, f'CriticalPathCalculator.{fname}', contracts, CLASSES, fc), []
    return Unit(f'CriticalPathCalculator.{fname}', F, build, ['C12'], timeout_ms=15000)


UNITS = [bellman_unit(True), bellman_unit(False)]
