"""Sidecar contract for pjplan/io/raw.py :: raws_to_wbs (C13): the WBS built from a list of raw rows has one task per row with the row's id,
every task below the task of its parent row (a root task if the row names no parent or a parent that no row has), siblings in row order.
The mutators it calls are used by their proved contracts (Task.__init__, _ChildrenList.append = parent setter, WBS.__init__, WBS.__getitem__,
_PredecessorsList.append); a RuntimeError out of one of them (cyclic parent ids, ...) is allowed - the claim is about the normal exit.
Domain: the rows have pairwise different ids, none of them the reserved one.  The dependency lists are NOT specified here (hierarchy only);
their round trip is the bounded stand-in's.
"""
import ast
from z3 import *
from pyvc.core import *
from contracts.graph_theory import *
from contracts.task import F, EMPTY, H, Inv, INV_LABELS, U1, parent_setter_call, LInv_side, LINK_LABS, link_setter_call, t_, c_, a_, b_, w_, KID_AX, kid, forest_struct, up_struct
from contracts.children import LABS, ChildrenPlugin, blank, ANY, KWD
from contracts.closure import one_of, ONE_AX
from contracts.task import FAC_CLASSES, c_children, c_facade_append, FAC
from pyvc.unit import Unit

FR = 'pjplan/io/raw.py'
RAW = REF('TaskRaw'); LRAW = LIST(RAW); OINT = OPT(INT); LINT = LIST(INT)
rid = Function('raw_id', RAW.z, IntSort()); rpar = Function('raw_parent_id', RAW.z, OINT.z); rpre = Function('raw_predecessor_ids', RAW.z, LINT.z)
DMd = Datatype('IdDict'); DMd.declare('mk', ('dom', ArraySort(IntSort(), BoolSort())), ('val', ArraySort(IntSort(), T.z))); DMd = DMd.create()
DM = S('IdDict', DMd)
j_, k2_ = Ints('j_ k2_')
row_of_id = Function('row_of_id', IntSort(), IntSort())          # "the ids of the rows are pairwise different" is stated as: the row index is a function of the id (the same fact; linear instead of quadratic for the solver)
LINKS = Bool('links_in_view')          # switch: the clauses about the dependency lists are hypotheses `LINKS -> clause`; a query about the hierarchy runs with LINKS false (fewer hypotheses: sound), one about the links with LINKS true
LINK_CLAUSES = ('links/', 'ghost-relation-fixed', 'new-tasks-are-unlinked')


class RawPlugin(ChildrenPlugin):
    """raw.id / raw.parent_id / raw.predecessor_ids; the dict tasks_by_id (id -> task); a local list of tasks; Task(...) on a blank object"""

    def ev_Attribute(self, eng, e, st):
        if isinstance(e.ctx, ast.Load) and e.attr in ('id', 'parent_id', 'predecessor_ids', 'name', 'resource', 'start', 'end', 'estimate', 'spent', 'milestone'):
            s, o = eng.ev1(e.value, st)
            if o.s == RAW:
                s.oblige('safe/AttributeError-None', o.e != RAW.null, f'@{e.lineno}')
                if e.attr == 'id': return [(s, V(rid(o.e), INT))]
                if e.attr == 'parent_id': return [(s, V(rpar(o.e), OINT))]
                if e.attr == 'predecessor_ids': return [(s, V(rpre(o.e), LINT))]
                return [(s, V(fresh(e.attr, ANY), ANY))]
            if o.s == T and e.attr == 'id':
                s.oblige('safe/AttributeError-None', o.e != null, f'@{e.lineno}')
                return [(s, V(H(eng, s).tid[o.e], INT))]
        return NotImplemented

    def ev_Dict(self, eng, e, st):
        if e.keys: return NotImplemented
        return [(st, V(DMd.mk(K(IntSort(), False), K(IntSort(), null)), DM))]

    def ev_List(self, eng, e, st):
        if not e.elts: return [(st, V(empty, LT))]
        return NotImplemented

    def assign(self, eng, s, target, v):
        if isinstance(target, ast.Subscript) and isinstance(target.value, ast.Name) and s.env.get(target.value.id) is not None and s.env[target.value.id].s == DM:
            s2, k = eng.ev1(target.slice, s); m = s2.env[target.value.id].e
            s2.env[target.value.id] = V(DMd.mk(Store(DMd.dom(m), k.e, True), Store(DMd.val(m), k.e, eng.coerce(v, T))), DM)
            return [(s2, FALL)]
        return ChildrenPlugin.assign(self, eng, s, target, v)

    def ev_Subscript(self, eng, e, st):
        s, o = eng.ev1(e.value, st)
        if o.s == W:          # wbs[id] -> WBS.__getitem__ (contract)
            s, k = eng.ev1(e.slice, s)
            return eng.contracts['WBS.__getitem__'](eng, s, o, [k], {}, e)
        if o.s == DM:
            s, k = eng.ev1(e.slice, s)
            s.oblige('safe/KeyError', Select(DMd.dom(o.e), k.e), f'@{e.lineno}')
            return [(s, V(Select(DMd.val(o.e), k.e), T))]
        return NotImplemented

    def call(self, eng, e, st):
        f = e.func
        if isinstance(f, ast.Attribute) and f.attr == 'get' and isinstance(f.value, ast.Name) and st.env.get(f.value.id) is not None and st.env[f.value.id].s == DM:
            s, k = eng.ev1(e.args[0], st); m = s.env[f.value.id].e
            kk = eng.unwrap(s, k, 'safe/TypeError-None-key', f'@{e.lineno}') if k.s == OINT else k
            return [(s, V(If(Select(DMd.dom(m), kk.e), Select(DMd.val(m), kk.e), null), T))]
        if isinstance(f, ast.Attribute) and f.attr == 'append' and isinstance(f.value, ast.Name) and st.env.get(f.value.id) is not None and st.env[f.value.id].s == LT:
            s, v = eng.ev1(e.args[0], st)
            s.env[f.value.id] = V(app(s.env[f.value.id].e, eng.coerce(v, T)), LT)
            return [(s, V(None, NONE))]
        return ChildrenPlugin.call(self, eng, e, st)

    def for_loop(self, eng, stmt, st):
        src = ast.unparse(stmt.iter)
        if src == 'raw.__dict__.keys()':          # additional attributes of a row: copied with object.__setattr__, no part of the task graph (domain: none of them is a graph attribute)
            k = eng.loop_contract[eng.loop_ids[id(stmt)]][0]; idxn = f'_i{k}'; eng.locals[idxn] = INT
            st.env[idxn] = V(IntVal(0), INT); nn = fresh('n_attrs', INT); st.assume(nn >= 0)

            def guard(s): return [(s, s.env[idxn].e < nn)]

            def pre(b):
                b.env[stmt.target.id] = V(fresh('attrname', ANY), ANY); b.env[idxn] = V(b.env[idxn].e + 1, INT); return [b]
            return eng.loop(stmt, st, guard, pre, extra_havoc=[idxn, stmt.target.id])
        return ChildrenPlugin.for_loop(self, eng, stmt, st)

    def ex_If(self, eng, stmt, st):
        if ast.unparse(stmt.test) == 'k not in dir(t)':          # t.__setattr__(k, raw.__getattribute__(k)): see for_loop
            return [(st, FALL)]
        return NotImplemented

    def cmp(self, eng, st, k, l_, r, line):
        if l_.s == OINT and r.s == NONE and k in ('Is', 'IsNot'): return OINT.dt.is_none(l_.e) if k == 'Is' else OINT.dt.is_some(l_.e)
        return ChildrenPlugin.cmp(self, eng, st, k, l_, r, line)


def _link_part(name):          # the obligations of the dependency loops (their own unit: the dependency theory is needed only there)
    return any(k in name for k in ('#4', '#5', 'req@link.setter', 'ens/C13/the-predecessors')) and not name.startswith('lemma@')


def raws_to_wbs_unit(links=False):
    def build():
        hc = lambda c: H(c.eng, c.st); h0 = lambda c: H(c.eng, c.pre)
        RS = lambda c: c['raws']; TS = lambda c: c.st.ghost['TS']
        n = lambda c: LRAW.len(RS(c))
        rowid = lambda c, j: rid(LRAW.at(RS(c), j))

        LX = ['ND-no-link-listed-twice', 'O1-list-objects-distinct', 'SYNC-ghost-relation-mirrors-the-lists', 'C01/M2-dependency-relation-acyclic']          # the clauses of the link invariant that Inv does not carry

        def links_inv(c):
            return {'links/' + l_: Implies(LINKS, LInv_side('pre', hc(c), c.st.ghost['E'])[l_]) for l_ in LX}
        LXL = ['links/' + l_ for l_ in LX]

        def unlinked(c):          # the tasks of the rows carry no dependency until the last loop
            h = hc(c)
            return Implies(LINKS, ForAll([x], Implies(mem(TS(c), x), And(h.P(x) == empty, h.S(x) == empty)), patterns=[mem(TS(c), x)]))

        def c_new_task(eng, st, recv, args, kws, node):
            """Task(id=..., name=..., ...) without graph arguments: contract of Task.__init__ (proved) on a blank object: the id is set, Inv holds, nothing else changes"""
            h = H(eng, st); r = fresh('newtask', T); idv = kws['id'].e
            st.oblige('req@Task.__init__/id-is-not-the-reserved-one', idv != EMPTY, f'@{node.lineno}')
            for lab, g in Inv(h).items():
                if lab != U1: st.oblige(f'req@Task.__init__/{lab}', g, f'@{node.lineno}')
            st.assume(blank(h, r)); st.assume(Not(mem(st.ghost['TS'], r))); st.assume(And(h.P(r) == empty, h.S(r) == empty))
            eng.write(st, 'Task._Task__id', Store(h.tid, r, idv))
            for fld in ('_Task__children', '_Task__predecessors', '_Task__successors'):
                lo = fresh('newlist', LR); st.assume(lo != LR.null)
                for f2 in ('_Task__children', '_Task__predecessors', '_Task__successors'):
                    arr = eng.field(st, 'Task', f2); st.assume(ForAll([t_], arr[t_] != lo, patterns=[arr[t_]]))
                eng.write(st, 'PyList.elems', Store(eng.field(st, 'PyList', 'elems'), lo, empty))
                eng.write(st, 'Task.' + fld, Store(eng.field(st, 'Task', fld), r, lo))
            h1 = H(eng, st)
            for lab, g in Inv(h1).items():
                if lab != U1: st.assume(g)
            st.ghost['TS'] = app(st.ghost['TS'], r)
            return [(st, V(r, T))]

        def fresh_task(h, t):          # a task this call has constructed and not yet placed: no parent, no owner, no children
            return And(t != null, h.par[t] == null, h.own[t] == W.null, h.ch(t) == empty, h.tid[t] != EMPTY)

        def inv1(c):
            h = hc(c); i = c['_i0']; D = c['tasks_by_id']
            d = {l_: v for l_, v in Inv(h).items() if l_ != U1}
            d.update({'rows-so-far-have-their-tasks': And(i >= 0, i <= n(c), ln(TS(c)) == i, nodup(TS(c)),
                                                          ForAll([j_], Implies(And(0 <= j_, j_ < i), And(fresh_task(h, at(TS(c), j_)), h.tid[at(TS(c), j_)] == rowid(c, j_),
                                                                                                        Select(DMd.dom(D), rowid(c, j_)), Select(DMd.val(D), rowid(c, j_)) == at(TS(c), j_))), patterns=[at(TS(c), j_)]),
                                                          ForAll([k2_], Implies(Select(DMd.dom(D), k2_), Exists([j_], And(0 <= j_, j_ < i, rowid(c, j_) == k2_))), patterns=[Select(DMd.dom(D), k2_)])),
                      'ghost-relation-fixed': Implies(LINKS, c.st.ghost['E'] == c.pre.ghost['E']), 'new-tasks-are-unlinked': unlinked(c), **links_inv(c),
                      'nothing-else-refers-to-the-new-tasks': And(ForAll([t_], Implies(t_ != null, Not(mem(TS(c), h.par[t_]))), patterns=[h.par[t_]]),
                                                                  ForAll([t_, x], Implies(And(t_ != null, mem(h.ch(t_), x)), Not(mem(TS(c), x))), patterns=[mem(h.ch(t_), x)]))})
            return d
        IL1 = LABS + ['rows-so-far-have-their-tasks', 'nothing-else-refers-to-the-new-tasks', 'ghost-relation-fixed', 'new-tasks-are-unlinked'] + LXL

        # ---------------------------------------------------------------- loop 2: every task goes below the task of its parent row
        D_ = lambda c: c['tasks_by_id']
        task_of = lambda c, j: at(TS(c), j)
        resolvable = lambda c, j: And(OINT.dt.is_some(rpar(LRAW.at(RS(c), j))), Select(DMd.dom(D_(c)), OINT.dt.val(rpar(LRAW.at(RS(c), j)))))
        parent_of = lambda c, j: Select(DMd.val(D_(c)), OINT.dt.val(rpar(LRAW.at(RS(c), j))))

        def table(c):          # what loop 1 has established and nothing changes afterwards: the rows' tasks and the id -> task table
            h = hc(c)
            return And(ln(TS(c)) == n(c), nodup(TS(c)), n(c) >= 0,
                       ForAll([j_], Implies(And(0 <= j_, j_ < n(c)), And(task_of(c, j_) != null, h.tid[task_of(c, j_)] == rowid(c, j_), h.tid[task_of(c, j_)] != EMPTY, Select(DMd.dom(D_(c)), rowid(c, j_)),
                                                                        Select(DMd.val(D_(c)), rowid(c, j_)) == task_of(c, j_), mem(TS(c), task_of(c, j_)))), patterns=[at(TS(c), j_)]),
                       ForAll([k2_], Implies(Select(DMd.dom(D_(c)), k2_), Exists([j_], And(0 <= j_, j_ < n(c), rowid(c, j_) == k2_, Select(DMd.val(D_(c)), k2_) == at(TS(c), j_), mem(TS(c), at(TS(c), j_)), at(TS(c), j_) != null))),
                              patterns=[Select(DMd.dom(D_(c)), k2_)]),
                       ForAll([x], Implies(mem(TS(c), x), And(0 <= idx(TS(c), x), idx(TS(c), x) < n(c), at(TS(c), idx(TS(c), x)) == x)), patterns=[mem(TS(c), x)]))

        def inv2(c):
            h = hc(c); i = c['_i2']; R_ = c['roots']
            d = {l_: v for l_, v in Inv(h).items() if l_ != U1}
            d.update({'table': And(table(c), i >= 0, i <= n(c)),
                      'parents-of-the-rows-placed-so-far': ForAll([j_], Implies(And(0 <= j_, j_ < n(c)), h.par[task_of(c, j_)] == If(And(j_ < i, resolvable(c, j_)), parent_of(c, j_), null)), patterns=[at(TS(c), j_)]),
                      'ghost-relation-fixed': Implies(LINKS, c.st.ghost['E'] == c.pre.ghost['E']), 'new-tasks-are-unlinked': unlinked(c), **links_inv(c),
                      'no-new-task-has-an-owner-yet': ForAll([x], Implies(mem(TS(c), x), h.own[x] == W.null), patterns=[mem(TS(c), x)]),
                      'only-new-tasks-are-below-new-tasks': ForAll([t_, x], Implies(And(t_ != null, mem(h.ch(t_), x), Or(mem(TS(c), t_), mem(TS(c), x))), And(mem(TS(c), t_), mem(TS(c), x))), patterns=[mem(h.ch(t_), x)]),
                      'children-of-new-tasks-are-new-tasks': closedL(h.par, TS(c)),
                      'root-candidates-so-far': And(nodup(R_), ForAll([x], mem(R_, x) == And(mem(TS(c), x), idx(TS(c), x) < i, Not(resolvable(c, idx(TS(c), x)))), patterns=[mem(R_, x)]),
                                                    ForAll([a_, b_], Implies(And(mem(R_, a_), mem(R_, b_)), (idx(R_, a_) < idx(R_, b_)) == (idx(TS(c), a_) < idx(TS(c), b_))), patterns=[MultiPattern(idx(R_, a_), idx(R_, b_))])),
                      'siblings-are-in-row-order': ForAll([a_, b_], Implies(And(mem(TS(c), a_), mem(TS(c), b_), h.par[a_] != null, h.par[a_] == h.par[b_], idx(TS(c), a_) < idx(TS(c), b_)),
                                                                        idx(h.ch(h.par[a_]), a_) < idx(h.ch(h.par[a_]), b_)), patterns=[MultiPattern(idx(TS(c), a_), idx(TS(c), b_))])})
            return d
        IL2 = LABS + ['table', 'parents-of-the-rows-placed-so-far', 'no-new-task-has-an-owner-yet', 'only-new-tasks-are-below-new-tasks', 'children-of-new-tasks-are-new-tasks', 'root-candidates-so-far', 'siblings-are-in-row-order', 'ghost-relation-fixed', 'new-tasks-are-unlinked'] + LXL

        # ---------------------------------------------------------------- loop 3: the root candidates become the root tasks of the new WBS
        WN = lambda c: c.st.ghost['W1']
        rootw = lambda c: hc(c).root[WN(c)]

        def inv3(c, final=False):
            h = hc(c); R_ = c['roots']; i = ln(R_) if final else c['_i3']; rw = rootw(c)
            d = {l_: v for l_, v in Inv(h).items() if l_ != U1}
            d.update({'table': And(table(c), c['wbs'] == WN(c), WN(c) != W.null, rw != null, Not(mem(TS(c), rw)), h.tid[rw] == EMPTY, *([] if final else [i >= 0, i <= ln(R_)])),
                      **({} if final else {'ghost-relation-fixed': Implies(LINKS, c.st.ghost['E'] == c.pre.ghost['E']), 'new-tasks-are-unlinked': unlinked(c)}), **links_inv(c),
                      'root-candidates': And(nodup(R_), ForAll([x], mem(R_, x) == And(mem(TS(c), x), Not(resolvable(c, idx(TS(c), x)))), patterns=[mem(R_, x)]),
                                             ForAll([a_, b_], Implies(And(mem(R_, a_), mem(R_, b_)), (idx(R_, a_) < idx(R_, b_)) == (idx(TS(c), a_) < idx(TS(c), b_))), patterns=[MultiPattern(idx(R_, a_), idx(R_, b_))])),
                      'parents': ForAll([j_], Implies(And(0 <= j_, j_ < n(c)), h.par[task_of(c, j_)] == If(resolvable(c, j_), parent_of(c, j_), If(idx(R_, task_of(c, j_)) < i, rw, null))), patterns=[at(TS(c), j_)]),
                      'children-of-new-tasks-are-new-tasks': closedL(h.par, TS(c)),
                      'members-of-the-new-WBS-are-new-tasks': ForAll([x], Implies(Desc(h.par, rw, x), mem(TS(c), x)), patterns=[Desc(h.par, rw, x)]),
                      'root-tasks-so-far-in-row-order': And(ForAll([x], mem(h.ch(rw), x) == And(mem(R_, x), idx(R_, x) < i), patterns=[mem(h.ch(rw), x)]),
                                                           ForAll([a_, b_], Implies(And(mem(h.ch(rw), a_), mem(h.ch(rw), b_)), (idx(h.ch(rw), a_) < idx(h.ch(rw), b_)) == (idx(R_, a_) < idx(R_, b_))),
                                                                  patterns=[MultiPattern(idx(h.ch(rw), a_), idx(h.ch(rw), b_))])),
                      'siblings-are-in-row-order': ForAll([a_, b_], Implies(And(mem(TS(c), a_), mem(TS(c), b_), h.par[a_] != null, h.par[a_] != rw, h.par[a_] == h.par[b_], idx(TS(c), a_) < idx(TS(c), b_)),
                                                                        idx(h.ch(h.par[a_]), a_) < idx(h.ch(h.par[a_]), b_)), patterns=[MultiPattern(idx(TS(c), a_), idx(TS(c), b_))])})
            return d
        IL3 = LABS + ['table', 'root-candidates', 'parents', 'children-of-new-tasks-are-new-tasks', 'members-of-the-new-WBS-are-new-tasks', 'root-tasks-so-far-in-row-order', 'siblings-are-in-row-order'] + LXL

        q_ = Int('q_')
        pre_ids = lambda c, j: rpre(LRAW.at(RS(c), j))
        linked = lambda c, j, x, upto=None: Exists([q_], And(0 <= q_, q_ < (LINT.len(pre_ids(c, j)) if upto is None else upto), Select(DMd.dom(D_(c)), LINT.at(pre_ids(c, j), q_)),
                                                              x == Select(DMd.val(D_(c)), LINT.at(pre_ids(c, j), q_))))

        def inv4(c, inner=False):          # the dependency loop: the hierarchy stays as built; the rows passed have exactly the listed tasks as predecessors
            h = hc(c); i4 = c['_i4']
            d = inv3(c, final=True)
            done = i4 - 1 if inner else i4          # rows completely processed
            d['rows'] = And(i4 >= (1 if inner else 0), i4 <= n(c), *([c['raw'] == LRAW.at(RS(c), i4 - 1), c['_i5'] >= 0, c['_i5'] <= LINT.len(pre_ids(c, i4 - 1)), c['task'] == task_of(c, i4 - 1)] if inner else []))
            d['dependencies-of-the-rows-passed'] = ForAll([j_, x], Implies(And(0 <= j_, j_ < n(c)), mem(h.P(task_of(c, j_)), x) == If(j_ < done, linked(c, j_, x), If(And(BoolVal(inner), j_ == done), linked(c, j_, x, c['_i5'] if inner else 0), False))),
                                                          patterns=[mem(h.P(task_of(c, j_)), x)])
            return d
        IL4 = IL3 + ['rows', 'dependencies-of-the-rows-passed']

        CUTS = ['siblings-are-in-row-order', 'parents-of-the-rows-placed-so-far', 'root-candidates-so-far', 'only-new-tasks-are-below-new-tasks', 'children-of-new-tasks-are-new-tasks']

        def c_append(eng, st, recv, args, kws, node):
            """loop 2 moves a task with two setter calls in a row (parent_task.children.append(task), then task.parent = parent_task).  Cut lemmas keep the queries small: the clauses
            about the whole forest are proved right after the first call and assumed from there on; the second call is shown to change nothing"""
            res = c_facade_append(eng, st, recv, args, kws, node)
            if 'parent_task' not in ast.unparse(node): return res
            for s2, r in res:
                if isinstance(r, Raise): continue
                cc = Ctx(eng, s2, pre=eng.pre_state); d = inv2(cc)
                for lab in CUTS:
                    s2.oblige(f'lemma@children.append/{lab}', d[lab], f'@{node.lineno}'); s2.assume(d[lab])
            return res

        def c_set_parent(eng, st, recv, args, kws, node):
            h1 = H(eng, st)
            res = parent_setter_call(eng, st, recv.e, eng.coerce(args[0], T), node.lineno)
            for s2, r in res:
                if isinstance(r, Raise): continue
                h2 = H(eng, s2)
                lem = And(h2.par == h1.par, h2.own == h1.own, ForAll([t_], Implies(t_ != null, h2.ch(t_) == h1.ch(t_)), patterns=[h2.chl[t_]]))
                s2.oblige('lemma@task.parent=/setting-the-parent-the-task-already-has-changes-nothing', lem, f'@{node.lineno}'); s2.assume(lem)
            return res

        def inv1b(c):          # the inner loop over the additional attributes changes nothing of the graph
            h, e = hc(c), H(c.eng, c.entry)
            return {'frame': And(h.par == e.par, h.own == e.own, h.elems == e.elems, h.chl == e.chl, h.tid == e.tid, h.root == e.root, h.pre == e.pre, h.suc == e.suc, c['tasks_by_id'] == c.entry.env['tasks_by_id'].e,
                                 c.st.ghost['TS'] == c.entry.ghost['TS'], c['_i0'] == c.entry.env['_i0'].e, c['t'] == c.entry.env['t'].e)}
        fc = {'sig': {'raws': LRAW}, 'locals': {'tasks_by_id': DM, 'roots': LT, 't': T, 'task': T, 'parent_task': T, 'wbs': W, 'raw': RAW}, 'ghost': {'TS': LT, 'W1': W, 'E': S('REL', REL)},
              'requires': [(l_, (lambda l_: lambda c: Inv(hc(c))[l_])(l_)) for l_ in LABS] +
                          [('rows-with-pairwise-different-public-ids', lambda c: And(n(c) >= 0, c.st.ghost['TS'] == empty,
                                                                                   ForAll([j_], Implies(And(0 <= j_, j_ < n(c)), And(LRAW.at(RS(c), j_) != RAW.null, rowid(c, j_) != EMPTY)), patterns=[LRAW.at(RS(c), j_)]),
                                                                                   ForAll([j_], Implies(And(0 <= j_, j_ < n(c)), row_of_id(rowid(c, j_)) == j_), patterns=[LRAW.at(RS(c), j_)]))),
                           ('dependency-id-lists-are-lists', lambda c: ForAll([j_], Implies(And(0 <= j_, j_ < n(c)), LINT.len(rpre(LRAW.at(RS(c), j_))) >= 0), patterns=[LRAW.at(RS(c), j_)]))] +
                          [('links/' + l_, (lambda l_: lambda c: Implies(LINKS, LInv_side('pre', hc(c), c.st.ghost['E'])[l_]))(l_)) for l_ in LX],
              'loops': {1: {'fingerprint': 'for k in raw.__dict__.keys()', 'invariant': [('build/' + l_, (lambda l_: lambda c: inv1b(c)[l_])(l_)) for l_ in ['frame']]},
                        2: {'fingerprint': 'for raw in raws', 'havoc': ['roots'], 'havoc_heap': ['Task._Task__parent', 'Task._Task__wbs', 'PyList.elems'],
                            'invariant': [('place/' + l_, (lambda l_: lambda c: inv2(c)[l_])(l_)) for l_ in IL2]},
                        3: {'fingerprint': 'for r in roots', 'havoc_heap': ['Task._Task__parent', 'Task._Task__wbs', 'PyList.elems'],
                            'invariant': [('adopt/' + l_, (lambda l_: lambda c: inv3(c)[l_])(l_)) for l_ in IL3 + ['ghost-relation-fixed', 'new-tasks-are-unlinked']]},
                        4: {'fingerprint': 'for raw in raws', 'havoc_heap': ['PyList.elems', 'Task._Task__predecessors', 'Task._Task__successors'], 'havoc_ghost': ['E'],
                            'invariant': [('link/' + l_, (lambda l_: lambda c: inv4(c)[l_])(l_)) for l_ in IL4]},
                        5: {'fingerprint': 'for predecessor_id in raw.predecessor_ids', 'havoc_heap': ['PyList.elems', 'Task._Task__predecessors', 'Task._Task__successors'], 'havoc_ghost': ['E'],
                            'invariant': [('link/' + l_, (lambda l_: lambda c: inv4(c, inner=True)[l_])(l_)) for l_ in IL4]},
                        0: {'fingerprint': 'for raw in raws', 'havoc': ['tasks_by_id'], 'havoc_ghost': ['TS'], 'havoc_heap': ['Task._Task__id', 'PyList.elems', 'Task._Task__children', 'Task._Task__predecessors', 'Task._Task__successors'],
                            'invariant': [('build/' + l_, (lambda l_: lambda c: inv1(c)[l_])(l_)) for l_ in IL1]}},
              'raises': {'RuntimeError': []},
              'ensures': [('C13/the-result-is-the-new-WBS', lambda c: And(c.result.e == WN(c), WN(c) != W.null)),
                          ('C13/one-task-per-row-with-the-rows-id', lambda c: And(ln(TS(c)) == n(c), nodup(TS(c)), ForAll([j_], Implies(And(0 <= j_, j_ < n(c)), hc(c).tid[task_of(c, j_)] == rowid(c, j_))))),
                          ('C13/every-task-is-below-the-task-of-its-parent-row-or-a-root-task', lambda c: ForAll([j_], Implies(And(0 <= j_, j_ < n(c)), hc(c).par[task_of(c, j_)] == If(resolvable(c, j_), parent_of(c, j_), rootw(c))))),
                          ('C13/a-row-whose-parent-id-belongs-to-a-row-is-below-that-rows-task', lambda c: ForAll([j_, k2_], Implies(And(0 <= j_, j_ < n(c), 0 <= k2_, k2_ < n(c), rpar(LRAW.at(RS(c), j_)) == OINT.dt.some(rowid(c, k2_))),
                                                                                                                                          hc(c).par[task_of(c, j_)] == task_of(c, k2_)))),
                          ('C13/root-tasks-are-the-rows-without-a-parent-row-in-row-order', lambda c: inv3(c, final=True)['root-tasks-so-far-in-row-order']),
                          ('C13/siblings-are-in-row-order', lambda c: inv3(c, final=True)['siblings-are-in-row-order']),
                          ('C13/the-predecessors-of-every-rows-task-are-exactly-the-tasks-of-the-listed-ids', lambda c: ForAll([j_, x], Implies(And(0 <= j_, j_ < n(c)), mem(hc(c).P(task_of(c, j_)), x) == linked(c, j_, x))))]}
        def c_new_wbs(eng, st, recv, args, kws, node):
            """WBS(): contract of WBS.__init__ (proved) seen from a caller.  The unallocated part of the universe is modelled as objects that already satisfy the invariant: an unused WBS
            object comes paired with its (blank) hidden root; the constructor makes the pair reachable and touches nothing else"""
            h = H(eng, st); w = fresh('newwbs', W); r = h.root[w]
            st.assume(And(w != W.null, r != null, h.ch(r) == empty, ForAll([t_], Implies(h.own[t_] == w, t_ == r), patterns=[h.own[t_]]), Not(mem(st.ghost['TS'], r)),
                          ForAll([t_], Implies(t_ != null, h.par[t_] != r), patterns=[h.par[t_]])))
            st.ghost['W1'] = w
            return [(st, V(w, W))]

        def c_roots(eng, st, recv, args, kws, node):
            return c_children(eng, st, V(H(eng, st).root[recv.e], T), [], {}, node)

        def c_getitem(eng, st, recv, args, kws, node):
            """WBS.__getitem__ (proved in contracts/wbs.py): a member with that id, RuntimeError if there is none"""
            h = H(eng, st); r = fresh('found', T); ok = st.fork(); exc = st.fork()
            ok.assume(And(r != null, Desc(h.par, h.root[recv.e], r), h.tid[r] == args[0].e))
            return [(ok, V(r, T)), (exc, Raise('RuntimeError'))]

        LFACR = REF('LinkFacade')

        def c_predecessors(eng, st, recv, args, kws, node):          # task.predecessors: a facade of the task's own list
            st.ghost['link_owner'] = recv.e
            f_ = fresh('linkfacade', LFACR); st.assume(f_ != LFACR.null)
            return [(st, V(f_, LFACR))]

        def c_link_append(eng, st, recv, args, kws, node):
            """_PredecessorsList.append(task) (proved): the owner's predecessors become the old ones followed by the task, through the link setter"""
            h = H(eng, st); me_ = st.ghost['link_owner']; xnew = eng.coerce(args[0], T)
            res, rc = link_setter_call(eng, st, 'pre', me_, cat(h.P(me_), one_of(xnew)), node.lineno)
            return res
        contracts = {'fn:WBS': c_new_wbs, 'prop:WBS.roots': c_roots, 'WBS.__getitem__': c_getitem, 'prop:Task.predecessors': c_predecessors, 'LinkFacade.append': c_link_append,
                     'fn:Task': c_new_task, 'prop:Task.children': c_children, 'ChildrenFacade.append': c_append, 'setprop:Task.parent': c_set_parent}
        return Engine(FR, 'raws_to_wbs', contracts, FAC_CLASSES, fc, plugins=[RawPlugin()]), LIST_AX + GRAPH_AX + CLOSED_AX + (LIST_CAT_AX + DEP_AX + ONE_AX if links else [])
    if links: return Unit('raws_to_wbs[dependencies]', FR, build, ['C13'], shards=1, timeout_ms=15000, keep=_link_part, focus=lambda nm: [LINKS])
    return Unit('raws_to_wbs', FR, build, ['C13'], shards=2, timeout_ms=15000, keep=lambda nm: not _link_part(nm),
                focus=lambda nm: [LINKS if any(k in nm for k in LINK_CLAUSES) else Not(LINKS)])


UNITS = [raws_to_wbs_unit(), raws_to_wbs_unit(links=True)]
