"""Shared generators for the non-scheduler scenarios (clone, critpath, csvio, query, render, sheet)."""
from datetime import datetime
from .common import *
from pjplan import Task, WBS

ALPH = ['a', 'B', ' ', ';', '"', "'", '\n', '\r', ',', 'é', '﻿', '\\', '$', '{', '}', ':', '0', '<', '>', '#', '-', '--> ', '&', 'я']
SINGLE_LINE = [c for c in ALPH if c not in ('\n', '\r')]


def rstr(rng, alph=ALPH, maxlen=5):
    return ''.join(rng.choice(alph) for _ in range(rng.randint(0, maxlen)))


def gen_wbs(rng, n, ids=None, links=True, alph=ALPH, names='some'):
    w = WBS(); ts = []
    pool = list(ids) if ids else list(range(1, 50)); rng.shuffle(pool)
    if not ids and rng.random() < .3: pool = [0] + pool          # a plan numbered from 0: the first task (often a summary) has a falsy id
    for i in range(n):
        kw = {}
        if names == 'all' or rng.random() < .6: kw['name'] = rstr(rng, alph)
        if rng.random() < .4: kw['resource'] = rstr(rng, alph)
        if rng.random() < .4: kw['estimate'] = rng.choice([0, 1, 2.5, 1e-3, 123456.789, 8, 0.1, 1 / 3])
        if rng.random() < .3: kw['spent'] = rng.choice([0, 1.5, 3])
        if rng.random() < .3: kw['start'] = datetime(rng.randint(1969, 2068), rng.randint(1, 12), rng.randint(1, 28))
        if rng.random() < .3: kw['end'] = datetime(rng.randint(1969, 2068), rng.randint(1, 12), rng.randint(1, 28))
        if rng.random() < .2: kw['milestone'] = True
        if rng.random() < .3: kw['custom'] = rstr(rng, alph)
        if rng.random() < .2: kw['other'] = rng.choice([5, 2.5, True, None, 'x'])
        t = Task(pool[i], **kw); ts.append(t)
        if ts[:-1] and rng.random() < .5: rng.choice(ts[:-1]).children.append(t)
        else: w.roots.append(t)
    order = list(w.tasks)
    if links:
        for _ in range(n):
            a, b = rng.choice(order), rng.choice(order)
            try:
                if a is not b and a not in b.predecessors: b.predecessors.append(a)
            except RuntimeError:
                pass
    return w


def view(w, link_sets=False):
    """observable content of a WBS; '' and None text are considered equal, custom values compare as strings"""
    eq = lambda v: None if v in (None, '') else v
    out = []
    for t in w.tasks:
        d = {k: v for k, v in t.to_dict().items() if k not in ('id', 'name', 'resource', 'start', 'end', 'estimate', 'spent', 'milestone', 'min_start', 'parent_id', 'predecessor_ids')}
        pre = [p.id for p in t.predecessors]; suc = [s.id for s in t.successors]
        if link_sets: pre, suc = sorted(pre, key=repr), sorted(suc, key=repr)
        out.append({'id': t.id, 'parent': t.parent.id if t.parent else None, 'children': [c.id for c in t.children], 'pre': pre, 'suc': suc,
                    'name': eq(t.name), 'resource': eq(t.resource), 'start': t.start, 'end': t.end, 'estimate': t.estimate, 'spent': t.spent,
                    'milestone': bool(t.milestone), 'min_start': t.min_start,
                    'custom': sorted((k, str(v)) for k, v in d.items() if v not in (None, ''))})
    return out
