"""Bounded stand-in for C12: critical_path against an exact rational longest-path computation."""
from fractions import Fraction
from .pure import *


def prereq_leaves(t):
    res = []
    for a in [t] + list(t.all_parents):
        for p in a.predecessors:
            res += [x for x in [p] + list(p.all_children) if len(x.children) == 0]
    return res


def run_case(seed, index, props):
    rng = case_rng(seed, 'critpath', index)
    tags = set(); viol = []
    bad = lambda c, d='': viol.append((c, d))
    n = rng.randint(1, 6); w = WBS(); ts = []
    mode = rng.choice(['integer', 'fractional', 'fractional'])
    hier = rng.random() < .4
    for j in range(n):
        est = rng.choice([0, 1, 2, 3, 5, None]) if mode == 'integer' else rng.choice([0.1, 0.2, 0.3, 0.7, 1.1, 2.5, 1 / 3])
        t = Task(j + 1, f't{j+1}', estimate=est, spent=rng.choice([None, 0, 1]) if mode == 'integer' else rng.choice([None, None, 0.1]))
        if hier and ts and rng.random() < .4:
            rng.choice(ts).children.append(t)
        else:
            w.roots.append(t)
        ts.append(t)
    for t in ts:
        for p in ts[:ts.index(t)]:
            if rng.random() < .35:
                try: t.predecessors.append(p)
                except RuntimeError: pass
    tags.add('estimates:' + mode)
    leaves = [t for t in w.tasks if len(t.children) == 0]
    for t in w.tasks:
        if len(t.children) > 0 and (t.predecessors or t.successors): tags.add('link-on-summary')
    desc = {'wbs': describe_wbs(w)}
    # combined-graph cycle => outside the quantifier ("acyclic WBSs")
    from .sched import has_hier_cycle
    if has_hier_cycle(w): return [], tags, desc, 'skipped-cycle'
    dur = {id(t): Fraction(str(max((t.estimate or 0) - (t.spent or 0), 0))) if not isinstance(t.estimate, float) or True else 0 for t in leaves}
    for t in leaves:
        e = Fraction(t.estimate).limit_denominator(10 ** 6) if t.estimate is not None else Fraction(0)
        s = Fraction(t.spent).limit_denominator(10 ** 6) if t.spent is not None else Fraction(0)
        dur[id(t)] = max(e - s, Fraction(0))
    pre = {id(t): prereq_leaves(t) for t in leaves}
    ef = {}

    def EF(t):
        if id(t) not in ef: ef[id(t)] = max([EF(p) for p in pre[id(t)]], default=Fraction(0)) + dur[id(t)]
        return ef[id(t)]
    for t in leaves: EF(t)
    total = max(ef.values())
    succ = {id(t): [s for s in leaves if any(p is t for p in pre[id(s)])] for t in leaves}
    tail = {}

    def TAIL(t):
        if id(t) not in tail: tail[id(t)] = max([TAIL(s) + dur[id(s)] for s in succ[id(t)]], default=Fraction(0))
        return tail[id(t)]
    want = sorted(t.id for t in leaves if EF(t) + TAIL(t) == total)
    before = view(w)
    try:
        got = sorted(t.id for t in w.critical_path())
    except Exception as e:
        bad('C12 critical_path raises ' + type(e).__name__, str(e)[:80]); return viol, tags, desc, 'exc'
    if view(w) != before: bad('C12 critical_path modified the WBS')
    if got != want: bad('C12 result is not the set of zero-float leaves', f'got {got} want {want}')
    if leaves and not got: bad('C12 empty result although the WBS has a leaf')
    return viol, tags, desc, 'ok'


DEFAULT_BUDGET = {'quick': 800, 'thorough': 15000}


def run(props, tier, seed, budget=None):
    return generic_run('critpath', run_case, props, seed, budget or DEFAULT_BUDGET[tier],
                       'seeded random WBS (1-6 tasks, optional hierarchy, links on leaves and summaries, integer or fractional estimates) compared with an exact rational longest-path computation; distinct by input',
                       lambda d: d if len(d['wbs']) > 1 else None)


def replay(case, props):
    return run_case(case['seed'], case['index'], props)
