"""Bounded stand-in for C13: write_csv / read_csv round trip, fixpoint, hand-written files, BOM."""
import tempfile, os, shutil
from .pure import *
from pjplan import read_csv, write_csv

_tmp = None


def tmpdir():
    global _tmp
    if _tmp is None:
        _tmp = tempfile.mkdtemp(prefix='verif_csv_')
        import atexit; atexit.register(lambda: shutil.rmtree(_tmp, ignore_errors=True))
    return _tmp


def run_case(seed, index, props):
    rng = case_rng(seed, 'csvio', index)
    tags = set(); viol = []
    bad = lambda c, d='': viol.append((c, d))
    ids = list(range(-3, 40)) if index % 2 else None
    w = gen_wbs(rng, rng.randint(1, 6), ids=ids)
    for t in w.tasks:
        if rng.random() < .1: t.min_start = datetime(2024, rng.randint(1, 12), rng.randint(1, 28)); tags.add('min_start-set')
        if t.children and t.id == 0: tags.add('parent-id-zero')
    desc = {'wbs': describe_wbs(w), 'custom': [(t.id, {k: v for k, v in t.to_dict().items() if k in ('custom', 'other')}) for t in w.tasks]}
    p = os.path.join(tmpdir(), 'a.csv')
    try:
        write_csv(w, p); w2 = read_csv(p)
    except Exception as e:
        bad('C13 round trip raises ' + type(e).__name__, str(e)[:100]); return viol, tags, desc, 'exc'
    v1, v2 = view(w), view(w2)
    if [x['id'] for x in v1] != [x['id'] for x in v2]: bad('C13 task ids / order differ after the round trip', f'{[x["id"] for x in v1]} vs {[x["id"] for x in v2]}')
    else:
        for a, b in zip(v1, v2):
            for f in a:
                if f in ('suc',): continue
                if a[f] != b[f]: bad('C13 field differs after the round trip: ' + f, f'task {a["id"]}: {a[f]!r} vs {b[f]!r}')
    p2 = p + '2'; p3 = p + '3'
    try:
        write_csv(w2, p2); w3 = read_csv(p2); write_csv(w3, p3)
        if open(p2, 'rb').read() != open(p3, 'rb').read(): bad('C13 second round trip is not a fixpoint')
    except Exception as e:
        bad('C13 second round trip raises ' + type(e).__name__, str(e)[:100])
    # a file in that layout with a byte-order mark loads with the same meaning
    data = open(p2, 'rb').read()
    open(p3, 'wb').write(b'\xef\xbb\xbf' + data)
    try:
        if view(read_csv(p3)) != view(w3 if 'w3' in dir() else w2): bad('C13 file with BOM loads with another meaning')
    except Exception as e:
        bad('C13 file with BOM fails to load: ' + type(e).__name__, str(e)[:100])
    return viol, tags, desc, 'ok'


def handwritten():
    """fixed hand-written files in the documented layout (older version without custom columns, quoted fields)"""
    viol = []
    p = os.path.join(tmpdir(), 'h.csv')
    open(p, 'w', encoding='utf-8', newline='\n').write(
        'id;name;resource;start;end;estimate;spent;milestone;parent_id;predecessor_ids\n'
        '1;Top;;01.02.24;;;;;;\n'
        '2;"a;b ""q""\nline";dev;05.02.24;06.02.24;2.5;1;True;1;\n'
        '3;;;;;;;False;1;2\n'
        '-4;neg;;;;0;;;;1;3\n'.replace('1;3\n', '"2;3"\n'))
    try:
        w = read_csv(p); t = {x.id: x for x in w.tasks}
        ok = ([x.id for x in w.tasks] == [1, 2, 3, -4] and t[2].name == 'a;b "q"\nline' and t[2].parent is t[1] and t[2].milestone is True and t[2].estimate == 2.5
              and t[2].start == datetime(2024, 2, 5) and [p_.id for p_ in t[3].predecessors] == [2] and [p_.id for p_ in t[-4].predecessors] == [2, 3] and t[-4].parent is None
              and t[3].name is None and t[1].end is None and t[-4].estimate == 0)
        if not ok: viol.append(('C13 hand-written file loads with another meaning', str(view(w))[:300]))
    except Exception as e:
        viol.append(('C13 hand-written file fails to load: ' + type(e).__name__, str(e)[:100]))
    return viol


def dates_exhaustive():
    """finite domain: every day of 1969-2068 survives strftime/strptime with the repository's format"""
    from datetime import timedelta
    import pjplan.io.csv_io as m
    fmt = m.__dict__['__DATE_FORMAT'] if '__DATE_FORMAT' in m.__dict__ else '%d.%m.%y'
    d = datetime(1969, 1, 1); n = 0; badd = []
    while d < datetime(2069, 1, 1):
        if datetime.strptime(d.strftime(fmt), fmt) != d: badd.append(str(d))
        d += timedelta(days=1); n += 1
    return n, badd


DEFAULT_BUDGET = {'quick': 300, 'thorough': 6000}


def run(props, tier, seed, budget=None):
    cov, findings = generic_run('csvio', run_case, props, seed, budget or DEFAULT_BUDGET[tier],
                                'seeded random WBS (1-6 tasks, ids incl. 0 and negatives, adversarial strings with delimiter/quotes/CR/LF/BOM, sparse custom attributes, fractional estimates) written, read, written again; plus fixed hand-written files; distinct by input',
                                lambda d: d if len(d['wbs']) > 1 else None)
    for c, d in handwritten():
        findings.append(Finding('C13', c, ['hand-written'], d, {'scenario': 'csvio', 'seed': seed, 'index': -1, 'input': 'hand-written file'}))
    if tier == 'thorough':
        n, badd = dates_exhaustive(); cov['dates_enumerated'] = n; cov['dates_exhaustive'] = True
        if badd: findings.append(Finding('C13', 'C13 date does not survive strftime/strptime', [], str(badd[:3]), {'scenario': 'csvio', 'seed': seed, 'index': -2, 'input': badd[:3]}))
    return cov, findings


def replay(case, props):
    if case['index'] == -1: return handwritten(), set(), 'hand-written file', 'ok'
    return run_case(case['seed'], case['index'], props)
