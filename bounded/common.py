"""Bounded native stand-in: shared plumbing.

Runs under the interpreter the test-suite uses (/venv/bin/python) on the *real* pjplan code.  Never counted as
proof: it (i) stands in for contracts that are only assumed, (ii) searches failing inputs for failed proof
obligations, (iii) produces the replay files.  The source tree is taken from $PJPLAN_SRC (default /repo/src) so
that the same scenarios can be run against a scratch copy (self-tests on seeded changes).
"""
import os, sys, random, datetime as _dt, json, signal

SRC = os.environ.get('PJPLAN_SRC', '/repo/src')
if SRC not in sys.path:
    sys.path.insert(0, SRC)
sys.setrecursionlimit(4000)

import pjplan                                    # noqa: E402
import pjplan.schedule as _sched                 # noqa: E402
assert os.path.realpath(pjplan.__file__).startswith(os.path.realpath(SRC)), (pjplan.__file__, SRC)


class FakeDT(_dt.datetime):
    """datetime subclass with a controllable clock; installed as the name `datetime` of the modules that read it."""
    _now = _dt.datetime(2023, 12, 1)

    @classmethod
    def now(cls, tz=None):
        return cls._now


def set_clock(d):
    FakeDT._now = d


def install_clock():
    _sched.datetime = FakeDT
    try:
        import pjplan.viz.mermaid.gantt as g, pjplan.viz.dhtmlx.gantt as dg
        g.datetime = FakeDT
        dg.datetime = FakeDT
    except Exception:                              # viz modules are optional for the scheduler scenarios
        pass


install_clock()


def case_rng(seed, scenario, index):
    """every case has its own generator so that a single case can be regenerated for replay"""
    return random.Random(f'{seed}:{scenario}:{index}')


class Finding:
    def __init__(self, prop, clause, tags, desc, case):
        self.prop, self.clause, self.tags, self.desc, self.case = prop, clause, sorted(tags), desc, case

    def to_json(self):
        return {'property': self.prop, 'clause': self.clause, 'tags': self.tags, 'desc': self.desc, 'case': self.case}


class Timeout(Exception):
    pass


def _alarm(signum, frame):
    raise Timeout()


def with_timeout(seconds, fn):
    """run fn() under SIGALRM; raises Timeout (an unbounded loop is a C14 violation, not a hang of the checker)"""
    old = signal.signal(signal.SIGALRM, _alarm)
    signal.alarm(seconds)
    try:
        return fn()
    finally:
        signal.alarm(0)
        signal.signal(signal.SIGALRM, old)


def describe_task(t):
    d = {'id': t.id, 'parent': t.parent.id if t.parent else None, 'pre': [p.id for p in t.predecessors]}
    for k in ('name', 'resource', 'estimate', 'spent', 'start', 'end', 'milestone', 'min_start'):
        v = getattr(t, k, None)
        if v not in (None, False):
            d[k] = str(v) if isinstance(v, _dt.datetime) else v
    return d


def describe_wbs(w):
    return [describe_task(t) for t in w.tasks]


def jdump(o):
    return json.dumps(o, default=str, ensure_ascii=False)


def generic_run(scenario, run_case, props, seed, n, rule, nontrivial_key=None):
    """shared loop: run_case(seed, i, props) -> (viol [(clause, detail)], tags, desc, outcome)"""
    import collections
    findings = []; stats = collections.Counter(); distinct = set(); samples = []
    for i in range(n):
        try:
            viol, tags, desc, outcome = run_case(seed, i, props)
        except Exception as e:          # an exception escaping the scenario itself: library code failed where the scenario expects none
            import traceback
            viol = [(f'{pid} unexpected {type(e).__name__} while exercising the scenario', traceback.format_exc()[-600:]) for pid in sorted(props)]
            tags, desc, outcome = {'scenario-exception'}, {'wbs': [], 'exception': repr(e)[:200]}, 'exception'
        stats['cases'] += 1; stats['outcome:' + str(outcome)] += 1
        key = jdump(desc if nontrivial_key is None else nontrivial_key(desc))
        if key != 'null': distinct.add(hash(key))
        if i < 2: samples.append(desc)
        seen = set()
        for clause, detail in viol:
            if clause in seen or clause[:3] not in props: continue
            seen.add(clause)
            findings.append(Finding(clause[:3], clause, tags, detail, {'scenario': scenario, 'seed': seed, 'index': i, 'input': desc}))
    return {'evaluations': stats['cases'], 'distinct_nontrivial': len(distinct), 'stats': dict(stats), 'samples': samples, 'rule': rule}, findings
