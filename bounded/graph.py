"""Bounded stand-in, graph scenarios: C01 C05 C11 C15 C16 on random histories of public mutator calls.

Universe: n task objects whose ids are drawn from fewer values than there are objects (so that objects share
ids), two WBSs, children facades kept from earlier states ("stale" facades).  After every call the raw relation
fields are read (through their mangled names) and compared with the property sentences; for calls that raise, with
the snapshot taken before the call (C15); for calls that return, with the documented effect of the call (C16).
"""
import collections
from .common import *
from pjplan import Task, WBS

P = lambda t: t._Task__parent
CH = lambda t: t._Task__children
PRE = lambda t: t._Task__predecessors
SUC = lambda t: t._Task__successors
OWN = lambda t: t._Task__wbs
import sys as _sys
EMPTY_ID = _sys.maxsize


def snapshot(allt):
    return {id(t): (P(t), list(CH(t)), list(PRE(t)), list(SUC(t)), OWN(t)) for t in allt}


def snap_eq(a, b):
    if a.keys() != b.keys(): return False
    for k in a:
        x, y = a[k], b[k]
        if x[0] is not y[0] or x[4] is not y[4]: return False
        for i in (1, 2, 3):
            if len(x[i]) != len(y[i]) or any(p is not q for p, q in zip(x[i], y[i])): return False
    return True


def isin(x, lst):
    return any(x is y for y in lst)


def check_inv(tasks, wbss):
    """clauses of C01 / C05 / C11 on the raw fields; returns list of (clause, detail)"""
    bad = []
    roots = [w._root() for w in wbss]
    allt = tasks + roots
    hidden = {id(w._root()): w for w in wbss}
    for t in allt:
        ch = CH(t)
        if len(set(map(id, ch))) != len(ch): bad.append(('C01 a task is listed twice among the children of one task', f'under {t.id}'))
        for c in ch:
            if P(c) is not t: bad.append(('C01 listed child reports another parent', f'{c.id} under {t.id}'))
        p = P(t)
        if p is not None and not isin(t, CH(p)): bad.append(('C01 parent does not list its child', f'{t.id} parent {p.id}'))
        seen = set(); x = t
        while x is not None:
            if id(x) in seen: bad.append(('C01 task is its own ancestor', f'{t.id}')); break
            seen.add(id(x)); x = P(x)
    if any(b[0].endswith('own ancestor') for b in bad): return bad

    def root(t):
        while P(t) is not None: t = P(t)
        return t

    def ancestors(t):
        r = []; t = P(t)
        while t is not None: r.append(t); t = P(t)
        return r
    for t in allt:
        if len(set(map(id, PRE(t)))) != len(PRE(t)) or len(set(map(id, SUC(t)))) != len(SUC(t)):
            bad.append(('C01 dependency listed twice', f'{t.id}'))
        for a in PRE(t):
            if not isin(t, SUC(a)): bad.append(('C01 predecessor link without mirror successor link', f'{a.id}->{t.id}'))
            if a is t: bad.append(('C01 self-link', f'{t.id}'))
            if isin(a, ancestors(t)) or isin(t, ancestors(a)): bad.append(('C01 dependency between a task and its ancestor', f'{a.id}->{t.id}'))
        for s in SUC(t):
            if not isin(t, PRE(s)): bad.append(('C01 successor link without mirror predecessor link', f'{t.id}->{s.id}'))
    color = {}

    def dfs(u):
        color[id(u)] = 1
        for v in PRE(u):
            if color.get(id(v)) == 1: return True
            if id(v) not in color and dfs(v): return True
        color[id(u)] = 2
        return False
    if any(dfs(t) for t in allt if id(t) not in color): bad.append(('C01 dependency cycle', ''))
    trees = collections.defaultdict(list)
    for t in tasks: trees[id(root(t))].append(t.id)
    for ids in trees.values():
        if len(set(ids)) != len(ids): bad.append(('C05 two tasks with equal ids in one WBS / tree', str(sorted(ids, key=repr))))
    for t in tasks:
        w = hidden.get(id(root(t)))
        if OWN(t) is not w: bad.append(('C11 Task.wbs differs from reachability', f'task {t.id}: reports {"a WBS" if OWN(t) is not None else None}, is {"member" if w is not None else "detached"}'))
        if t.wbs is not OWN(t): bad.append(('C11 Task.wbs differs from reachability', 'property vs field'))
    listed = {}
    for w in wbss:
        for x in w.tasks: listed.setdefault(id(x), w)
    for t in tasks:          # the property's own wording: owner X exactly when the task appears in X.tasks
        if t.wbs is not listed.get(id(t)):
            bad.append(('C11 Task.wbs differs from reachability', f'task {t.id}: reports {"a WBS" if t.wbs is not None else None}, {"is" if id(t) in listed else "is not"} listed in WBS.tasks'))
    # public view agrees with the raw view (C05: lookup, depth-first listing)
    for w in wbss:
        def dfs_list(t):
            out = []
            for c in CH(t): out.append(c); out += dfs_list(c)
            return out
        want = dfs_list(w._root()); got = list(w.tasks)
        if len(want) != len(got) or any(a is not b for a, b in zip(want, got)): bad.append(('C05 WBS.tasks is not the depth-first listing', ''))
        ids = [t.id for t in want]
        if len(set(ids)) == len(ids):
            for t in want:
                try:
                    if w[t.id] is not t: bad.append(('C05 lookup by id returns another task', str(t.id)))
                except RuntimeError:
                    bad.append(('C05 lookup by id fails for a member', str(t.id)))
            try:
                w[-12345]; bad.append(('C05 lookup of an absent id does not raise', ''))
            except RuntimeError:
                pass
    return bad


class Op:
    def __init__(self, name, fn, named, effect=None, lists=()):
        self.name, self.fn, self.named, self.effect, self.lists = name, fn, named, effect, lists


def dedupe(lst):
    out = []
    for x in lst:
        if x is not None and not isin(x, out): out.append(x)
    return out


def tolist(v):
    if v is None: return []
    if isinstance(v, Task): return [v]
    return [x for x in v if x is not None]


def make_op(rng, tasks, wbss, facades, mode='mixed', former=None):
    t = rng.choice(tasks); u = rng.choice(tasks); v = rng.choice(tasks); w = rng.choice(wbss)
    some = lambda: rng.sample(tasks, rng.randint(0, min(3, len(tasks))))
    dup = lambda: [rng.choice(tasks) for _ in range(rng.randint(0, 3))]
    L = rng.choice([some, dup, some])()
    one_or_list = rng.choice([u, L])
    i = rng.randint(0, 3)
    mv = rng.choice([u, [u, v], [u, v], [u, u]]); anchor = rng.choice([{'before': v}, {'after': v}, {}, {'before': v, 'after': u}])
    rev = rng.random() < .5
    ids = [x.id for x in some()]
    owner_name = lambda o: ('w%d' % wbss.index(o)) if isinstance(o, WBS) else 't%d' % tasks.index(o)
    tn = lambda x: 't%d' % tasks.index(x) if isinstance(x, Task) else ('None' if x is None else '[' + ','.join('t%d' % tasks.index(y) for y in x) + ']')
    R = lambda o: o._root() if isinstance(o, WBS) else o         # the task whose children list is edited

    def children_ops(o):
        on = owner_name(o)
        get = (lambda: o.roots) if isinstance(o, WBS) else (lambda: o.children)
        setter = (lambda val: setattr(o, 'roots', val)) if isinstance(o, WBS) else (lambda val: setattr(o, 'children', val))
        attr = 'roots' if isinstance(o, WBS) else 'children'
        cur = list(R(o)._Task__children); extra = []
        if len(cur) >= 2:
            rep = list(cur); rng.shuffle(rep); rep[0] = rep[1]            # the current children, same length, one repeated and one left out
            extra.append(Op(f'{on}.{attr} = {tn(rep)}  [current children, one repeated, one left out]', lambda: setter(rep), [R(o)] + rep, ('assign-children', R(o), rep)))
        if cur:
            extra.append(Op(f'{on}.{attr} = {on}.{attr}  [its own live list view: {tn(cur)}]', lambda: setter(get()), [R(o)] + cur, ('assign-children', R(o), cur)))
        return extra + [
            Op(f'{on}.{attr} = {tn(L)}', lambda: setter(L), [R(o)] + L, ('assign-children', R(o), L)),
            Op(f'{on}.{attr}.append({tn(u)})', lambda: get().append(u), [R(o), u], ('append-child', R(o), u)),
            Op(f'{on}.{attr}.remove({tn(u)})', lambda: get().remove(u), [R(o), u], ('remove-child', R(o), u)),
            Op(f'{on}.{attr}.insert({i}, {tn(u)})', lambda: get().insert(i, u), [R(o), u], ('insert-child', R(o), i, u)),
            Op(f'{on}.{attr}.move({tn(mv)}, {", ".join(k + "=" + tn(x) for k, x in anchor.items())})', lambda: get().move(mv, **anchor), [R(o)] + tolist(mv) + list(anchor.values()), ('move-child', R(o), mv, anchor)),
            Op(f'{on}.{attr}.sort("id", reverse={rev})', lambda: get().sort('id', reverse=rev), [R(o)], ('sort', R(o), rev)),
            Op(f'{on}.{attr}.reorder({ids})', lambda: get().reorder(ids), [R(o)], ('reorder', R(o), ids)),
            Op(f'{on} // {tn(one_or_list)}', lambda: o // one_or_list, [R(o)] + tolist(one_or_list), ('append-children', R(o), tolist(one_or_list))),
        ]
    cand = children_ops(t) + children_ops(t) + children_ops(w) + [
        Op(f'{tn(t)}.parent = {tn(u)}', lambda: setattr(t, 'parent', u), [t, u], ('set-parent', t, u)),
        Op(f'{tn(t)}.parent = None', lambda: setattr(t, 'parent', None), [t], ('set-parent', t, None)),
        Op(f'{tn(t)}.predecessors = {tn(L)}', lambda: setattr(t, 'predecessors', L), [t] + L, ('assign-links', t, L, 'pre')),
        Op(f'{tn(t)}.successors = {tn(L)}', lambda: setattr(t, 'successors', L), [t] + L, ('assign-links', t, L, 'suc')),
        Op(f'{tn(t)}.predecessors.append({tn(u)})', lambda: t.predecessors.append(u), [t, u], ('append-link', t, [u], 'pre')),
        Op(f'{tn(t)}.successors.append({tn(u)})', lambda: t.successors.append(u), [t, u], ('append-link', t, [u], 'suc')),
        Op(f'{tn(t)}.predecessors.remove({tn(u)})', lambda: t.predecessors.remove(u), [t, u], ('remove-link', t, u, 'pre')),
        Op(f'{tn(t)}.successors.remove({tn(u)})', lambda: t.successors.remove(u), [t, u], ('remove-link', t, u, 'suc')),
        Op(f'{tn(t)} << {tn(one_or_list)}', lambda: t << one_or_list, [t] + tolist(one_or_list), ('append-link', t, tolist(one_or_list), 'pre')),
        Op(f'{tn(t)} >> {tn(one_or_list)}', lambda: t >> one_or_list, [t] + tolist(one_or_list), ('append-link', t, tolist(one_or_list), 'suc')),
        # the operators on a task LIST: every member gets the named tasks as predecessors / successors (a refusal by a later member must leave the earlier ones untouched, C15)
        Op(f'{tn(t)}.all_children << {tn(one_or_list)}', lambda: t.all_children << one_or_list, [t] + tolist(one_or_list), ('bulk-append-link', list(t.all_children), tolist(one_or_list), 'pre')),
        Op(f'{tn(t)}.all_children >> {tn(one_or_list)}', lambda: t.all_children >> one_or_list, [t] + tolist(one_or_list), ('bulk-append-link', list(t.all_children), tolist(one_or_list), 'suc')),
        Op(f'{owner_name(w)}.tasks(id_in_=[{t.id!r}, {v.id!r}]) << {tn(u)}', lambda: w.tasks(id_in_=[t.id, v.id]) << u, [t, v, u], ('bulk-append-link', list(w.tasks(id_in_=[t.id, v.id])), [u], 'pre')),
    ] + ([Op(f'{owner_name(w)}.tasks(id_in_=[{t.id!r}, {P(u).id!r}]) << {tn(u)}  [one member is the parent of the named task]', lambda: w.tasks(id_in_=[t.id, P(u).id]) << u, [t, P(u), u],
             ('bulk-append-link', list(w.tasks(id_in_=[t.id, P(u).id])), [u], 'pre'))] if P(u) is not None and P(u).id != EMPTY_ID else []) + [
        Op(f'{owner_name(w)}.remove({tn(u)})', lambda: w.remove(u), [u], ('wbs-remove', w, u)),
        Op(f'{owner_name(w)}.remove_all(id={u.id!r})', lambda: w.remove_all(id=u.id), [], ('wbs-remove-all', w, u.id)),
        Op(f'{tn(t)}.children.remove_all(id={u.id!r})', lambda: t.children.remove_all(id=u.id), [t], ('list-remove-all', t, u.id)),
    ]
    # targeted operations: re-use of earlier state (former parents), promotion of a grandchild while its parent is dropped
    if former:
        ft = rng.choice(list(former)); t2 = next(x for x in tasks if id(x) == ft); fp = former[ft]
        if isinstance(fp, Task):
            cand.append(Op(f'{tn(t2)}.parent = {tn(fp)}  [its former parent]', lambda: setattr(t2, 'parent', fp), [t2, fp], ('set-parent', t2, fp)))
            cand.append(Op(f'{tn(fp)}.children.append({tn(t2)})  [its former child]', lambda: fp.children.append(t2), [fp, t2], ('append-child', fp, t2)))
            if not isin(t2, fp._Task__children):
                # the id of a task that left the tree is free again: taking it, then bringing the task back, must be refused (C05)
                cand.append(Op(f'Task({t2.id!r}, parent={tn(fp)})  [re-uses the id of the former child {tn(t2)}]', lambda: Task(t2.id, parent=fp), [], ('construct',)))
    for owner in [t, w]:
        kids = list(R(owner)._Task__children)
        withkids = [k for k in kids if k._Task__children]
        if withkids:
            pch = rng.choice(withkids); gc = rng.choice(list(pch._Task__children))
            L2 = [k for k in kids if k is not pch] + [gc]
            rng.shuffle(L2)
            setter2 = (lambda val, o=owner: setattr(o, 'roots', val)) if isinstance(owner, WBS) else (lambda val, o=owner: setattr(o, 'children', val))
            cand.append(Op(f'{owner_name(owner)}.{"roots" if isinstance(owner, WBS) else "children"} = {tn(L2)}  [drops {tn(pch)}, promotes its child]', lambda L2=L2, f=setter2: f(L2), [R(owner)] + L2, ('assign-children', R(owner), L2)))
    ckw = {}
    if rng.random() < .6: ckw['parent'] = u
    if rng.random() < .4: ckw['children'] = L
    if rng.random() < .4: ckw['predecessors'] = rng.choice([v, L])
    if rng.random() < .3: ckw['successors'] = rng.choice([t, L])
    cand.append(Op(f'Task({u.id!r}, ' + ', '.join(f'{k}={tn(x)}' for k, x in ckw.items()) + ')', lambda: Task(u.id, **ckw), [], ('construct', dict(ckw))))
    if facades:
        k = rng.randrange(len(facades)); f, owner = facades[k]
        fo = f'facade{k}(of {owner_name(owner)})'
        members = list(f)
        fu, fv = u, v
        if len(members) >= 2 and rng.random() < .7:
            fu, fv = rng.sample(members, 2)                     # a move that the (possibly stale) facade considers valid
        cand += [
            Op(f'{fo}.move({tn(fu)}, before={tn(fv)})', lambda: f.move(fu, before=fv), [R(owner), fu, fv], ('move-child', R(owner), fu, {'before': fv})),
            Op(f'{fo}.move({tn(fu)}, after={tn(fv)})', lambda: f.move(fu, after=fv), [R(owner), fu, fv], ('move-child', R(owner), fu, {'after': fv})),
            Op(f'{fo}.append({tn(fu)})', lambda: f.append(fu), [R(owner), fu], ('append-child', R(owner), fu)),
            Op(f'{fo}.remove({tn(fu)})', lambda: f.remove(fu), [R(owner), fu], ('remove-child', R(owner), fu)),
            Op(f'{fo}.sort("id")', lambda: f.sort('id'), [R(owner)], ('sort', R(owner), False)),
            Op(f'{fo}.insert({i}, {tn(fu)})', lambda: f.insert(i, fu), [R(owner), fu], ('insert-child', R(owner), i, fu)),
        ]
    targeted = [o for o in cand if '[' in o.name and ('former' in o.name or 'promotes' in o.name or 'repeated' in o.name or 'live list view' in o.name)] + [o for o in cand if o.name.startswith('facade')]
    if mode != 'links' and targeted and rng.random() < 0.3:
        return rng.choice(targeted)
    bulk = [o for o in cand if o.effect[0] == 'bulk-append-link']
    if mode != 'hierarchy' and bulk and rng.random() < 0.12:
        return rng.choice(bulk)
    if mode == 'links':
        cand = [o for o in cand if o.effect[0] in ('assign-links', 'append-link', 'remove-link', 'bulk-append-link')]
    elif mode == 'hierarchy':
        cand = [o for o in cand if o.effect[0] not in ('assign-links', 'append-link', 'remove-link', 'construct', 'bulk-append-link')]
    return rng.choice(cand)


def subtree(t):
    out = [t]
    for c in CH(t): out += subtree(c)
    return out


def check_effect(op, before, after, ret, allt):
    """C16: documented effect and frame of an accepted call.  before/after: snapshots."""
    bad = []
    e = op.effect; kind = e[0]
    ch0 = lambda x: before[id(x)][1]; ch1 = lambda x: after[id(x)][1]
    par1 = lambda x: after[id(x)][0]; par0 = lambda x: before[id(x)][0]
    edited = []            # children-list owners whose list is meant to change
    reordered = None       # owner whose list may be re-ordered arbitrarily (sort)
    moved = []             # tasks that may change position relative to their siblings
    links_of = []          # tasks whose link lists are meant to change
    same = lambda a, b: len(a) == len(b) and all(x is y for x, y in zip(a, b))

    def released_ok(old, new, owner):
        for x in old:
            if not isin(x, new):
                if par1(x) is not None: bad.append(('C16 task left out of the assignment keeps its parent', f'{x.id}'))
    if kind == 'assign-children':
        _, o, L = e; want = dedupe(L)
        want_last = list(reversed(dedupe(list(reversed(L)))))       # with repeated elements "the given order" is met by either occurrence
        if not same(ch1(o), want) and not same(ch1(o), want_last): bad.append(('C16 children/roots assignment: list is not the given tasks in the given order', f'{[x.id for x in ch1(o)]} vs {[x.id for x in want]}'))
        released_ok(ch0(o), want, o); edited = [o] + [par0(x) for x in want if par0(x) is not None]; moved = want + [x for x in ch0(o)]
    elif kind in ('append-child', 'append-children'):
        o = e[1]; xs = [e[2]] if kind == 'append-child' else e[2]
        if kind == 'append-children':
            for x in dedupe(xs):
                if not isin(x, ch1(o)): bad.append(('C16 // did not attach the task', f'{x.id}'))
        elif not (ch1(o) and ch1(o)[-1] is xs[0]): bad.append(('C16 append: task is not last', f'{[x.id for x in ch1(o)]}'))
        edited = [o] + [par0(x) for x in xs if par0(x) is not None]; moved = list(xs)
    elif kind == 'remove-child':
        _, o, x = e
        was = isin(x, ch0(o))
        if ret is not was and ret is not None: bad.append(('C16 remove: return value does not tell membership', f'{ret} vs {was}'))
        if isin(x, ch1(o)): bad.append(('C16 remove: task still listed', ''))
        if was and par1(x) is not None: bad.append(('C16 remove: removed task keeps its parent', ''))
        if was and not same(ch1(o), [y for y in ch0(o) if y is not x]): bad.append(('C16 remove: other siblings changed', ''))
        edited = [o]; moved = [x]
    elif kind == 'insert-child':
        _, o, i, x = e
        new = not isin(x, ch0(o))
        if new and 0 <= i <= len(ch0(o)):
            if not (len(ch1(o)) > i and ch1(o)[i] is x): bad.append(('C16 insert(i): new task is not at index i', f'i={i} list={[y.id for y in ch1(o)]}'))
        if not isin(x, ch1(o)): bad.append(('C16 insert: task not in list', ''))
        edited = [o] + ([par0(x)] if par0(x) is not None else []); moved = [x]
    elif kind == 'move-child':
        _, o, mv, anchor = e; xs = tolist(mv)
        if len(xs) == 1 and len(anchor) == 1:
            (k, a), = anchor.items(); l1 = ch1(o)
            if isin(xs[0], l1) and isin(a, l1) and a is not xs[0]:
                ix = [y is xs[0] for y in l1].index(True); ia = [y is a for y in l1].index(True)
                if (k == 'before' and ix != ia - 1) or (k == 'after' and ix != ia + 1): bad.append(('C16 move: task is not next to the anchor', f'{[y.id for y in l1]}'))
        if sorted(map(id, ch0(o))) != sorted(map(id, ch1(o))): bad.append(('C16 move: membership of the list changed', ''))
        edited = [o]; moved = xs
    elif kind == 'sort':
        _, o, rev = e
        want = sorted(ch0(o), key=lambda x: x.id, reverse=rev)
        if not same(ch1(o), want): bad.append(('C16 sort: list is not the stable sort of the old list', f'{[y.id for y in ch1(o)]}'))
        edited = [o]; reordered = o
    elif kind == 'reorder':
        _, o, ids = e
        head = []
        for k in ids:
            m = [y for y in ch0(o) if y.id == k and not isin(y, head)]
            if m: head.append(m[0])
        want = head + [y for y in ch0(o) if not isin(y, head)]
        if not same(ch1(o), want): bad.append(('C16 reorder: listed ids are not first in the given order / rest not in old order', f'{[y.id for y in ch1(o)]} want {[y.id for y in want]}'))
        edited = [o]; reordered = o
    elif kind == 'set-parent':
        _, x, p = e
        if p is not None:
            if par1(x) is not p: bad.append(('C16 parent assignment: task does not report the new parent', ''))
            if sum(1 for y in ch1(p) if y is x) != 1: bad.append(('C16 parent assignment: task not listed once under the new parent', ''))
            edited = [p]
        else:
            own = before[id(x)][4]
            if own is None:
                if par1(x) is not None: bad.append(('C16 parent = None: detached task keeps a parent', ''))
            else:
                if par1(x) is not own._root(): bad.append(('C16 parent = None: member task did not become a root task', ''))
                edited = [own._root()]
        if par0(x) is not None: edited.append(par0(x))
        moved = [x]
    elif kind in ('assign-links', 'append-link'):
        _, x, L, side = e
        mine, mirror = (2, 3) if side == 'pre' else (3, 2)
        want = dedupe(L) if kind == 'assign-links' else dedupe(list(before[id(x)][mine]) + L)
        got = after[id(x)][mine]
        if sorted(map(id, got)) != sorted(map(id, want)) or len(got) != len(want): bad.append((f'C16 {side} assignment/append: list is not exactly the given tasks', f'{[y.id for y in got]} vs {[y.id for y in want]}'))
        for a in allt:
            if isin(x, after[id(a)][mirror]) != isin(a, want): bad.append(('C16 mirror side of an edited dependency not updated', f'{a.id}'))
        links_of = [x] + want + list(before[id(x)][mine])
    elif kind == 'bulk-append-link':
        _, members, L, side = e
        mine, mirror = (2, 3) if side == 'pre' else (3, 2)
        for x in members:
            want = dedupe(list(before[id(x)][mine]) + L); got = after[id(x)][mine]
            if sorted(map(id, got)) != sorted(map(id, want)) or len(got) != len(want): bad.append((f'C16 {side} append on a task list: list of a member is not exactly the old links plus the given tasks', f'{x.id}: {[y.id for y in got]} vs {[y.id for y in want]}'))
            links_of += [x] + want
    elif kind == 'remove-link':
        _, x, y, side = e
        mine, mirror = (2, 3) if side == 'pre' else (3, 2)
        was = isin(y, before[id(x)][mine])
        if ret is not was: bad.append(('C16 link remove: return value does not tell membership', ''))
        if isin(y, after[id(x)][mine]) or isin(x, after[id(y)][mirror]): bad.append(('C16 link remove: link still present on one side', ''))
        if not same(after[id(x)][mine], [z for z in before[id(x)][mine] if z is not y]): bad.append(('C16 link remove: other links changed', ''))
        links_of = [x, y] + list(before[id(x)][mine])          # members of the edited list may be re-mirrored (same set)
        for z in before[id(x)][mine]:
            if z is not y and (sorted(map(id, before[id(z)][2])) != sorted(map(id, after[id(z)][2])) or sorted(map(id, before[id(z)][3])) != sorted(map(id, after[id(z)][3]))):
                bad.append(('C16 link remove: links of another member of the list changed', f'{z.id}'))
    elif kind in ('wbs-remove', 'wbs-remove-all', 'list-remove-all'):
        if kind == 'wbs-remove':
            _, w, x = e; root = w._root()
            targets = [x] if before[id(x)][4] is w else []
            if ret is not bool(targets): bad.append(('C16 WBS.remove: return value does not tell membership', f'{ret}'))
        elif kind == 'wbs-remove-all':
            _, w, k = e; root = w._root()
            targets = [y for y in allt if before[id(y)][4] is w and y.id == k and y is not root]
        else:
            _, o, k = e; root = None
            targets = [y for y in before[id(o)][1] if y.id == k]
        if kind != 'wbs-remove':
            got = list(ret) if ret is not None else []
            # nested matches disappear with their ancestors; only the outermost have to be returned as removed
            if sorted(map(id, got)) != sorted(map(id, targets)): bad.append(('C16 remove_all: returned tasks are not exactly the matching tasks', f'{[y.id for y in got]}'))
        gone = set()
        for x in targets:
            if par1(x) is not None and not any(isin(a, targets) for a in _anc(before, x)): bad.append(('C16 remove: task still attached', f'{x.id}'))
        edited = [par0(x) for x in targets if par0(x) is not None]; moved = targets
    # ---- frame: tasks neither named nor attached to an edited list keep all four relations; siblings keep order
    touched = {id(x) for x in op.named if x is not None} | {id(x) for x in edited} | {id(x) for x in moved} | {id(x) for x in links_of}
    for o in edited:
        touched |= {id(y) for y in ch0(o)} | {id(y) for y in ch1(o)}
    for t in allt:
        b, a = before[id(t)], after[id(t)]
        if id(t) not in touched:
            if b[0] is not a[0] or not same(b[1], a[1]) or not same(b[2], a[2]) or not same(b[3], a[3]):
                bad.append(('C16 relation of a task that is not named in the call changed', f'task {t.id} after {op.name}'))
        if t is not reordered:
            keep0 = [y for y in b[1] if isin(y, a[1]) and not isin(y, moved)]
            keep1 = [y for y in a[1] if isin(y, b[1]) and not isin(y, moved)]
            if not same(keep0, keep1): bad.append(('C16 other siblings changed their relative order', f'under {t.id}'))
        if not links_of or not isin(t, links_of):
            if not same(b[2], a[2]) or not same(b[3], a[3]): bad.append(('C16 dependency lists changed by a call that does not edit them', f'task {t.id}'))
    # a re-parented task takes its subtree along
    for x in moved:
        keep = lambda l: [y for y in l if not isin(y, moved)]       # a child that is itself named in the call may leave
        if not same(keep(before[id(x)][1]), keep(after[id(x)][1])) and kind not in ('assign-children',): bad.append(('C16 moved task lost or changed its own children', f'{x.id}'))
    return bad


def _anc(snap, x):
    out = []; p = snap[id(x)][0]
    while p is not None and len(out) < 100: out.append(p); p = snap[id(p)][0]
    return out


def walk(seed, index, props, steps=12, n=None, verbose=False):
    rng = case_rng(seed, 'graph', index)
    n = n or rng.choice([3, 4, 4, 5])
    mode = rng.choice(['mixed', 'mixed', 'links', 'hierarchy'])
    if mode == 'links':
        steps = 16          # dependency edits only (incl. reading the closures); ids distinct, or shared between tasks (identity, not id, must drive the closures)
        tasks = [Task(i + 1, f't{i}') for i in range(n)] if rng.random() < .5 else [Task(rng.randint(1, 2), f't{i}') for i in range(n)]
    elif mode == 'hierarchy' and rng.random() < .5:
        steps = 14; tasks = [Task(i + 1, f't{i}') for i in range(n)]
    else:
        tasks = [Task(rng.randint(1, max(2, n - 1)), f't{i}') for i in range(n)]
    former = {}
    wbss = [WBS(), WBS()]
    roots = [w._root() for w in wbss]
    allt = tasks + roots
    facades = []; hist = []; viol = []; tags = set()
    desc = {'tasks': [f't{i}=Task({t.id})' for i, t in enumerate(tasks)], 'history': hist}
    for st in range(steps):
        op = make_op(rng, tasks, wbss, facades, mode, former)
        before = snapshot(allt)
        ret = None
        try:
            ret = op.fn(); outcome = 'ok'
        except RecursionError:
            outcome = 'RecursionError'
        except RuntimeError:
            outcome = 'raise'
        except Exception as e:
            outcome = 'raise:' + type(e).__name__
        hist.append(op.name + ' -> ' + outcome)
        # task objects created by the call (a constructor, also a rejected one that already attached its object) join the universe
        known_ids = {id(t) for t in allt}; grew = False
        frontier = list(allt) + ([ret] if isinstance(ret, Task) else [])
        while frontier:
            t = frontier.pop()
            for y in [P(t)] + list(CH(t)) + list(PRE(t)) + list(SUC(t)) + ([t] if id(t) not in known_ids else []):
                if y is not None and id(y) not in known_ids:
                    known_ids.add(id(y)); tasks.append(y); allt.append(y); frontier.append(y); grew = True
                    desc['tasks'].append(f't{len(tasks) - 1}=Task({y.id}) [created by call {len(hist)}]')
        if grew:
            for t in allt:
                if id(t) not in before: before[id(t)] = (None, [], [], [], None)        # did not exist before the call
        after = snapshot(allt)
        for t in tasks:
            b0 = before.get(id(t)); a0 = after.get(id(t))
            if b0 is not None and a0 is not None and b0[0] is not a0[0] and isinstance(b0[0], Task) and b0[0].id != EMPTY_ID:
                former[id(t)] = b0[0]
        found = []
        if outcome != 'ok' and not snap_eq(before, after):
            found.append(('C15 a rejected call changed the graph', f'{op.name} ({outcome})'))
        try:
            found += check_inv(tasks, wbss)
        except RecursionError:
            found.append(('C01 task is its own ancestor', 'oracle recursion'))
        if outcome == 'ok' and not found and 'C16' in props and op.effect[0] != 'construct':
            found += check_effect(op, before, after, ret, allt)
        if outcome == 'ok' and not found and 'C16' in props and op.effect[0] == 'construct' and len(op.effect) > 1 and isinstance(ret, Task):
            # an accepted constructor call: the new task has exactly the relations it was given (C16)
            kw = op.effect[1]; a1 = after.get(id(ret))
            if a1 is not None:
                if kw.get('parent') is not None and a1[0] is not kw['parent']: found.append(('C16 constructor: new task does not report the given parent', ''))
                if 'children' in kw:          # with a task named twice "the given order" is met by either occurrence (as for an assignment to .children)
                    Lc = tolist(kw['children']); got = [id(x) for x in a1[1]]
                    if got != [id(x) for x in dedupe(Lc)] and got != [id(x) for x in reversed(dedupe(list(reversed(Lc))))]:
                        found.append(('C16 constructor: children of the new task are not the given tasks', f'{[x.id for x in a1[1]]}'))
                for key, k in (('predecessors', 2), ('successors', 3)):
                    want = dedupe(tolist(kw.get(key)))
                    if sorted(map(id, a1[k])) != sorted(map(id, want)): found.append((f'C16 constructor: {key} of the new task are not the given tasks', f'{[x.id for x in a1[k]]} vs {[x.id for x in want]}'))
        other = [f for f in found if f[0][:3] not in props]
        found = [f for f in found if f[0][:3] in props]
        if found:
            kind = op.effect[0]
            tags.add('op:' + kind)
            if outcome != 'ok': tags.add('outcome:' + outcome)
            if 'facade' in op.name: tags.add('stale-facade')
            seen = set()
            for c, d in found:
                if c not in seen: viol.append((c, d + ' | after ' + op.name + ' -> ' + outcome)); seen.add(c)
            break
        if any(c.startswith('C15') for c, _ in other): break       # a rejected call left a half-made change (another property's finding): start a new walk
        # a state that breaks only ANOTHER property is still a state of the real objects: the walk goes on, and what it shows about `props` counts
        if rng.random() < (.5 if mode == 'hierarchy' else .25):
            o = rng.choice(tasks + wbss)
            facades.append(((o.roots if isinstance(o, WBS) else o.children), o))
    return viol, tags, desc, 'ok'


DEFAULT_BUDGET = {'quick': 2000, 'thorough': 40000}


def directed_bulk_link(props):
    """directed case (every run): `task_list << c` where the first member accepts c and a later member refuses it (c is its child) - C15 wants the first member untouched"""
    w = WBS(); a = Task(1, 'a'); b = Task(2, 'b'); c = Task(3, 'c', parent=b); w.roots = [a, b]
    allt = [a, b, c]; before = snapshot(allt); outcome = 'ok'
    hist = ['w = WBS(); a = Task(1); b = Task(2); c = Task(3, parent=b); w.roots = [a, b]', 'w.tasks(id_in_=[1, 2]) << c']
    try:
        w.tasks(id_in_=[1, 2]) << c
    except RuntimeError:
        outcome = 'raise'
    after = snapshot(allt); viol = []
    if outcome != 'ok' and not snap_eq(before, after) and 'C15' in props:
        viol.append(('C15 a rejected call changed the graph', f'a.predecessors = {[t.id for t in PRE(a)]}, c.successors = {[t.id for t in SUC(c)]} after the refused call | after w.tasks(id_in_=[1, 2]) << c -> raise'))
    return viol, {'op:bulk-append-link', 'outcome:raise', 'directed'}, {'history': [h + (' -> ' + outcome if k else '') for k, h in enumerate(hist)], 'directed': 'bulk-link'}, outcome


def run(props, tier, seed, budget=None):
    n = budget or DEFAULT_BUDGET[tier]
    findings = []; stats = collections.Counter(); distinct = set(); samples = []
    if 'C15' in props:
        viol, tags, desc, _ = directed_bulk_link(props); stats['walks'] += 1; stats['calls'] += 1
        for clause, detail in viol:
            findings.append(Finding(clause[:3], clause, tags, detail, {'scenario': 'graph', 'seed': seed, 'index': -1, 'directed': 'bulk-link', 'input': desc}))
    for i in range(n):
        try:
            viol, tags, desc, _ = walk(seed, i, props)
        except Exception as e:          # an exception escaping the scenario itself: library code failed where the scenario expects none
            import traceback
            viol = [(f'{pid} unexpected {type(e).__name__} while exercising the scenario', traceback.format_exc()[-600:]) for pid in sorted(props)]
            tags, desc, _ = {'scenario-exception'}, {'history': [], 'exception': repr(e)[:200]}, 'exception'
        stats['walks'] += 1; stats['calls'] += len(desc['history'])
        stats['accepted'] += sum(1 for h in desc['history'] if h.endswith('-> ok'))
        distinct.add(hash(tuple(desc['history'])))
        if i < 2: samples.append(desc)
        for clause, detail in viol:
            findings.append(Finding(clause[:3], clause, tags, detail, {'scenario': 'graph', 'seed': seed, 'index': i, 'input': desc}))
    return {'evaluations': stats['calls'], 'distinct_nontrivial': len(distinct), 'stats': dict(stats), 'samples': samples,
            'rule': 'seeded random walks (<=12 public mutator calls) over 3-5 task objects sharing ids, 2 WBSs, stale children facades; every call is one evaluation; distinct = distinct call histories (all have >= 1 call)'}, findings


def replay(case, props):
    if case.get('directed') == 'bulk-link': return directed_bulk_link(props)
    return walk(case['seed'], case['index'], props)
