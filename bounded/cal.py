"""Bounded stand-in for C17: calendar expressions, leaf calendars, constructor rejections, availability search."""
import operator
from datetime import datetime, timedelta
from .common import *
from pjplan import WeeklyCalendar, DirectCalendar, FixedCalendar, Resource


def leaf(rng):
    k = rng.randint(0, 3)
    if k == 0:
        st = rng.choice([None, datetime(2024, 1, rng.randint(1, 10), rng.choice([0, 0, 7]))]); en = rng.choice([None, datetime(2024, 1, rng.randint(11, 25), rng.choice([0, 0, 18]))])
        dh = {d: rng.choice([0, 2, 8, 3.5]) for d in range(7) if rng.random() < .85}
        c = WeeklyCalendar(start=st, end=en, units_per_day=dh)
        return c, (lambda d: None if (st and d < st) or (en and d > en) else dh.get(d.weekday(), 0)), f'Weekly({st},{en},{dh})'
    if k == 1:
        m = {datetime(2024, 1, rng.randint(1, 28), rng.choice([0, 0, 9])): rng.choice([0, 1, 8]) for _ in range(5)}
        mm = {}
        for key, v in m.items(): mm[datetime(key.year, key.month, key.day)] = v
        return DirectCalendar(m), (lambda d: mm.get(datetime(d.year, d.month, d.day))), f'Direct({m})'
    if k == 2:
        u = rng.choice([0, 1, 4.5]); st = rng.choice([None, datetime(2024, 1, 5)]); en = rng.choice([None, datetime(2024, 1, 20, rng.choice([0, 12]))])
        return FixedCalendar(u, st, en), (lambda d: 0 if (st and d < st) or (en and d > en) else u), f'Fixed({u},{st},{en})'
    days = rng.sample(range(7), rng.randint(0, 7)); u = rng.choice([0, 8, 6.5])
    return WeeklyCalendar(days=days, units_per_day=u), (lambda d: u if d.weekday() in days else 0), f'Weekly(days={days},{u})'


def expr(rng, depth):
    if depth == 0 or rng.random() < .3: return leaf(rng)
    a, fa, da = expr(rng, depth - 1)
    if rng.random() < .3:
        n = rng.choice([1, 2, 0.5, 3]); b, fb, db = n, (lambda d: n), repr(n)
    else:
        b, fb, db = expr(rng, depth - 1)
    op = rng.choice('+-*/|')

    def sem(d):
        if op == '|':                       # first positive operand; later operands are not consulted
            for f in (fa, fb):
                v = f(d)
                if v is not None and v > 0: return v
            return None
        x, y = fa(d), fb(d)
        vals = [v for v in (x, y) if v is not None]
        if not vals: return None
        r = vals[0] if len(vals) == 1 else {'+': operator.add, '-': operator.sub, '*': operator.mul, '/': operator.truediv}[op](*vals)
        if op == '-' and r < 0: return None
        return r
    c = {'+': lambda: a + b, '-': lambda: a - b, '*': lambda: a * b, '/': lambda: a / b, '|': lambda: a | b}[op]()
    return c, sem, f'({da} {op} {db})'


def rejections():
    """definitions that must be rejected with RuntimeError (property sentence), and ones that must be accepted"""
    d1, d2 = datetime(2023, 1, 1), datetime(2022, 1, 1)
    must_raise = [
        ('WeeklyCalendar(days=[7])', lambda: WeeklyCalendar(days=[7], units_per_day=8)),
        ('WeeklyCalendar(days=[-1])', lambda: WeeklyCalendar(days=[-1], units_per_day=8)),
        ('WeeklyCalendar(units_per_day=-1)', lambda: WeeklyCalendar(days=[0], units_per_day=-1)),
        ('WeeklyCalendar(units_per_day={0:-2})', lambda: WeeklyCalendar(units_per_day={0: -2})),
        ('WeeklyCalendar(units_per_day={7:3})', lambda: WeeklyCalendar(units_per_day={7: 3})),
        ('WeeklyCalendar(start>end)', lambda: WeeklyCalendar(start=d1, end=d2, days=[0], units_per_day=8)),
        ('WeeklyCalendar(dict, start>end)', lambda: WeeklyCalendar(start=d1, end=d2, units_per_day={0: 1})),
        ('FixedCalendar(-1)', lambda: FixedCalendar(-1)),
        ('FixedCalendar(start>end)', lambda: FixedCalendar(1, start=d1, end=d2)),
        ('DirectCalendar({d:-3})', lambda: DirectCalendar({d1: -3})),
        ('DirectCalendar.set_units({d:-3})', lambda: DirectCalendar({}).set_units({d1: -3})),
        ('cal / 0', lambda: FixedCalendar(1) / 0),
        ('cal / 0.0', lambda: FixedCalendar(1) / 0.0),
    ]
    must_accept = [
        ('WeeklyCalendar(start==end)', lambda: WeeklyCalendar(start=d1, end=d1, days=[0, 6], units_per_day=0)),
        ('FixedCalendar(0, start<end)', lambda: FixedCalendar(0, start=d2, end=d1)),
        ('DirectCalendar({d:0})', lambda: DirectCalendar({d1: 0})),
        ('cal / 2', lambda: FixedCalendar(1) / 2),
        ('WeeklyCalendar(days=[], 8)', lambda: WeeklyCalendar(days=[], units_per_day=8)),
    ]
    viol = []
    for name, f in must_raise:
        try:
            f(); viol.append(('C17 invalid definition accepted: ' + name, ''))
        except RuntimeError:
            pass
        except Exception as e:
            viol.append(('C17 invalid definition rejected with ' + type(e).__name__ + ': ' + name, ''))
    for name, f in must_accept:
        try:
            f()
        except Exception as e:
            viol.append(('C17 valid definition rejected: ' + name, type(e).__name__))
    # set_units keys are dates of a day: a time of day must not hide the entry
    c = DirectCalendar({})
    try:
        c.set_units({datetime(2024, 1, 5, 13): 4})
        if c.get_available_units(datetime(2024, 1, 5, 8)) != 4: viol.append(('C17 dated calendar does not return its configured value (set_units with a time of day)', ''))
        # a later definition of a day replaces the earlier one; days not named keep theirs
        c.set_units({datetime(2024, 1, 5): 0, datetime(2024, 1, 6, 9): 7})
        c.set_units({datetime(2024, 1, 6): 2})
        got = [c.get_available_units(datetime(2024, 1, d)) for d in (5, 6, 7)]
        if got != [0, 2, None]: viol.append(('C17 dated calendar does not return its configured value (a day configured again keeps the old value)', str(got)))
        c2 = DirectCalendar({datetime(2024, 1, 8): 8}); c2.set_units({datetime(2024, 1, 8): 0})
        if c2.get_available_units(datetime(2024, 1, 8, 12)) != 0: viol.append(('C17 dated calendar does not return its configured value (a day configured again keeps the old value)', 'constructor value kept'))
    except Exception as e:
        viol.append(('C17 set_units raises ' + type(e).__name__, ''))
    return viol


def run_case(seed, index, props):
    rng = case_rng(seed, 'cal', index)
    tags = set(); viol = []
    bad = lambda c, d='': viol.append((c, d))
    c, sem, desc = expr(rng, 3)
    if '/' in desc: tags.add('division-by-calendar')
    for _ in range(6):
        d = datetime(2024, 1, rng.randint(1, 28), rng.choice([0, 0, 13]))
        try: want = sem(d)
        except ZeroDivisionError: want = 'ZeroDivisionError'
        try: got = c.get_available_units(d)
        except ZeroDivisionError: got = 'ZeroDivisionError'
        if got != want: bad('C17 calendar expression value differs from the operator semantics', f'{d}: got {got} want {want}')
    r = Resource('x', c)
    # the same Resource object queried repeatedly, several times of day on the same day (validity bounds may carry a time of day)
    for _ in range(3):
        day = rng.randint(1, 28)
        for hour in (0, 13, 6, 20):
            d = datetime(2024, 1, day, hour)
            try: want = sem(d)
            except ZeroDivisionError: continue
            try: got = r.get_available_units(d)
            except ZeroDivisionError: continue
            if got != (0 if want is None else want): bad('C17 resource capacity differs from its calendar (0 where the calendar has no information)', f'{d}: got {got} want {want}')
    d0 = datetime(2024, 1, rng.randint(1, 28), rng.choice([0, 9]))

    def av(d):
        try: v = c.get_available_units(d)
        except ZeroDivisionError: return 'Z'
        return 0 if v is None else v
    for direction in (1, -1):
        H = rng.choice([0, 1, 5, 40]); want = None
        for k in range(H):
            dd = d0 + timedelta(days=k * direction); probe = dd - timedelta(days=1) if direction < 0 else dd
            a = av(probe)
            if a == 'Z': want = 'Z'; break
            if a > 0: want = dd; break
        try: got = r.get_nearest_availability_date(d0, direction, max_days=H)
        except ZeroDivisionError: got = 'Z'
        except RuntimeError: got = None
        if got != want: bad('C17 availability search result', f'from {d0} dir {direction} horizon {H}: got {got} want {want}')
        try:
            if r.get_available_units(d0) is None: bad('C17 resource reports None')
        except ZeroDivisionError:
            pass
    return viol, tags, desc, 'ok'


DEFAULT_BUDGET = {'quick': 600, 'thorough': 20000}


def run(props, tier, seed, budget=None):
    cov, findings = generic_run('cal', run_case, props, seed, budget or DEFAULT_BUDGET[tier],
                                'seeded random calendar expressions of depth <= 3 over weekly/dated/fixed calendars and numbers, 6 dates each, availability search in both directions with horizons 0/1/5/40; plus the fixed list of definitions that must be rejected/accepted; distinct by expression text')
    for c, d in rejections():
        findings.append(Finding('C17', c, ['constructor'], d, {'scenario': 'cal', 'seed': seed, 'index': -1, 'input': c}))
    return cov, findings


def replay(case, props):
    if case['index'] == -1: return rejections(), set(), 'fixed constructor list', 'ok'
    return run_case(case['seed'], case['index'], props)
