"""Bounded stand-in for C10: WBS.clone / WBS.subtree on random WBSs with outside links."""
from .pure import *


def run_case(seed, index, props):
    rng = case_rng(seed, 'clone', index)
    w = gen_wbs(rng, rng.randint(1, 6), alph=SINGLE_LINE); w.title = 'T'; w.rev = 3
    for t in w.tasks:
        if rng.random() < .3: t.min_start = datetime(2024, rng.randint(1, 12), rng.randint(1, 28))
        if rng.random() < .15: t.reviewer = None          # a custom attribute whose value is None is still an attribute of the task
        if rng.random() < .1: t.milestone = None
    tags = set(); viol = []
    bad = lambda c, d='': viol.append((c, d))
    outs = [Task(rng.choice([100 + j, 100 + j, 100 + j, rng.choice([t.id for t in w.tasks])]), f'o{j}') for j in range(2)]
    inside_ids = {t.id for t in w.tasks}
    for t in list(w.tasks):
        try:
            if rng.random() < .25: t.predecessors.append(rng.choice(outs))
            if rng.random() < .15: t.successors.append(rng.choice(outs))
        except RuntimeError:
            pass
    linked_out = {id(o): o for t in w.tasks for o in list(t.predecessors) + list(t.successors) if o.wbs is not w}
    if any(o.id in inside_ids for o in linked_out.values()): tags.add('outside-id-collision')
    if len({o.id for o in linked_out.values()}) < len(linked_out): tags.add('outside-id-collision')
    desc = {'wbs': describe_wbs(w), 'outside': [(o.id, [s.id for s in o.successors], [p.id for p in o.predecessors]) for o in outs]}
    before = view(w); before_sets = view(w, True)
    try:
        c = w.clone()
    except Exception as e:
        return [('C10 clone raises ' + type(e).__name__, str(e)[:100])], tags, desc, 'exc'
    if view(w) != before: bad('C10 clone changed the source WBS')
    if view(c, True) != before_sets: bad('C10 copy differs from source', _diff(view(c, True), before_sets))
    for t, tc in zip(w.tasks, c.tasks):
        if tc is t: bad('C10 copy shares a task object with the source')
        if tc.id == t.id and _pub(tc) != _pub(t): bad('C10 public instance attributes of a copied task differ in names or values', f'{t.id}: {_pub(tc)} vs {_pub(t)}'[:160])
        if tc.wbs is not c: bad('C10 copied task does not report the new WBS as owner')
        for side in ('predecessors', 'successors'):
            for x in getattr(t, side):
                m = [xc for xc in getattr(tc, side) if xc.id == x.id]
                if len(m) != 1: bad('C10 dependency link lost or duplicated in the copy', f'{side} {x.id} of {t.id}'); continue
                if x.wbs is w and (m[0].wbs is not c or m[0] is x): bad('C10 link between members not re-mapped to the copies')
                if x.wbs is not w and m[0] is not x: bad('C10 link to an outside task not kept on that same task')
    if getattr(c, 'title', None) != 'T' or getattr(c, 'rev', None) != 3: bad('C10 public WBS attributes not carried over')
    # independence: later changes do not show on the other side
    if list(c.tasks):
        tc = rng.choice(list(c.tasks)); tc.name = 'changed'; tc.extra = 1
        nt = Task(9999, 'new'); c.roots.append(nt)
        if view(w) != before: bad('C10 change of the copy shows on the source')
        c.remove(nt)
    sel = rng.sample(list(w.roots), rng.randint(1, len(w.roots)))
    try:
        s = w.subtree(sel if rng.random() < .8 or len(sel) != 1 else sel[0])
    except Exception as e:
        bad('C10 subtree raises ' + type(e).__name__, str(e)[:100]); return viol, tags, desc, 'exc'
    inside = set(); want = []
    for r in sel:
        inside |= {id(r)} | {id(x) for x in r.all_children}; want += [r.id] + [x.id for x in r.all_children]
    if [t.id for t in s.tasks] != want: bad('C10 subtree members/order differ from the selection')
    if view(w) != before: bad('C10 subtree changed the source WBS')
    for t in w.tasks:
        if id(t) in inside and len({x.id for x in s.tasks}) == len(list(s.tasks)):
            st = s[t.id]
            for side in ('predecessors', 'successors'):
                wantl = sorted((x.id for x in getattr(t, side) if id(x) in inside or x.wbs is not w), key=repr)
                if sorted((x.id for x in getattr(st, side)), key=repr) != wantl: bad('C10 subtree links differ (inside kept, other members dropped, outside kept)', f'{side} of {t.id}: {[x.id for x in getattr(st, side)]} want {wantl}')
                for x in getattr(st, side):
                    if x.wbs is not s and not any(x is o for o in outs): bad('C10 subtree link points to a task of the source')
            if st.wbs is not s: bad('C10 subtree task does not report the new WBS')
    return viol, tags, desc, 'ok'


def _pub(t):
    return {k: v for k, v in t.__dict__.items() if not k.startswith('_')}


def _diff(a, b):
    for x, y in zip(a, b):
        if x != y: return f'{ {k: (x[k], y[k]) for k in x if x[k] != y[k]} }'
    return f'len {len(a)} vs {len(b)}'


DEFAULT_BUDGET = {'quick': 600, 'thorough': 8000}


def run(props, tier, seed, budget=None):
    return generic_run('clone', run_case, props, seed, budget or DEFAULT_BUDGET[tier],
                       'seeded random WBS (1-6 tasks, hierarchy, links, custom attributes, WBS attributes, links to 2 outside tasks) cloned and sub-treed; distinct by input',
                       lambda d: d if len(d['wbs']) > 1 else None)


def replay(case, props):
    return run_case(case['seed'], case['index'], props)
