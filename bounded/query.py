"""Bounded stand-in for C18: task list filters, bulk attribute assignment, remove_all."""
import re
from .common import *
from pjplan import Task, WBS

SUF = {'_in_': lambda a, v: a in v, '_not_in_': lambda a, v: a not in v, '_is_none_': lambda a, v: a is None, '_is_not_none_': lambda a, v: a is not None,
       '_ne_': lambda a, v: a is not None and a != v, '_lt_': lambda a, v: a is not None and a < v, '_le_': lambda a, v: a is not None and a <= v,
       '_gt_': lambda a, v: a is not None and a > v, '_ge_': lambda a, v: a is not None and a >= v,
       '_like_': lambda a, v: a is not None and re.search(v, a) is not None, '_not_like_': lambda a, v: a is not None and re.search(v, a) is None, '': lambda a, v: a == v}
PROPS = ('estimate', 'spent')


def attr(t, name):
    if name == 'parent_id': return t.parent.id if t.parent else None
    if name.startswith('_'): return None
    v = getattr(t, name, None)
    return None if callable(v) else v


def run_case(seed, index, props):
    rng = case_rng(seed, 'query', index)
    tags = set(); viol = []
    bad = lambda c, d='': viol.append((c, d))
    w = WBS(); ts = []
    for j in range(rng.randint(1, 5)):
        kw = {}
        if rng.random() < .6: kw['resource'] = rng.choice(['dev', 'qa', 'ops'])
        if rng.random() < .5: kw['prio'] = rng.choice([1, 2, 3, None])
        if rng.random() < .5: kw['estimate'] = rng.choice([1, 5, 8])
        if rng.random() < .3: kw['spent'] = rng.choice([0, 2])
        t = Task(j + 1, rng.choice(['alpha', 'beta', None]), **kw); ts.append(t)
        (rng.choice(ts[:-1]).children.append(t) if len(ts) > 1 and rng.random() < .4 else w.roots.append(t))
    filt = {}
    for _ in range(rng.randint(1, 2)):
        name = rng.choice(['id', 'resource', 'prio', 'estimate', 'spent', 'name', 'parent_id', 'nosuch', 'milestone']); suf = rng.choice(list(SUF))
        if suf in ('_like_', '_not_like_'):
            if name not in ('resource', 'name'): continue
            val = rng.choice(['a', '^d', 'ps$'])
        elif suf in ('_in_', '_not_in_'): val = rng.choice([[1, 2], ['dev', None], [None]])
        elif suf in ('_is_none_', '_is_not_none_'): val = True
        elif name in ('resource', 'name'): val = rng.choice(['dev', 'alpha', 'zz'])
        else: val = rng.choice([1, 2, 5])
        filt[name + suf] = val
        if name in PROPS: tags.add('property-backed-attribute')
    desc = {'wbs': [dict(describe_task(t), prio=getattr(t, 'prio', '<absent>')) for t in w.tasks], 'filter': filt}
    if not filt and rng.random() < .5: return [], tags, desc, 'skip'          # else: the call without any filter selects every task

    def want_fn(t):
        for k, v in filt.items():
            suf = max((s for s in SUF if s and k.endswith(s)), key=len, default=''); name = k[:len(k) - len(suf)] if suf else k
            try:
                if not SUF[suf](attr(t, name), v): return False
            except TypeError:
                return 'TypeError'
        return True
    target = rng.choice(['tasks', 'roots', 'children', 'links'])
    if target == 'links':
        # a dependency list: it may hold tasks of other trees, also ones whose id equals the id of a listed member (ids are unique per tree only)
        x = rng.choice(ts); side = rng.choice(['predecessors', 'successors'])
        cands = [t for t in ts if t is not x] + [Task(rng.choice(ts).id, rng.choice(['alpha', 'beta', None]), resource=rng.choice(['dev', 'qa', None])) for _ in range(2)]
        rng.shuffle(cands)
        for t in cands[:rng.randint(1, 4)]:
            try: getattr(x, side).append(t)
            except RuntimeError: pass
        lst = getattr(x, side)
        desc['list'] = f'{side} of task {x.id}: {[t.id for t in lst]}'
        ids_l = [t.id for t in lst]; twice = [k for k in ids_l if ids_l.count(k) > 1]
        if twice and rng.random() < .6:
            filt.clear(); filt['id'] = twice[0]           # the plain id query on a list that holds that id twice
    else:
        lst = w.tasks if target == 'tasks' else (w.roots if target == 'roots' else rng.choice(ts).children)
    members = list(lst)
    wants = [want_fn(t) for t in members]
    if 'TypeError' in wants: return [], tags, desc, 'typeerror'
    want = [t for t, ok in zip(members, wants) if ok]
    snap = [(t.id, dict(t.to_dict()), [c.id for c in t.children]) for t in w.tasks]
    try:
        res = lst(**filt); got = list(res)
    except TypeError:
        return [], tags, desc, 'typeerror'
    if len(got) != len(want) or any(a is not b for a, b in zip(got, want)):
        bad('C18 filter result differs from the matching tasks', f'{filt}: got {[t.id for t in got]} want {[t.id for t in want]}')
    if snap != [(t.id, dict(t.to_dict()), [c.id for c in t.children]) for t in w.tasks]: bad('C18 query changed something')
    # callable filter
    pred = lambda t: t.id % 2 == 0
    if [t.id for t in lst(pred)] != [t.id for t in members if pred(t)]: bad('C18 callable filter result')
    # bulk assignment touches exactly the result
    if not viol:
        res.flag = index
        for t in w.tasks:
            has = getattr(t, 'flag', None) == index
            if has != any(t is x for x in want): bad('C18 bulk attribute assignment touched the wrong tasks', f'task {t.id}')
        if target == 'links':
            before_l = list(lst); all_before = list(w.tasks)
            removed = lst.remove_all(**filt)
            if len(removed) != len(want) or any(a is not b for a, b in zip(removed, want)): bad('C18 remove_all returned other tasks than the matching ones')
            left = list(getattr(x, side))
            keep = [t for t in before_l if not any(t is y for y in want)]
            if len(left) != len(keep) or any(a is not b for a, b in zip(left, keep)): bad('C18 remove_all removed other tasks than the matching ones and their subtrees', 'dependency list')
            if [id(t) for t in w.tasks] != [id(t) for t in all_before]: bad('C18 remove_all removed other tasks than the matching ones and their subtrees', 'removing links changed the hierarchy')
        elif target != 'tasks':
            all_before = list(w.tasks)
            removed = lst.remove_all(**filt)
            if [t.id for t in removed] != [t.id for t in want]: bad('C18 remove_all returned other tasks than the matching ones')
            gone = set()
            for x in want:
                gone |= {id(x)} | {id(y) for y in x.all_children}
            if [id(t) for t in w.tasks] != [id(t) for t in all_before if id(t) not in gone]: bad('C18 remove_all removed other tasks than the matching ones and their subtrees')
        else:
            all_before = list(w.tasks)
            removed = w.remove_all(**filt)
            gone = set()
            for x in want:
                gone |= {id(x)} | {id(y) for y in x.all_children}
            if sorted(t.id for t in removed) != sorted(t.id for t in want): bad('C18 WBS.remove_all returned other tasks than the matching ones')
            if [id(t) for t in w.tasks] != [id(t) for t in all_before if id(t) not in gone]: bad('C18 WBS.remove_all removed other tasks than the matching ones and their subtrees')
    return viol, tags, desc, 'ok'


DEFAULT_BUDGET = {'quick': 1000, 'thorough': 20000}


def run(props, tier, seed, budget=None):
    return generic_run('query', run_case, props, seed, budget or DEFAULT_BUDGET[tier],
                       'seeded random task lists (1-5 tasks, attributes present/absent/None incl. property-backed estimate/spent) x 1-2 filters over the 11 suffixes and plain equality, on WBS.tasks / roots / children; then bulk assignment and remove_all with the same filter; distinct by (WBS, filter)',
                       lambda d: d if d.get('filter') else None)


def replay(case, props):
    return run_case(case['seed'], case['index'], props)
