"""Bounded stand-in, scheduler scenarios: C02 C03 C04 C06 C07 C08 C09 C14 evaluated on real schedules.

Every clause is the property sentence transcribed against the *observable* result (Schedule.schedule,
Schedule.resource_usage.rows(), Schedule.resources); nothing reads private fields.
"""
import collections, copy
from datetime import datetime, timedelta
from .common import *
from pjplan import (Task, WBS, Resource, WeeklyCalendar, DirectCalendar, FixedCalendar, ForwardScheduler,
                    BackwardScheduler, DEFAULT_CALENDAR)

DAY = timedelta(days=1)
EPS = 1e-6


def mid(d):
    return datetime(d.year, d.month, d.day)


CALS = [
    ('weekly-mon-fri-8', lambda: WeeklyCalendar(days=[0, 1, 2, 3, 4], units_per_day=8)),
    ('weekly-mwf-5.5', lambda: WeeklyCalendar(days=[0, 2, 4], units_per_day=5.5)),
    ('diff', lambda: WeeklyCalendar(days=[0, 1, 2, 3, 4], units_per_day=8) - WeeklyCalendar(days=[2], units_per_day=8)),
    ('mul', lambda: WeeklyCalendar(days=[0, 1, 2, 3, 4, 5, 6], units_per_day=3) * 2),
    ('weekly-dict', lambda: WeeklyCalendar(units_per_day={0: 4, 1: 0, 2: 7.25, 5: 2})),
    ('sum-fixed', lambda: WeeklyCalendar(days=[1, 3], units_per_day=2) + FixedCalendar(1.5)),
    ('sparse-dated', lambda: DirectCalendar({datetime(2024, 1, d): u for d, u in [(3, 4), (9, 8), (10, 0), (17, 2.5), (24, 8), (31, 8)]}
                                            | {datetime(2024, 2, d): 6 for d in range(1, 29, 2)}
                                            | {datetime(2023, 12, d): 6 for d in range(1, 29, 3)}) | WeeklyCalendar(days=[6], units_per_day=1)),
    ('or', lambda: WeeklyCalendar(days=[0, 1], units_per_day=6) | FixedCalendar(2)),
    ('dated-editable', lambda: DirectCalendar({datetime(2024, m, d): 6 for m in (1, 2) for d in range(2, 29, 3)} | {datetime(2023, 12, d): 6 for d in range(1, 29, 3)})),
    # validity bounds with a time of day: capacity asked at 09:00 and at midnight of the boundary day differ
    ('bounded-midday', lambda: WeeklyCalendar(days=[0, 1, 2, 3, 4, 5, 6], units_per_day=8) - FixedCalendar(4, end=datetime(2024, 1, 9, 8))),
    ('or-bounded-midday', lambda: WeeklyCalendar(days=[0, 1, 2, 3, 4], units_per_day=4, end=datetime(2024, 1, 10, 12)) | WeeklyCalendar(days=[0, 1, 2, 3, 4, 5], units_per_day=8)),
]
DEAD_CALS = [
    ('zero', lambda: FixedCalendar(0)),
    ('bounded-past', lambda: WeeklyCalendar(days=[0, 1, 2, 3, 4], units_per_day=8, end=datetime(2022, 1, 1))),
    ('empty-dated', lambda: DirectCalendar({})),
]


def build(rng, direction, feat=None):
    """returns (wbs, info).  info['tags'] = witness-class tags of the case; info['expect_rt'] = reasons for which
    calc must answer RuntimeError (C14)."""
    feat = feat or {}
    tags = set(); expect = []
    n = rng.randint(1, 6)
    w = WBS(); tasks = []
    fixed_mode = direction == 'fwd' and rng.random() < 0.25
    deep = rng.random() < 0.35           # nested summaries with links declared on outer summaries
    if deep: n = rng.randint(4, 7)
    id0 = 0 if rng.random() < 0.25 else 1          # ids may start at 0 (a falsy id)
    contention = (not deep) and rng.random() < 0.25     # several long tasks competing for one resource, some released late
    if contention: n = rng.randint(3, 6)
    for i in range(n):
        kw = dict(estimate=rng.choice([None, 0, 1, 3.5, 8, 8, 20]), spent=rng.choice([None, None, 0, 1, 9]),
                  resource=rng.choice(['r1', 'r2', None]))
        if rng.random() < 0.15:
            kw['milestone'] = True
        if rng.random() < 0.2:
            kw['min_start'] = datetime(2024, 1, rng.randint(1, 20), rng.choice([0, 0, 10]))
        if rng.random() < 0.3:
            kw['prio'] = rng.choice([1, 'high', None])
        if contention:
            kw['resource'] = 'r1'; kw['estimate'] = rng.choice([8, 16, 20, 40, 100, 3.5]); kw['spent'] = rng.choice([None, 0, 1])
            kw.pop('milestone', None); kw.pop('min_start', None)
            if rng.random() < 0.35: kw['min_start'] = datetime(2024, 1, rng.randint(8, 20))
        t = Task(i + id0, f't{i + id0}', **kw); tasks.append(t)
        cands = [p for p in tasks[:-1] if not p.milestone]
        if contention and rng.random() < 0.85:
            w.roots.append(t)
        elif deep and cands and rng.random() < 0.75:
            rng.choice(cands[-2:]).children.append(t)
        elif cands and rng.random() < 0.5:
            rng.choice(cands).children.append(t)
        else:
            w.roots.append(t)
    order = list(w.tasks)
    fwd_only = rng.random() < 0.4
    summaries = [t for t in order if len(t.children) > 0]
    for _ in range(rng.randint(0, n)):
        if n < 2:
            break
        a, b = rng.sample(order, 2)
        if deep and summaries and rng.random() < 0.6:
            b = rng.choice(summaries)              # the dependent side is a summary: its leaves inherit the link
            if a is b: continue
        if fwd_only and order.index(a) > order.index(b):
            a, b = b, a
        try:
            if a not in b.predecessors:
                b.predecessors.append(a)
        except RuntimeError:
            pass
    if fixed_mode:
        for t in order:
            if len(t.children) == 0 and not t.milestone and rng.random() < 0.4:
                k = rng.random()
                if k < 0.5:      # fixed start in the past, no end
                    t.start = datetime(rng.choice([2019, 2023]), rng.randint(1, 11), rng.randint(1, 28), rng.choice([0, 0, 15])); tags.add('user-fixed-start')
                    if t.start.hour: tags.add('user-fixed-start-nonmidnight')
                elif k < 0.8:    # completed: both dates in the past
                    t.start = datetime(2019, 1, rng.randint(1, 20)); t.end = datetime(2019, 2, rng.randint(1, 20)); tags.add('user-fixed-start'); tags.add('user-fixed-end')
                elif k < 0.9:    # end fixed, start open
                    t.end = rng.choice([datetime(2019, 2, rng.randint(1, 20)), datetime(2023, 6, 1)]); tags.add('user-fixed-end')
                else:
                    t.end = datetime(2030, 1, 1); tags.add('user-fixed-end'); expect.append('fixed end in the future')
        for t in order:
            if len(t.children) > 0 and rng.random() < 0.3:
                t.start = datetime(2018, 1, 1); t.end = datetime(2018, 3, 1); t.estimate = 77; t.spent = 5; tags.add('user-values-on-summary')
    outside = []
    if rng.random() < 0.15:
        o = Task(rng.choice([100, 100, order[0].id]), 'outside', start=datetime(2023, 11, 1), end=datetime(2024, 1, rng.randint(2, 12)), estimate=2, spent=0)
        if rng.random() < 0.15:
            o.end = None
        tgt = rng.choice(order)
        try:
            if direction == 'fwd':
                tgt.predecessors.append(o)
            else:
                o.start = datetime(2024, 2, 20); o.end = datetime(2024, 2, 25) if o.end is not None else None
                tgt.successors.append(o)
            outside.append(o); tags.add('outside-link')
            if o.id != 100: tags.add('outside-id-collision')
            if direction == 'fwd' and (o.end is None):
                expect.append('outside predecessor without dates')
        except RuntimeError:
            pass
    if has_hier_cycle(w):
        tags.add('hierarchy-cycle'); expect.append('cycle through the hierarchy')
    return w, {'tags': tags, 'expect_rt': expect, 'outside': outside}


def waits_for(w):
    """combined waits-for graph: a task waits for its predecessors, for the predecessors of its ancestors, and a
    summary for its children."""
    tasks = list(w.tasks); idx = {id(t): i for i, t in enumerate(tasks)}
    adj = {i: set() for i in range(len(tasks))}
    for t in tasks:
        for a in [t] + list(t.all_parents):
            for p in a.predecessors:
                if id(p) in idx: adj[idx[id(t)]].add(idx[id(p)])
        for c in t.children:
            adj[idx[id(t)]].add(idx[id(c)])
    return tasks, adj


def has_hier_cycle(w):
    tasks, adj = waits_for(w); color = {}

    def dfs(u):
        color[u] = 1
        for v in adj[u]:
            if color.get(v) == 1: return True
            if v not in color and dfs(v): return True
        color[u] = 2
        return False
    return any(dfs(u) for u in adj if u not in color)


def resources(rng, tags, expect, direction='fwd'):
    rs = []
    for name in ('r1', 'r2'):
        if rng.random() < 0.04:
            cn, c = rng.choice(DEAD_CALS if direction == 'fwd' else DEAD_CALS[:1] + DEAD_CALS[2:]); tags.add('dead-calendar:' + name)
        else:
            cn, c = rng.choice(CALS)
        rs.append((name, cn, c))
        if 'midday' in cn: tags.add('calendar-bound-with-time-of-day')
    return rs


def prereq_leaves(t, direction='fwd'):
    res = []
    for a in [t] + list(t.all_parents):
        for p in (a.predecessors if direction == 'fwd' else a.successors):
            sub = [p] + list(p.all_children)
            res += [x for x in sub if len(x.children) == 0]
    return res


def wbs_view(w, dates=True, sort_links=False):
    out = []
    srt = sorted if sort_links else (lambda x, key=None: list(x))
    for t in w.tasks:
        d = dict(t.to_dict())
        d.update(estimate=t.estimate, spent=t.spent, start=t.start, end=t.end)          # estimate / spent are properties: to_dict() does not list them
        if not dates:
            for k in ('start', 'end', 'estimate', 'spent'): d.pop(k, None)
        out.append((t.id, t.parent.id if t.parent else None, tuple(srt([p.id for p in t.predecessors], key=repr)), tuple(srt([s.id for s in t.successors], key=repr)),
                    tuple(c.id for c in t.children), tuple(sorted((k, repr(v)) for k, v in d.items()))))
    return out


def result_view(s):
    return ([(t.id, t.start, t.end, t.estimate, t.spent) for t in s.schedule.tasks],
            [(r.resource.name, r.date, r.task.id, r.units) for r in s.resource_usage.rows()])


class Run:
    """one schedule computation + the clause evaluation"""

    def __init__(self, prop_filter):
        self.viol = []          # (clause, detail)
        self.pf = prop_filter

    def bad(self, clause, detail=''):
        if clause[:3] in self.pf:
            self.viol.append((clause, detail))


def run_case(seed, index, props, direction=None, verbose=False):
    rng = case_rng(seed, 'sched', index)
    direction = direction or rng.choice(['fwd', 'fwd', 'bwd'])
    w, info = build(rng, direction)
    tags, expect = info['tags'], list(info['expect_rt'])
    balance = rng.random() < 0.6
    rs_spec = resources(rng, tags, expect, direction)
    defest = rng.choice([0, 2])
    clock = datetime(2023, 12, 1) if rng.random() < 0.8 else datetime(2024, 1, rng.randint(3, 15), 11)
    if direction == 'fwd':
        bound = datetime(2024, 1, rng.randint(1, 7), rng.choice([0, 0, 9]))
    else:
        bound = datetime(2024, 3, rng.randint(1, 7), rng.choice([0, 0, 12])); clock = datetime(2023, 12, 1)
    if clock > bound: tags.add('clock-after-project-start')
    if bound.hour: tags.add('nonmidnight-bound')
    R = Run(props)
    mk = lambda: [Resource(n, c()) for n, _, c in rs_spec]
    sched = (lambda rs: ForwardScheduler(start=bound, resources=rs, balance_resources=balance, default_estimate=defest)) if direction == 'fwd' \
        else (lambda rs: BackwardScheduler(end=bound, resources=rs, balance_resources=balance, default_estimate=defest))
    used = {t.resource for t in w.tasks}
    for name, cn, _ in rs_spec:
        def needs_capacity(t):
            if len(t.children) or t.milestone or t.resource != name: return False
            if direction == 'bwd' or t.start is None: return True            # the availability search runs
            work = max((t.estimate if t.estimate is not None else defest) - (t.spent or 0), 0)
            return t.end is None and work > 0
        if ('dead-calendar:' + name) in tags and name in used and any(needs_capacity(t) for t in w.tasks):
            expect.append('resource never available: ' + name)
    set_clock(clock)
    before = wbs_view(w)
    desc = {'direction': direction, 'balance': balance, 'bound': str(bound), 'clock': str(clock), 'default_estimate': defest,
            'resources': [(n, cn) for n, cn, _ in rs_spec], 'wbs': describe_wbs(w),
            'outside': [describe_task(o) for o in info['outside']]}
    outcome = None
    rs_main = mk()
    try:
        sc_main = sched(rs_main)
        s = with_timeout(20, lambda: sc_main.calc(w))
        outcome = 'ok'
    except RecursionError:
        outcome = 'RecursionError'
    except RuntimeError as e:
        outcome = 'RuntimeError'
    except Timeout:
        outcome = 'Timeout'
    except Exception as e:
        outcome = type(e).__name__
    if wbs_view(w) != before:
        R.bad('C06 input WBS modified by calc', outcome)
    if outcome not in ('ok', 'RuntimeError'):
        R.bad('C14 calc fails with ' + outcome, '')
    if outcome == 'ok' and expect:
        for why in expect:
            R.bad('C14 unschedulable input accepted: ' + why.split(':')[0], why)
    if outcome != 'ok':
        return R.viol, tags, desc, outcome
    sch = s.schedule; rows = s.resource_usage.rows(); resby = {r.name: r for r in s.resources}
    src_by_id = {}
    for t in w.tasks: src_by_id.setdefault(t.id, t)
    structure_ok = wbs_view(sch, dates=False, sort_links=True) == wbs_view(w, dates=False, sort_links=True)
    if not structure_ok:
        R.bad('C06 result structure differs from input')
    try:
        check_result(R, w, s, direction, balance, bound, clock, defest, tags)
    except Exception as e:
        # the returned schedule is so inconsistent with the input that the clauses cannot even be evaluated
        for pid in sorted(props):
            R.bad(f'{pid} returned schedule is inconsistent with the input WBS ({type(e).__name__} while evaluating the clauses)', str(e)[:120])
    if any(a is b for a, b in zip(w.tasks, sch.tasks)): R.bad('C06 result shares task objects with input')
    if 'C06' in props:
        r1 = result_view(s)

        def again(label, fn):
            try:
                if result_view(fn()) != r1: R.bad(label)
            except Exception as e:             # the first call returned a schedule: equal inputs must do so again
                R.bad(label, f'second call raises {type(e).__name__}: {str(e)[:80]}')
        again('C06 repeated call differs (fresh scheduler)', lambda: sched(mk()).calc(w))
        rs_shared = mk(); sc = sched(rs_shared)
        again('C06 repeated call on the same scheduler object differs', lambda: sc.calc(w))
        again('C06 repeated call on the same scheduler object differs', lambda: sc.calc(w))
        again('C06 fresh scheduler with the same resource objects differs', lambda: sched(rs_shared).calc(w))
        if direction == 'fwd' and clock <= bound:
            set_clock(bound - timedelta(days=rng.randint(0, 400), hours=rng.choice([0, 5])))
            if bound.hour and FakeDT._now >= mid(bound): tags.add('clock-on-the-day-of-a-nonmidnight-project-start')
            try:
                s3 = sched(mk()).calc(w)
                if result_view(s3) != r1: R.bad('C06 forward result depends on the clock', f'clock {FakeDT._now} vs {clock}')
            except RuntimeError:
                R.bad('C06 forward outcome depends on the clock', f'RuntimeError at clock {FakeDT._now}')
            set_clock(clock)
    # ---- a calendar edited in place between two calls: the same Resource objects must see the new capacities (no stale state)
    editable = [r for r in rs_main if isinstance(getattr(r, 'calendar', None), DirectCalendar)]
    if editable and (props & {'C03', 'C06', 'C08', 'C09', 'C04'}):
        for r in editable:
            # new capacity on odd days, and the capacity of days configured before LOWERED (leave / part time): a stale view over-books them
            r.calendar.set_units({datetime(2024, m, d): 8 for m in (1, 2) for d in range(1, 29, 2)} | {datetime(2024, m, d): rng.choice([0, 2]) for m in (1, 2) for d in range(2, 29, 6)})
        for who, mk_s in (('a new scheduler', lambda: sched(rs_main)), ('the SAME scheduler object', lambda: sc_main)):
            try:
                s4 = mk_s().calc(w)
                R2 = Run(props); check_result(R2, w, s4, direction, balance, bound, clock, defest, tags)
                for c, d in R2.viol: R.bad(c, d + f' [second call, by {who}, after DirectCalendar.set_units on the same Resource]')
            except RuntimeError:
                pass
            except Exception as e:
                for pid in sorted(props): R.bad(f'{pid} returned schedule is inconsistent with the input WBS ({type(e).__name__} while evaluating the clauses)', f'second call by {who} after set_units')
    # ---- C08: balancing off => independent of unrelated tasks
    if 'C08' in props and direction == 'fwd' and not balance and 'outside-link' not in tags:
        independence(R, w, s, sched, mk, rng)
    return R.viol, tags, desc, outcome


def capof(res, d):
    """capacity of a resource on a date, read from its calendar (not through the resource object, which could be stale)"""
    cal = getattr(res, 'calendar', None)
    if cal is None: return res.get_available_units(d)
    v = cal.get_available_units(d)
    return 0 if v is None else v


def check_result(R, w, s, direction, balance, bound, clock, defest, tags):
    sch = s.schedule; rows = s.resource_usage.rows(); resby = {r.name: r for r in s.resources}
    fwd = direction == 'fwd'
    src = {}
    for t in w.tasks: src.setdefault(t.id, t)
    per = collections.defaultdict(float); pert = collections.defaultdict(float)
    for r in rows:
        if not r.units > 0: R.bad('C03 non-positive usage row', str(r))
        if r.resource is not resby.get(r.task.resource): R.bad('C03 row booked on a resource other than the task names')
        if not capof(r.resource, r.date) > 0: R.bad('C03 row on a day without capacity', str(r.date))
        if r.date != mid(r.date): R.bad('C03 row date is not a day')
        per[(r.resource.name, r.date)] += r.units; pert[(r.resource.name, r.date, id(r.task))] += r.units
    for (rn, d), u in per.items():
        if balance and u > capof(resby[rn], d) + EPS: R.bad('C03 day over-allocated (balancing on)', f'{rn} {d} {u}')
        if abs(s.resource_usage.reserved(resby[rn], d) - u) > EPS: R.bad('C03 report total differs from rows')
    for (rn, d, t), u in pert.items():
        if u > capof(resby[rn], d) + EPS: R.bad('C03 task over-allocated on a day', f'{rn} {d} {u}')
    if 'C03' in R.pf:
        for rn, res in resby.items():
            f = s.resource_usage.rows(lambda r: r.resource is res)
            if [(r.date, r.task.id, r.units) for r in f] != [(r.date, r.task.id, r.units) for r in rows if r.resource is res]:
                R.bad('C03 filtered view differs from rows')
        for t in sch.tasks:
            if t.resource not in resby: R.bad('C03 resource named by a task missing from result', str(t.resource))
        for rn, res in resby.items():
            if rn not in ('r1', 'r2'):
                for k in range(7):
                    d = datetime(2024, 1, 1) + k * DAY
                    if capof(res, d) != (8 if k < 5 else 0): R.bad('C03 default resource is not Mon-Fri 8')
    alltasks = list(sch.tasks)
    for t in alltasks:
        st = src[t.id]
        if t.start is None or t.end is None:
            R.bad('C06 task without start/end in result', f'task {t.id}'); continue
        if t.start > t.end: R.bad('C07 start after end', f'task {t.id}: {t.start} > {t.end}' + (' [leaf]' if not t.children else ' [summary]'))
        myrows = [r for r in rows if r.task is t]
        leaf = len(t.children) == 0
        days = [r.date for r in myrows]
        user_start = fwd and st.start is not None and leaf
        user_end = fwd and st.end is not None and leaf
        if leaf and not t.milestone:
            est = st.estimate if st.estimate is not None else defest
            spent = st.spent if st.spent is not None else 0
            want = 0 if user_end else max(est - spent, 0)
            got = sum(r.units for r in myrows)
            if abs(want - got) > EPS: R.bad('C04 reserved work differs from remaining work', f'task {t.id}: want {want} got {got}')
            if len(set(days)) != len(days): R.bad('C04 two rows of one task on one day')
            for r in myrows:
                if not (mid(t.start) <= r.date < t.end): R.bad('C04 row outside [start day, end)', f'task {t.id}: row {r.date} start {t.start} end {t.end}')
                if fwd and r.date < mid(clock): R.bad('C04 row before the current day')
            if fwd:
                if user_start and t.start != st.start: R.bad('C04 user-fixed start changed')
                if user_end and t.end != st.end: R.bad('C04 user-fixed end changed')
                if myrows and not user_start and min(days) != mid(t.start): R.bad('C04 start not on the first reserved day', f'task {t.id}')
                if myrows and not (max(days) < t.end <= max(days) + DAY): R.bad('C04 end not within 24h after last reserved midnight', f'task {t.id}')
            else:
                if myrows and not (min(days) <= t.start < min(days) + DAY): R.bad('C04 start not within the first reserved day', f'task {t.id}: {t.start} first {min(days)}')
        else:
            if myrows: R.bad('C04 milestone or summary reserves work')
        # ---------------- forward dependency / tightness clauses
        if fwd and leaf and not t.milestone and not user_start:
            rel = [bound, clock] + ([st.min_start] if st.min_start else [])
            pre = [p2.end for p2 in (by_src(sch, w, p) for p in prereq_leaves(st)) if p2 is not None and p2.end is not None]
            release = max(rel + pre)
            if mid(t.start) < mid(release): R.bad('C02 task starts before its release day', f'task {t.id}: start {t.start} release {release}')
            for r in myrows:
                if r.date < mid(release): R.bad('C02 work reserved before the release day', f'task {t.id}: row {r.date} release {release}')
            if balance and not user_end:
                res = resby[t.resource]; lastday = max(days) if myrows else mid(t.start)
                d = mid(release)
                while d < lastday:
                    if per.get((res.name, d), 0) < capof(res, d) - EPS:
                        R.bad('C08 idle capacity before the last work day', f'task {t.id}: {d} booked {per.get((res.name, d), 0)} cap {capof(res, d)} release {release}'); break
                    d += DAY
                if myrows and clock <= bound:
                    d0 = mid(t.start); cap = capof(res, d0)
                    before = sum(r.units for r in rows[:rows.index(myrows[0])] if r.resource is res and r.date == d0)
                    if cap > 0 and abs((t.start - d0).total_seconds() - 86400 * before / cap) > 1e-3: R.bad('C08 start does not encode capacity booked before the task', f'task {t.id}')
                    ld = max(days); cap = capof(res, ld)
                    upto = sum(r.units for r in rows[:rows.index(myrows[-1]) + 1] if r.resource is res and r.date == ld)
                    if abs((t.end - ld).total_seconds() - 86400 * upto / cap) > 1e-3: R.bad('C08 end does not encode capacity booked up to the task', f'task {t.id}')
        if fwd and t.milestone and leaf:
            pre = [p2.end for p2 in (by_src(sch, w, p) for p in prereq_leaves(st)) if p2 is not None and p2.end is not None]
            if t.start != t.end or t.start != max(pre + [bound]): R.bad('C02 milestone not at the latest prerequisite end', f'task {t.id}: {t.start} vs {max(pre + [bound])}')
        # ---------------- backward clauses
        if not fwd:
            if t.end > bound: R.bad('C09 task ends after the project end', f'task {t.id}')
            for a in [st] + list(st.all_parents):
                for p in a.predecessors:
                    p2 = by_src(sch, w, p)
                    if p2 is not None and p2.end is not None and p2.end > t.start:
                        R.bad('C09 predecessor ends after successor starts' + ('' if a is st else ' (inherited)'), f'{p2.id} ends {p2.end}, {t.id} starts {t.start}')
            if leaf and not t.milestone and balance and myrows:
                res = resby[t.resource]; ds = sorted(days)
                d = ds[0] + DAY
                while d < ds[-1]:
                    if per.get((res.name, d), 0) < capof(res, d) - EPS: R.bad('C09 idle day between first and last work day', f'task {t.id} {d}'); break
                    d += DAY
                succ_starts = [x2.start for x2 in (by_src(sch, w, x) for a in [st] + list(st.all_parents) for x in a.successors) if x2 is not None and x2.start is not None]
                due = min(succ_starts + [bound])
                d = mid(t.end) + DAY
                while d < mid(due):
                    if per.get((res.name, d), 0) < capof(res, d) - EPS: R.bad('C09 not late-packed', f'task {t.id}: free {d} before due {due}'); break
                    d += DAY
                fd = ds[0]; cap = capof(res, fd)
                upto = sum(r.units for r in rows[:rows.index([r for r in myrows if r.date == fd][0]) + 1] if r.resource is res and r.date == fd)
                if abs((fd + DAY - t.start).total_seconds() - 86400 * upto / cap) > 1e-3: R.bad('C09 start does not encode capacity booked up to the task', f'task {t.id}')
                ed = mid(t.end - timedelta(microseconds=1)) if t.end == mid(t.end) else mid(t.end)
                cap = capof(res, ed)
                if cap > 0:
                    before = sum(r.units for r in rows[:rows.index(myrows[0])] if r.resource is res and r.date == ed)
                    if abs((ed + DAY - t.end).total_seconds() - 86400 * before / cap) > 1e-3: R.bad('C09 end does not encode capacity booked before the task', f'task {t.id}')
        # ---------------- roll-ups
        if not leaf and not t.milestone:
            ch = list(t.children)
            if all(c.start is not None and c.end is not None for c in ch):
                if t.start != min(c.start for c in ch): R.bad('C07 summary start is not the earliest child start', f'task {t.id}: {t.start} vs {min(c.start for c in ch)}')
                if t.end != max(c.end for c in ch): R.bad('C07 summary end is not the latest child end', f'task {t.id}')
                if abs(t.estimate - sum(c.estimate for c in ch)) > EPS or abs(t.spent - sum(c.spent for c in ch)) > EPS: R.bad('C07 summary estimate/spent is not the sum over children', f'task {t.id}')
    if alltasks and all(t.start is not None and t.end is not None for t in alltasks):
        if sch.start != min(t.start for t in alltasks): R.bad('C07 WBS.start is not the earliest start')
        if sch.end != max(t.end for t in alltasks): R.bad('C07 WBS.end is not the latest end')
    # ---------------- C08: WBS order among independent leaves
    if fwd and balance and clock <= bound:
        indep = [t for t in alltasks if len(t.children) == 0 and not t.milestone and src[t.id].start is None and src[t.id].end is None and src[t.id].min_start is None
                 and not any(a.predecessors or a.successors for a in [src[t.id]] + list(src[t.id].all_parents))]
        first = {}
        for i, r in enumerate(rows): first.setdefault(id(r.task), i)
        seq = [first[id(t)] for t in indep if id(t) in first]
        for a, b in zip(indep, indep[1:]):
            if a.resource == b.resource and id(a) in first and id(b) in first and first[id(a)] > first[id(b)]:
                R.bad('C08 independent tasks not served in WBS order', f'{a.id} after {b.id}')
            if a.resource == b.resource and id(a) in first and id(b) in first and (a.start > b.start or a.end > b.end):
                R.bad('C08 independent tasks not served in WBS order', f'{a.id} dates after {b.id}')


def by_src(sch, w, p):
    """result task corresponding to source task p (inside: by id; outside: p itself, dates as given)"""
    if p.wbs is w:
        return sch[p.id]
    return p


def independence(R, w, s, sched, mk, rng):
    tasks = list(w.tasks)
    leaves = [t for t in tasks if len(t.children) == 0]
    if not leaves: return
    t = rng.choice(leaves)
    rel = set()

    def close(x):
        if id(x) in rel: return
        rel.add(id(x))
        for y in list(x.all_parents) + list(x.all_children) + list(x.predecessors): close(y)
        for a in x.all_parents:
            for y in a.predecessors: close(y)
    close(t)
    removable = [r for r in w.roots if all(id(x) not in rel for x in [r] + list(r.all_children))]
    if not removable: return
    r = rng.choice(removable)
    sub = {id(x) for x in [r] + list(r.all_children)}
    if any((id(p) in sub) != (id(x) in sub) for x in tasks for p in list(x.predecessors)): return    # removal would cut a link
    w2 = w.clone()
    w2.remove(w2[r.id])
    try:
        s2 = sched(mk()).calc(w2)
    except RuntimeError:
        return
    a, b = s.schedule[t.id], s2.schedule[t.id]
    if (a.start, a.end) != (b.start, b.end):
        R.bad('C08 balancing off: dates change when unrelated tasks are removed', f'task {t.id}: {a.start}..{a.end} vs {b.start}..{b.end} after removing {r.id}')


DEFAULT_BUDGET = {'quick': 1200, 'thorough': 20000}


def run(props, tier, seed, budget=None):
    n = budget or DEFAULT_BUDGET[tier]
    findings = []; stats = collections.Counter(); distinct = set(); samples = []
    for i in range(n):
        try:
            viol, tags, desc, outcome = run_case(seed, i, props)
        except Exception as e:          # an exception escaping the scenario itself: library code failed where the scenario expects none
            import traceback
            viol = [(f'{pid} unexpected {type(e).__name__} while exercising the scenario', traceback.format_exc()[-600:]) for pid in sorted(props)]
            tags, desc, outcome = {'scenario-exception'}, {'wbs': [], 'exception': repr(e)[:200]}, 'exception'
        stats['cases'] += 1; stats['outcome:' + outcome] += 1
        key = jdump({k: desc[k] for k in ('direction', 'balance', 'wbs', 'resources')})
        if len(desc['wbs']) > 1: distinct.add(hash(key))
        if i < 2: samples.append(desc)
        seen = set()
        for clause, detail in viol:
            if clause in seen: continue
            seen.add(clause)
            findings.append(Finding(clause[:3], clause, tags, detail, {'scenario': 'sched', 'seed': seed, 'index': i, 'input': desc}))
    return {'evaluations': stats['cases'], 'distinct_nontrivial': len(distinct), 'stats': dict(stats), 'samples': samples,
            'rule': 'seeded random WBS (1-6 tasks, random hierarchy, links in any direction, milestones, min_start, user-fixed dates, outside links) x calendars x balance x clock x both schedulers; non-trivial = at least 2 tasks; distinct by (direction, balance, WBS, resources)'}, findings


def replay(case, props):
    viol, tags, desc, outcome = run_case(case['seed'], case['index'], props)
    return viol, tags, desc, outcome
