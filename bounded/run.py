"""Driver of the bounded native stand-in.  Usage (under /venv/bin/python, cwd=/verif):
    python -m bounded.run <property> --tier quick|thorough --seed N --out file.json
    python -m bounded.run --replay '<case json>' --property Cxx
Prints nothing but a JSON document; exit status is always 0 unless the harness itself crashes."""
import sys, json, argparse, time, importlib

SCENARIOS = {
    'C01': ['graph'], 'C05': ['graph'], 'C11': ['graph'], 'C15': ['graph'], 'C16': ['graph'],
    'C02': ['sched'], 'C03': ['sched'], 'C04': ['sched'], 'C06': ['sched'], 'C07': ['sched'], 'C08': ['sched'], 'C09': ['sched'], 'C14': ['sched'],
    'C10': ['clone'], 'C12': ['critpath'], 'C13': ['csvio'], 'C17': ['cal'], 'C18': ['query'], 'C19': ['render'], 'C20': ['sheet'],
}


def main():
    ap = argparse.ArgumentParser()
    ap.add_argument('property', nargs='?')
    ap.add_argument('--tier', default='quick'); ap.add_argument('--seed', type=int, default=1); ap.add_argument('--out')
    ap.add_argument('--budget', type=int); ap.add_argument('--replay'); ap.add_argument('--only')
    a = ap.parse_args()
    t0 = time.time()
    if a.replay:
        case = json.loads(a.replay)
        mod = importlib.import_module('bounded.' + case['scenario'])
        viol, tags, desc, outcome = mod.replay(case, {a.property})
        doc = {'property': a.property, 'violations': [{'clause': c, 'detail': d} for c, d in viol], 'tags': sorted(tags), 'input': desc, 'outcome': outcome}
    else:
        doc = {'property': a.property, 'tier': a.tier, 'seed': a.seed, 'scenarios': {}, 'findings': []}
        for sc in SCENARIOS[a.property]:
            if a.only and sc != a.only: continue
            mod = importlib.import_module('bounded.' + sc)
            budget = a.budget
            if budget is not None and budget < 0:          # multiplier of the tier's default budget
                budget = -budget * mod.DEFAULT_BUDGET[a.tier]
            cov, findings = mod.run({a.property}, a.tier, a.seed, budget)
            doc['scenarios'][sc] = cov
            doc['findings'] += [f.to_json() for f in findings]
    doc['wall_s'] = round(time.time() - t0, 2)
    out = json.dumps(doc, default=str, ensure_ascii=False)
    if a.out: open(a.out, 'w').write(out)
    else: print(out)


if __name__ == '__main__':
    main()
