"""Bounded stand-in for C19: Mermaid Gantt, Mermaid network, DHTMLX document on random scheduled WBSs.

Lexical level only (DESIGN section 10): counts and contents of the emitted lines / JSON entries; what a browser or
Mermaid make of the text is outside."""
import re, json, html
from .pure import *
from pjplan import MermaidGantt, MermaidNetwork, DhtmlxGantt

GLUE_IDS = [1, 11, 111, 2, 12, 21, 112, 211]
NAME_ALPH = ['a', 'B', ' ', ';', '"', "'", ',', 'é', '\\', '$', '{', '}', ':', '0', '<', '>', '#', '-', '--> ', '&', 'я', '$src', '${x}', '</div>', '}}', '{{', 'id_7, ', '](', ')']


def run_case(seed, index, props):
    rng = case_rng(seed, 'render', index)
    tags = set(); viol = []
    bad = lambda c, d='': viol.append((c, d))
    # a third of the cases use ids whose decimal texts concatenate ambiguously (1|12 = 11|2): an entry or link keyed by glued ids would collapse
    w = gen_wbs(rng, rng.randint(1, 6), ids=rng.sample(GLUE_IDS, len(GLUE_IDS)) if rng.random() < .35 else None, alph=NAME_ALPH, names='all')
    sections = rng.random() < .4
    for t in w.tasks:
        t.name = rstr(rng, NAME_ALPH) or 'n'
        t.start = t.start or datetime(2020, 1, rng.randint(1, 28), rng.randint(0, 23), rng.randint(0, 59)); t.end = datetime(2021, 1, 1) if (t.end is None or t.end < t.start) else t.end
        t.estimate = t.estimate if t.estimate is not None else 1
        if sections and rng.random() < .7: t.gantt_section = rng.choice(['A', 'B:x', 'C'])
        if rng.random() < .2: t.gantt_bar_style = {'fill': 'red'}
        if rng.random() < .2: t.network_bar_style = {'fill': '#f00'}
        if ' --> ' in t.name or '-->' in t.name: tags.add('arrow-in-name')
        if re.search(r'id_-?\d+, ', t.name): tags.add('id-token-in-name')
        if '$' in t.name: tags.add('dollar-in-name')
        if '</div>' in t.name: tags.add('div-in-name')
    set_clock(datetime(2020, 6, 1))
    tasks = list(w.tasks)
    n = len(tasks); deps = sum(len(t.predecessors) for t in tasks); nopred = sum(1 for t in tasks if not t.predecessors)
    desc = {'wbs': describe_wbs(w)}
    fmt = lambda d: d.strftime('%d.%m.%Y %H:%M')
    # ---- Mermaid Gantt
    try:
        g = MermaidGantt(w); doc = g.to_html()
        src = g._MermaidGantt__src()
        if doc.count(src) != 1: bad('C19 gantt source is not embedded once in the document')
        lines = src.split('\n')
        for t in tasks:
            tail = f"{'milestone,' if t.milestone else ('done,' if t.end <= FakeDT._now else ('active,' if t.start < FakeDT._now else ''))} id_{t.id}, {fmt(t.start)}, {fmt(t.end)}"
            m = [l for l in lines if l.endswith(': ' + tail)]
            if len(m) != 1: bad('C19 gantt: not exactly one task line with id, dates to the minute and milestone flag', f'task {t.id}: {len(m)} lines')
        tl = [l for l in lines if re.search(r': (milestone,|done,|active,)? id_-?\d+, \d\d\.\d\d\.\d{4} \d\d:\d\d, \d\d\.\d\d\.\d{4} \d\d:\d\d$', l)]
        if len(tl) != n: bad('C19 gantt: number of task lines differs from the number of tasks', f'{len(tl)} vs {n}')
        if sections and len({getattr(t, 'gantt_section', '-') for t in tasks}) > 1:
            cur = None; seen = {}
            for l in lines:
                if l.startswith('  section '): cur = l[len('  section '):]
                mm = re.search(r' id_(-?\d+), \d\d\.\d\d\.\d{4} \d\d:\d\d, \d\d\.\d\d\.\d{4} \d\d:\d\d$', l)
                if mm and l.startswith('    '): seen.setdefault(int(mm.group(1)), cur)
            for t in tasks:
                if seen.get(t.id) != getattr(t, 'gantt_section', '-'): bad('C19 gantt: task line not under its section', f'task {t.id}: {seen.get(t.id)}')
        esc = g._repr_html_()
        if esc.count(html.escape(doc)) != 1: bad('C19 gantt notebook representation is not the escaped document')
    except Exception as e:
        bad('C19 gantt raises ' + type(e).__name__, str(e)[:100])
    # ---- Mermaid network
    try:
        nw = MermaidNetwork(w); nsrc = nw._MermaidNetwork__src(); ndoc = nw.to_html()
        if ndoc.count(nsrc) != 1: bad('C19 network source is not embedded once in the document')
        edges = nsrc.count(' --> ')
        if edges != deps + nopred: bad('C19 network: number of edges differs from dependencies + start edges', f'{edges} vs {deps}+{nopred}')
        styled = sum(1 for t in tasks if 'network_bar_style' in t.__dict__)
        nlines = [l for l in nsrc.split('\n') if l != '']
        # names are single-line, so every edge and every style statement is a line of its own whatever the names contain
        if len(nlines) != 1 + deps + nopred + styled: bad('C19 network: number of lines differs from header + edges + style statements', f'{len(nlines)} vs 1+{deps}+{nopred}+{styled}')
        if sum(1 for l in nlines if l.startswith('style ')) != styled: bad('C19 network: not exactly one style statement per styled task')
        if nw._repr_html_().count(html.escape(ndoc)) != 1: bad('C19 network notebook representation is not the escaped document')
    except Exception as e:
        bad('C19 network raises ' + type(e).__name__, str(e)[:100])
    # ---- DHTMLX
    try:
        dg = DhtmlxGantt(w); d = dg.to_html()
        k = d.index('gantt.parse(') + len('gantt.parse(')
        obj, end = json.JSONDecoder().raw_decode(d[k:])
        if not d[k + end:].lstrip().startswith(')'): bad('C19 dhtmlx: embedded JSON is not well-formed up to the closing bracket')
        if len(obj['data']) != n: bad('C19 dhtmlx: number of entries differs from the number of tasks')
        if len(obj['links']) != deps or sorted(l['id'] for l in obj['links']) != list(range(1, deps + 1)): bad('C19 dhtmlx: links are not one uniquely numbered link per dependency')
        want_links = sorted((repr(p.id), repr(t.id)) for t in tasks for p in t.predecessors)
        if sorted((repr(l['source']), repr(l['target'])) for l in obj['links']) != want_links: bad('C19 dhtmlx: link ends differ from the dependencies')
        byid = {}
        for e_ in obj['data']: byid.setdefault(e_['id'], []).append(e_)
        for t in tasks:
            es = byid.get(t.id, [])
            if len(es) != 1: bad('C19 dhtmlx: not exactly one entry per task'); continue
            e_ = es[0]
            if e_['text'] != t.name: bad('C19 dhtmlx: task name altered')
            if e_['start_date'] != t.start.strftime('%d-%m-%Y %H:%M') or e_['end_date'] != t.end.strftime('%d-%m-%Y %H:%M'): bad('C19 dhtmlx: dates differ')
            if e_['parent'] != (t.parent.id if t.parent else 0): bad('C19 dhtmlx: parent id differs', f'{e_["parent"]} vs {t.parent.id if t.parent else 0}')
            if not (0 <= e_['progress'] <= 1): bad('C19 dhtmlx: progress outside 0..1')
        if dg._repr_html_().count(html.escape(d)) != 1: bad('C19 dhtmlx notebook representation is not the escaped document')
    except Exception as e:
        bad('C19 dhtmlx raises ' + type(e).__name__, str(e)[:100])
    return viol, tags, desc, 'ok'


DEFAULT_BUDGET = {'quick': 300, 'thorough': 5000}


def run(props, tier, seed, budget=None):
    return generic_run('render', run_case, props, seed, budget or DEFAULT_BUDGET[tier],
                       'seeded random scheduled WBS (1-6 tasks, hierarchy, links, milestones, sections, style attributes) with adversarial single-line names (quotes, braces, angle brackets, $, :, arrows, non-ASCII); distinct by input',
                       lambda d: d if len(d['wbs']) > 1 else None)


def replay(case, props):
    return run_case(case['seed'], case['index'], props)
