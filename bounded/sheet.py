"""Bounded stand-in for C20: printed task sheets and the resource-usage table."""
import re
from datetime import timedelta
from .pure import *
from pjplan.task import _Repr
from pjplan import ForwardScheduler, Resource

strip = lambda s: re.sub(r'\x1b\[[0-9;:]*m', '', s)


def run_case(seed, index, props):
    rng = case_rng(seed, 'sheet', index)
    tags = set(); viol = []
    bad = lambda c, d='': viol.append((c, d))
    w = gen_wbs(rng, rng.randint(1, 6), alph=SINGLE_LINE + ['long text ' * 3])
    w2 = WBS(); other = w2 // Task(777, 'ext')
    for t in w.tasks:
        if rng.random() < .15:
            try: t.predecessors.append(other)
            except RuntimeError: pass
    fields = rng.choice([None, ['id', 'name', 'parent', 'successors', 'predecessors', 'nosuch', 'custom', 'estimate', 'spent', 'start', 'Other'], ['name'], ['predecessors', 'name', 'id'],
                         ['id', 'name', rng.choice(['children', 'all_children', 'wbs', 'clone', 'all_parents', 'print', 'to_dict'])]])
    ch = rng.random() < .7
    theme = rng.choice([None, {'header_color': '92m', 'level_colors': ['94m']}, {'level_colors': []}, {'header_color': None, 'level_colors': [None, None, None, None, None, None]},
                        {'header_color': '92m', 'level_colors': [None, '94m']}])          # a colour may be None: that row is printed without colour codes
    target = rng.choice(['roots', 'task', 'list'])
    desc = {'wbs': describe_wbs(w), 'fields': fields, 'children': ch, 'target': target, 'theme': theme}
    try:
        if target == 'roots':
            txt = _Repr.repr(w.roots, fields, ch, theme); shown_roots = list(w.roots)
        elif target == 'task':
            t0 = rng.choice(list(w.tasks)); txt = _Repr.repr([t0], fields, ch, theme); shown_roots = [t0]
        else:
            shown_roots = [t for t in w.tasks if rng.random() < .5]; txt = _Repr.repr(shown_roots, fields, ch, theme)
    except Exception as e:
        return [('C20 sheet raises ' + type(e).__name__, str(e)[:100])], tags, desc, 'exc'
    lines = strip(txt).split('\n')
    shown = []
    for r in shown_roots:
        shown.append((r, 0))
        if ch:
            def rec(t, lv):
                for c in t.children: shown.append((c, lv)); rec(c, lv + 1)
            rec(r, 1)
    if len(lines) != 1 + len(shown): bad('C20 number of lines differs from header + tasks shown', f'{len(lines)} vs 1+{len(shown)}')
    if len(set(map(len, lines))) != 1: bad('C20 lines have different widths', str([len(l) for l in lines]))
    fl = fields or ['id', 'name', 'resource', 'estimate', 'spent', 'start', 'end', 'predecessors']
    if len(lines) == 1 + len(shown) and len(set(map(len, lines))) == 1:
        # column boundaries from the header: every cell is ' text ' padded to width+2
        cells = {}
        for f in fl:
            vals = []
            for t, lv in shown:
                if f == 'name': vals.append('   ' * lv + (t.name or ''))
                elif f == 'id': vals.append(str(t.id))
                elif f in ('predecessors', 'successors'):
                    vals.append('[' + ','.join(f"{x.id}{'(external)' if x.wbs is not t.wbs else ''}" for x in getattr(t, f)) + ']')
                elif f == 'parent': vals.append(str(t.parent.id) if t.parent else '')
                else: vals.append(None)
            cells[f] = vals
        for row, (t, lv) in enumerate(shown):
            line = lines[row + 1]; pos = 0
            for ci, f in enumerate(fl):
                width = _colwidth(lines, fl, ci)
                if width is None: break
                seg = line[pos:pos + width + 2]; pos += width + 2
                if cells[f][row] is not None and seg.strip(' ') != cells[f][row].strip(' ') and not (f == 'name'):
                    bad('C20 cell text differs from the task value', f'field {f} task {t.id}: {seg!r} vs {cells[f][row]!r}')
                if f == 'name' and seg != ' ' + cells[f][row] + ' ' * (width + 1 - len(cells[f][row])):
                    bad('C20 name cell is not indented three spaces per level', f'task {t.id} level {lv}: {seg!r}')
    return viol, tags, desc, 'ok'


def _colwidth(lines, fl, ci):
    """width of column ci, derived from the header line (header cells are upper-cased field names)"""
    head = lines[0]; pos = 0
    for k, f in enumerate(fl):
        nxt = head.find(' ' + fl[k + 1].upper() + ' ', pos + 1 + len(f)) if k + 1 < len(fl) else len(head)
        if nxt < 0: return None
        if k == ci: return nxt - pos - 2
        pos = nxt
    return None


def usage_case(seed, index):
    rng = case_rng(seed, 'usage', index)
    w = WBS()
    for j in range(rng.randint(1, 4)):
        w // Task(j + 1, f't{j}', estimate=rng.choice([1, 8, 20, 3.5]), resource=rng.choice(['a', 'b', None]))
    set_clock(datetime(2023, 12, 1))
    s = ForwardScheduler(start=datetime(2024, 1, rng.randint(1, 10)), resources=[Resource('a'), Resource('b')]).calc(w)
    rows = s.resource_usage.rows()
    if not rows: return []
    txt = strip(repr(s.resource_usage)).split('\n')
    days = (max(r.date for r in rows) - min(r.date for r in rows)).days + 1
    viol = []
    if len(txt) != 1 + days: viol.append(('C20 usage table: number of lines differs from header + days between first and last reservation', f'{len(txt)} vs 1+{days}'))
    if len(set(map(len, txt))) != 1: viol.append(('C20 usage table: lines have different widths', ''))
    return viol


DEFAULT_BUDGET = {'quick': 500, 'thorough': 8000}


def run(props, tier, seed, budget=None):
    n = budget or DEFAULT_BUDGET[tier]
    cov, findings = generic_run('sheet', run_case, props, seed, n,
                                'seeded random WBS (1-6 tasks, single-line texts of any length, None names, links to another WBS) printed with random field selections (incl. unknown fields), children on/off, themes, on roots / one task / a task list; plus usage tables of small schedules; distinct by input',
                                lambda d: d if len(d['wbs']) > 1 else None)
    for i in range(max(20, n // 10)):
        for c, d in usage_case(seed, i):
            findings.append(Finding('C20', c, ['usage-table'], d, {'scenario': 'sheet', 'seed': seed, 'index': -1 - i, 'input': 'usage table case %d' % i}))
    return cov, findings


def replay(case, props):
    if case['index'] < 0: return usage_case(case['seed'], -1 - case['index']), set(), 'usage table', 'ok'
    return run_case(case['seed'], case['index'], props)
