#!/bin/bash
# usage: tools/try_seed.sh <dir with patch.diff demo.py> <property id> [tier]
# Confirms a seeded change (tests still green, demo passes clean / fails patched) on a scratch copy outside /repo and /verif,
# then runs the property's check against the scratch copy (PJPLAN_SRC) and removes the copy.
D=$(realpath "$1"); P=$2; TIER=${3:-quick}
W=$(mktemp -d /tmp/mutrun.XXXXXX)
cp -r /repo/src /repo/tests /repo/pyproject.toml "$W"/ 2>/dev/null
( cd "$W" && patch -s -p1 < "$D/patch.diff" ) || { echo "PATCH-FAILED"; rm -rf "$W"; exit 2; }
T=$(cd "$W" && PYTHONPATH="$W/src" /venv/bin/python -m pytest -q -p no:cacheprovider 2>&1 | tail -1)
PYTHONPATH=/repo/src /venv/bin/python "$D/demo.py" >/dev/null 2>&1; C=$?
PYTHONPATH="$W/src" /venv/bin/python "$D/demo.py" >/dev/null 2>&1; M=$?
echo "seed $(basename $D): tests[$T] demo clean=$C patched=$M"
cd /verif && PJPLAN_SRC="$W/src" python3-vt checks/check.py "$P" --tier "$TIER" 2>&1 | grep -E "VIOLATION|KNOWN|UNDECIDED|obligations|Traceback|Error" | cut -c1-260
echo "check exit=${PIPESTATUS[0]}"
rm -rf "$W"
