#!/usr/bin/env python3-vt
"""Prints the table of verification units (markdown) from the contract modules and the baseline registry (maintenance tool for DESIGN.md section 0)."""
import sys, os, json, importlib
ROOT = os.path.dirname(os.path.dirname(os.path.abspath(__file__))); sys.path.insert(0, ROOT)
from checks.check import CONTRACT_MODULES
base = json.load(open(os.path.join(ROOT, 'baseline_obligations.json')))
tot = 0; nfun = 0
print('| contracts module | function under contract (real source re-read on every run) | obligations | properties |'); print('|---|---|---|---|')
for m in CONTRACT_MODULES:
    mod = importlib.import_module('contracts.' + m)
    for u in mod.UNITS:
        n = len(base.get(u.name, [])); tot += n; nfun += 1
        print(f'| `{m}.py` | `{u.name}` ({u.relpath.split("/", 1)[1] if "/" in u.relpath else u.relpath}) | {n} | {" ".join(u.props)} |')
print(f'\n{nfun} functions, {tot} obligations')
