#!/usr/bin/env python3-vt
"""Regenerates the generated parts of DESIGN.md (between <!-- BEGIN x --> / <!-- END x --> markers): the table of verification units
(from the contract modules + baseline registry) and the table of seeded changes (from seeded/*/meta.json).  Maintenance tool."""
import sys, os, json, importlib, glob, io, contextlib, re
ROOT = os.path.dirname(os.path.dirname(os.path.abspath(__file__))); sys.path.insert(0, ROOT)
os.environ.setdefault('PYTHONHASHSEED', '0')


def units_table():
    from checks.check import CONTRACT_MODULES
    base = json.load(open(os.path.join(ROOT, 'baseline_obligations.json')))
    out = ['| contracts module | function under contract | file | obligations | carries |', '|---|---|---|---|---|']; tot = 0; n = 0
    for m in CONTRACT_MODULES:
        mod = importlib.import_module('contracts.' + m)
        for u in mod.UNITS:
            k = len(base.get(u.name, [])); tot += k; n += 1
            out.append(f'| `{m}.py` | `{u.name}` | `{u.relpath.replace("pjplan/", "")}` | {k} | {" ".join(u.props)} |')
    out.append(''); out.append(f'**{n} functions under contract, {tot} named obligations, all discharged on the current tree** (`baseline_obligations.json`).')
    return '\n'.join(out)


def seeds_table():
    rows = ['| seed | breaks | what was changed (from the author\'s notes) | quick check of the property | by |', '|---|---|---|---|---|']
    det = 0; tot = 0; ded = 0
    for f in sorted(glob.glob(os.path.join(ROOT, 'seeded', '*', 'meta.json'))):
        m = json.load(open(f)); tot += 1
        cr = m['check_result']; d = cr['detected']; det += d
        by = 'named obligation' if cr.get('failed_deductive_obligations') else ('bounded stand-in' if d else '-')
        ded += bool(cr.get('failed_deductive_obligations'))
        notes = ''
        np_ = os.path.join(os.path.dirname(f), 'notes.md')
        if os.path.exists(np_):
            txt = open(np_).read()
            mm = re.search(r'(?im)^(?:#+\s*)?(?:what (?:was )?changed|change)[^\n]*\n+(.{20,260})', txt)
            notes = (mm.group(1) if mm else txt.strip().split('\n', 2)[-1][:200]).replace('\n', ' ').replace('|', '/')[:200]
        und = '; '.join(u.split('reason=')[0].replace('UNDECIDED obligation=', '').strip() for u in cr.get('undecided', [])[:2])
        res = ('**detected**' if d else 'missed') + (f' (units gone undecided: {und})' if und else '')
        rows.append(f'| `{m["id"]}` | {m["breaks_property"]} | {notes} | {res} | {by} |')
    rows.append(''); rows.append(f'**{tot} seeded changes, all confirmed (suite unchanged, demonstration passes on the clean tree and fails on the changed one); {det} detected by the quick check of their property, {ded} of them by a named deductive obligation.**')
    return '\n'.join(rows)


if __name__ == '__main__':
    p = os.path.join(ROOT, 'DESIGN.md'); s = open(p).read()
    for key, fn in (('UNITS', units_table), ('SEEDS', seeds_table)):
        a, b = f'<!-- BEGIN {key} -->', f'<!-- END {key} -->'
        if a in s and b in s:
            s = s[:s.index(a) + len(a)] + '\n' + fn() + '\n' + s[s.index(b):]
    open(p, 'w').write(s)
    print('DESIGN.md tables regenerated')
