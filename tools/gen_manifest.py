#!/usr/bin/env python3
"""Regenerates MANIFEST.json from checks/props.py (claimed properties = those with CLAIMED[...] below)."""
import json, sys, os
ROOT = os.path.dirname(os.path.dirname(os.path.abspath(__file__))); sys.path.insert(0, ROOT)
from checks import props as P

CLAIMED = json.load(open(os.path.join(ROOT, 'tools', 'claimed.json')))
allp = [json.loads(l) for l in open(os.path.join(ROOT, 'properties.jsonl'))]
checks = []; na = []
for p in allp:
    pid = p['id']
    if pid in CLAIMED:
        m = P.PROPS[pid]; c = CLAIMED[pid]
        checks.append({
            'property_id': pid,
            'quick_cmd': f'python3-vt checks/check.py {pid} --tier quick',
            'thorough_cmd': f'python3-vt checks/check.py {pid} --tier thorough',
            'evidence_file': f'/verif/evidence/{pid}.json',
            'replay_cmd_template': f'python3-vt checks/check.py {pid} --replay {{path}}',
            'engine': 'pyvc',
            'level_claimed': {'category': m['level'], 'text': m['explanation'], 'design_ref': m['design_ref']},
            'level_note': 'trusted: ' + '; '.join(P.TRUSTED_BASE + m['trusted']) + ' | assumptions: ' + '; '.join(P.ASSUMPTIONS + m['assumptions'])
                          + (' | assumed contracts covered only by the bounded stand-in: ' + ', '.join(m['bounded_functions']) if m['bounded_functions'] else ''),
            'technique': c,
        })
    else:
        na.append({'property_id': pid, 'reason': 'check not built yet (work in progress, see DESIGN.md section 13)'})
man = {
    'version': 1,
    'setup_cmd': 'python3-vt -m compileall -q pyvc contracts bounded checks tools && sh lemmas/check_lemmas.sh',
    'hooks': {'guard': 'PJPLAN_VERIF', 'enable': 'no hooks needed: contracts are sidecars read next to the AST of /repo/src; the clock is replaced from outside by the native harness (bounded/common.py)',
              'baseline_off_cmd': 'cd /repo && /venv/bin/python -m pytest -ra -q -p no:cacheprovider --timeout=900 --continue-on-collection-errors',
              'source_commits': [], 'add_only': True},
    'engines': [{'name': 'pyvc', 'path': '/verif/pyvc', 'serves_properties': sorted(CLAIMED),
                 'kind_free_text': 'home-built contract-based deductive verifier for a Python subset: sidecar contracts, VC generation by symbolic execution of the real AST (re-read on every run), z3/cvc5 back ends; bounded native stand-in (bounded/) for replay, counterexample search and assumed contracts'}],
    'checks': checks,
    'notes': 'See DESIGN.md. Exit codes: 0 held, 1 violation (VIOLATION line), 3 checker crash. KNOWN-FINDING lines refer to known_findings.txt.',
    'not_applicable': na,
}
json.dump(man, open(os.path.join(ROOT, 'MANIFEST.json'), 'w'), indent=1)
print('claimed', len(checks), 'not applicable', len(na))
