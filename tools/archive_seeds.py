#!/usr/bin/env python3
"""Confirms every seeded change under <src root> (tests still green, demo passes clean / fails patched) on a scratch copy, runs the
property's quick check against it and archives it as /verif/seeded/<id>/ {patch.diff, demo.py, notes.md, meta.json}."""
import sys, os, subprocess, json, shutil, tempfile, re
ROOT = os.environ.get('VERIF_ROOT', '/verif'); SRC = sys.argv[1]
only = set(sys.argv[2:])
def one(name):
    d = os.path.join(SRC, name)
    if not re.fullmatch(r'C\d\d_[a-z]', name) or not os.path.exists(os.path.join(d, 'patch.diff')): return
    if only and name not in only: return
    prop = name.split('_')[0]
    w = tempfile.mkdtemp(prefix='mutrun.')
    try:
        for x in ('src', 'tests', 'pyproject.toml'):
            p = os.path.join('/repo', x)
            (shutil.copytree if os.path.isdir(p) else shutil.copy)(p, os.path.join(w, x))
        r = subprocess.run(['patch', '-s', '-p1', '-i', os.path.join(d, 'patch.diff')], cwd=w, capture_output=True, text=True)
        if r.returncode: print(name, 'PATCH FAILED'); return
        env = dict(os.environ, PYTHONPATH=os.path.join(w, 'src'), PYTHONDONTWRITEBYTECODE='1')
        t = subprocess.run(['/venv/bin/python', '-m', 'pytest', '-q', '-p', 'no:cacheprovider'], cwd=w, env=env, capture_output=True, text=True).stdout.strip().splitlines()[-1]
        clean = subprocess.run(['/venv/bin/python', os.path.join(d, 'demo.py')], env=dict(os.environ, PYTHONPATH='/repo/src'), capture_output=True, text=True).returncode
        patched = subprocess.run(['/venv/bin/python', os.path.join(d, 'demo.py')], env=env, capture_output=True, text=True).returncode
        c = subprocess.run(['python3-vt', 'checks/check.py', prop, '--tier', 'quick'], cwd=ROOT, env=dict(os.environ, PJPLAN_SRC=os.path.join(w, 'src')), capture_output=True, text=True)
        lines = [l for l in c.stdout.splitlines() if l.startswith(('VIOLATION', 'UNDECIDED'))]
        viol = [l for l in lines if l.startswith('VIOLATION')]
        ded = [l for l in viol if re.search(r'replay=replays/C\d\d/[^ ]*?\.(ens|exc|inv-|req_|req@|safe|lemma|dec|cover)', l)]
        confirmed = ('84 passed' in t) and clean == 0 and patched != 0
        notes = open(os.path.join(d, 'notes.md')).read() if os.path.exists(os.path.join(d, 'notes.md')) else ''
        out = os.path.join(ROOT, 'seeded', name); os.makedirs(out, exist_ok=True)
        for f in ('patch.diff', 'demo.py', 'notes.md'):
            if os.path.exists(os.path.join(d, f)): shutil.copy(os.path.join(d, f), os.path.join(out, f))
        meta = {'id': name, 'breaks_property': prop, 'source': 'independent sub-agent given only the property text and a scratch worktree',
                'needs_to_manifest': (re.search(r'(?is)(needed|needs|manifest|trigger)[^\n]*\n(.{0,600})', notes) or [None, '', notes[:400]])[2].strip()[:600],
                'confirmed': {'existing_tests': t, 'demo_exit_clean_tree': clean, 'demo_exit_patched_tree': patched, 'ok': confirmed},
                'what_was_run': [f'scratch copy of /repo (src, tests) + patch -p1 < patch.diff', 'PYTHONPATH=<copy>/src /venv/bin/python -m pytest -q -p no:cacheprovider',
                                 'demo.py with PYTHONPATH=/repo/src and with PYTHONPATH=<copy>/src', f'PJPLAN_SRC=<copy>/src python3-vt checks/check.py {prop} --tier quick'],
                'check_result': {'exit': c.returncode, 'detected': c.returncode == 1, 'violation_lines': viol[:6], 'failed_deductive_obligations': len(ded), 'undecided': [l[:160] for l in lines if l.startswith('UNDECIDED')][:4]}}
        json.dump(meta, open(os.path.join(out, 'meta.json'), 'w'), indent=1)
        print(name, 'confirmed' if confirmed else 'NOT-CONFIRMED', 'detected' if c.returncode == 1 else f'MISSED(exit {c.returncode})', 'deductive' if ded else 'bounded-only', flush=True)
    finally:
        shutil.rmtree(w, ignore_errors=True)


if __name__ == '__main__':
    # seeds of one property run one after the other (they share the property's evidence file); properties run side by side
    from concurrent.futures import ThreadPoolExecutor
    names = sorted(os.listdir(SRC)); props = sorted({n.split('_')[0] for n in names})

    def per_prop(p):
        for n in names:
            if n.split('_')[0] == p: one(n)
    with ThreadPoolExecutor(int(os.environ.get('SEED_JOBS', '5'))) as ex: list(ex.map(per_prop, props))
