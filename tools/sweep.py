#!/venv/bin/python
"""Enumerates (clause, witness tags) pairs found by a scenario over many seeded cases (maintenance tool; not a check).
usage: /venv/bin/python tools/sweep.py <scenario> <props comma separated> <seed> <n> [procs]"""
import sys, os, json, collections, multiprocessing
sys.path.insert(0, os.path.dirname(os.path.dirname(os.path.abspath(__file__))))
import importlib
scn, props, seed, n = sys.argv[1], set(sys.argv[2].split(',')), int(sys.argv[3]), int(sys.argv[4])
procs = int(sys.argv[5]) if len(sys.argv) > 5 else 14
mod = importlib.import_module('bounded.' + scn)
fn = getattr(mod, 'run_case', None) or getattr(mod, 'walk')


def work(chunk):
    out = collections.Counter(); ex = {}
    for i in chunk:
        viol, tags, desc, outcome = fn(seed, i, props)
        for c, d in viol:
            key = (c, tuple(sorted(tags)))
            out[key] += 1; ex.setdefault(key, i)
    return out, ex


if __name__ == '__main__':
    chunks = [list(range(k, n, procs)) for k in range(procs)]
    with multiprocessing.get_context('fork').Pool(procs) as pool:
        res = pool.map(work, chunks)
    tot = collections.Counter(); ex = {}
    for o, e in res:
        tot.update(o)
        for k, v in e.items(): ex.setdefault(k, v)
    known = [l for l in open(os.path.join(os.path.dirname(os.path.dirname(os.path.abspath(__file__))), 'known_findings.txt')) if l.startswith('finding')]
    kn = []
    for l in known:
        d = dict(p.strip().split('=', 1) for p in l.split('|')[1:])
        kn.append((d['property'], d.get('clause'), d.get('class')))
    agg = collections.Counter()
    for (c, tags), v in tot.items():
        if any(k[1] == c and k[2] in tags for k in kn): agg[(c, 'KNOWN')] += v
        else: agg[(c, tags)] += v; print('UNKNOWN', c, tags, v, 'e.g. index', ex[(c, tags)])
    for k, v in sorted(agg.items(), key=lambda kv: -kv[1]):
        if k[1] == 'KNOWN': print('known', v, k[0])
