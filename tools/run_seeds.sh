#!/bin/bash
# usage: tools/run_seeds.sh <seed root dir> <out file> [ids...]   runs every seed <ID>_<x> against property <ID>
ROOT=$1; OUT=$2; shift 2
: > "$OUT"
for d in $(ls -d $ROOT/C*_* | sort); do
  n=$(basename $d); p=${n%%_*}
  if [ $# -gt 0 ] && [[ ! " $* " =~ " $p " ]]; then continue; fi
  echo "=== $n" >> "$OUT"
  /verif/tools/try_seed.sh $d $p >> "$OUT" 2>&1
done
echo DONE >> "$OUT"
