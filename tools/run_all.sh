#!/bin/bash
# runs every registered check (quick by default) and validates the evidence files against the schema
TIER=${1:-quick}
cd "$(dirname "$0")/.." && ROOT=$(pwd)
fail=0
for i in $(seq -w 1 20); do
  p=C$i
  out=$(python3-vt checks/check.py $p --tier $TIER 2>&1); rc=$?
  echo "$out" | grep -E "VIOLATION|UNDECIDED|Traceback" | cut -c1-200
  echo "$out" | tail -1 | cut -c1-200
  [ $rc -ne 0 ] && { echo "  EXIT $rc for $p"; fail=1; }
done
python3-vt - <<'PY'
import json, jsonschema, glob
sch = json.load(open('/root/.vp/EVIDENCE.schema.json'))
for f in sorted(glob.glob('evidence/C*.json')):
    jsonschema.validate(json.load(open(f)), sch)
jsonschema.validate(json.load(open('MANIFEST.json')), json.load(open('/root/.vp/MANIFEST.schema.json')))
print('evidence + manifest valid:', len(glob.glob('evidence/C*.json')))
PY
exit $fail
