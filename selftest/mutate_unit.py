import sys, os, subprocess, shutil, tempfile, json
# usage: t_mut.py <contracts module> <unit substr> <relpath> then pairs old|||new on stdin separated by lines '====' 
mod, unit, rel = sys.argv[1:4]
muts = [m.split('|||') for m in sys.stdin.read().split('\n====\n') if m.strip()]
for i,(old,new) in enumerate(muts):
    d=tempfile.mkdtemp(prefix='mutsrc'); shutil.copytree('/repo/src', d+'/src')
    p=f'{d}/src/{rel}'; s=open(p).read()
    if old not in s: print('MUT',i,'pattern not found:', old[:60]); continue
    open(p,'w').write(s.replace(old,new,1))
    r=subprocess.run(['python3-vt','/tmp/t_units.py',mod,unit,'6000'],env=dict(os.environ,PJPLAN_SRC=d+'/src'),capture_output=True,text=True)
    out=[l.strip()[:150] for l in r.stdout.splitlines() if 'FAILED' in l or 'UNDECIDED' in l]
    print('MUT',i,repr(old[:50]),'->',repr(new[:30]),':', out if out else 'NOT DETECTED', r.stderr[-200:] if r.returncode else '')
    shutil.rmtree(d)
