#!/usr/bin/env python3-vt
"""Validation of the axioms the proofs assume, against ground truth computed in Python (DESIGN.md 3.6 (iii), section 7).

* GRAPH_AX (Desc / Acyc, D1-D5): for every parent map over a universe of 3 nodes (+ null) the interpretation of Desc / Acyc is fixed to the
  fixpoint computed in Python - for the map itself and for every map reachable by one update - and every axiom instance over the universe is
  checked to be true.
* DEP_AX (TCp / AcycP, G1): the same for all edge relations over 3 nodes and all replacements of one node's in-edges.
* LIST_AX: Python lists of length <= 3 over 2 elements; len / at / mem / idx / nodup / rem / app interpreted by the real list operations.
A transcription slip in an axiom shows as a false instance.  Exit 0 = every instance true."""
import sys, os, itertools
sys.path.insert(0, os.path.dirname(os.path.dirname(os.path.abspath(__file__))))
from z3 import *
from contracts.graph_theory import *

bad = 0


def instances(ax, domains):
    """ground instances of ForAll([...], body) over the given per-sort domains"""
    if not is_quantifier(ax): yield ax; return
    n = ax.num_vars()
    sorts = [ax.var_sort(i) for i in range(n)]
    for combo in itertools.product(*[domains[str(s)] for s in sorts]):
        yield substitute_vars(ax.body(), *reversed(combo))


def check(name, axioms, interp, domains):
    global bad
    s = Solver(); s.add(*interp)
    assert s.check() == sat, 'interpretation inconsistent'
    cnt = 0
    for k, ax in enumerate(axioms):
        for inst in instances(ax, domains):
            cnt += 1
            s.push(); s.add(Not(inst))
            if s.check() != unsat:
                bad += 1; print(f'FALSE INSTANCE of {name}[{k}]: {inst}'[:400])
            s.pop()
    return cnt


def graph():
    nodes = [Const(f'n{i}', T.z) for i in range(3)]
    U = nodes + [null]
    total = 0
    maps = list(itertools.product(range(4), repeat=3))          # parent of node i: index into U (3 = null)

    def desc_of(m):
        d = set()
        for x in range(3):
            a = m[x]; seen = set()
            while a != 3 and a not in seen:
                d.add((a, x)); seen.add(a); a = m[a]
        return d

    def arr(m):
        a = K(T.z, null)
        for i in range(3): a = Store(a, nodes[i], U[m[i]])
        return a
    for m in maps:
        # the map and all maps one update away (s := p, s := null), which the closed-form axioms talk about
        fam = {m}
        for s_i in range(3):
            for p_i in range(4):
                mm = list(m); mm[s_i] = p_i; fam.add(tuple(mm))
        interp = [Distinct(*U)]
        for mm in fam:
            d = desc_of(mm); A = arr(mm)
            cyc = any((x, x) in d for x in range(3))
            interp.append(Acyc(A) == (not cyc))
            for ai, a in enumerate(U):
                for xi, x in enumerate(U):
                    interp.append(Desc(A, a, x) == ((ai, xi) in d))
        def root_of(mm, x):
            seen = set()
            while mm[x] != 3 and x not in seen: seen.add(x); x = mm[x]
            return x
        for mm in fam:
            if not any((x, x) in desc_of(mm) for x in range(3)):          # rootof is only specified for acyclic maps
                for xi in range(3): interp.append(rootof(arr(mm), nodes[xi]) == nodes[root_of(mm, xi)])
        pmc = Const('pm_c', PAR); interp.append(pmc == arr(m))
        total += check('GRAPH_AX', GRAPH_AX, interp, {str(PAR): [pmc], str(T.z): U})
        if not any((x, x) in desc_of(m) for x in range(3)):
            total += check('ROOT_AX', ROOT_AX_CORE, interp, {str(PAR): [pmc], str(T.z): U})
    return total


def deps():
    nodes = [Const(f'n{i}', T.z) for i in range(3)]
    U = nodes + [null]; total = 0
    pairs = [(a, x) for a in range(3) for x in range(3)]

    def tc(E):
        d = set(E); ch = True
        while ch:
            ch = False
            for (a, b) in list(d):
                for (b2, c) in list(d):
                    if b == b2 and (a, c) not in d: d.add((a, c)); ch = True
        return d

    def rel(E):     # E[x][a] : a is a predecessor of x
        r = K(T.z, K(T.z, False))
        for x in range(3):
            sx = K(T.z, False)
            for a in range(3):
                if (a, x) in E: sx = Store(sx, nodes[a], True)
            r = Store(r, nodes[x], sx)
        return r
    import random
    rng = random.Random(7)
    rels = [frozenset(p for p in pairs if rng.random() < 0.35) for _ in range(40)] + [frozenset(), frozenset(pairs)]
    for E in rels:
        fam = {E}
        sets = [frozenset(c) for k in range(4) for c in itertools.combinations(range(3), k)]
        for s_i in range(3):
            for Vs in sets:
                fam.add(frozenset({(a, x) for (a, x) in E if x != s_i} | {(a, s_i) for a in Vs}))
        interp = [Distinct(*U)]
        for EE in fam:
            R = rel(EE); d = tc(EE)
            interp.append(AcycP(R) == (not any((x, x) in d for x in range(3))))
            for ai in range(3):
                for xi in range(3):
                    interp.append(TCp(R, nodes[ai], nodes[xi]) == ((ai, xi) in d))
        Ec = Const('E_c', REL); interp.append(Ec == rel(E))
        generic = [ax for ax in DEP_AX[1:] if 'lastp' not in str(ax) and 'hint' not in str(ax)]          # skolemised axioms (wit, lastp) are existential: checked as "a witness exists" below
        d0_ = tc(E)
        for (a_i, x_i) in d0_:              # G4: every path has a last step
            total += 1
            if not any((p_i, x_i) in E and (a_i == p_i or (a_i, p_i) in d0_) for p_i in range(3)):
                global bad; bad += 1; print('G4 FALSE for', sorted(E), a_i, x_i)
        total += check('DEP_AX[1:]', generic, interp + [And(*[Not(TCp(rel(EE), a, b)) for EE in [E] for a in U for b in U if a is null or b is null])], {str(REL): [Ec], str(T.z): nodes})
        setsz = []
        for Vs in sets:
            sv = K(T.z, False)
            for a in Vs: sv = Store(sv, nodes[a], True)
            setsz.append(sv)
        # wit is a skolem function: its axiom is existential in nature -> checked in the equivalent form "exists a witness"
        for s_i in range(3):
            for Vs, sv in zip(sets, setsz):
                EE = frozenset({(a, x) for (a, x) in E if x != s_i} | {(a, s_i) for a in Vs})
                d0, d1 = tc(E), tc(EE)
                ac0 = not any((x, x) in d0 for x in range(3)); ac1 = not any((x, x) in d1 for x in range(3))
                total += 1
                if ac0 and not ac1:
                    if not any(w == s_i or (s_i, w) in d0 for w in Vs):
                        bad += 1; print('G1 FALSE for', sorted(E), s_i, sorted(Vs))
    return total


def lists():
    elems = [Const(f'e{i}', T.z) for i in range(2)]
    pyl = [tuple(c) for k in range(4) for c in itertools.product(range(2), repeat=k)]
    more = set(pyl)
    for lst in pyl:
        for x in range(2):
            more.add(lst + (x,))
            if x in lst:
                l2 = list(lst); l2.remove(x); more.add(tuple(l2))
    allv = sorted(more, key=lambda t: (len(t), t))
    cz = {lst: Const('L_' + ''.join(map(str, lst)) + '_', LT.z) for lst in allv}
    interp = [Distinct(*elems, null), Distinct(*cz.values()), cz[()] == empty]
    for lst, c in cz.items():
        interp.append(ln(c) == len(lst)); interp.append(nodup(c) == (len(set(lst)) == len(lst)))
        for i_, v in enumerate(lst): interp.append(at(c, i_) == elems[v])
        for x in range(2):
            interp.append(mem(c, elems[x]) == (x in lst))
            if x in lst: interp.append(idx(c, elems[x]) == lst.index(x))
            if lst + (x,) in cz: interp.append(app(c, elems[x]) == cz[lst + (x,)])
            if x in lst:
                l2 = list(lst); l2.remove(x)
                if tuple(l2) in cz: interp.append(rem(c, elems[x]) == cz[tuple(l2)])
            else:
                interp.append(rem(c, elems[x]) == c)       # list.remove raises ValueError here (a safety obligation); the spec function is totalised by identity
        interp.append(mem(c, null) == False)
        for n_ in range(0, len(lst) + 1): interp.append(take(c, n_) == cz[lst[:n_]])
        for n_ in range(0, len(lst) + 1):
            acc = []
            for e_ in lst[:n_]:
                if e_ in acc: acc.remove(e_)
                acc.append(e_)
            if tuple(acc) in cz: interp.append(dl(c, n_) == cz[tuple(acc)])
        for lst2, c2 in list(cz.items()):
            if lst + lst2 in cz: interp.append(cat(c, c2) == cz[lst + lst2])
        for x in range(2):
            for pos in range(len(lst) + 1):
                l3 = list(lst); l3.insert(pos, x)
                if tuple(l3) in cz: interp.append(ins(c, pos, elems[x]) == cz[tuple(l3)])
    base = [c for lst, c in cz.items() if len(lst) <= 3 and all((lst + (x,)) in cz for x in range(2))]
    dom = {str(LT.z): [cz[l_] for l_ in pyl], str(T.z): elems, 'Int': [IntVal(k) for k in range(-1, 5)]}
    n = check('LIST_AX', LIST_AX_CORE, interp, dom)
    small = {str(LT.z): [cz[l_] for l_ in pyl if len(l_) <= 2], str(T.z): elems, 'Int': [IntVal(k) for k in range(0, 4)]}
    tiny = {str(LT.z): [cz[l_] for l_ in pyl if len(l_) <= 1], str(T.z): elems, 'Int': [IntVal(k) for k in range(0, 3)]}
    return n + check('LIST_INS_AX', LIST_INS_AX, interp, small) + check('LIST_CAT_AX', LIST_CAT_AX, interp, tiny) + check('LIST_TAKE_AX', LIST_TAKE_AX, interp, {**dom, 'Int': [IntVal(k) for k in range(0, 4)]}) + check('LIST_DL_AX', LIST_DL_AX, interp, {**dom, 'Int': [IntVal(k) for k in range(0, 4)]})


def transposition():
    """TRANSP_AX (skolemised, so checked in its existential reading): for ALL pairs of relations over 2 nodes + null (rows and columns for null included) - if no pair
    (t, a) violates `(t != null and E2[t][a]) == (a != null and E[a][t])`, the two relations are both acyclic or both cyclic (edges as in DEP_AX: a -> x iff x != null and E[x][a])"""
    global bad
    Uc = [0, 1, 2]; NUL = 2; cells = [(x, a) for x in Uc for a in Uc]; n = 0
    def acyc(E):
        edges = {(a, x) for (x, a) in E if x != NUL}
        d = set(edges); ch = True
        while ch:
            ch = False
            for (a, b) in list(d):
                for (b2, c) in list(d):
                    if b == b2 and (a, c) not in d: d.add((a, c)); ch = True
        return not any((x, x) in d for x in Uc)
    rels = [frozenset(c for c, bit in zip(cells, bits) if bit) for bits in itertools.product((0, 1), repeat=9)]
    ac = {E: acyc(E) for E in rels}
    for E in rels:
        # the only E2 without a violating pair on the rows t != null is determined; the null row of E2 is free
        if any(a != NUL and (a, NUL) in E for a in Uc): continue          # (t = null): lhs false, rhs true -> violating pair exists for every E2
        fixed = {(t, a) for t in Uc if t != NUL for a in Uc if a != NUL and (a, t) in E}
        for extra in itertools.product((0, 1), repeat=3):
            E2 = frozenset(fixed | {(NUL, a) for a, bit in zip(Uc, extra) if bit}); n += 1
            if ac[E] != acyc(E2): bad += 1; print('TRANSP FALSE for', sorted(E), sorted(E2))
    return n


def section_totals():
    """TOTAL_AX of contracts/render.py (frame facts of total(K, M, n) = sum of len(M[K[j]]) for j < n): every key list over 3 section names of length <= 3, every map into lists of
    length <= 2, computed in Python and compared with the three facts"""
    global bad
    names = [0, 1, 2]; n = 0
    keylists = [tuple(c) for k in range(4) for c in itertools.product(names, repeat=k)]
    lens = list(itertools.product(range(3), repeat=3))          # len(M[name]) for the three names
    tot = lambda K, L, m: sum(L[K[j]] for j in range(m))
    for K in keylists:
        nod = len(set(K)) == len(K)
        for L in lens:
            for sx in names:
                for lv in range(3):
                    L2 = list(L); L2[sx] = lv
                    for m in range(len(K) + 1):
                        n += 1
                        if sx not in K and tot(K, L2, m) != tot(K, L, m): bad += 1; print('TOTAL frame-1 FALSE', K, L, sx, lv, m)
                        if tot(K + (sx,), L, m) != tot(K, L, m): bad += 1; print('TOTAL frame-2 FALSE', K, L, sx, m)
                    if nod and sx in K and tot(K, L2, len(K)) != tot(K, L, len(K)) - L[sx] + lv: bad += 1; print('TOTAL frame-3 FALSE', K, L, sx, lv)
    return n


def closure():
    """CLOSED_AX: every parent map over 3 nodes (+ null, cyclic ones included) x every subset of the nodes (and null) given as a list constant; closedL and the
    skolem skc interpreted by the definition computed in Python (skc = a counterexample of closedness where there is one)"""
    nodes = [Const(f'n{i}', T.z) for i in range(3)]; U = nodes + [null]; total = 0
    subsets = [tuple(c) for k in range(5) for c in itertools.combinations(range(4), k)]
    for m in itertools.product(range(4), repeat=3):
        A = K(T.z, null)
        for i in range(3): A = Store(A, nodes[i], U[m[i]])
        par = lambda x: m[x] if x < 3 else 3
        d = set()
        for x in range(3):
            a = m[x]; seen = set()
            while a != 3 and a not in seen: d.add((a, x)); seen.add(a); a = par(a)
        interp = [Distinct(*U)]
        for ai, a in enumerate(U):
            for xi, x in enumerate(U): interp.append(Desc(A, a, x) == ((ai, xi) in d))
        Ls = []
        for S in subsets:
            L = Const('S_' + ''.join(map(str, S)) + '_', LT.z); Ls.append(L)
            for xi, x in enumerate(U): interp.append(mem(L, x) == (xi in S))
            bad_x = [x for x in range(4) if par(x) != 3 and par(x) in S and x not in S]
            interp.append(closedL(A, L) == (not bad_x)); interp.append(skc(A, L) == U[bad_x[0] if bad_x else 3])
        total += check('CLOSED_AX', CLOSED_AX, interp, {str(PAR): [A], str(LT.z): Ls, str(T.z): U})
    return total


def defined_predicates():
    """INJ_AX, UNIQ_AX: inj / disj / uniq are fixed to their definitions computed in Python, the witness functions (owner_, side_, who_) and the skolems to
    computed witnesses; every instance of the two directions must then be true.  Tasks n0, n1 (+ null), list objects o0..o2; parent maps over 3 nodes x ids in {0, 1}."""
    total = 0
    nodes = [Const(f'n{i}', T.z) for i in range(2)]; U = nodes + [null]
    objs = [Const(f'o{i}', LR.z) for i in range(3)]
    maps = list(itertools.product(range(3), repeat=2))
    def arr(m):
        a = K(T.z, LR.null)
        for i in range(2): a = Store(a, nodes[i], objs[m[i]])
        return a
    interp = [Distinct(*U), Distinct(*objs, LR.null)]
    for m in maps:
        A = arr(m); ok = m[0] != m[1]
        interp.append(inj(A) == ok)
        if ok:
            for i in range(2): interp.append(owner_(A, objs[m[i]]) == nodes[i])
            interp += [isk1(A) == null, isk2(A) == null]
        else: interp += [isk1(A) == nodes[0], isk2(A) == nodes[1]]
        for m2 in maps:
            B = arr(m2); clash = [(i, j) for i in range(2) for j in range(2) if m[i] == m2[j]]
            interp.append(disj(A, B) == (not clash))
            if not clash:
                for o in range(3): interp.append(side_(A, B, objs[o]) == (0 if o in m else 1))
                interp += [dsk1(A, B) == null, dsk2(A, B) == null]
            else: interp += [dsk1(A, B) == nodes[clash[0][0]], dsk2(A, B) == nodes[clash[0][1]]]
    total += check('INJ_AX', INJ_AX, interp, {str(OBJMAP): [arr(m) for m in maps], str(T.z): U})
    # uniq over acyclic parent maps of 3 nodes (rootof is specified there) and all id maps into {0, 1}
    nodes = [Const(f'n{i}', T.z) for i in range(3)]; U = nodes + [null]
    for m in itertools.product(range(4), repeat=3):
        def root_of(x):
            seen = set()
            while m[x] != 3 and x not in seen: seen.add(x); x = m[x]
            return x if m[x] == 3 else None
        if any(root_of(x) is None for x in range(3)): continue
        A = K(T.z, null)
        for i in range(3): A = Store(A, nodes[i], U[m[i]])
        interp = [Distinct(*U)] + [rootof(A, nodes[i]) == nodes[root_of(i)] for i in range(3)]
        ids = []
        for iv in itertools.product(range(2), repeat=3):
            I = K(T.z, IntVal(7))
            for i in range(3): I = Store(I, nodes[i], IntVal(iv[i]))
            ids.append(I)
            bad_pairs = [(i, j) for i in range(3) for j in range(3) if i != j and root_of(i) == root_of(j) and iv[i] == iv[j]]
            interp.append(uniq(A, I) == (not bad_pairs))
            if not bad_pairs:
                for i in range(3): interp.append(who_(A, I, nodes[root_of(i)], IntVal(iv[i])) == nodes[i])
                interp += [usk1(A, I) == null, usk2(A, I) == null]
            else: interp += [usk1(A, I) == nodes[bad_pairs[0][0]], usk2(A, I) == nodes[bad_pairs[0][1]]]
        total += check('UNIQ_AX', UNIQ_AX, interp, {str(PAR): [A], str(IDM): ids, str(T.z): U})
    return total


if __name__ == '__main__':
    n1 = graph(); n2 = deps(); n3 = lists(); n4 = closure(); n5 = defined_predicates(); n6 = transposition(); n7 = section_totals(); print(f'closure axiom instances checked: {n4}; defined predicates (inj / disj / uniq): {n5}; transposition: {n6}; section totals: {n7}')
    print(f'axiom instances checked: graph {n1}, dependency {n2}, list {n3}; false instances: {bad}')
    sys.exit(1 if bad else 0)
