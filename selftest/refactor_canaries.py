"""Refactor canaries (DESIGN.md section 7): harmless edits of the repository (applied to a scratch copy, removed afterwards) must not make a check
print VIOLATION; at most the function becomes UNDECIDED and the bounded stand-in decides.  Run: python3 selftest/refactor_canaries.py"""
import sys, os, subprocess, shutil, tempfile
# harmless refactorings: must NOT produce a VIOLATION
cases = [
 ('rename-local-in-fill-loop', 'pjplan/schedule.py', [('max_available', 'free_units')], 'C04'),
 ('reorder-independent-statements', 'pjplan/schedule.py', [("        days = 0\n        date_available_units = 0\n", "        date_available_units = 0\n        days = 0\n")], 'C03'),
 ('rename-loop-variable-parent-setter', 'pjplan/task.py', [("        for v in self.__predecessors:\n            if self in v.__successors:\n                v.__successors.remove(self)", "        for old in self.__predecessors:\n            if self in old.__successors:\n                old.__successors.remove(self)")], 'C01'),
 ('extract-helper-in-calendar', 'pjplan/calendar.py', [("        if self.__start is not None and date < self.__start:\n            return 0\n        if self.__end is not None and date > self.__end:\n            return 0\n\n        return self.__units", "        if self.__outside(date):\n            return 0\n\n        return self.__units\n\n    def __outside(self, date):\n        return (self.__start is not None and date < self.__start) or (self.__end is not None and date > self.__end)")], 'C17'),
 ('comprehension-to-loop', 'pjplan/task.py', [("        self.__predecessors = [v for v in value]\n", "        fresh_list = []\n        for v in value:\n            fresh_list.append(v)\n        self.__predecessors = fresh_list\n")], 'C16'),
 ('equivalent-condition', 'pjplan/schedule.py', [("            if max_available > 0:\n                left_hours -= resource_usage.reserve(resource, date, task, min(left_hours, max_available))\n            days += 1\n\n            if days > max_steps:\n                raise RuntimeError(f\"Can't calculate", "            if 0 < max_available:\n                left_hours -= resource_usage.reserve(resource, date, task, min(max_available, left_hours))\n            days += 1\n\n            if days > max_steps:\n                raise RuntimeError(f\"Can't calculate")], 'C04'),
]
for name, rel, reps, prop in cases:
    d = tempfile.mkdtemp(prefix='canary'); shutil.copytree('/repo/src', d + '/src')
    p = f'{d}/src/{rel}'; s = open(p).read()
    for old, new in reps:
        assert old in s, (name, old[:40]); s = s.replace(old, new)
    open(p, 'w').write(s)
    t = subprocess.run(['/venv/bin/python', '-m', 'pytest', '-q', '-p', 'no:cacheprovider', '/repo/tests'], env=dict(os.environ, PYTHONPATH=d + '/src'), capture_output=True, text=True, cwd='/repo').stdout.strip().splitlines()[-1]
    r = subprocess.run(['python3-vt', 'checks/check.py', prop], cwd='/verif', env=dict(os.environ, PJPLAN_SRC=d + '/src'), capture_output=True, text=True)
    lines = [l[:170] for l in r.stdout.splitlines() if l.startswith(('VIOLATION', 'UNDECIDED'))]
    print(name, prop, 'tests:', t, 'exit', r.returncode, lines[:3])
    shutil.rmtree(d)
