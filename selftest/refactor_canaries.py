"""Refactor canaries (DESIGN.md section 7): harmless edits of the repository (applied to a scratch copy, removed afterwards) must not make a check
print VIOLATION; at most the function becomes UNDECIDED and the bounded stand-in decides.  Run: python3 selftest/refactor_canaries.py"""
import sys, os, subprocess, shutil, tempfile
# harmless refactorings: must NOT produce a VIOLATION
cases = [
 ('rename-local-in-fill-loop', 'pjplan/schedule.py', [('max_available', 'free_units')], 'C04'),
 ('reorder-independent-statements', 'pjplan/schedule.py', [("        days = 0\n        date_available_units = 0\n", "        date_available_units = 0\n        days = 0\n")], 'C03'),
 ('rename-loop-variable-parent-setter', 'pjplan/task.py', [("        for v in self.__predecessors:\n            if self in v.__successors:\n                v.__successors.remove(self)", "        for old in self.__predecessors:\n            if self in old.__successors:\n                old.__successors.remove(self)")], 'C01'),
 ('extract-helper-in-calendar', 'pjplan/calendar.py', [("        if self.__start is not None and date < self.__start:\n            return 0\n        if self.__end is not None and date > self.__end:\n            return 0\n\n        return self.__units", "        if self.__outside(date):\n            return 0\n\n        return self.__units\n\n    def __outside(self, date):\n        return (self.__start is not None and date < self.__start) or (self.__end is not None and date > self.__end)")], 'C17'),
 ('comprehension-to-loop', 'pjplan/task.py', [("        self.__predecessors = [v for v in value]\n", "        fresh_list = []\n        for v in value:\n            fresh_list.append(v)\n        self.__predecessors = fresh_list\n")], 'C16'),
 ('equivalent-condition', 'pjplan/schedule.py', [("            if max_available > 0:\n                left_hours -= resource_usage.reserve(resource, date, task, min(left_hours, max_available))\n            days += 1\n\n            if days > max_steps:\n                raise RuntimeError(f\"Can't calculate", "            if 0 < max_available:\n                left_hours -= resource_usage.reserve(resource, date, task, min(max_available, left_hours))\n            days += 1\n\n            if days > max_steps:\n                raise RuntimeError(f\"Can't calculate")], 'C04'),
 ('children-setter-rename-loop-variable', 'pjplan/task.py', [("        for v in self.__children:\n            v.__parent = None\n            if not any(v is n for n in value):\n                v._detach()", "        for old in self.__children:\n            old.__parent = None\n            if not any(old is n for n in value):\n                old._detach()")], 'C11'),
 ('children-setter-swap-independent-checks', 'pjplan/task.py', [("            if ch is self or self in ch.all_children:\n                raise RuntimeError(f\"Task {self.id} is a child of {ch.id}. Can't make child a parent of its parent\")\n            _check_no_links_to_ancestors(ch, self)",
    "            _check_no_links_to_ancestors(ch, self)\n            if ch is self or self in ch.all_children:\n                raise RuntimeError(f\"Task {self.id} is a child of {ch.id}. Can't make child a parent of its parent\")")], 'C15'),
 ('children-setter-equivalent-test', 'pjplan/task.py', [("            if not any(v is n for n in value):\n                v._detach()", "            if any(v is n for n in value):\n                pass\n            else:\n                v._detach()")], 'C16'),
 ('get-children-extract-local', 'pjplan/task.py', [("            for ch in t.__children:\n                yield ch\n                yield from get_children(ch)", "            kids = t.__children\n            for ch in kids:\n                yield ch\n                yield from get_children(ch)")], 'C05'),
 ('wbs-remove-early-return-reshaped', 'pjplan/wbs.py', [("        if current.children.remove(task_to_remove):\n            return True\n", "        removed = current.children.remove(task_to_remove)\n        if removed:\n            return True\n")], 'C16'),
 ('calc-rename-local', 'pjplan/schedule.py', [("forward_resource_usage", "usage")], 'C03'),
 ('text-repr-equivalent-test', 'pjplan/utils.py', [("            if len(res) > 0:\n                res += '\\n'", "            if res != '':\n                res += '\\n'")], 'C20'),
 ('id-test-reorder-independent-statements', 'pjplan/task.py', [("    parent_tree_ids = set([t.id for t in parent_tree])\n    new_task_ids = set([t.id for t in new_tasks])", "    new_task_ids = set([t.id for t in new_tasks])\n    parent_tree_ids = set([t.id for t in parent_tree])")], 'C05'),
 ('raws-to-wbs-hoist-lookup', 'pjplan/io/raw.py', [("        if raw.parent_id is not None:\n            parent_task = tasks_by_id.get(raw.parent_id)\n            if parent_task is not None:", "        pid = raw.parent_id\n        if pid is not None:\n            parent_task = tasks_by_id.get(pid)\n            if parent_task is not None:")], 'C13'),
 ('raws-to-wbs-equivalent-test', 'pjplan/io/raw.py', [("            if predecessor_task is not None:\n                task.predecessors.append(predecessor_task)", "            if predecessor_task is None:\n                continue\n            task.predecessors.append(predecessor_task)")], 'C13'),
 ('check-loops-reorder-bookkeeping', 'pjplan/schedule.py', [("    visited_tasks.remove(task.id)\n    validated.add(task.id)", "    validated.add(task.id)\n    visited_tasks.remove(task.id)")], 'C14'),
 ('add-work-inline-local', 'pjplan/alg/critical_path.py', [("        for p in predecessors:\n            link = self.__links[p]\n            self.__connect(link.end, start, 0)", "        for p in predecessors:\n            self.__connect(self.__links[p].end, start, 0)")], 'C12'),
 ('usage-table-rename-local', 'pjplan/schedule.py', [("        d = min_date\n        while d <= max_date:", "        d = min_date\n        while not (d > max_date):")], 'C20'),
 ('sheet-rows-equivalent-test', 'pjplan/task.py', [("        if children:\n            for ch in task.children:\n                _Repr.__print_task_subtree(ch, fields, level + 1, table, children, theme)", "        if not children:\n            return\n        for ch in task.children:\n            _Repr.__print_task_subtree(ch, fields, level + 1, table, children, theme)")], 'C20'),
 ('list-operator-extract-local', 'pjplan/task.py', [("        for t in self:\n            t.predecessors += other\n        return other", "        extra = other\n        for t in self:\n            t.predecessors += extra\n        return other")], 'C16'),
 ('network-src-hoist-length', 'pjplan/viz/mermaid/network.py', [("            if len(t.predecessors) == 0:", "            n_pre = len(t.predecessors)\n            if n_pre == 0:")], 'C19'),
]
import sys as _s
if len(_s.argv) > 1: cases = [c for c in cases if _s.argv[1] in c[0]]
for name, rel, reps, prop in cases:
    d = tempfile.mkdtemp(prefix='canary'); shutil.copytree('/repo/src', d + '/src')
    p = f'{d}/src/{rel}'; s = open(p).read()
    for old, new in reps:
        assert old in s, (name, old[:40]); s = s.replace(old, new)
    open(p, 'w').write(s)
    t = subprocess.run(['/venv/bin/python', '-m', 'pytest', '-q', '-p', 'no:cacheprovider', '/repo/tests'], env=dict(os.environ, PYTHONPATH=d + '/src'), capture_output=True, text=True, cwd='/repo').stdout.strip().splitlines()[-1]
    r = subprocess.run(['python3-vt', 'checks/check.py', prop], cwd='/verif', env=dict(os.environ, PJPLAN_SRC=d + '/src'), capture_output=True, text=True)
    lines = [l[:170] for l in r.stdout.splitlines() if l.startswith(('VIOLATION', 'UNDECIDED'))]
    print(name, prop, 'tests:', t, 'exit', r.returncode, lines[:3])
    shutil.rmtree(d)
