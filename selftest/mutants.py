#!/usr/bin/env python3
"""Mutant suite for the deductive part (DESIGN.md section 7): small property-breaking edits of the real source, applied to a scratch copy
(removed afterwards); each must make a NAMED obligation of the stated unit fail (or, where the edit leaves the supported subset, make the
unit UNDECIDED - marked `U`).  Run:  python3 selftest/mutants.py [filter]      (uses python3-vt for the units)
"""
import sys, os, subprocess, shutil, tempfile, json

ROOT = os.path.dirname(os.path.dirname(os.path.abspath(__file__)))
M = [
    # (contracts module, unit substring, file, old, new, substring expected among the failed obligations)
    ('calendar', 'WorkCalendarSub', 'pjplan/calendar.py', '                units -= c_units', '                units = c_units - units', 'fold'),
    ('calendar', 'FixedCalendar.get', 'pjplan/calendar.py', '        if self.__end is not None and date > self.__end:\n            return 0', '        if self.__end is not None and date >= self.__end:\n            return 0', 'configured-value'),
    ('calendar', 'nearest_availability', 'pjplan/resource.py', '                if self.get_available_units(start_date, None) > 0.0:', '                if self.get_available_units(start_date, None) >= 0.0:', 'earliest'),
    ('schedule', 'ForwardScheduler.__shift', 'pjplan/schedule.py', 'resource_usage.reserve(resource, date, task, min(left_hours, max_available))\n            days += 1\n\n            if days > max_steps:\n                raise RuntimeError(f"Can',
     'resource_usage.reserve(resource, date, task, max_available)\n            days += 1\n\n            if days > max_steps:\n                raise RuntimeError(f"Can', 'inv-pres'),
    ('schedule', 'ForwardScheduler.__get_resource_nearest', 'pjplan/schedule.py', "                percent = 1 - available / resource.get_available_units(d, task)\n                d = datetime(d.year, d.month, d.day, 0, 0, 0, 0) + timedelta",
     "                percent = available / resource.get_available_units(d, task)\n                d = datetime(d.year, d.month, d.day, 0, 0, 0, 0) + timedelta", 'encodes'),
    ('schedule', '_ResourceUsage.reserved', 'pjplan/schedule.py', "                     if item.resource == resource and item.date == self.__get_key(date) and item.task == task]", "                     if item.resource == resource and item.date == self.__get_key(date)]", 'sum#1'),
    ('schedule', '_ResourceUsage.reserve', 'pjplan/schedule.py', "self.rows.append(ResourceUsageRow(resource, self.__get_key(date), task, units))", "self.rows.append(ResourceUsageRow(resource, date, task, units))", 'day-normalised'),
    ('passes', 'forward_pass', 'pjplan/schedule.py', "                    _task.start = max(max_predecessor_ends, datetime.now(), task_min_start)", "                    _task.start = max(max_predecessor_ends, task_min_start)", 'C02'),
    ('passes', 'forward_pass', 'pjplan/schedule.py', "                    _task.start = min(children_starts)\n\n            if _task.estimate is None:\n                if is_leaf:\n                    _task.estimate = self.__default_estimate",
     "                    _task.start = max(children_starts)\n\n            if _task.estimate is None:\n                if is_leaf:\n                    _task.estimate = self.__default_estimate", 'C07'),
    ('passes', 'backward_pass', 'pjplan/schedule.py', "                if succ.start is not None:\n                    min_date = min(min_date, succ.start)", "                pass", 'C09'),
    ('passes', 'ForwardScheduler.calc', 'pjplan/schedule.py', "        forward = wbs.clone()\n        self.__prepare_tasks(forward)", "        forward = wbs.clone()", 'summary-fields-cleared'),
    ('passes', 'BackwardScheduler.calc', 'pjplan/schedule.py', "            self.__backward_pass(backward_roots[i], self.__end, backward_resource_usage, calculated)", "            self.__backward_pass(backward_roots[0], self.__end, backward_resource_usage, calculated)", 'roots-scheduled'),
    ('passes', 'ForwardScheduler.calc', 'pjplan/schedule.py', "            self.__forward_pass(t, self.__start, forward_resource_usage, calculated)", "            self.__forward_pass(t, datetime.now(), forward_resource_usage, calculated)", 'bound'),
    ('task', 'parent.setter', 'pjplan/task.py', "            if parent is self or parent in self.all_children:", "            if parent in self.all_children:", 'F4'),
    ('task', 'parent.setter[ids]', 'pjplan/task.py', "                if _has_id_intersection(parent, [self]):\n                    raise RuntimeError(\"Task subtree ids intersects with parent tree ids\")", "                pass", 'U1'),
    ('task', 'parent.setter[ids]', 'pjplan/task.py', "            if parent is not None and (self.parent is None or id(self.parent) != id(parent)):", "            if parent is not None and self.parent is None:", 'U1'),
    ('task', 'parent.setter', 'pjplan/task.py', "            self._attach(parent.__wbs)", "            pass", 'C11'),
    ('task', 'parent.setter', 'pjplan/task.py', "            _check_no_links_to_ancestors(self, parent)\n\n        if self.__parent is not None", "\n        if self.__parent is not None", 'X1'),
    ('task', 'parent.setter', 'pjplan/task.py', "        if self.__parent is not None and self in self.__parent.__children:\n            self.__parent.__children.remove(self)", "        if self.__parent is not None and self.__parent is not parent and self in self.__parent.__children:\n            self.__parent.__children.remove(self)", 'C16'),
    ('task', 'predecessors.setter', 'pjplan/task.py', "            if v is self or v in parents or v in children:\n                raise RuntimeError(\"Can't set parent as predecessor\")", "            if v is self or v in parents:\n                raise RuntimeError(\"Can't set parent as predecessor\")", 'checked'),
    ('task', 'predecessors.setter', 'pjplan/task.py', "        for v in value:\n            if self not in v.__successors:\n                v.__successors.append(self)", "        pass", 'M1'),
    ('task', 'successors.setter', 'pjplan/task.py', "        for v in value:\n            if self in v.all_successors:\n                raise RuntimeError(f\"{self.id} exists in {v.id} successors. Cyclic dependency\")", "        pass", 'un-mirror'),
    ('task', '_attach', 'pjplan/task.py', "        self.__wbs = wbs\n        for ch in self.children:\n            ch._attach(wbs)", "        self.__wbs = wbs\n        for ch in self.children:\n            pass", 'owners'),
    ('task', '__set_children', 'pjplan/task.py', "        self.__children = lst", "        self.__children = list(lst)", 'list-object'),
    ('task', '_PredecessorsList.append', 'pjplan/task.py', "        self.__parent.predecessors = [v for v in self.__parent.predecessors] + [task]", "        self.__parent.predecessors = [task] + [v for v in self.__parent.predecessors]", 'comes-last'),
    ('task', '_SuccessorsList.remove', 'pjplan/task.py', "        self.__parent.successors = [v for v in self.__parent.successors if v != task]\n        return True", "        self.__parent.successors = [v for v in self.__parent.successors if v != task]\n        return False", 'membership'),
    ('task', '_PredecessorsList.remove', 'pjplan/task.py', "        self.__parent.predecessors = [v for v in self.__parent.predecessors if v != task]", "        self.__parent.predecessors = [v for v in self.__parent.predecessors]", 'without-the-task'),
    ('children', 'children.setter', 'pjplan/task.py', "            if not any(v is n for n in value):\n                v._detach()", "            pass", 'detached'),
    ('children', 'children.setter', 'pjplan/task.py', "            v.__parent = None\n            if not any(v is n for n in value):\n                v._detach()", "            if any(v is n for n in value):\n                v.__parent = None\n            else:\n                v._detach()", 'parents'),
    ('children', 'children.setter', 'pjplan/task.py', "        self.__children.clear()\n\n        for v in value:\n            v.parent = self", "        for v in value:\n            v.parent = self", 'children-of-the-task'),
    ('children', 'children.setter', 'pjplan/task.py', "        self.__children.clear()\n\n        for v in value:\n            v.parent = self", "        self.__children = []\n\n        for v in value:\n            v.parent = self", 'frame'),
    ('children', 'children.setter', 'pjplan/task.py', "            if ch is self or self in ch.all_children:\n                raise RuntimeError(f\"Task {self.id} is a child of {ch.id}. Can't make child a parent of its parent\")\n            _check_no_links_to_ancestors(ch, self)",
     "            if ch is self or self in ch.all_children:\n                raise RuntimeError(f\"Task {self.id} is a child of {ch.id}. Can't make child a parent of its parent\")", 'reason'),
    ('children', 'children.setter', 'pjplan/task.py', "            if len([v for v in value if v.__wbs is not None and v.__wbs != self.__wbs]) > 0:", "            if len([v for v in value if v.__wbs is not None and v.__wbs == self.__wbs]) > 0:", 'reason'),
    ('children', '_ChildrenList.remove', 'pjplan/task.py', "        self.__parent.children = [t for t in self._list if t != task]\n        return True", "        self.__parent.children = [t for t in self._list if t != task]\n        return False", 'membership'),
    ('children', '_ChildrenList.remove', 'pjplan/task.py', "        if task not in self._list:\n            return False\n        self.__parent.children = [t for t in self._list if t != task]", "        self.__parent.children = [t for t in self._list if t != task]", 'not-listed'),
    ('children', 'WBS.roots.setter', 'pjplan/wbs.py', "        self.__root.children = value", "        self.__root.children = []", 'list-of-root-tasks'),
    ('children', 'WBS.__remove', 'pjplan/wbs.py', "            if self.__remove(task_to_remove, ch):\n                return True", "            self.__remove(task_to_remove, ch)", 'returns-whether'),
    ('children', 'WBS.remove', 'pjplan/wbs.py', "        return self.__remove(task, self.__root)", "        self.__remove(task, self.__root)\n        return True", 'member'),
    ('children', 'Task.__lshift__', 'pjplan/task.py', "        \"\"\"Synonym for predecessors.append(other) and predecessors += other\"\"\"\n        self.predecessors += other", "        \"\"\"Synonym for predecessors.append(other) and predecessors += other\"\"\"\n        self.successors += other", 'links-are'),
    ('children', 'Task.__floordiv__', 'pjplan/task.py', "        self.children += other\n        return other", "        self.children = other\n        return other", 'followed-by'),
    ('children', 'Task.__init__', 'pjplan/task.py', "        if parent is not None:\n            self.parent = parent\n        if children is not None:", "        if parent is not None:\n            self.__parent = parent\n        if children is not None:", 'F2'),
    ('children', 'Task.__init__', 'pjplan/task.py', "        self.__id = id\n        self.name = name", "        self.name = name", 'given-id'),
    ('children', 'Task.__init__', 'pjplan/task.py', "        self.__children = []\n        self.__predecessors = []\n        self.__successors = []", "        self.__children = []\n        self.__predecessors = self.__successors = []", 'O1'),
    ('children', '_has_id_intersection', 'pjplan/task.py', "    if len(new_task_ids) != len(set([id(t) for t in new_tasks])):\n        return True\n", "", 'two-new-tasks'),
    ('children', '_has_id_intersection', 'pjplan/task.py', "    new_tasks = [t for t in all_children_tasks if id(t) not in parent_tree_object_ids]", "    new_tasks = [t for t in all_children_tasks if id(t) in parent_tree_object_ids]", 'C05'),
    ('children', '_has_id_intersection', 'pjplan/task.py', "    parent_root = parent.wbs._root() if parent.wbs is not None else _find_root(parent)", "    parent_root = parent", 'C05'),
    ('children', 'WBS.__init__', 'pjplan/wbs.py', "        self.__root._attach(self)\n", "", 'WR'),
    ('children', 'WBS.__init__', 'pjplan/wbs.py', "        self.__root = Task(EMPTY_TASK_ID, **kwargs)", "        self.__root = Task(0, **kwargs)", 'hidden-root'),
    ('children', 'WBS.remove_all', 'pjplan/wbs.py', "        for t in tasks_to_delete:\n            self.__remove(t, self.__root)\n\n        return tasks_to_delete", "        for t in tasks_to_delete:\n            pass\n\n        return tasks_to_delete", 'members'),
    ('children', 'WBS.remove_all', 'pjplan/wbs.py', "            self.__remove(t, self.__root)\n\n        return tasks_to_delete", "            self.__remove(t, self.__root)\n\n        return _ImmutableTaskList([])", 'returns'),
    ('children', '_TaskList.remove_all', 'pjplan/task.py', "        for t in tasks_to_delete:\n            self.remove(t)\n\n        return tasks_to_delete", "        for t in tasks_to_delete:\n            pass\n\n        return tasks_to_delete", 'children-left'),
    ('children', '_TaskList.remove_all', 'pjplan/task.py', "        tasks_to_delete = self(key, **kwargs)\n        if not tasks_to_delete:\n            return _ImmutableTaskList([])\n\n        for t in tasks_to_delete:\n            self.remove(t)\n\n        return tasks_to_delete",
     "        tasks_to_delete = self(key, **kwargs)\n        if not tasks_to_delete:\n            return _ImmutableTaskList([])\n\n        for t in tasks_to_delete:\n            self.remove(t)\n\n        return _ImmutableTaskList([])", 'returns'),
    ('small', '_to_list', 'pjplan/task.py', "    elif type(val) is Task:\n        return [val]", "    elif type(val) is Task:\n        return []", 'one-element'),
    ('small', '_check_no_nones_in_list', 'pjplan/task.py', "        if v is None:\n            raise RuntimeError(f\"{name} contains None value\")", "        pass", 'holds-no-None'),
    ('small', 'Task.estimate.setter', 'pjplan/task.py', "        if value is not None and value < 0:\n            raise RuntimeError(\"Estimate < 0\")", "        if value is not None and value < -1:\n            raise RuntimeError(\"Estimate < 0\")", 'negative'),
    ('children', 'children.setter[no-late', 'pjplan/task.py', "            if _has_id_intersection(self, value):\n                raise RuntimeError(\"Task tree ids intersects with children ids\")", "            pass", 'id-test'),
    ('children', 'children.setter[no-late', 'pjplan/task.py', "            if ch is self or self in ch.all_children:", "            if ch is self:", 'cycle-test'),
    ('children', 'children.setter[no-late', 'pjplan/task.py', "            if len([v for v in value if v.__wbs is not None and v.__wbs != self.__wbs]) > 0:", "            if len([v for v in value if v.__wbs is not None and v.__wbs == self.__wbs]) > 0:", 'owner-test'),
    ('children', 'children.setter[no-late', 'pjplan/task.py', "            if ch is self or self in ch.all_children:\n                raise RuntimeError(f\"Task {self.id} is a child of {ch.id}. Can't make child a parent of its parent\")\n            _check_no_links_to_ancestors(ch, self)",
     "            if ch is self or self in ch.all_children:\n                raise RuntimeError(f\"Task {self.id} is a child of {ch.id}. Can't make child a parent of its parent\")", 'link-test'),
    ('closure', 'get_children', 'pjplan/task.py', "                yield ch\n                yield from get_children(ch)", "                yield from get_children(ch)\n                yield ch", 'depth-first'),
    ('closure', 'get_parent', 'pjplan/task.py', "                yield t\n                yield from get_parent(t.parent)", "                yield t", 'ancestors'),
    ('closure', 'get_predecessor', 'pjplan/task.py', "            for pr in t.predecessors:\n                yield pr\n                yield from get_predecessor(pr)", "            for pr in t.predecessors:\n                yield from get_predecessor(pr)", 'every-transitive'),
    ('closure', '_unique_tasks', 'pjplan/task.py', "            m.add(id(t))\n            res.append(t)", "            res.append(t)", 'once'),
    ('closure', '_check_no_links', 'pjplan/task.py', "            if a in t.predecessors or a in t.successors:", "            if a in t.predecessors:", 'no-task-of-the-subtree'),
    ('closure', 'Task.parent.getter', 'pjplan/task.py', "        if self.__parent is None or self.__parent.id == EMPTY_TASK_ID:\n            return None", "        if self.__parent is None:\n            return None", 'hidden'),
    ('query', 'search', 'pjplan/task.py', "                    if val is None or not val <= v:", "                    if val is None or not val < v:", 'search-is-true'),
    ('query', 'search', 'pjplan/task.py', '                elif k.endswith("_is_none_"):\n                    k = k[0:-9]', '                elif k.endswith("_is_none_"):\n                    k = k[0:-8]', 'search-is-true'),
    ('query', '_ImmutableTaskList.__call__', 'pjplan/task.py', "            if callable(key):\n                return _ImmutableTaskList([t for t in self if key(t)])", "            if callable(key):\n                return _ImmutableTaskList([t for t in self])", 'callable'),
    ('query', '_ImmutableTaskList.__call__', 'pjplan/task.py', "        if kwargs is None:\n            return _ImmutableTaskList([t for t in self._list])", "        if kwargs is not None:\n            return _ImmutableTaskList([t for t in self._list])", 'keyword-filters'),
    ('query', '__get_task_attribute', 'pjplan/task.py', "        if attribute_name in t.__dict__ or attribute_name in ('estimate', 'spent'):", "        if attribute_name in t.__dict__:", 'public-attribute'),
    ('text', 'colored_text', 'pjplan/utils.py', "    text = text + ' ' * (width - len(text))", "    text = text + ' ' * (width - len(text) - 1)", 'visible-width'),
    ('text', '_TextTableRow.repr', 'pjplan/utils.py', "                text = colored_text('  ', width[i] + 2, self.color, self.bg_color)", "                text = colored_text('  ', width[i], self.color, self.bg_color)", 'width'),
    ('text', 'TextTable.text_repr', 'pjplan/utils.py', "                widths_map[i] = max(len(r.get_cell(i).text), widths_map.setdefault(i, 0))", "                widths_map[i] = min(len(r.get_cell(i).text), widths_map.setdefault(i, 0))", 'fit'),
    ('text', 'TextTable.text_repr', 'pjplan/utils.py', "            if len(res) > 0:\n                res += '\\n'\n            res += r.repr(widths, border, border_color)", "            res += r.repr(widths, border, border_color)", 'line'),
    ('rawio', 'raws_to_wbs', 'pjplan/io/raw.py', "        if raw.parent_id is not None:", "        if raw.parent_id:", 'parent-row'),
    ('rawio', 'raws_to_wbs', 'pjplan/io/raw.py', "                parent_task.children.append(task)\n                task.parent = parent_task\n            else:\n                roots.append(task)\n        else:\n            roots.append(task)",
     "                parent_task.children.append(task)\n                task.parent = parent_task\n            else:\n                roots.append(task)\n        else:\n            roots.insert(0, task)", 'row-order'),
    ('children', 'Task.__init__', 'pjplan/task.py', "        if successors:\n            self.successors = successors\n        if predecessors:\n            self.predecessors = predecessors", "        if successors:\n            self.successors = successors\n        if predecessors:\n            self.successors = predecessors", 'as-given'),
    ('children', 'Task.__init__', 'pjplan/task.py', "        if successors:\n            self.successors = successors\n        if predecessors:", "        if successors:\n            self.__successors = successors\n        if predecessors:", ''),
    ('children', '_ImmutableTaskList.__lshift__', 'pjplan/task.py', "        for t in self:\n            t.predecessors += other\n        return other", "        for t in self:\n            t.successors += other\n        return other", 'every-member'),
    ('children', '_ImmutableTaskList.__lshift__', 'pjplan/task.py', "        for t in self:\n            t.predecessors += other\n        return other", "        for t in self:\n            t.predecessors += other\n            break\n        return other", 'every-member'),
    ('children', '_ImmutableTaskList.__rshift__', 'pjplan/task.py', "        for t in self:\n            t.successors += other\n        return other", "        for t in self:\n            t.successors = other\n        return other", 'every-member'),
    ('children', '_ImmutableTaskList.__rshift__', 'pjplan/task.py', "        for t in self:\n            t.successors += other\n        return other", "        for t in self:\n            t.successors += other\n        return self", 'returns'),
    ('network', '__new_node', 'pjplan/alg/critical_path.py', "        res = _PNode()\n        self.__nodes.append(res)\n        return res", "        res = _PNode()\n        return res", 'node-list'),
    ('network', '__connect', 'pjplan/alg/critical_path.py', "        start.forward_links.append(link)\n        end.backward_links.append(link)", "        end.forward_links.append(link)\n        start.backward_links.append(link)", 'forward-list'),
    ('network', '__connect', 'pjplan/alg/critical_path.py', "        link = _PLink(units, start, end)", "        link = _PLink(units, end, start)", 'given-ends'),
    ('network', '__add_work', 'pjplan/alg/critical_path.py', "            self.__connect(link.end, start, 0)", "            self.__connect(link.start, start, 0)", 'zero-arc'),
    ('network', '__add_work', 'pjplan/alg/critical_path.py', "            self.__connect(link.end, start, 0)", "            self.__connect(link.end, end, 0)", 'zero-arc'),
    ('network', '__add_work', 'pjplan/alg/critical_path.py', "        link = self.__connect(start, end, units)\n\n        self.__links[id] = link", "        link = self.__connect(start, end, 0)\n\n        self.__links[id] = link", 'work-arc'),
    ('network', '__add_work', 'pjplan/alg/critical_path.py', "        link = self.__connect(start, end, units)\n\n        self.__links[id] = link", "        link = self.__connect(start, end, units)\n", 'work-arc'),
    ('network', '__add_work', 'pjplan/alg/critical_path.py', "        for p in predecessors:\n            link = self.__links[p]", "        for p in predecessors[1:]:\n            link = self.__links[p]", ''),
    ('usage', 'ResourceUsageReport.__repr__', 'pjplan/schedule.py', "            d += timedelta(days=1)\n\n        return table.text_repr(True)", "            d += timedelta(days=2)\n\n        return table.text_repr(True)", 'one-line-per-day'),
    ('usage', 'ResourceUsageReport.__repr__', 'pjplan/schedule.py', "        while d <= max_date:\n            table.new_row()", "        while d < max_date:\n            table.new_row()", 'one-line-per-day'),
    ('usage', 'ResourceUsageReport.__repr__', 'pjplan/schedule.py', "            table.new_row()\n            table.new_cell(d.strftime('%y-%m-%d'))", "            table.new_row()", 'cell'),
    ('usage', 'ResourceUsageReport.__repr__', 'pjplan/schedule.py', "        table.new_row()\n        table.new_cell('DATE', RED)", "        table.new_row()", 'cell'),
    ('usage', 'ResourceUsageReport.__repr__', 'pjplan/schedule.py', "        min_date = min(dates)\n        max_date = max(dates)", "        min_date = max(dates)\n        max_date = min(dates)", ''),
    ('usage', 'TextTable.new_row', 'pjplan/utils.py', "        self.__current_row = _TextTableRow(color, bg_color)\n        self.__rows.append(self.__current_row)", "        self.__current_row = _TextTableRow(color, bg_color)", 'new-empty-row'),
    ('usage', '_TextTableRow.add_cell', 'pjplan/utils.py', "        self.cells.append(_TextTableCell(text, color, bg_color))", "        self.cells = [_TextTableCell(text, color, bg_color)]", ''),
    ('sheetrows', '__print_task_subtree', 'pjplan/task.py', "            else:\n                values.append(_Repr.__get_field_value(task, f))", "            elif f != 'id':\n                values.append(_Repr.__get_field_value(task, f))", 'cell'),
    ('sheetrows', '__print_task_subtree', 'pjplan/task.py', "        if children:\n            for ch in task.children:", "        if not children:\n            for ch in task.children:", 'one-line-for-the-task'),
    ('sheetrows', '__print_task_subtree', 'pjplan/task.py', "                _Repr.__print_task_subtree(ch, fields, level + 1, table, children, theme)", "                _Repr.__print_task_subtree(ch, fields, level + 1, table, False, theme)", 'one-line'),
    ('sheetrows', '__print_task_subtree', 'pjplan/task.py', "                _Repr.__print_task_subtree(ch, fields, level + 1, table, children, theme)", "                _Repr.__print_task_subtree(task, fields, level + 1, table, children, theme)", 'dec'),
    ('sheetrows', '__print_task_subtree', 'pjplan/task.py', "        table.new_row(color)\n        for v in values:\n            table.new_cell(v)", "        for v in values:\n            table.new_cell(v)", ''),
    ('sheetrows', '_Repr.repr', 'pjplan/task.py', "        for s in fields:\n            table.new_cell(s.upper())", "        for s in fields:\n            pass", 'cell'),
    ('sheetrows', '_Repr.repr', 'pjplan/task.py', "            _Repr.__print_task_subtree(_task, fields, 0, table, children, theme)", "            _Repr.__print_task_subtree(_task, fields, 0, table, True, theme)", 'one-header-line'),
    ('sheetrows', '_Repr.repr', 'pjplan/task.py', "        table = TextTable()\n        table.new_row(header_color)", "        table = TextTable()", ''),
    ('render', 'MermaidNetwork.__src', 'pjplan/viz/mermaid/network.py', "            if len(t.predecessors) == 0:\n                res += f\"  0((Start)) --> {t.id}{{{{{t_name}}}}}\\n\"", "            if len(t.predecessors) == 0:\n                pass", 'one-line'),
    ('render', 'MermaidNetwork.__src', 'pjplan/viz/mermaid/network.py', "                    res += f\"  {p.id}{{{{{p_name}}}}} --> {t.id}{{{{{t_name}}}}}\\n\"", "                    res += f\"  {p.id}{{{{{p_name}}}}} --> {t.id}{{{{{t_name}}}}}\"", 'edge-lines'),
    ('render', 'MermaidNetwork.__src', 'pjplan/viz/mermaid/network.py', "            if len(t.predecessors) == 0:", "            if len(t.predecessors) != 0:", ''),
    ('render', 'MermaidNetwork.__src', 'pjplan/viz/mermaid/network.py', "                res += f'style {t.id} {self.__dict_to_style(t.network_bar_style)}\\n'", "                res = f'style {t.id} {self.__dict_to_style(t.network_bar_style)}\\n'", 'style-lines'),
    ('children', 'Task.__lshift__[single task]', 'pjplan/task.py', "        self.predecessors += other\n        return other", "        self.successors += other\n        return other", ''),
    ('children', 'Task.__floordiv__[single task]', 'pjplan/task.py', "        self.children += other\n        return other", "        self.children = other\n        return other", ''),
    ('render', 'MermaidGantt.__mermaid_task', 'pjplan/viz/mermaid/gantt.py', '        return "    {}: {} {}, {}, {}\\n".format(', '        return "    {}: {} {}, {}, {}".format(', 'one-line'),
    ('render', 'MermaidGantt.__mermaid_task', 'pjplan/viz/mermaid/gantt.py', "            t.name.replace(':', ''),", "            t.name.replace(':', '\\n'),", ''),
    ('render', 'MermaidGantt.__src', 'pjplan/viz/mermaid/gantt.py', '                res += f"  section {k}\\n"\n                for task in v:', '                for task in v:', 'one-task-line'),
    ('render', 'MermaidGantt.__src', 'pjplan/viz/mermaid/gantt.py', "                for task in v:\n                    res += self.__mermaid_task(task)", "                for task in v:\n                    res = self.__mermaid_task(task)", 'task-lines'),
    ('render', 'MermaidGantt.__src', 'pjplan/viz/mermaid/gantt.py', "        else:\n            for task in tasks:\n                res += self.__mermaid_task(task)", "        else:\n            for task in tasks:\n                res += self.__mermaid_task(task)\n                res += self.__mermaid_task(task)", 'task-lines'),
    ('render', 'MermaidGantt.__src', 'pjplan/viz/mermaid/gantt.py', "                sections_map.setdefault(task_section, []).append(task)", "                sections_map.setdefault('-', []).append(task)", ''),
    ('render', 'DhtmlxGantt.__data', 'pjplan/viz/dhtmlx/gantt.py', "                for p in t.predecessors:\n                    link_id += 1", "                for p in t.predecessors:\n                    link_id += 0", 'numbered'),
    ('render', 'DhtmlxGantt.__data', 'pjplan/viz/dhtmlx/gantt.py', "            for t in _root.all_children + [_root]:", "            for t in _root.all_children:", 'entries'),
    ('render', 'DhtmlxGantt.__data', 'pjplan/viz/dhtmlx/gantt.py', "                data.append(data_val)\n", "                if t is not _root:\n                    data.append(data_val)\n", 'entries'),
    ('loops', '_check_loops_from_task', 'pjplan/schedule.py', "    visited_tasks.add(task.id)\n\n    for s in task.predecessors:", "    for s in task.predecessors:", 'KeyError'),
    ('loops', '_check_loops_from_task', 'pjplan/schedule.py', "    visited_tasks.remove(task.id)\n    validated.add(task.id)", "    validated.add(task.id)", 'visited-set-is-restored'),
    ('loops', '_check_loops_from_task', 'pjplan/schedule.py', "    visited_tasks.remove(task.id)\n    validated.add(task.id)", "    visited_tasks.remove(task.id)\n    validated.remove(task.id)", 'KeyError'),
    ('loops', '_check_loops_from_task', 'pjplan/schedule.py', "    for c in task.children:\n        _check_loops_from_task(c, visited_tasks, validated)", "    for c in task.children:\n        _check_loops_from_task(c, validated, visited_tasks)", ''),
    ('loops', '_check_loops_from_task', 'pjplan/schedule.py', "    for c in task.children:\n        _check_loops_from_task(c, visited_tasks, validated)", "    for c in task.children:\n        _check_loops_from_task(c.parent.parent, visited_tasks, validated)", 'non-null'),
    ('loops', '_check_loops', 'pjplan/schedule.py', "        _check_loops_from_task(t, set(), validated)", "        _check_loops_from_task(t, validated, validated)", 'sets-different'),
    ('rawio', 'raws_to_wbs[dependencies]', 'pjplan/io/raw.py', "                task.predecessors.append(predecessor_task)", "                predecessor_task.predecessors.append(task)", 'dependencies-of-the-rows-passed'),
    ('rawio', 'raws_to_wbs[dependencies]', 'pjplan/io/raw.py', "        for predecessor_id in raw.predecessor_ids:\n            predecessor_task = wbs[predecessor_id]", "        for predecessor_id in raw.predecessor_ids[1:]:\n            predecessor_task = wbs[predecessor_id]", ''),
    ('rawio', 'raws_to_wbs[dependencies]', 'pjplan/io/raw.py', "            predecessor_task = wbs[predecessor_id]\n            if predecessor_task is not None:", "            predecessor_task = wbs[predecessor_id]\n            if predecessor_task is not None and predecessor_task.parent is task.parent:", 'dependencies-of-the-rows-passed'),
    ('rawio', 'raws_to_wbs[dependencies]', 'pjplan/io/raw.py', "        task = wbs[raw.id]\n\n        for predecessor_id", "        task = wbs[raws[0].id]\n\n        for predecessor_id", ''),
    ('rawio', 'raws_to_wbs', 'pjplan/io/raw.py', "            id=raw.id,\n            name=raw.name,", "            id=raw.id + 1,\n            name=raw.name,", 'rows-id'),
    ('csvio', '__parse_bool', 'pjplan/io/csv_io.py', "    return _val == 'True'", "    return _val == 'true'", 'bool'),
    ('csvio', 'write_csv.cells', 'pjplan/io/csv_io.py', "                task.name if task.name else '',\n                task.resource if task.resource else '',", "                task.name if task.name else '',\n                task.name if task.resource else '',", 'resource'),
    ('csvio', 'tasks_to_raws', 'pjplan/io/raw.py', "            parent_id=t.parent.id if t.parent else None,", "            parent_id=t.parent.id if t.parent and t.parent.id != 0 else None,", 'parent_id'),
    ('critpath', '__forward', 'pjplan/alg/critical_path.py', "                max_start = max(max_start, link.start.start_units + link.units)", "                max_start = max(max_start, link.start.start_units)", 'bellman'),
    ('critpath', '__backward', 'pjplan/alg/critical_path.py', "                min_end = node.start_units", "                min_end = 0", 'Bellman'),
    ('clone', 'WBS.subtree', 'pjplan/wbs.py', "        return self.__clone(_to_list(roots))", "        self.__clone(_to_list(roots))\n        return self", 'subtree-copies'),
    ('clone', 'WBS.clone', 'pjplan/wbs.py', "        return self.__clone(self.roots)", "        self.__clone(self.roots)\n        return self", 'clone-copies'),
    ('clone', 'WBS.__clone', 'pjplan/wbs.py', "            if not k.startswith('_'):\n                cloned_project.__setattr__(k, self.__getattribute__(k))", "            if not k.startswith('__'):\n                cloned_project.__setattr__(k, self.__getattribute__(k))", 'attribute'),
    ('clone', 'WBS.__clone', 'pjplan/wbs.py', "                cloned_project.__setattr__(k, self.__getattribute__(k))", "                cloned_project.__setattr__(k, cloned_project.__getattribute__(k))", 'attribute'),
    ('clone', 'WBS.__clone', 'pjplan/wbs.py', "                cloned_project.__setattr__(k, self.__getattribute__(k))", "                self.__setattr__(k, self.__getattribute__(k))", 'carried-over'),
    ('clone', 'WBS.__clone', 'pjplan/wbs.py', "            if not k.startswith('_'):\n                cloned_project.__setattr__(k, self.__getattribute__(k))", "            if not k.startswith('_') and k != 'name':\n                cloned_project.__setattr__(k, self.__getattribute__(k))", 'carried-over'),
    ('clone', 'WBS.__clone', 'pjplan/wbs.py', "        cloned_project.roots = [cloned_tasks[r.id] for r in roots]", "        cloned_project.roots = [cloned_tasks[r.id] for r in self.roots]", 'roots'),
    ('clone', 'WBS.__clone', 'pjplan/wbs.py', "        cloned_project.roots = [cloned_tasks[r.id] for r in roots]\n", "        cloned_project.roots = [cloned_tasks[r.id] for r in roots]\n        cloned_project = WBS()\n", 'roots'),
    ('clone', 'Task.clone', 'pjplan/task.py', "            if not k.startswith('_'):\n                cloned.__setattr__(k, self.__getattribute__(k))", "            if not k.startswith('_') and k != 'min_start':\n                cloned.__setattr__(k, self.__getattribute__(k))", 'copied'),
    ('render', 'mermaid_task_state', 'pjplan/viz/mermaid/gantt.py', "        if task.milestone:\n            return 'milestone,'\n        if task.end <= now:\n            return 'done,'", "        if task.end <= now:\n            return 'done,'\n        if task.milestone:\n            return 'milestone,'", 'milestone'),
    ('render', 'progress', 'pjplan/viz/dhtmlx/gantt.py', "progress = 1 - (max(t.estimate - t.spent, 0))/t.estimate", "progress = t.spent / t.estimate", 'progress'),
]


def run(filt=None):
    res = []
    for mod, unit, rel, old, new, expect in M:
        if filt and filt not in f'{mod} {unit}': continue
        d = tempfile.mkdtemp(prefix='mutsrc'); shutil.copytree('/repo/src', d + '/src')
        try:
            p = f'{d}/src/{rel}'; s = open(p).read()
            if old not in s:
                res.append((mod, unit, 'PATTERN-NOT-FOUND', '')); continue
            open(p, 'w').write(s.replace(old, new, 1))
            code = ("import sys; sys.path.insert(0, %r)\nimport importlib, json\nfrom pyvc.unit import run_units\n"
                    "m = importlib.import_module('contracts.%s'); us = [u for u in m.UNITS if %r in u.name]\nr = run_units(us, timeout_ms=6000)\n"
                    "out = {}\nfor n, x in r.items():\n    out[n] = {'undecided': x.get('undecided'), 'failed': [k for k, a in x.get('obligations', {}).items() if a['status'] != 'proved']}\nprint(json.dumps(out))\n") % (ROOT, mod, unit)
            r = subprocess.run(['python3-vt', '-c', code], env=dict(os.environ, PJPLAN_SRC=d + '/src', PYTHONHASHSEED='0'), capture_output=True, text=True)
            out = json.loads(r.stdout.strip().splitlines()[-1]) if r.stdout.strip() else {}
            failed = [f for v in out.values() for f in v['failed']]; und = [v['undecided'] for v in out.values() if v['undecided']]
            if any(expect in f for f in failed): verdict = 'KILLED'
            elif failed: verdict = 'KILLED(other obligation)'
            elif und: verdict = 'U'
            else: verdict = 'SURVIVED'
            res.append((mod, unit, verdict, ', '.join(failed[:3]) or (und[0][:80] if und else '')))
        finally:
            shutil.rmtree(d)
    return res


if __name__ == '__main__':
    rows = run(sys.argv[1] if len(sys.argv) > 1 else None)
    for r in rows: print('%-9s %-42s %-26s %s' % r)
    bad = [r for r in rows if r[2] in ('SURVIVED', 'PATTERN-NOT-FOUND')]
    print(f'{len(rows)} mutants, {len(rows) - len(bad)} killed or undecided, {len(bad)} survived / not applicable')
    sys.exit(1 if bad else 0)
