#!/usr/bin/env python3-vt
"""Vacuity report (guard of DESIGN.md section 7): for every verification unit, every path that carries a non-cover obligation is asked whether its
hypotheses are contradictory (small budget).  A contradictory path proves anything; that is expected for branches the contract excludes, but an
obligation NAME all of whose paths are contradictory is never really checked - those are listed (exit 1).  The loop-head / entry covers of the
normal run only see contradictions that exist at those points; this report also sees the ones that arise later (e.g. a local the loop forgot to havoc).
usage: selftest/vacuity_report.py [module[,module...]] [unit substring]"""
import sys, os, importlib, multiprocessing, time
ROOT = os.path.dirname(os.path.dirname(os.path.abspath(__file__))); sys.path.insert(0, ROOT)
if os.environ.get('PYTHONHASHSEED') != '0':
    os.environ['PYTHONHASHSEED'] = '0'; os.execv(sys.executable, [sys.executable] + sys.argv)
from z3 import BoolVal
from pyvc import core, solve
from checks.check import CONTRACT_MODULES

_U = {}


def work(name):
    u = _U[name]
    try:
        core.reset_fresh(); eng, ax = u.build(); obs = u.select(eng.run()); ax = list(ax) + core.TIME_AXIOMS
    except Exception as e:
        return name, None, repr(e)[:200]
    per = {}; memo = {}
    for (ob, hyps, goal, detail) in obs:
        if goal is None: continue
        key = tuple(h.get_id() for h in hyps)
        if key not in memo:
            memo[key] = solve.check_one(hyps, BoolVal(False), ax, 400)[0] == 'unsat'
        d = per.setdefault(ob, [0, 0]); d[0] += 1; d[1] += memo[key]
    return name, per, None


if __name__ == '__main__':
    mods = sys.argv[1].split(',') if len(sys.argv) > 1 and sys.argv[1] != '-' else CONTRACT_MODULES
    for m in mods:
        for u in importlib.import_module('contracts.' + m).UNITS:
            if len(sys.argv) > 2 and sys.argv[2] not in u.name: continue
            _U[u.name] = u
    expected = set()
    for line in open(os.path.join(ROOT, 'selftest', 'vacuity_expected.txt')):
        if line.strip() and not line.startswith('#'): expected.add(tuple(x.strip() for x in line.split('::')[:2]))
    t0 = time.time(); bad = 0
    with multiprocessing.get_context('fork').Pool(14) as pool:
        for name, per, err in pool.imap_unordered(work, list(_U)):
            if per is None: print(f'{name}: could not be built: {err}'); continue
            tot = sum(v[0] for v in per.values()); vac = sum(v[1] for v in per.values())
            dead = [ob for ob, v in per.items() if v[0] == v[1] and (name, ob) not in expected and not any(u_ == name and o_.endswith('*') and ob.startswith(o_[:-1]) for u_, o_ in expected)]
            print(f'{name:58s} obligation paths {tot:5d}  on contradictory hypotheses {vac:5d}' + (f'   NEVER REALLY CHECKED: {dead[:6]}' if dead else ''))
            bad += len(dead)
    print(f'{len(_U)} units, {bad} obligation names without a single satisfiable path, {round(time.time() - t0)} s')
    sys.exit(1 if bad else 0)
