"""pyvc core: verification-condition generation from the real pjplan AST (DESIGN.md sections 2-5).

Forward symbolic execution of ONE function at a time.  Branches fork paths; loops are cut by sidecar invariants;
calls are replaced by the callee's contract (a Python callable that obliges the pre-condition, havocs the frame and
assumes the post-condition); every exit is checked against the function's contract.  Each obligation is a triple
(name, hypotheses, goal) discharged separately by an SMT solver (pyvc.solve).

Anything outside the supported subset raises `Unsupported` - the function is then *undecided*, never proved and
never a violation.
"""
import ast, itertools, hashlib, os
from z3 import (IntSort, RealSort, BoolSort, StringSort, DeclareSort, Datatype, Const, Function, ArraySort, Select, Store,
                IntVal, RealVal, BoolVal, StringVal, ToReal, ToInt, And, Or, Not, Implies, If, ForAll, Exists, MultiPattern,
                is_true, is_false, simplify, is_app, Z3_OP_NOT, Z3_OP_STORE, Length, SubString, Concat, SuffixOf, PrefixOf, Contains, K)

SRC = os.environ.get('PJPLAN_SRC', '/repo/src')


# ------------------------------------------------------------------------------------------------ sorts
class S:
    def __init__(self, name, z):
        self.name, self.z = name, z

    def __repr__(self):
        return self.name

    def __eq__(self, o):
        return isinstance(o, S) and o.name == self.name

    def __hash__(self):
        return hash(self.name)

    @property
    def is_ref(self):
        return self.name.startswith('Ref:')

    @property
    def is_opt(self):
        return self.name.startswith('Opt[')

    @property
    def is_list(self):
        return self.name.startswith('List[')


INT = S('Int', IntSort()); REAL = S('Real', RealSort()); BOOL = S('Bool', BoolSort()); STR = S('Str', StringSort())
TIME = S('Time', RealSort()); DELTA = S('Delta', RealSort()); NONE = S('None', None)
_refs, _opts, _lists = {}, {}, {}


def REF(cls):
    if cls not in _refs:
        z = DeclareSort(cls)
        s = S('Ref:' + cls, z); s.null = Const('null_' + cls, z); s.cls = cls
        _refs[cls] = s
    return _refs[cls]


def OPT(base):
    if base.name not in _opts:
        d = Datatype('Opt_' + _clean(base.name)); d.declare('none'); d.declare('some', ('val', base.z)); d = d.create()
        s = S('Opt[' + base.name + ']', d); s.base = base; s.dt = d
        _opts[base.name] = s
    return _opts[base.name]


def _clean(n):
    return n.replace(':', '_').replace('[', '_').replace(']', '_')


def LIST(elem):
    """abstract list *values* (immutable mathematical sequences with len/at)"""
    if elem.name not in _lists:
        z = DeclareSort('L_' + _clean(elem.name))
        s = S('List[' + elem.name + ']', z); s.elem = elem
        s.len = Function('len_' + z.name(), z, IntSort()); s.at = Function('at_' + z.name(), z, IntSort(), elem.z)
        _lists[elem.name] = s
    return _lists[elem.name]


class V:
    """a symbolic Python value: z3 term + sort"""

    def __init__(self, e, s):
        self.e, self.s = e, s

    def __repr__(self):
        return f'V({self.e}:{self.s})'


def is_num(s):
    return s in (INT, REAL)


class Unsupported(Exception):
    pass


_fresh = itertools.count()


def fresh(name, sort):
    return Const(f'{name}!{next(_fresh)}', sort.z if isinstance(sort, S) else sort)


def fresh_id():
    return next(_fresh)


def reset_fresh():
    """names of fresh constants restart per unit: the queries of a unit are textually identical on every run, whatever the worker
    process did before (stable solver behaviour)"""
    global _fresh
    _fresh = itertools.count()


# Calendar days: dayidx (= floor(t / 86400)) and midnight are uninterpreted functions characterised by linear axioms - no to_int
# terms (which the solver handles badly) and no arithmetic needed for "the midnight of a midnight is itself".
# TIME_AXIOMS is added to the axioms of every unit (part of assumption A-time).
_dayfn = Function('dayidx', RealSort(), IntSort())
_midfn = Function('midnight', RealSort(), RealSort())
_tt = Const('_tt', RealSort())
TIME_AXIOMS = [ForAll([_tt], And(86400 * ToReal(_dayfn(_tt)) <= _tt, _tt < 86400 * ToReal(_dayfn(_tt)) + 86400), patterns=[_dayfn(_tt)]),
               ForAll([_tt], And(_midfn(_tt) == 86400 * ToReal(_dayfn(_tt)), _dayfn(_midfn(_tt)) == _dayfn(_tt)), patterns=[_midfn(_tt)])]


def dayidx(t):
    return _dayfn(t)


def midnight(t):
    return _midfn(t)


# ------------------------------------------------------------------------------------------------ state
class St:
    def __init__(self, env=None, heap=None, conds=None, obs=None, ghost=None):
        self.env = dict(env or {}); self.heap = dict(heap or {}); self.conds = list(conds or [])
        self.obs = obs if obs is not None else []
        self.ghost = dict(ghost or {})

    def fork(self, cond=None):
        s = St(self.env, self.heap, self.conds, self.obs, self.ghost)
        if cond is not None:
            s.conds.append(cond)
        return s

    def assume(self, c):
        self.conds.append(c)

    def oblige(self, name, goal, detail=''):
        if is_true(goal):
            return
        self.obs.append((name, list(self.conds), goal, detail))


class Raise:
    def __init__(self, exc):
        self.exc = exc


class Ret:
    def __init__(self, v):
        self.v = v


FALL = object()
BREAK = 'break'
CONTINUE = 'continue'


class ExcV:
    """value of an exception constructor call"""

    def __init__(self, name):
        self.name = name


EXC = S('Exc', None)


# ------------------------------------------------------------------------------------------------ source access
class Source:
    """one repository file, re-read on every run"""
    _cache = {}

    def __init__(self, relpath):
        self.relpath = relpath
        self.path = os.path.join(SRC, relpath)
        self.text = open(self.path).read()
        self.sha = hashlib.sha256(self.text.encode()).hexdigest()
        self.tree = ast.parse(self.text)

    @classmethod
    def get(cls, relpath):
        key = (SRC, relpath)
        if key not in cls._cache:
            cls._cache[key] = Source(relpath)
        return cls._cache[key]

    def find(self, qualname):
        """`f`, `Class.m`, `Class.p.setter`, `Class.p.getter`, `Class.m.nested` -> (FunctionDef, class name or None)"""
        parts = qualname.split('.')
        body = self.tree.body; cls = None
        if len(parts) > 1 and any(isinstance(n, ast.ClassDef) and n.name == parts[0] for n in body):
            cls = parts[0]
            body = next(n for n in body if isinstance(n, ast.ClassDef) and n.name == cls).body
            parts = parts[1:]
        name = parts[0]; want = parts[1] if len(parts) > 1 and parts[1] in ('setter', 'getter') else None
        cands = []
        for n in body:
            if isinstance(n, ast.FunctionDef) and n.name == name:
                decs = [ast.unparse(d) for d in n.decorator_list]
                is_setter = any(d.endswith('.setter') for d in decs)
                if want == 'setter' and not is_setter: continue
                if want == 'getter' and is_setter: continue
                if want is None and is_setter: continue
                cands.append(n)
        if len(cands) != 1:
            raise Unsupported(f'function {qualname} not found (or ambiguous) in {self.relpath}')
        fn = cands[0]
        rest = parts[2:] if want else parts[1:]
        for nested in rest:
            inner = [n for n in ast.walk(fn) if isinstance(n, ast.FunctionDef) and n.name == nested and n is not fn]
            if len(inner) != 1:
                raise Unsupported(f'nested function {nested} not found in {qualname}')
            fn = inner[0]
        return fn, cls

    def class_names(self, cls):
        """names defined in a class body (methods, properties, class attributes): models dir()/class-level lookup"""
        for n in self.tree.body:
            if isinstance(n, ast.ClassDef) and n.name == cls:
                out = set()
                for m in n.body:
                    if isinstance(m, ast.FunctionDef): out.add(m.name)
                    elif isinstance(m, ast.Assign):
                        for t in m.targets:
                            if isinstance(t, ast.Name): out.add(t.id)
                return out
        raise Unsupported('class ' + cls)


def loop_fingerprint(n):
    if isinstance(n, ast.For):
        return 'for ' + ast.unparse(n.target) + ' in ' + ast.unparse(n.iter)
    return 'while ' + ast.unparse(n.test)


# ------------------------------------------------------------------------------------------------ engine
class Engine:
    """symbolic executor for one function.

    contracts: {key: callable(engine, st, recv, args, kwargs, node) -> [(st, V | Raise)]}
        keys:  'Class.method' (mangled method name), 'prop:Class.attr', 'setprop:Class.attr', 'fn:name'
    classes:   {class: {field: sort}}        heap fields (mangled names)
    fc:        function contract dict: sig, locals, requires, ensures, raises, loops
    """

    def __init__(self, relpath, qualname, contracts, classes, fc, plugins=()):
        self.src = Source.get(relpath)
        self.qualname = qualname
        self.fn, self.cls = self.src.find(qualname)
        self.contracts = contracts; self.classes = classes; self.fc = fc
        self.plugins = list(plugins)
        def own_nodes(fn):       # the statements of this function, not those of functions defined inside it (they are units of their own)
            todo = list(fn.body)
            while todo:
                n = todo.pop()
                yield n
                if not isinstance(n, (ast.FunctionDef, ast.Lambda)): todo.extend(ast.iter_child_nodes(n))
        loops = [n for n in own_nodes(self.fn) if isinstance(n, (ast.For, ast.While))]
        # ordinal = syntactic order (line, column), not ast.walk's breadth-first order
        loops.sort(key=lambda n: (n.lineno, n.col_offset))
        self.loop_ids = {id(n): k for k, n in enumerate(loops)}
        self.loop_nodes = loops
        self.locals = dict(fc.get('locals', {}))
        self.ghost_sorts = fc.get('ghost', {})
        self.check_fingerprints()

    def check_fingerprints(self):
        """loop contracts are matched to the loops of the source by fingerprint, in order (not by bare ordinal): a deleted or added
        loop must not shift the remaining invariants onto the wrong loops.  A source loop without a contract makes the function
        undecided; a contract loop that no longer exists in the source is dropped (its absence shows in the post-conditions)."""
        want = self.fc.get('loops', {})
        self.loop_contract = {}          # source ordinal -> (contract ordinal, loop contract)
        if self.fc.get('expressions_only'):          # the engine is only used to evaluate sub-expressions of the function
            self.dropped_loops = []; return
        ks = sorted(want); pos = 0
        for src_k, node in enumerate(self.loop_nodes):
            fp = loop_fingerprint(node)
            found = None
            for j in range(pos, len(ks)):
                cfp = want[ks[j]].get('fingerprint')
                if cfp is None or cfp == fp:
                    found = j; break
            if found is None:
                raise Unsupported(f'{self.qualname}: loop `{fp}` has no invariant in the contract')
            self.loop_contract[src_k] = (ks[found], want[ks[found]]); pos = found + 1
        self.dropped_loops = [k for k in ks if k not in [v[0] for v in self.loop_contract.values()]]

    def mangle(self, name):
        if name.startswith('__') and not name.endswith('__') and self.cls:
            return '_' + self.cls.lstrip('_') + name
        return name

    # ---------------------------------------------------------------- heap
    def fsort(self, cls, fname):
        if fname not in self.classes.get(cls, {}):
            raise Unsupported(f'unknown field {cls}.{fname}')
        return self.classes[cls][fname]

    def field(self, st, cls, fname):
        key = cls + '.' + fname
        if key not in st.heap:
            st.heap[key] = Const('H_' + key + '_0', ArraySort(REF(cls).z, self.fsort(cls, fname).z))
        return st.heap[key]

    def write(self, st, key, arr):
        """fresh constant per heap version: quantifier patterns must not contain Store/ite terms"""
        cls, f = key.split('.', 1)
        n = Const(f'H_{key}!{next(_fresh)}', ArraySort(REF(cls).z, self.fsort(cls, f).z))
        st.assume(n == arr); st.heap[key] = n
        if is_app(arr) and arr.decl().kind() == Z3_OP_STORE:
            st.assume(Select(n, arr.arg(1)) == arr.arg(2))          # redundant; lets E-matching see the written value without array reasoning

    def havoc(self, st, key):
        cls, f = key.split('.', 1)
        st.heap[key] = Const(f'H_{key}!{next(_fresh)}', ArraySort(REF(cls).z, self.fsort(cls, f).z))

    # ---------------------------------------------------------------- coercions
    def coerce(self, v, target):
        if v.s == target: return v.e
        if v.s == INT and target in (REAL, TIME, DELTA): return ToReal(v.e)
        if v.s == BOOL and target == INT: return If(v.e, 1, 0)
        if v.s == NONE and target.is_opt: return target.dt.none
        if target.is_opt and (v.s == target.base or (v.s == INT and target.base in (REAL,))): return target.dt.some(self.coerce(v, target.base))
        if target.is_opt and v.s.is_opt: raise Unsupported(f'coerce {v.s} -> {target}')
        if v.s == NONE and target.is_ref: return target.null
        if v.s in (REAL, TIME, DELTA) and target in (REAL, TIME, DELTA): return v.e
        raise Unsupported(f'coerce {v.s} -> {target}')

    def as_sort(self, st, v, target, what, detail=''):
        if v.s.is_opt and not target.is_opt:
            st.oblige(what, v.s.dt.is_some(v.e), detail); v = V(v.s.dt.val(v.e), v.s.base)
        return self.coerce(v, target)

    def unwrap(self, st, v, what, detail=''):
        if v.s.is_opt:
            st.oblige(what, v.s.dt.is_some(v.e), detail); return V(v.s.dt.val(v.e), v.s.base)
        if v.s == NONE:
            st.oblige(what, BoolVal(False), detail); return V(RealVal(0), REAL)
        return v

    # ---------------------------------------------------------------- expressions: list of (state, V | Raise)
    def ev(self, e, st):
        for p in self.plugins:
            h = getattr(p, 'ev_' + type(e).__name__, None)
            if h is not None:
                r = h(self, e, st)
                if r is not NotImplemented: return r
        m = getattr(self, 'ev_' + type(e).__name__, None)
        if m is None:
            raise Unsupported(f'expression {type(e).__name__} @{getattr(e, "lineno", "?")}')
        return m(e, st)

    def ev1(self, e, st):
        """single-path evaluation (raises Unsupported if the expression forks or may raise)"""
        r = self.ev(e, st)
        if len(r) != 1 or isinstance(r[0][1], Raise):
            raise Unsupported(f'forking / raising sub-expression @{getattr(e, "lineno", "?")}: {ast.unparse(e)[:60]}')
        return r[0]

    def ev_seq(self, exprs, st):
        """evaluate expressions left to right over all paths: list of (state, [values]) | (state, Raise)"""
        states = [(st, [])]
        for a in exprs:
            nxt = []
            for s, vs in states:
                if isinstance(vs, Raise): nxt.append((s, vs)); continue
                for s2, v in self.ev(a, s):
                    nxt.append((s2, v if isinstance(v, Raise) else vs + [v]))
            states = nxt
        return states

    def ev_Lit(self, e, st):
        return [(st, e.v)]

    def ev_Constant(self, e, st):
        c = e.value
        if c is None: return [(st, V(None, NONE))]
        if isinstance(c, bool): return [(st, V(BoolVal(c), BOOL))]
        if isinstance(c, int): return [(st, V(IntVal(c), INT))]
        if isinstance(c, float): return [(st, V(RealVal(repr(c)), REAL))]
        if isinstance(c, str): return [(st, V(StringVal(c), STR))]
        raise Unsupported('constant ' + repr(c))

    def ev_Name(self, e, st):
        if e.id in st.env: return [(st, st.env[e.id])]
        g = self.fc.get('globals', {})
        if e.id in g: return [(st, g[e.id])]
        raise Unsupported('name ' + e.id)

    def ev_Attribute(self, e, st):
        out = []
        for s, o in self.ev(e.value, st):
            if isinstance(o, Raise): out.append((s, o)); continue
            out += self.getattr(s, o, e.attr, e)
        return out

    def getattr(self, s, o, attr, node):
        if o.s.is_ref:
            cls = o.s.cls
            key = f'prop:{cls}.{attr}'
            s.oblige('safe/AttributeError-None', o.e != o.s.null, f'.{attr} @{node.lineno}')
            if key in self.contracts:
                return self.contracts[key](self, s, o, [], {}, node)
            f = self.mangle(attr)
            return [(s, V(Select(self.field(s, cls, f), o.e), self.fsort(cls, f)))]
        if o.s.is_opt and o.s.base.is_ref:
            raise Unsupported('attribute of optional reference')
        raise Unsupported(f'attribute .{attr} on {o.s} @{node.lineno}')

    def ev_BinOp(self, e, st):
        out = []
        for s, vs in self.ev_seq([e.left, e.right], st):
            if isinstance(vs, Raise): out.append((s, vs)); continue
            out.append((s, self.binop(s, e.op, vs[0], vs[1], e.lineno)))
        return out

    def binop(self, st, op, l, r, line):
        k = type(op).__name__
        for p in self.plugins:
            h = getattr(p, 'binop', None)
            if h is not None:
                res = h(self, st, k, l, r, line)
                if res is not NotImplemented: return res
        if l.s == STR and r.s == STR and k == 'Add': return V(Concat(l.e, r.e), STR)
        if l.s == STR and r.s == INT and k == 'Mult':
            raise Unsupported('str * int (needs the text theory)')
        l = self.unwrap(st, l, 'safe/TypeError-None-arith', f'@{line}'); r = self.unwrap(st, r, 'safe/TypeError-None-arith', f'@{line}')
        if l.s == TIME and r.s == DELTA and k in ('Add', 'Sub'): return V(l.e + r.e if k == 'Add' else l.e - r.e, TIME)
        if l.s == TIME and r.s == TIME and k == 'Sub': return V(l.e - r.e, DELTA)
        if l.s == DELTA and r.s == DELTA and k in ('Add', 'Sub'): return V(l.e + r.e if k == 'Add' else l.e - r.e, DELTA)
        if is_num(l.s) and is_num(r.s):
            both_int = l.s == INT and r.s == INT
            a = l.e if both_int or l.s == REAL else ToReal(l.e); b = r.e if both_int or r.s == REAL else ToReal(r.e)
            if k == 'Add': return V(a + b, INT if both_int else REAL)
            if k == 'Sub': return V(a - b, INT if both_int else REAL)
            if k == 'Mult': return V(a * b, INT if both_int else REAL)
            if k == 'Div':
                st.oblige('safe/ZeroDivisionError', b != 0, f'@{line}')
                a = ToReal(a) if both_int else a; b = ToReal(b) if both_int else b
                return V(a / b, REAL)
        raise Unsupported(f'binop {k} {l.s} {r.s} @{line}')

    def ev_UnaryOp(self, e, st):
        out = []
        for s, o in self.ev(e.operand, st):
            if isinstance(o, Raise): out.append((s, o)); continue
            if isinstance(e.op, ast.Not): out.append((s, V(Not(self.truth(s, o)), BOOL)))
            elif isinstance(e.op, ast.USub) and (is_num(o.s) or o.s == DELTA): out.append((s, V(-o.e, o.s)))
            else: raise Unsupported('unary ' + type(e.op).__name__)
        return out

    def truth(self, st, v):
        for p in self.plugins:
            h = getattr(p, 'truth', None)
            if h is not None:
                r = h(self, st, v)
                if r is not NotImplemented: return r
        if v.s == BOOL: return v.e
        if v.s.is_ref: return v.e != v.s.null
        if v.s == NONE: return BoolVal(False)
        if v.s == INT or v.s == REAL: return v.e != 0
        if v.s.is_opt and v.s.base in (INT, REAL): return And(v.s.dt.is_some(v.e), v.s.dt.val(v.e) != 0)          # None and 0 / 0.0 are falsy
        if v.s == STR: return Length(v.e) > 0
        if v.s.is_opt and v.s.base == STR: return And(v.s.dt.is_some(v.e), Length(v.s.dt.val(v.e)) > 0)
        if v.s.is_opt and v.s.base == TIME: return v.s.dt.is_some(v.e)            # datetime objects are always truthy
        if v.s.is_opt and v.s.base.is_ref: return v.s.dt.is_some(v.e)
        if v.s.is_list: return v.s.len(v.e) > 0
        raise Unsupported(f'truthiness of {v.s}')

    def ev_Compare(self, e, st):
        # chains a < b <= c: evaluate all operands once (left to right), conjunction of the links; Python stops at the
        # first false link but operands here must be side-effect free single-path expressions anyway
        out = []
        for s, vs in self.ev_seq([e.left] + list(e.comparators), st):
            if isinstance(vs, Raise): out.append((s, vs)); continue
            links = []
            for i, op in enumerate(e.ops):
                c = self.cmp(s, op, vs[i], vs[i + 1], e.lineno)
                links.append(c); s.conds.append(c)            # later links are only evaluated if the earlier ones hold
            s.conds[:] = [h for h in s.conds if not any(h is g for g in links)]
            out.append((s, V(And(*links) if len(links) > 1 else links[0], BOOL)))
        return out

    def cmp(self, st, op, l, r, line):
        k = type(op).__name__
        for p in self.plugins:
            h = getattr(p, 'cmp', None)
            if h is not None:
                res = h(self, st, k, l, r, line)
                if res is not NotImplemented: return res
        if k in ('Is', 'IsNot'):
            if r.s == NONE:
                if l.s.is_opt: c = l.s.dt.is_none(l.e)
                elif l.s.is_ref: c = l.e == l.s.null
                elif l.s == NONE: c = BoolVal(True)
                else: c = BoolVal(False)
            elif l.s.is_ref and r.s == l.s: c = l.e == r.e
            else: raise Unsupported(f'is between {l.s} and {r.s}')
            return c if k == 'Is' else Not(c)
        if k in ('Eq', 'NotEq'):
            if (l.s.is_ref or l.s == NONE) and (r.s.is_ref or r.s == NONE):
                tgt = l.s if l.s != NONE else r.s
                if tgt == NONE: c = BoolVal(True)
                else: c = self.coerce(l, tgt) == self.coerce(r, tgt)          # identity: no class of the repository defines __eq__
                return c if k == 'Eq' else Not(c)
            if l.s == STR and r.s == STR: return (l.e == r.e) if k == 'Eq' else (l.e != r.e)
            if l.s == BOOL and r.s == BOOL: return (l.e == r.e) if k == 'Eq' else (l.e != r.e)
            if l.s.is_opt and r.s == NONE: c = l.s.dt.is_none(l.e); return c if k == 'Eq' else Not(c)
            if l.s.is_opt and (r.s == l.s.base or (r.s == INT and l.s.base == REAL)):
                c = And(l.s.dt.is_some(l.e), l.s.dt.val(l.e) == self.coerce(r, l.s.base)); return c if k == 'Eq' else Not(c)
            if l.s.is_opt and r.s == l.s: return (l.e == r.e) if k == 'Eq' else (l.e != r.e)
        l = self.unwrap(st, l, 'safe/TypeError-None-compare', f'@{line}'); r = self.unwrap(st, r, 'safe/TypeError-None-compare', f'@{line}')
        if (is_num(l.s) or l.s in (TIME, DELTA)) and (is_num(r.s) or r.s in (TIME, DELTA)):
            a = ToReal(l.e) if l.s == INT and r.s != INT else l.e; b = ToReal(r.e) if r.s == INT and l.s != INT else r.e
            return {'Lt': a < b, 'LtE': a <= b, 'Gt': a > b, 'GtE': a >= b, 'Eq': a == b, 'NotEq': a != b}[k]
        raise Unsupported(f'compare {k} {l.s} {r.s} @{line}')

    def ev_BoolOp(self, e, st):
        # short-circuit: operand k is evaluated (and its safety obligations are generated) under the assumption that
        # operands < k did not decide the result; operands must not fork
        is_and = isinstance(e.op, ast.And)
        for p in self.plugins:
            h = getattr(p, 'boolop', None)
            if h is not None:
                r = h(self, e, st)
                if r is not NotImplemented: return r
        vals = []; s = st; guards = []
        for x in e.values:
            s, v = self.ev1(x, s)
            t = self.truth(s, v); vals.append(t)
            g = t if is_and else Not(t)
            guards.append(g); s.conds.append(g)
        # drop only the short-circuit guards; assumptions made by contracts evaluated inside the operands stay
        s.conds[:] = [h for h in s.conds if not any(h is g for g in guards)]
        return [(s, V(And(*vals) if is_and else Or(*vals), BOOL))]

    def ev_IfExp(self, e, st):
        out = []
        for s, c in self.ev(e.test, st):
            if isinstance(c, Raise): out.append((s, c)); continue
            t = self.truth(s, c)
            out += self.ev(e.body, s.fork(t)); out += self.ev(e.orelse, s.fork(Not(t)))
        return out

    def ev_JoinedStr(self, e, st):
        """f-string: the text is dropped (opaque string) but the embedded expressions are evaluated for their own exceptions"""
        s = st
        for part in e.values:
            if isinstance(part, ast.FormattedValue):
                try:
                    s, _ = self.ev1(part.value, s)
                except Unsupported:
                    pass
        return [(s, V(fresh('fstr', STR), STR))]

    def ev_Lambda(self, e, st):
        return [(st, V(e, S('Lambda', None)))]

    def ev_Tuple(self, e, st):
        out = []
        for s, vs in self.ev_seq(e.elts, st):
            out.append((s, vs if isinstance(vs, Raise) else V(tuple(vs), S('Tuple', None))))
        return out

    # ---- calls
    def ev_Call(self, e, st):
        f = e.func
        for p in self.plugins:
            h = getattr(p, 'call', None)
            if h is not None:
                r = h(self, e, st)
                if r is not NotImplemented: return r
        if isinstance(f, ast.Name):
            name = f.id
            if name in ('RuntimeError', 'ValueError', 'TypeError', 'IndexError', 'KeyError', 'StopIteration'):
                s = st
                for a in e.args:          # arguments are evaluated for their own exceptions; the message text is dropped
                    try:
                        rs = self.ev(a, s)
                    except Unsupported:
                        continue
                    bad = [x for x in rs if isinstance(x[1], Raise)]
                    if bad: return [(bad[0][0], bad[0][1])]
                    s = rs[0][0]
                return [(s, V(ExcV(name), EXC))]
            if name == 'timedelta':
                if len(e.keywords) != 1 or e.args: raise Unsupported('timedelta form')
                kw = e.keywords[0]; out = []
                for s, v in self.ev(kw.value, st):
                    if isinstance(v, Raise): out.append((s, v)); continue
                    mult = {'days': 86400, 'hours': 3600}[kw.arg]
                    v = self.unwrap(s, v, 'safe/TypeError-None-arith', f'timedelta @{e.lineno}')
                    out.append((s, V(mult * (ToReal(v.e) if v.s == INT else v.e), DELTA)))
                return out
            if name == 'datetime':
                a = e.args
                if [getattr(x, 'value', None) for x in a] == [1970, 1, 1]: return [(st, V(RealVal(0), TIME))]
                if len(a) >= 3 and all(isinstance(x, ast.Attribute) for x in a[:3]) and [x.attr for x in a[:3]] == ['year', 'month', 'day'] \
                        and len({ast.dump(x.value) for x in a[:3]}) == 1 and all(isinstance(x, ast.Constant) and x.value == 0 for x in a[3:]):
                    out = []
                    for s, v in self.ev(a[0].value, st):
                        if isinstance(v, Raise): out.append((s, v)); continue
                        out.append((s, V(midnight(self.as_sort(s, v, TIME, 'safe/AttributeError-None', f'datetime(d.year...) @{e.lineno}')), TIME)))
                    return out
                raise Unsupported('datetime constructor form')
            if name in ('min', 'max') and len(e.args) >= 2 and not e.keywords:
                out = []
                for s, vs in self.ev_seq(e.args, st):
                    if isinstance(vs, Raise): out.append((s, vs)); continue
                    acc = self.unwrap(s, vs[0], 'safe/TypeError-None-compare', f'{name} @{e.lineno}')
                    for nxt in vs[1:]:
                        nxt = self.unwrap(s, nxt, 'safe/TypeError-None-compare', f'{name} @{e.lineno}')
                        so = acc.s if acc.s != INT else nxt.s
                        if so == INT: a, b = acc.e, nxt.e
                        else: a = ToReal(acc.e) if acc.s == INT else acc.e; b = ToReal(nxt.e) if nxt.s == INT else nxt.e
                        acc = V(If(a <= b, a, b) if name == 'min' else If(a >= b, a, b), so)
                    out.append((s, acc))
                return out
            if name == 'id' and len(e.args) == 1:
                return self.ev(e.args[0], st)            # id() is injective on live objects: compared as identities
            if name == 'len' and len(e.args) == 1:
                out = []
                for s, v in self.ev(e.args[0], st):
                    if isinstance(v, Raise): out.append((s, v)); continue
                    out.append((s, self.length(s, v, e)))
                return out
            if name == 'abs' and len(e.args) == 1:
                s, v = self.ev1(e.args[0], st)
                return [(s, V(If(v.e >= 0, v.e, -v.e), v.s))]
            if name == 'isinstance':
                raise Unsupported('isinstance')
            if name == 'print':
                return [(st, V(None, NONE))]
            if ('fn:' + name) in self.contracts:
                out = []
                for s, vs in self.ev_seq(e.args, st):
                    if isinstance(vs, Raise): out.append((s, vs)); continue
                    kws = {}
                    for kw in e.keywords:
                        s, kws[kw.arg] = self.ev1(kw.value, s)
                    out += self.contracts['fn:' + name](self, s, None, vs, kws, e)
                return out
            if name in st.env and st.env[name].s.name == 'Callable':
                raise Unsupported('call of a callable value')
            raise Unsupported(f'call of {name} @{e.lineno}')
        if isinstance(f, ast.Attribute):
            if f.attr == 'now' and isinstance(f.value, ast.Name) and f.value.id == 'datetime':
                prev = st.ghost.get('now'); nw = fresh('now', TIME)
                if prev is not None: st.assume(nw >= prev)
                st.ghost['now'] = nw; st.ghost.setdefault('nows', [])
                st.ghost['nows'] = st.ghost['nows'] + [nw]
                return [(st, V(nw, TIME))]
            if f.attr == 'strftime':
                s, v = self.ev1(f.value, st)
                self.unwrap(s, v, 'safe/AttributeError-None', f'.strftime @{e.lineno}')
                return [(s, V(fresh('strftime', STR), STR))]
            out = []
            for s, recv in self.ev(f.value, st):
                if isinstance(recv, Raise): out.append((s, recv)); continue
                out += self.method_call(s, recv, f.attr, e)
            return out
        raise Unsupported('call form ' + ast.dump(f)[:60])

    def length(self, s, v, node):
        if v.s.is_list: return V(v.s.len(v.e), INT)
        if v.s == STR: return V(Length(v.e), INT)
        raise Unsupported(f'len of {v.s}')

    def method_call(self, s, recv, mname, e):
        if recv.s == STR:
            return self.str_method(s, recv, mname, e)
        if recv.s == TIME and mname == 'replace' and not e.args and e.keywords and all(k.arg in ('hour', 'minute', 'second', 'microsecond') and isinstance(k.value, ast.Constant) and k.value.value == 0 for k in e.keywords):
            # d.replace(hour=0, minute=0, second=0[, microsecond=0]): the midnight of d - plus d's microseconds if those are not reset as well
            given = {k.arg for k in e.keywords}
            if {'hour', 'minute', 'second'} <= given:
                if 'microsecond' in given: return [(s, V(midnight(recv.e), TIME))]
                us = fresh('microseconds', REAL); s.assume(And(us >= 0, us < 1))          # the sub-second part of d: any value in [0, 1)
                return [(s, V(midnight(recv.e) + us, TIME))]
        if not recv.s.is_ref:
            raise Unsupported(f'method .{mname} on {recv.s} @{e.lineno}')
        key = recv.s.cls + '.' + self.mangle(mname)
        if key not in self.contracts:
            key2 = recv.s.cls + '.' + mname
            if key2 in self.contracts: key = key2
            else: raise Unsupported('no contract for ' + key)
        out = []
        for s2, vs in self.ev_seq(e.args, s):
            if isinstance(vs, Raise): out.append((s2, vs)); continue
            kws = {}
            for kw in e.keywords:
                s2, kws[kw.arg] = self.ev1(kw.value, s2)
            s2.oblige('safe/AttributeError-None', recv.e != recv.s.null, f'.{mname}() @{e.lineno}')
            out += self.contracts[key](self, s2, recv, vs, kws, e)
        return out

    def str_method(self, s, recv, mname, e):
        if mname == 'endswith' and len(e.args) == 1:
            s, a = self.ev1(e.args[0], s); return [(s, V(SuffixOf(a.e, recv.e), BOOL))]
        if mname == 'startswith' and len(e.args) == 1:
            s, a = self.ev1(e.args[0], s); return [(s, V(PrefixOf(a.e, recv.e), BOOL))]
        raise Unsupported('str method ' + mname)

    def ev_Subscript(self, e, st):
        out = []
        for s, o in self.ev(e.value, st):
            if isinstance(o, Raise): out.append((s, o)); continue
            if isinstance(e.slice, ast.Slice):
                out += self.slice(s, o, e)
                continue
            for s2, i in self.ev(e.slice, s):
                if isinstance(i, Raise): out.append((s2, i)); continue
                out.append((s2, self.index(s2, o, i, e)))
        return out

    def slice(self, s, o, e):
        if o.s == STR:
            lo = e.slice.lower; hi = e.slice.upper
            if e.slice.step is not None: raise Unsupported('slice step')
            s, l = self.ev1(lo, s) if lo is not None else (s, V(IntVal(0), INT))
            if hi is None: raise Unsupported('open slice')
            s, h = self.ev1(hi, s)
            n = Length(o.e)
            lo_e = If(l.e < 0, If(n + l.e < 0, 0, n + l.e), If(l.e > n, n, l.e))
            hi_e = If(h.e < 0, If(n + h.e < 0, 0, n + h.e), If(h.e > n, n, h.e))
            return [(s, V(SubString(o.e, lo_e, If(hi_e - lo_e < 0, 0, hi_e - lo_e)), STR))]
        raise Unsupported(f'slice of {o.s}')

    def index(self, s, o, i, e):
        if o.s.is_list and i.s == INT:
            n = o.s.len(o.e)
            s.oblige('safe/IndexError', And(i.e < n, i.e >= -n), f'@{e.lineno}')
            return V(o.s.at(o.e, If(i.e < 0, n + i.e, i.e)), o.s.elem)
        raise Unsupported(f'index {o.s}[{i.s}]')

    # ---------------------------------------------------------------- statements: list of (state, FALL | Ret | Raise | BREAK | CONTINUE)
    def block(self, stmts, st):
        states = [(st, FALL)]
        for stmt in stmts:
            nxt = []
            for s, o in states:
                if o is not FALL: nxt.append((s, o)); continue
                nxt += self.ex(stmt, s)
            states = nxt
        return states

    def ex(self, stmt, st):
        for p in self.plugins:
            h = getattr(p, 'ex_' + type(stmt).__name__, None)
            if h is not None:
                r = h(self, stmt, st)
                if r is not NotImplemented: return r
        m = getattr(self, 'ex_' + type(stmt).__name__, None)
        if m is None:
            raise Unsupported(f'statement {type(stmt).__name__} @{stmt.lineno}')
        return m(stmt, st)

    def ex_Expr(self, stmt, st):
        if isinstance(stmt.value, ast.Constant): return [(st, FALL)]          # docstring (dropped)
        return [(s, v if isinstance(v, Raise) else FALL) for s, v in self.ev(stmt.value, st)]

    def ex_FunctionDef(self, stmt, st):
        st.env[stmt.name] = V(stmt, S('LocalDef', None))
        return [(st, FALL)]

    def assign(self, s, target, v):
        """returns list of (state, FALL | Raise)"""
        for p in self.plugins:
            h = getattr(p, 'assign', None)
            if h is not None:
                r = h(self, s, target, v)
                if r is not NotImplemented: return r
        if isinstance(target, ast.Name):
            decl = self.locals.get(target.id)
            if decl is not None and isinstance(v.s, S) and v.s.z is not None or (decl is not None and v.s == NONE):
                v = V(self.as_sort(s, v, decl, 'safe/TypeError-None-narrowing', f'{target.id} @{target.lineno}'), decl)
            s.env[target.id] = v
            return [(s, FALL)]
        if isinstance(target, ast.Attribute):
            out = []
            for s2, o in self.ev(target.value, s):
                if isinstance(o, Raise): out.append((s2, o)); continue
                if not o.s.is_ref: raise Unsupported(f'attribute store on {o.s}')
                cls = o.s.cls
                s2.oblige('safe/AttributeError-None', o.e != o.s.null, f'.{target.attr} = @{target.lineno}')
                key = f'setprop:{cls}.{target.attr}'
                if key in self.contracts:
                    for s3, r in self.contracts[key](self, s2, o, [v], {}, target):
                        out.append((s3, r if isinstance(r, Raise) else FALL))
                    continue
                f = self.mangle(target.attr); fs = self.fsort(cls, f)
                self.write(s2, cls + '.' + f, Store(self.field(s2, cls, f), o.e, self.coerce(v, fs)))
                out.append((s2, FALL))
            return out
        if isinstance(target, ast.Tuple) and v.s.name == 'Tuple' and len(target.elts) == len(v.e):
            states = [(s, FALL)]
            for t, x in zip(target.elts, v.e):
                nxt = []
                for s2, o in states:
                    nxt += self.assign(s2, t, x) if o is FALL else [(s2, o)]
                states = nxt
            return states
        raise Unsupported('assignment target ' + type(target).__name__)

    def ex_Assign(self, stmt, st):
        out = []
        for s, v in self.ev(stmt.value, st):
            if isinstance(v, Raise): out.append((s, v)); continue
            if len(stmt.targets) > 1 and isinstance(v.s, S) and v.s.is_list:
                raise Unsupported(f'one list assigned to several targets @{stmt.lineno} (the targets would share the list object)')
            states = [(s, FALL)]
            for t in reversed(stmt.targets) if len(stmt.targets) > 1 else stmt.targets:     # a = b = v assigns left to right; order irrelevant for the supported targets
                nxt = []
                for s2, o in states:
                    nxt += self.assign(s2, t, v) if o is FALL else [(s2, o)]
                states = nxt
            out += states
        return out

    def ex_AnnAssign(self, stmt, st):
        if stmt.value is None: return [(st, FALL)]          # a bare annotation
        return self.ex_Assign(ast.copy_location(ast.Assign(targets=[stmt.target], value=stmt.value), stmt), st)

    def ex_AugAssign(self, stmt, st):
        for p in self.plugins:
            h = getattr(p, 'augassign', None)
            if h is not None:
                r = h(self, stmt, st)
                if r is not NotImplemented: return r
        load = ast.copy_location(ast.BinOp(left=self.as_load(stmt.target), op=stmt.op, right=stmt.value), stmt)
        return self.ex_Assign(ast.copy_location(ast.Assign(targets=[stmt.target], value=load), stmt), st)

    def as_load(self, t):
        t2 = ast.parse(ast.unparse(t), mode='eval').body
        for n in ast.walk(t2):
            n.lineno = t.lineno; n.col_offset = t.col_offset
        return t2

    def ex_Return(self, stmt, st):
        if stmt.value is None: return [(st, Ret(V(None, NONE)))]
        return [(s, v if isinstance(v, Raise) else Ret(v)) for s, v in self.ev(stmt.value, st)]

    def ex_Raise(self, stmt, st):
        out = []
        for s, v in self.ev(stmt.exc, st):
            if isinstance(v, Raise): out.append((s, v)); continue
            if v.s != EXC: raise Unsupported('raise of a non-constructor value')
            out.append((s, Raise(v.e.name)))
        return out

    def ex_Pass(self, stmt, st):
        return [(st, FALL)]

    def ex_Continue(self, stmt, st):
        return [(st, CONTINUE)]

    def ex_Break(self, stmt, st):
        return [(st, BREAK)]

    def ex_If(self, stmt, st):
        out = []
        for s, c in self.ev(stmt.test, st):
            if isinstance(c, Raise): out.append((s, c)); continue
            t = self.truth(s, c)
            ts = simplify(t)
            known_true = is_true(ts) or any(t.eq(h) or ts.eq(h) for h in s.conds)
            known_false = is_false(ts) or any(h.decl().kind() == Z3_OP_NOT and (h.arg(0).eq(t) or h.arg(0).eq(ts)) for h in s.conds if is_app(h))
            # a test already decided on this path (e.g. `if is_leaf:` repeated) does not fork again: avoids infeasible path combinations
            if not known_false: out += self.block(stmt.body, s.fork(t))
            if not known_true: out += self.block(stmt.orelse, s.fork(Not(t)))
        return out

    def ex_Try(self, stmt, st):
        if stmt.finalbody or stmt.orelse: raise Unsupported('try/finally/else')
        out = []
        for s, o in self.block(stmt.body, st):
            if isinstance(o, Raise):
                h = [x for x in stmt.handlers if x.type is None or (isinstance(x.type, ast.Name) and x.type.id == o.exc)]
                if h:
                    out += self.block(h[0].body, s); continue
            out.append((s, o))
        return out

    # ---- loops: cut by the sidecar invariant
    def modified(self, body):
        names = set()
        for n in ast.walk(ast.Module(body=body, type_ignores=[])):
            if isinstance(n, (ast.Assign, ast.AugAssign)):
                for t in (n.targets if isinstance(n, ast.Assign) else [n.target]):
                    for x in ast.walk(t):
                        if isinstance(x, ast.Name) and isinstance(x.ctx, ast.Store): names.add(x.id)
                    if isinstance(t, ast.Name): names.add(t.id)
                    if isinstance(t, ast.Subscript) and isinstance(t.value, ast.Name): names.add(t.value.id)          # d[k] = v changes the value held by the local d
            if isinstance(n, ast.For):
                for x in ast.walk(n.target):
                    if isinstance(x, ast.Name): names.add(x.id)
        return names

    def loop(self, stmt, st, guard_fn, pre_body_fn, extra_havoc=()):
        src_k = self.loop_ids[id(stmt)]
        if src_k not in self.loop_contract:
            raise Unsupported(f'{self.qualname}: loop `{loop_fingerprint(stmt)}` has no invariant')
        k, lc = self.loop_contract[src_k]          # k: the contract's ordinal (names of obligations and of the index variable _i<k>)
        entry = st.fork()
        for lab, inv in lc['invariant']:
            st.oblige(f'inv-init#{k}/{lab}', self.spec(inv, st, entry=entry), f'loop @{stmt.lineno}')
        h = st.fork()
        for n in sorted(self.modified(stmt.body) | set(lc.get('havoc', [])) | set(extra_havoc)):
            if n in h.env and isinstance(h.env[n].s, S) and h.env[n].s.z is not None:
                h.env[n] = V(fresh(n, h.env[n].s), h.env[n].s)
            elif n in self.locals:
                h.env[n] = V(fresh(n, self.locals[n]), self.locals[n])
        for g in lc.get('havoc_ghost', []): h.ghost[g] = fresh(g, self.ghost_sorts[g])
        for hk in lc.get('havoc_heap', []): self.havoc(h, hk)
        if lc.get('havoc_now') and 'now' in h.ghost:
            nw = fresh('now', TIME); h.assume(nw >= h.ghost['now']); h.ghost['now'] = nw
        for lab, inv in lc['invariant']: h.assume(self.spec(inv, h, entry=entry))
        h.obs.append((f'cover/loop#{k}-head-reachable', list(h.conds), None, f'loop @{stmt.lineno}'))
        out = []
        for s, g in guard_fn(h):
            if isinstance(g, Raise): out.append((s, g)); continue
            out.append((s.fork(Not(g)), FALL))                      # exit path
            if is_false(g): continue                                # the body is never entered
            b = s.fork(g)
            d0 = self.spec(lc['decreases'], b, entry=entry) if 'decreases' in lc else None
            for b2 in pre_body_fn(b):
                for s2, o in self.block(stmt.body, b2):
                    if o is FALL or o == CONTINUE:
                        for lab, inv in lc['invariant']:
                            s2.oblige(f'inv-pres#{k}/{lab}', self.spec(inv, s2, entry=entry), f'loop @{stmt.lineno}')
                        if d0 is not None:
                            s2.oblige(f'dec#{k}', And(d0 >= 0, self.spec(lc['decreases'], s2, entry=entry) < d0), f'loop @{stmt.lineno}')
                    elif o == BREAK:
                        out.append((s2, FALL))
                    else:
                        out.append((s2, o))
        if stmt.orelse: raise Unsupported('loop else')
        return out

    def ex_While(self, stmt, st):
        def guard(s):
            return [(s2, v if isinstance(v, Raise) else self.truth(s2, v)) for s2, v in self.ev(stmt.test, s)]
        return self.loop(stmt, st, guard, lambda b: [b])

    def ex_For(self, stmt, st):
        for p in self.plugins:
            h = getattr(p, 'for_loop', None)
            if h is not None:
                r = h(self, stmt, st)
                if r is not NotImplemented: return r
        it = stmt.iter
        k = self.loop_contract.get(self.loop_ids[id(stmt)], (self.loop_ids[id(stmt)], None))[0]; idx = f'_i{k}'
        self.locals[idx] = INT
        if isinstance(it, ast.Call) and isinstance(it.func, ast.Name) and it.func.id == 'range' and len(it.args) == 2:
            s0, lo = self.ev1(it.args[0], st); s0, hi = self.ev1(it.args[1], s0)
            s0.env[idx] = V(lo.e, INT)

            def guard(s): return [(s, s.env[idx].e < hi.e)]

            def pre(b):
                b.env[stmt.target.id] = V(b.env[idx].e, INT); b.env[idx] = V(b.env[idx].e + 1, INT); return [b]
            return self.loop(stmt, s0, guard, pre, extra_havoc=[idx])
        if isinstance(it, ast.Call) and isinstance(it.func, ast.Name) and it.func.id == 'range' and len(it.args) == 3 and ast.unparse(it.args[2]) == '-1':
            # range(hi, lo, -1): hi, hi-1, ..., lo+1   (index variable _i<k> holds the NEXT value to be taken)
            s0, hi = self.ev1(it.args[0], st); s0, lo = self.ev1(it.args[1], s0)
            s0.env[idx] = V(hi.e, INT)

            def guard(s): return [(s, s.env[idx].e > lo.e)]

            def pre(b):
                b.env[stmt.target.id] = V(b.env[idx].e, INT); b.env[idx] = V(b.env[idx].e - 1, INT); return [b]
            return self.loop(stmt, s0, guard, pre, extra_havoc=[idx])
        out = []
        for s0, seq in self.ev(it, st):
            if isinstance(seq, Raise): out.append((s0, seq)); continue
            if not seq.s.is_list: raise Unsupported(f'for over {seq.s} @{stmt.lineno}')
            s0.env[idx] = V(IntVal(0), INT)
            s0.env[f'_seq{k}'] = seq                       # the sequence being iterated (evaluated once), for invariants over an unnamed iterable
            s0.assume(seq.s.len(seq.e) >= 0)

            def guard(s, seq=seq): return [(s, s.env[idx].e < seq.s.len(seq.e))]

            def pre(b, seq=seq):
                r = self.assign(b, stmt.target, V(seq.s.at(seq.e, b.env[idx].e), seq.s.elem))
                b.env[idx] = V(b.env[idx].e + 1, INT); return [x[0] for x in r]
            out += self.loop(stmt, s0, guard, pre, extra_havoc=[idx])
        return out

    # ---------------------------------------------------------------- specs
    def spec(self, src, st, **kw):
        if callable(src):
            kw.setdefault('pre', getattr(self, 'pre_state', None))
            return src(Ctx(self, st, **kw))
        raise Unsupported('spec form')

    # ---------------------------------------------------------------- driver
    def run(self):
        fc = self.fc
        st = St()
        for name, sort in fc['sig'].items():
            st.env[name] = V(Const(name, sort.z), sort)
        for g, srt in self.ghost_sorts.items():
            st.ghost[g] = Const(g + '_0', srt.z)
        if fc.get('clock'):
            st.ghost['now'] = fresh('now0', TIME)          # the clock at entry; later reads are >= it
        for lab, r in fc.get('requires', []):
            st.assume(self.spec(r, st))
        # lazily created initial heap constants are named deterministically (H_<field>_0), so a copy taken here denotes
        # the entry heap also for fields first touched later
        st.obs.append(('cover/pre-condition-satisfiable', list(st.conds), None, 'function entry'))
        pre_state = St(st.env, st.heap, st.conds, [], st.ghost)
        self.pre_state = pre_state
        outs = self.block(self.fn.body, st)
        allowed = fc.get('raises', {})
        for s, o in outs:
            if o in (BREAK, CONTINUE): raise Unsupported('break/continue outside loop')
            if isinstance(o, Raise):
                if o.exc not in allowed:
                    s.oblige(f'safe/undeclared-{o.exc}', BoolVal(False), 'exception escapes the function')
                else:
                    for lab, c in allowed[o.exc]:
                        s.oblige(f'exc/{o.exc}/{lab}', self.spec(c, s, pre=pre_state))
            else:
                res = o.v if isinstance(o, Ret) else V(None, NONE)
                for lab, c in fc.get('ensures', []):
                    g = self.spec(c, s, result=res, pre=pre_state)
                    s.oblige(f'ens/{lab}', g)
                    if fc.get('chain_ensures'): s.assume(g)          # cut rule: a post-condition that has been obliged may be used for the following ones (lemma chains)
        return st.obs


class Ctx:
    """what a contract clause sees: engine, current state, entry state of the loop / pre-state of the function, result"""

    def __init__(self, eng, st, entry=None, result=None, pre=None):
        self.eng, self.st, self.entry, self.result, self.pre = eng, st, entry, result, pre

    def __getitem__(self, name):          # local / parameter as z3 term
        return self.st.env[name].e

    def val(self, name):
        return self.st.env[name]

    def old(self, name):
        return (self.pre or self.entry or self.st).env[name].e

    def fld(self, cls, f, which='cur'):
        st = self.st if which == 'cur' else ((self.pre if which == 'pre' else self.entry) or self.st)      # while the pre-condition is evaluated the pre-state IS the current state
        return self.eng.field(st, cls, f)


class Lit(ast.expr):
    """an already evaluated value spliced into an AST (used when re-dispatching)"""
    _fields = ()

    def __init__(self, v, like=None):
        self.v = v; self.lineno = getattr(like, 'lineno', 0); self.col_offset = getattr(like, 'col_offset', 0)
