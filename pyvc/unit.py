"""Verification units: one real function + its sidecar contract -> named obligation results."""
import time, traceback, re, os, multiprocessing
from .core import Unsupported, Source
from . import solve


class Unit:
    """name:      qualified function name as reported
    relpath:   repository file (relative to src root)
    build:     callable() -> (Engine, axioms)          constructs the engine (parses the real source NOW)
    props:     property ids this unit carries obligations for
    status:    'P' (body checked against the contract)
    tags:      {label-prefix: [props]} overrides; by default a clause label 'C04/...' or 'C03,C04/...' names its properties,
               unlabeled obligations (safety, invariants, call pre-conditions) support every property of the unit
    """

    def __init__(self, name, relpath, build, props, shards=1, timeout_ms=10000, note='', keep=None, focus=None):
        self.name, self.relpath, self.build, self.props = name, relpath, build, list(props)
        self.shards, self.timeout_ms, self.note = shards, timeout_ms, note
        self.focus = focus        # obligation name -> extra hypotheses (switches that turn guarded hypotheses `switch -> clause` off where a query does not need them: dropping a hypothesis is always sound)
        self.keep = keep          # obligation-name predicate: a function verified by several units (different axiom sets) splits its obligations between them

    def select(self, obs):
        if self.keep is not None: obs = [o for o in obs if self.keep(o[0])]
        if self.focus is not None: obs = [(o[0], list(o[1]) + list(self.focus(o[0])), *o[2:]) for o in obs]
        return obs

    def props_of(self, obname):
        # obname: kind/label...  e.g. ens/C04/conservation, inv-pres#0/ledger, safe/ZeroDivisionError, exc/RuntimeError/C15/unchanged
        for part in obname.split('/'):
            if re.fullmatch(r'C\d\d(,C\d\d)*', part):
                return part.split(',')
        return list(self.props)

    def run_shard(self, shard, timeout_ms=None):
        t0 = time.time()
        try:
            from . import core
            core.reset_fresh()
            eng, axioms = self.build()
            obs = eng.run()
            obs = self.select(obs)
        except Unsupported as e:
            return {'undecided': f'outside the supported subset / contract not applicable: {e}', 'agg': {}, 'paths': 0, 'symexec_s': time.time() - t0}
        except FileNotFoundError as e:
            return {'undecided': f'source file missing: {e}', 'agg': {}, 'paths': 0, 'symexec_s': time.time() - t0}
        except Exception as e:
            return {'undecided': 'contract evaluation error (renamed local / changed shape?): ' + ''.join(traceback.format_exception_only(type(e), e)).strip()[:300],
                    'trace': traceback.format_exc()[-1500:], 'agg': {}, 'paths': 0, 'symexec_s': time.time() - t0}
        t1 = time.time()
        from .core import TIME_AXIOMS
        to = timeout_ms or self.timeout_ms
        agg = solve.discharge(obs, list(axioms) + TIME_AXIOMS, to, shard=shard if self.shards > 1 else None, retries=2 if to >= 30000 else 1)
        out = {'agg': agg, 'paths': len(obs), 'symexec_s': t1 - t0, 'solve_s': time.time() - t1, 'sha': eng.src.sha, 'sample': _sample(obs)}
        n_x = int(os.environ.get('VERIF_XCHECK', '0'))
        if n_x and (self.shards == 1 or shard[0] == 0):
            # second-solver cross-check (thorough tier): a deterministic sample of the discharged path queries is given to cvc5; `sat` there would
            # mean that z3 and cvc5 disagree on the same text - the unit is then reported undecided
            from z3 import Solver, Not
            cand = [o for o in obs if o[2] is not None and agg.get(o[0], {}).get('status') == 'proved']
            step = max(1, len(cand) // n_x); res = {'queries': 0, 'unsat': 0, 'unknown': 0, 'sat': 0, 'error': 0}
            for (name, hyps, goal, detail) in cand[::step][:n_x]:
                s = Solver(); s.add(*(list(axioms) + TIME_AXIOMS)); s.add(*hyps); s.add(Not(goal))
                r = solve.cvc5_check(s, timeout_s=10)
                res['queries'] += 1; res[r if r in res else 'error'] += 1
                if r == 'sat': res.setdefault('disagreements', []).append(name)
            out['xcheck'] = res
        return out


def _sample(obs):
    if not obs: return None
    cand = [o for o in obs if o[2] is not None]
    if not cand: return None
    name, hyps, goal, detail = cand[len(cand) // 2]
    return {'obligation': name, 'hypotheses': len(hyps), 'goal': str(goal)[:400], 'at': detail}


_REG = {}


def _work(arg):
    uname, shard, timeout_ms = arg
    unit = _REG[uname]           # inherited through fork: contract closures are not picklable
    try:
        return unit.name, shard, unit.run_shard(shard, timeout_ms)
    except Exception as e:
        return unit.name, shard, {'undecided': 'engine crash: ' + repr(e)[:300], 'trace': traceback.format_exc()[-1500:], 'agg': {}, 'paths': 0}


def _child(job, conn):
    try:
        conn.send(_work(job))
    finally:
        conn.close()


def _schedule(jobs, procs, wall_s):
    """one forked process per job, at most `procs` alive; a worker that dies (solver crash, OOM kill) or exceeds the wall limit makes ITS unit
    undecided - it can neither hang the check nor be mistaken for a verdict (a multiprocessing.Pool waits for ever for a task whose worker died)"""
    from multiprocessing.connection import wait
    ctx = multiprocessing.get_context('fork')
    pending = list(jobs); live = {}; out = []

    def lost(job, why):
        return job[0], job[1], {'undecided': why, 'agg': {}, 'paths': 0, 'symexec_s': 0.0}
    while pending or live:
        while pending and len(live) < procs:
            job = pending.pop(0); r, w = ctx.Pipe(duplex=False)
            pr = ctx.Process(target=_child, args=(job, w), daemon=True); pr.start(); w.close()
            live[r] = (pr, job, time.time())
        ready = wait(list(live), timeout=1.0)
        for r in list(live):
            pr, job, t0 = live[r]
            if r in ready:
                try:
                    out.append(r.recv())
                except (EOFError, OSError):
                    pr.join(5)
                    out.append(lost(job, f'verifier worker died (exit code {pr.exitcode}) - no verdict for this unit'))
                r.close(); pr.join(5); del live[r]
            elif time.time() - t0 > wall_s:
                pr.kill(); pr.join(5); r.close(); del live[r]
                out.append(lost(job, f'verifier worker exceeded the wall-clock limit of {wall_s} s - no verdict for this unit'))
    return out


def run_units(units, timeout_ms=None, procs=None):
    """runs all units (sharded) in a fork pool; returns {unit name: result}"""
    jobs = []
    for u in units:
        for k in range(u.shards):
            jobs.append((u.name, (k, u.shards), timeout_ms))
        _REG[u.name] = u
    procs = procs or min(16, max(1, len(jobs)))
    raw = _schedule(jobs, procs, int(os.environ.get('VERIF_UNIT_WALL_S', '0')) or (3600 if (timeout_ms or 0) < 30000 else 4 * 3600))
    by = {}
    for name, shard, res in raw:
        by.setdefault(name, []).append(res)
    out = {}
    for u in units:
        parts = by[u.name]
        und = [p['undecided'] for p in parts if 'undecided' in p]
        res = {'unit': u.name, 'file': u.relpath, 'props': u.props, 'note': u.note}
        if und:
            res.update({'undecided': und[0], 'obligations': {}, 'paths': 0, 'trace': next((p.get('trace') for p in parts if p.get('trace')), None)})
        else:
            agg = solve.merge([p['agg'] for p in parts]) if u.shards > 1 else parts[0]['agg']
            xc = next((p['xcheck'] for p in parts if p.get('xcheck')), None)
            if xc: res['xcheck'] = xc
            res.update({'obligations': agg, 'paths': parts[0]['paths'], 'symexec_s': round(max(p['symexec_s'] for p in parts), 3),
                        'solve_s': round(sum(p.get('solve_s', 0) for p in parts), 3), 'sha': parts[0].get('sha'), 'sample': parts[0].get('sample')})
        out[u.name] = res
    return out
