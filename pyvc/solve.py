"""Discharging obligations: one SMT query per (obligation, path); results aggregated per obligation name."""
import time, subprocess, tempfile, os
from z3 import Solver, Not, unsat, sat, unknown, set_param


RL_PER_MS = 2700          # z3 resource units per millisecond on the reference machine (calibrated on the slowest discharged obligations)


def check_one(hyps, goal, axioms, timeout_ms, want_model=False, seed=0):
    """the budget is z3's deterministic resource limit (rlimit), sized as `timeout_ms` on an idle reference machine; the wall-clock timeout is
    only a safety net thirty times as long (twenty checks side by side on sixteen cores slow every process down by a factor of twenty) - so a verdict does
    not depend on how busy the machine is"""
    s = Solver(); s.set('rlimit', int(timeout_ms * RL_PER_MS)); s.set('timeout', int(timeout_ms * 30))
    if seed: s.set('random_seed', seed)
    seen = set(); uniq = []
    for f in list(axioms) + list(hyps):          # the same clause often reaches a query several times (an invariant over fields no call has changed): one copy is enough
        k = f.get_id() if hasattr(f, 'get_id') else id(f)
        if k not in seen: seen.add(k); uniq.append(f)
    s.add(*uniq); s.add(Not(goal))
    t0 = time.time()
    r = s.check()
    dt = time.time() - t0
    if r == unsat: return 'unsat', 'z3api', dt, None, s
    if r == sat: return 'sat', 'z3api', dt, (str(s.model())[:1500] if want_model else None), s
    return 'unknown', 'z3api', dt, s.reason_unknown(), s


def cvc5_check(solver, timeout_s=10, strings=False):
    """second opinion for queries z3 leaves unknown"""
    smt = solver.to_smt2()
    if '(declare-fun' in smt and ' String' in smt: strings = True
    with tempfile.NamedTemporaryFile('w', suffix='.smt2', delete=False) as f:
        f.write('(set-logic ALL)\n' + smt); path = f.name
    try:
        args = ['/usr/bin/cvc5', f'--tlimit={int(timeout_s * 1000)}']
        if strings: args.append('--strings-exp')
        r = subprocess.run(args + [path], capture_output=True, text=True, timeout=timeout_s + 5)
        out = r.stdout.strip().split('\n')[0] if r.stdout.strip() else 'error'
        return out if out in ('unsat', 'sat', 'unknown') else 'error'
    except Exception:
        return 'error'
    finally:
        os.unlink(path)


def discharge(obs, axioms, timeout_ms=10000, shard=None, use_cvc5=True, cover=False, retries=1):
    """obs: list of (name, hyps, goal, detail).  Returns {name: {'paths', 'proved', 'status', 'backend', 'secs', 'detail'}}"""
    agg = {}
    lost_s = 0.0          # wall time already spent on queries that stayed unknown: once a unit has clearly lost obligations, the rest gets the short attempt only
    for i, (name, hyps, goal, detail) in enumerate(obs):
        a = agg.setdefault(name, {'paths': 0, 'proved': 0, 'status': 'proved', 'backends': {}, 'secs': 0.0, 'detail': '', 'skipped': 0})
        a['paths'] += 1
        if shard is not None and i % shard[1] != shard[0]:
            a['skipped'] += 1; continue
        if a['status'] == 'failed':               # one unproved path already makes the obligation fail; do not pay more time-outs
            a['skipped'] += 1; continue
        if goal is None:
            # vacuity guard: the hypotheses of this point must NOT be refutable (unsat = contradictory contract / axioms)
            from z3 import BoolVal
            r, be, dt, info, solver = check_one(hyps, BoolVal(False), axioms, min(timeout_ms, 1500))
            a['secs'] += dt
            if r == 'unsat':
                a['status'] = 'failed'; a['detail'] = f'VACUOUS: hypotheses are contradictory at {detail}'
            else:
                a['proved'] += 1; a['backends']['z3api-cover'] = a['backends'].get('z3api-cover', 0) + 1
            continue
        # `unknown` is usually a heuristic miss, not a property of the formula: whether e-matching finds the proof or wanders off is decided early and depends on the
        # instantiation order (seed, term numbering); measured on the hard queries of this project an attempt either succeeds within about a second or runs into any
        # budget, with roughly even odds.  So (restart strategy): many VERY short attempts under different seeds first, then longer ones, then the full budget and beyond.
        tiny = min(1500, timeout_ms); short = max(2000, timeout_ms // 5)
        plan = [(tiny, sd) for sd in (0, 7919, 104729, 1299709, 15485863, 32452843)] + [(short, 49979687), (short, 67867967), (timeout_ms, 86028121)] + \
               [(timeout_ms * (2 if k == 0 else 4), 982451653 + k) for k in range(retries)]
        r = 'unknown'
        for n_att, (budget, sd) in enumerate(plan):
            if n_att >= 6 and lost_s > 12 * timeout_ms / 1000: break          # a unit that has clearly lost obligations already: only the very short attempts for the rest
            r, be, dt, info, solver = check_one(hyps, goal, axioms, budget, want_model=True, seed=sd)
            a['secs'] += dt
            if n_att > 0: a['retries'] = a.get('retries', 0) + 1
            if r != 'unknown': break
        if r == 'unknown' and use_cvc5 and lost_s <= 12 * timeout_ms / 1000:
            r2 = cvc5_check(solver, timeout_s=max(5, timeout_ms // 2000))
            if r2 == 'unsat': r, be = 'unsat', 'cvc5'
            elif r2 == 'sat': r, be, info = 'sat', 'cvc5', 'cvc5: sat'
        if r == 'unsat':
            a['proved'] += 1; a['backends'][be] = a['backends'].get(be, 0) + 1
        else:
            lost_s += a['secs']
            a['status'] = 'failed'
            a['detail'] = f'{r} ({be}) on path {i} [{detail}]: {info}'
    return agg


def merge(aggs):
    """merge shard results"""
    out = {}
    for agg in aggs:
        for name, a in agg.items():
            o = out.setdefault(name, {'paths': a['paths'], 'proved': 0, 'status': 'proved', 'backends': {}, 'secs': 0.0, 'detail': '', 'skipped': 0})
            o['proved'] += a['proved']; o['secs'] += a['secs']
            for k, v in a['backends'].items(): o['backends'][k] = o['backends'].get(k, 0) + v
            if a['status'] == 'failed': o['status'] = 'failed'; o['detail'] = o['detail'] or a['detail']
    for name, o in out.items():
        if o['status'] == 'proved' and o['proved'] != o['paths']:
            o['status'] = 'failed'; o['detail'] = o['detail'] or f"only {o['proved']}/{o['paths']} paths discharged"
    return out
