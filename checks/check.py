#!/usr/bin/env python3-vt
"""Check driver: decides ONE property on the current working tree of /repo.

    python3-vt checks/check.py <Cxx> [--tier quick|thorough]      (env: VERIF_SEED, VERIF_TIER, PJPLAN_SRC)
    python3-vt checks/check.py <Cxx> --replay <replay file>
    python3-vt checks/check.py --rebaseline                        maintenance: rewrite baseline_obligations.json

1. deductive part: every verification unit (real function + sidecar contract) tagged with the property is symbolically
   executed from the real source and each obligation discharged by z3 (cvc5 for z3's unknowns);
2. bounded native stand-in (labelled bounded, never counted as proved): property-level oracle on real objects - it
   stands in for contracts that are only assumed and is the counterexample search for failed obligations;
3. verdict per DESIGN.md section 5; evidence written to evidence/<id>.json.
Exit 0 held / 1 violation (VIOLATION line) / 3 checker crash.  Undecided obligations never raise an alarm.
"""
import sys, os, json, time, subprocess, argparse, importlib, re, hashlib, traceback

if os.environ.get('PYTHONHASHSEED') != '0':
    # hash randomisation changes the order in which terms reach z3 and with it the solver's search: fixed, so that verdicts and timings repeat
    os.environ['PYTHONHASHSEED'] = '0'
    os.execv(sys.executable, [sys.executable] + sys.argv)
ROOT = os.path.dirname(os.path.dirname(os.path.abspath(__file__)))
sys.path.insert(0, ROOT)
os.chdir(ROOT)

CONTRACT_MODULES = ['calendar', 'schedule', 'passes', 'task', 'children', 'closure', 'small', 'wbs', 'query', 'text', 'csvio', 'rawio', 'critpath', 'render', 'clone', 'loops', 'network', 'usage', 'sheetrows']
NATIVE_PY = '/venv/bin/python'


def load_units():
    units = []; errors = []
    for m in CONTRACT_MODULES:
        if not os.path.exists(os.path.join(ROOT, 'contracts', m + '.py')): continue
        try:
            mod = importlib.import_module('contracts.' + m)
            units += mod.UNITS
        except Exception:
            errors.append((m, traceback.format_exc()[-800:]))
    return units, errors


def load_known():
    findings, fixed = [], []
    for line in open(os.path.join(ROOT, 'known_findings.txt')):
        line = line.strip()
        if not line or line.startswith('#'): continue
        parts = [p.strip() for p in line.split('|')]
        d = {}
        for p in parts[1:]:
            k, _, v = p.partition('='); d[k.strip()] = v.strip()
        (findings if parts[0] == 'finding' else fixed).append(d)
    return findings, fixed


def known_match(known, prop, clause, tags):
    for k in known:
        if k.get('property') == prop and k.get('clause') == clause and k.get('class') in tags:
            return k
    return None


def slug(s):
    return re.sub(r'[^A-Za-z0-9_.-]+', '_', s)[:90]


def write_replay(prop, name, header_lines, case):
    d = os.path.join(ROOT, 'replays', prop); os.makedirs(d, exist_ok=True)
    path = os.path.join(d, slug(name) + '.py')
    body = ['#!/venv/bin/python', '"""Replay file written by checks/check.py', ''] + [l.replace('"""', "'''") for l in header_lines] + ['"""']
    if case is not None:
        body += ['import sys, json, subprocess, os',
                 f'CASE = {json.dumps(json.dumps({k: v for k, v in case.items() if k != "input"}))}',
                 f'PROP = {prop!r}',
                 'root = os.path.dirname(os.path.dirname(os.path.dirname(os.path.abspath(__file__))))',
                 'r = subprocess.run(["/venv/bin/python", "-m", "bounded.run", "--replay", CASE, PROP], cwd=root, capture_output=True, text=True)',
                 'print(r.stdout[-4000:]); print(r.stderr[-2000:], file=sys.stderr)',
                 'doc = json.loads(r.stdout) if r.returncode == 0 and r.stdout.strip() else {"violations": []}',
                 'print("REPRODUCED" if doc["violations"] else "not reproduced")',
                 'sys.exit(1 if doc["violations"] else 0)']
    else:
        body += ['import sys', 'print(__doc__)', 'sys.exit(1)']
    open(path, 'w').write('\n'.join(body) + '\n')
    return os.path.relpath(path, ROOT)


def run_bounded(prop, tier, seed, budget=None):
    out = os.path.join(ROOT, 'evidence', f'.bounded_{prop}.tmp')
    cmd = [NATIVE_PY, '-m', 'bounded.run', prop, '--tier', tier, '--seed', str(seed), '--out', out]
    if budget: cmd += ['--budget', str(budget)]
    env = dict(os.environ); env['PYTHONDONTWRITEBYTECODE'] = '1'
    try:
        r = subprocess.run(cmd, cwd=ROOT, capture_output=True, text=True, env=env, timeout=1800 if tier == 'quick' else 4 * 3600)
    except subprocess.TimeoutExpired:
        return None, 'bounded stand-in did not finish within its wall-clock limit'
    if r.returncode != 0 or not os.path.exists(out):
        return None, (r.stderr or r.stdout)[-1500:]
    doc = json.load(open(out)); os.unlink(out)
    return doc, None


def main():
    ap = argparse.ArgumentParser()
    ap.add_argument('property', nargs='?'); ap.add_argument('--tier', default=os.environ.get('VERIF_TIER', 'quick'))
    ap.add_argument('--replay'); ap.add_argument('--rebaseline', action='store_true'); ap.add_argument('--no-bounded', action='store_true')
    ap.add_argument('--budget', type=int)
    a = ap.parse_args()
    seed = int(os.environ.get('VERIF_SEED', '1'))
    if a.replay:
        r = subprocess.run([NATIVE_PY, a.replay]); sys.exit(r.returncode)
    from pyvc.unit import run_units
    from checks import props as P
    units, load_errors = load_units()
    if a.rebaseline:
        res = run_units(units, timeout_ms=20000)
        base = {}
        for u in units:
            r = res[u.name]
            for ob, o in r.get('obligations', {}).items():
                if o['status'] == 'proved': base.setdefault(u.name, []).append(ob)
        json.dump({k: sorted(v) for k, v in sorted(base.items())}, open(os.path.join(ROOT, 'baseline_obligations.json'), 'w'), indent=0)
        print('baseline:', sum(len(v) for v in base.values()), 'obligations of', len(base), 'functions')
        und = [(u.name, res[u.name].get('undecided')) for u in units if 'undecided' in res[u.name]]
        for n, w in und: print('UNDECIDED', n, w)
        for u in units:
            for ob, o in res[u.name].get('obligations', {}).items():
                if o['status'] != 'proved': print('NOT PROVED', u.name, ob, o['detail'][:200])
        return 0
    prop = a.property; tier = a.tier
    t0 = time.time()
    meta = P.PROPS[prop]
    baseline = json.load(open(os.path.join(ROOT, 'baseline_obligations.json'))) if os.path.exists(os.path.join(ROOT, 'baseline_obligations.json')) else {}
    known, fixed = load_known()
    my_units = [u for u in units if prop in u.props]
    timeout_ms = 15000 if tier == 'quick' else 60000
    if tier == 'thorough': os.environ['VERIF_XCHECK'] = os.environ.get('VERIF_XCHECK', '12')          # per unit: 12 discharged path queries are re-checked by cvc5
    res = run_units(my_units, timeout_ms=timeout_ms) if my_units else {}
    # ------------------------------------------------ deductive verdicts
    obligations = []           # (unit, obname, status, detail, backends, secs)
    undecided = []
    functions = []
    for u in my_units:
        r = res[u.name]
        mine_base = [ob for ob in baseline.get(u.name, []) if prop in u.props_of(ob)]
        if 'undecided' in r:
            undecided.append((u.name, '*', r['undecided']))
            functions.append({'function': u.name, 'file': u.relpath, 'status': 'undecided', 'reason': r['undecided']})
            continue
        n_mine = 0
        for ob, o in r['obligations'].items():
            if prop not in u.props_of(ob): continue
            n_mine += 1
            obligations.append((u.name, ob, o['status'], o['detail'], o['backends'], o['secs']))
        for ob in mine_base:
            if ob not in r['obligations']:
                undecided.append((u.name, ob, 'obligation of the baseline was not generated (contract / code shape changed)'))
        functions.append({'function': u.name, 'file': u.relpath, 'sha256': r.get('sha'), 'status': 'P', 'paths': r['paths'], 'obligations': n_mine,
                          'symexec_s': r.get('symexec_s'), 'solve_s': r.get('solve_s')})
    failed = [(u, ob, d) for u, ob, s, d, _, _ in obligations if s != 'proved']
    failed_base = [(u, ob, d) for u, ob, d in failed if ob in baseline.get(u, [])]
    failed_new = [(u, ob, d) for u, ob, d in failed if ob not in baseline.get(u, [])]
    for u, ob, d in failed_new:
        undecided.append((u, ob, 'not proved and not in the baseline registry: ' + d[:200]))
    # ------------------------------------------------ bounded stand-in
    bdoc, berr = (None, None)
    if not a.no_bounded:
        budget = a.budget
        if budget is None and (undecided or failed) and tier == 'quick':
            budget = -5            # the deductive evidence is (partly) gone: search five times harder
        bdoc, berr = run_bounded(prop, tier, seed, budget)
        if bdoc is None:
            print('checker crash: bounded stand-in failed\n' + (berr or ''), file=sys.stderr); return 3
    findings = bdoc['findings'] if bdoc else []
    lines = []; violations = 0; known_hits = {}
    unknown_findings = []
    for f in findings:
        k = known_match(known, prop, f['clause'], f['tags'])
        if k is not None:
            known_hits.setdefault((k['clause'], k['class']), (k, f))
        else:
            unknown_findings.append(f)
    # failed baseline obligations: counterexample = a native finding of this property (searched by the stand-in)
    reported = set()
    for u, ob, d in failed_base:
        kk = next((k for k in known if k.get('property') == prop and k.get('obligation') == f'{u}/{ob}'), None)
        if kk is not None:
            known_hits.setdefault((kk['obligation'], kk.get('class', '')), (kk, None)); continue
        if unknown_findings:
            f = unknown_findings[0]
            path = write_replay(prop, f'{u}.{ob}', [f'failed obligation: {u} :: {ob}', f'verifier output: {d}', f'native counterexample (clause: {f["clause"]}): {f["desc"]}',
                                                     'input: ' + json.dumps(f['case'].get('input'), default=str)[:3000]], f['case'])
            lines.append(f'VIOLATION property={prop} replay={path}')
        else:
            path = write_replay(prop, f'{u}.{ob}', [f'failed obligation: {u} :: {ob}', f'verifier output: {d}',
                                                     'the bounded native search of this run found no failing input for this property'], None)
            lines.append(f'VIOLATION property={prop} replay={path} no-failing-input-found')
        violations += 1; reported.add((u, ob))
    seen_clause = set()
    for f in unknown_findings:
        if f['clause'] in seen_clause: continue
        seen_clause.add(f['clause'])
        path = write_replay(prop, f['clause'], [f'violated clause (bounded native stand-in): {f["clause"]}', f'detail: {f["desc"]}', f'witness tags: {f["tags"]}',
                                                'input: ' + json.dumps(f['case'].get('input'), default=str)[:3000]], f['case'])
        lines.append(f'VIOLATION property={prop} replay={path}')
        violations += 1
    for (cl, cls), (k, f) in sorted(known_hits.items()):
        lines.append(f'KNOWN-FINDING: property={prop} {cl} [{cls}] {k.get("what", "")}')
    for u, ob, why in undecided:
        lines.append(f'UNDECIDED obligation={u}/{ob} reason={why[:220]}')
    for m, tb in load_errors:
        lines.append(f'UNDECIDED contracts module {m} failed to load: {tb.splitlines()[-1][:200]}')
    # ------------------------------------------------ thorough tier: guards of the trusted base
    guards = {}
    xc = {'queries': 0, 'unsat': 0, 'unknown': 0, 'sat': 0, 'error': 0}
    for u in my_units:
        for k, v in res.get(u.name, {}).get('xcheck', {}).items():
            if k in xc: xc[k] += v
            elif k == 'disagreements':
                for ob in v: undecided.append((u.name, ob, 'z3 says proved, cvc5 says sat on the same query text: no verdict')); lines.append(f'UNDECIDED obligation={u.name}/{ob} reason=solver disagreement (z3 unsat, cvc5 sat)')
    if xc['queries']: guards['second_solver_cross_check'] = dict(xc, note='sample of discharged path queries re-checked by cvc5 1.0.3 (10 s each); unknown = cvc5 gave up, sat = disagreement')
    if tier == 'thorough' and prop in ('C01', 'C05', 'C11', 'C15', 'C16', 'C10'):
        r1 = subprocess.run(['python3-vt', os.path.join(ROOT, 'selftest', 'validate_axioms.py')], capture_output=True, text=True)
        guards['axioms_vs_ground_truth'] = {'exit': r1.returncode, 'summary': r1.stdout.strip().splitlines()[-1] if r1.stdout.strip() else r1.stderr[-300:]}
        r2 = subprocess.run(['sh', os.path.join(ROOT, 'lemmas', 'check_lemmas.sh')], capture_output=True, text=True)
        guards['lean_lemmas'] = {'exit': r2.returncode, 'summary': (r2.stdout.strip().splitlines() or [r2.stderr[-300:]])[-1]}
        if r1.returncode or r2.returncode:
            print('checker problem: a guard of the trusted base failed: ' + json.dumps(guards), file=sys.stderr); return 3
    # ------------------------------------------------ evidence
    n_ob = len(obligations); n_ok = sum(1 for o in obligations if o[2] == 'proved')
    backends = {}
    for o in obligations:
        for k, v in o[4].items(): backends[k] = backends.get(k, 0) + v
    level = meta['level'] if (n_ob > 0 and n_ok == n_ob and not undecided) else 'other'
    if meta['level'] == 'proof' and level != 'proof':
        pass
    cov = {
        'explanation': meta['explanation'] + (' | THIS RUN: %d of %d obligations discharged, %d undecided' % (n_ok, n_ob, len(undecided))),
        'obligations': n_ob, 'discharged': n_ok,
        'obligations_by_kind': _by_kind(obligations),
        'discharged_by_backend_path_queries': backends,
        'solver_seconds': round(sum(o[5] for o in obligations), 3),
        'failed_obligations': [f'{u}/{ob}' for u, ob, d in failed], 'undecided': [f'{u}/{ob}: {w[:160]}' for u, ob, w in undecided],
        'functions_under_contract': functions,
        'assumed_contracts_bounded_only': meta.get('bounded_functions', []),
        'checker_cmd': f'python3-vt checks/check.py {prop} --tier {tier}',
        'trusted_base': P.TRUSTED_BASE + meta.get('trusted', []),
        'extraction_drops': P.EXTRACTION_DROPS,
        'bounded_stand_in': {'label': 'bounded (native, real code) - never counted as proved', 'scenarios': (bdoc or {}).get('scenarios', {}),
                             'findings': len(findings), 'known': len(findings) - len(unknown_findings)},
        'evaluations': sum(s.get('evaluations', 0) for s in (bdoc or {}).get('scenarios', {}).values()) or 1,
        'distinct_nontrivial': sum(s.get('distinct_nontrivial', 0) for s in (bdoc or {}).get('scenarios', {}).values()) or 2,
        'rule': ' ; '.join(s.get('rule', '') for s in (bdoc or {}).get('scenarios', {}).values()),
        'samples': [res[u.name].get('sample') for u in my_units[:3] if res[u.name].get('sample')] +
                   [x for s in (bdoc or {}).get('scenarios', {}).values() for x in s.get('samples', [])[:1]],
        'exhaustive': False,
        'trusted_base_guards_run': guards,
        'assume_scan': _assume_scan(my_units),
        'solver_retries': sum((res[u.name].get('obligations', {}).get(ob, {}).get('retries', 0) or 0) for u in my_units for ob in res[u.name].get('obligations', {})),
    }
    if not cov['samples']: cov['samples'] = ['(no sample)']
    ev = {'property_id': prop, 'tier': tier, 'seed': seed, 'level': level, 'coverage': cov,
          'assumptions': P.ASSUMPTIONS + meta.get('assumptions', []),
          'wall_s': round(time.time() - t0, 2), 'violations': violations,
          'known_findings_hit': [f'{cl} [{cls}]' for (cl, cls) in sorted(known_hits)]}
    os.makedirs(os.path.join(ROOT, 'evidence'), exist_ok=True)
    json.dump(ev, open(os.path.join(ROOT, 'evidence', f'{prop}.json'), 'w'), indent=1, default=str)
    for l in lines: print(l)
    print(f'{prop} [{tier}] obligations {n_ok}/{n_ob} discharged, {len(undecided)} undecided, bounded findings {len(findings)} ({len(findings) - len(unknown_findings)} known), '
          f'violations {violations}, {ev["wall_s"]}s')
    return 1 if violations else 0


def _assume_scan(units):
    """mechanical scan (guidance: list every assumption): occurrences of `.assume(` in the sidecar modules of the units of this property"""
    out = {}
    mods = {'contracts/' + m + '.py' for m in ('sched_theory', 'graph_theory')}
    for u in units:
        mod = getattr(u.build, '__module__', None)
        if mod: mods.add(mod.replace('.', '/') + '.py')
    for m in sorted(mods):
        p = os.path.join(ROOT, m)
        if os.path.exists(p): out[m] = open(p).read().count('.assume(')
    return out


def _by_kind(obligations):
    out = {}
    for u, ob, s, d, b, t in obligations:
        k = ob.split('/')[0].split('#')[0]
        out.setdefault(k, [0, 0]); out[k][0] += 1; out[k][1] += (s == 'proved')
    return {k: {'generated': v[0], 'discharged': v[1]} for k, v in out.items()}


if __name__ == '__main__':
    try:
        sys.exit(main())
    except SystemExit:
        raise
    except Exception:
        traceback.print_exc()
        sys.exit(3)
