"""Per-property metadata used by checks/check.py for evidence and MANIFEST (what is proved, what is only assumed)."""

TRUSTED_BASE = [
    'pyvc symbolic executor and VC generator (home-built, /verif/pyvc) - Python semantics as encoded in DESIGN.md section 3',
    'z3 5.1 (python API) and cvc5 1.0.3 as SMT back ends',
    'sidecar contracts of callees are assumed at call sites (modular verification); callee bodies are checked by their own unit where one exists',
]
EXTRACTION_DROPS = ('the verified text is /repo/src/pjplan/*.py re-parsed on every run; dropped: docstrings, type annotations, comments, '
                    'the text of exception messages and f-strings (embedded expressions are still evaluated for their own exceptions), print()')
ASSUMPTIONS = [
    'A-real: float is encoded as mathematical Real',
    'A-time: datetime is a real number of seconds on one naive time line; datetime(d.year,d.month,d.day)=midnight(d); no OverflowError, no microsecond rounding of timedelta(hours=float)',
    'A-stack: unbounded recursion depth (RecursionError on deep acyclic inputs is not modelled)',
    'object equality / `in` on Task, WBS, resources, calendars is identity (no class defines __eq__)',
]


def P(level, explanation, bounded_functions=(), trusted=(), assumptions=(), design_ref=''):
    return {'level': level, 'explanation': explanation, 'bounded_functions': list(bounded_functions), 'trusted': list(trusted),
            'assumptions': list(assumptions), 'design_ref': design_ref}


PROPS = {
    'C17': P('other',
             'contract-based deductive verification: every calendar combinator, the fixed/dated/weekly getters, the range checks, Resource.get_available_units and the '
             'availability search are symbolically executed from the real source and proved equal to their specification function for all operand lists, dates and horizons '
             '(loop invariants, no bound). Level is `other`, not `proof`, because WeeklyCalendar.__init__, DirectCalendar.__init__/set_units and the operator methods '
             '(__add__ ... __or__, __prepare_calendar: dynamically typed operands) are covered only by the bounded native stand-in.',
             bounded_functions=['WeeklyCalendar.__init__', 'DirectCalendar.__init__', 'DirectCalendar.set_units', 'IWorkCalendar.__add__/__sub__/__mul__/__truediv__/__or__/__prepare_calendar', 'FuncCalendar.get_available_units'],
             trusted=['interface contract: get_available_units of an operand calendar is a pure function val(calendar, date) (L)', 'dict lookup contract (k in d, d[k]) for the two dict-valued calendar fields'],
             assumptions=['A-div: WorkCalendarDiv is specified only for dates on which no divisor operand has the value 0 (Python raises ZeroDivisionError there)'],
             design_ref='8/C17'),
}
for _p in ['C01', 'C02', 'C03', 'C04', 'C05', 'C06', 'C07', 'C08', 'C09', 'C10', 'C11', 'C12', 'C13', 'C14', 'C15', 'C16', 'C18', 'C19', 'C20']:
    PROPS.setdefault(_p, P('other', 'see MANIFEST.json', design_ref='8/' + _p))
